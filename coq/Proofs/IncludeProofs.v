(* C15 - ".include behaves as textual inclusion with per-file locations".
   (B) include faults: step lemma on the driver and end-to-end theorem [include_fault];
       totality is TotalProofs.parse_total_any_store.
   (C) include = paste: [include_paste], and the per-file location part [include_locations].
   Part (A) (position-parametricity of the parser) is in IncludeErase.v / IncludeRun.v. *)
From RV.Model Require Import Base I32 Imm Lexer Isa Parser Reader.
From RV.Spec Require Import PosSpec ParamSpec LineSpec IncludeSpec.
From RV.Proofs Require Import LexProofs LineProofs TotalProofs IncludeErase IncludeLex IncludeRun IncludeFrame.
From Coq Require Import Lia.
Open Scope nat_scope.

(* ================================================================================== *)
(* 0. parse_from_file as a run                                                          *)

Lemma import_base fs base text : assoc_str base fs = Some (inl text) ->
  import_file fs base (mkrs []) = (inr (0%N, text), mkrs [base]).
Proof. intros H. unfold import_file. rewrite H. reflexivity. Qed.

Lemma pff_run chk fs base text ign r : assoc_str base fs = Some (inl text) ->
  (parse_from_file chk fs base ign = Ok r <->
   exists items, lex_all chk (Some 0%N) (normalize_text text) = Ok items /\
                 Run chk fs ign [items] (mkrs [base]) [entry_node 0] [] r).
Proof.
  intros Ha. split.
  - unfold parse_from_file. rewrite (import_base _ _ _ Ha).
    destruct (lex_all chk (Some 0%N) (normalize_text text)) as [items| |]; cbn [bind]; try discriminate.
    intros H. exists items. split; [reflexivity|]. eexists. exact H.
  - intros [items [Hl Hr]]. destruct (parse_total_any_store chk fs base ign) as [ns [es [rs H]]].
    assert (Hr' : Run chk fs ign [items] (mkrs [base]) [entry_node 0] [] (ns, es, rs)).
    { unfold parse_from_file in H. rewrite (import_base _ _ _ Ha), Hl in H. cbn [bind] in H. eexists. exact H. }
    rewrite (run_det _ _ _ _ _ _ _ _ _ Hr Hr'). exact H.
Qed.

(* a closed block on top of [X]: its own run, then the run of [X] *)
Lemma run_block chk fs ign ia X rs n e r : last_nl ia -> closedP ia ->
  (Run chk fs ign [ia ++ X] rs n e r <->
   exists ns es rs', Run chk fs ign [ia] rs n e (ns, es, rs') /\ Run chk fs ign [X] rs' (rev ns) (rev es) r).
Proof.
  intros Hl Hc. rewrite (run_concat chk fs ign [] ia X [] rs n e r Hl Hc). cbn [app].
  apply (run_app chk fs ign [ia] [X]).
Qed.

Lemma lexed_block chk file A ia : lines_block A -> lex_all chk file A = Ok ia -> last_nl ia.
Proof. intros HA Hl. apply lines_block_Lb in HA. apply (lex_items_facts chk file A ia HA Hl). Qed.

Lemma run_lockstep chk fs1 fs2 ign (excl : str -> Prop) :
  (forall q, excl q \/ ~ excl q) ->
  forall stack1 stack2 rs1 rs2 n1 n2 e1 e2 ns1 es1 rs1',
  Forall2 items_eq stack1 stack2 -> rd_agree excl fs1 rs1 fs2 rs2 ->
  map erase_node n1 = map erase_node n2 -> map erase_perr e1 = map erase_perr e2 ->
  Run chk fs1 ign stack1 rs1 n1 e1 (ns1, es1, rs1') ->
  excl_ok excl fs1 rs1 es1 rs1' ->
  exists ns2 es2 rs2', Run chk fs2 ign stack2 rs2 n2 e2 (ns2, es2, rs2') /\
    map erase_node ns1 = map erase_node ns2 /\ map erase_perr es1 = map erase_perr es2 /\
    rd_agree excl fs1 rs1' fs2 rs2'.
Proof.
  intros Hdec stack1 stack2 rs1 rs2 n1 n2 e1 e2 ns1 es1 rs1' Hs Hrd Hn He [f Hrun] Hex.
  destruct (drive_lockstep chk fs1 fs2 ign excl Hdec f _ _ _ _ _ _ _ _ _ _ _ Hs Hrd Hn He Hrun Hex)
    as [ns2 [es2 [rs2' [H1 H2]]]].
  exists ns2, es2, rs2'. split; [exists f; exact H1|exact H2].
Qed.

Definition no_excl : str -> Prop := fun _ => False.
Lemma no_excl_dec q : no_excl q \/ ~ no_excl q.
Proof. right. intros []. Qed.
Lemma no_excl_ok fs rs es rs' : excl_ok no_excl fs rs es rs'.
Proof. intros q []. Qed.

Lemma rd_agree_base (excl : str -> Prop) fs1 fs2 base t1 t2 rs :
  assoc_str base fs1 = Some (inl t1) -> assoc_str base fs2 = Some (inl t2) ->
  mem_str base (imported rs) = true ->
  (forall q, q <> base -> ~ excl q -> assoc_str q fs2 = assoc_str q fs1) ->
  rd_agree excl fs1 rs fs2 rs.
Proof.
  intros H1 H2 Hm Hq q Hex. split; [reflexivity|].
  destruct (str_eqb q base) eqn:E.
  - apply str_eqb_eq in E. subst q. right. split; [exact Hm|]. exists t1, t2. split; assumption.
  - left. symmetry. apply Hq; [|exact Hex]. intros ->. rewrite str_eqb_refl in E. discriminate.
Qed.

Lemma mem_base base : mem_str base (imported (mkrs [base])) = true.
Proof. cbn [imported mem_str]. rewrite str_eqb_refl. reflexivity. Qed.

(* (A), parse level: two stores that differ only in the base text, the two base texts lexing to
   items equal up to positions (a different layout of the same tokens): same nodes and errors up
   to positions - with imports followed or not *)
Theorem parse_file_erase chk (fs1 fs2 : store) (base t1 t2 : str) ign i1 i2 :
  assoc_str base fs1 = Some (inl t1) -> assoc_str base fs2 = Some (inl t2) ->
  (forall q, q <> base -> assoc_str q fs2 = assoc_str q fs1) ->
  lex_all chk (Some 0%N) (normalize_text t1) = Ok i1 ->
  lex_all chk (Some 0%N) (normalize_text t2) = Ok i2 -> items_eq i1 i2 ->
  forall ns1 es1 rs1 ns2 es2 rs2,
    parse_from_file chk fs1 base ign = Ok (ns1, es1, rs1) ->
    parse_from_file chk fs2 base ign = Ok (ns2, es2, rs2) ->
    map erase_node ns1 = map erase_node ns2 /\ map erase_perr es1 = map erase_perr es2.
Proof.
  intros Hb1 Hb2 Hoth Hl1 Hl2 Heq ns1 es1 rs1 ns2 es2 rs2 Hp1 Hp2.
  apply (pff_run chk fs1 base _ ign _ Hb1) in Hp1. destruct Hp1 as [j1 [Hj1 Hr1]].
  apply (pff_run chk fs2 base _ ign _ Hb2) in Hp2. destruct Hp2 as [j2 [Hj2 Hr2]].
  rewrite Hl1 in Hj1. inversion Hj1; subst j1. rewrite Hl2 in Hj2. inversion Hj2; subst j2.
  assert (Hrd0 : rd_agree no_excl fs1 (mkrs [base]) fs2 (mkrs [base])).
  { apply (rd_agree_base no_excl fs1 fs2 base _ _ _ Hb1 Hb2 (mem_base base)). intros q Hq _. apply Hoth. exact Hq. }
  destruct (run_lockstep chk fs1 fs2 ign no_excl no_excl_dec [i1] [i2] (mkrs [base]) (mkrs [base])
              [entry_node 0] [entry_node 0] [] [] ns1 es1 rs1) as [ns2' [es2' [rs2' [Hr [E1 [E2 _]]]]]];
    [constructor; [exact Heq|constructor]|exact Hrd0|reflexivity|reflexivity|exact Hr1|apply no_excl_ok|].
  pose proof (run_det _ _ _ _ _ _ _ _ _ Hr Hr2) as H. inversion H; subst. split; assumption.
Qed.

(* ================================================================================== *)
(* 1. the include line                                                                  *)

Lemma include_items_toks p il : include_items p il ->
  exists d s n, il = [LTok d; LTok s; LTok n] /\ inc_toks p d s n.
Proof. intros [d [s [n [H1 H2]]]]. exists d, s, n. split; [exact H1|exact H2]. Qed.

Lemma parse_one_include p d s n rest : inc_toks p d s n ->
  exists rt, parse_one (LTok d :: LTok s :: LTok n :: rest) =
             Ok (inr (PDirective (mkw DInclude d) (DInc (mkw p s)) rt), LTok n :: rest).
Proof.
  intros [[dn [Hd1 Hd2]] [Hs _]]. eexists.
  unfold parse_one, parse_stmt, pbind at 1, get_any. cbn [fst snd item_result]. rewrite Hd1, Hd2.
  unfold parse_directive, get_string, pbind, get_any. cbn [fst snd item_result].
  unfold as_string, tok_string. destruct Hs as [Hs|Hs]; rewrite Hs; reflexivity.
Qed.

Lemma dstep_include chk fs p d s n rest rs nodes errs : inc_toks p d s n ->
  dstep chk fs false (LTok d :: LTok s :: LTok n :: rest) rs nodes errs =
  match import_file fs p rs with
  | (inr (id, text), rs') =>
      do items <- lex_all chk (Some id) (normalize_text text); Ok ([items; LTok n :: rest], rs', nodes, errs)
  | (inl e, rs') => Ok ([LTok n :: rest], rs', nodes, to_parse_error e (mkw p s) :: errs)
  end.
Proof.
  intros H. destruct (parse_one_include p d s n rest H) as [rt Hp]. unfold dstep. rewrite Hp. reflexivity.
Qed.

Lemma dstep_newline chk fs ign n rest rs nodes errs : tt n = TNewline ->
  dstep chk fs ign (LTok n :: rest) rs nodes errs = Ok ([rest], rs, nodes, errs).
Proof.
  intros H. unfold dstep, parse_one, parse_stmt, pbind, get_any. cbn [fst snd item_result]. rewrite H. reflexivity.
Qed.

(* the items of a base text  A ++ L ++ B  /  A ++ B  /  A ++ T' ++ B *)
Lemma lex_with_line chk file p A L B ia : lines_block A -> include_line p L -> lex_all chk file A = Ok ia ->
  exists d s n jB iB,
    lex_all chk file (normalize_text (A ++ L ++ B)) = Ok (ia ++ LTok d :: LTok s :: LTok n :: jB) /\
    inc_toks p d s n /\ lex_all chk file (normalize_text B) = Ok iB /\ items_eq jB iB.
Proof.
  intros HA [HL1 HL2] Hia. destruct (HL2 chk file) as [il [Hil Hitems]].
  destruct (include_items_toks p il Hitems) as [d [s [n [-> Htoks]]]].
  destruct (lex_total chk file (normalize_text B)) as [iB HiB].
  pose proof (one_line_block L HL1) as HLb.
  destruct (lex_block_app chk file L (normalize_text B) _ iB HLb Hil HiB) as [jb [H1 [H2 _]]].
  destruct (lex_block_app chk file A (L ++ normalize_text B) ia _ HA Hia H1) as [jb2 [H3 [_ H5]]].
  rewrite (normalize_app A (L ++ B) HA), (normalize_app L B HLb).
  rewrite H3, H5. rewrite map_app. cbn [map].
  do 5 eexists. split; [reflexivity|]. split; [|split; [exact HiB|]].
  - destruct Htoks as [[dn [Hd1 Hd2]] [Hs Hn]]. split; [exists dn; split; assumption|]. split; assumption.
  - apply (items_eq_trans _ jb); [apply sh_items_eq|exact H2].
Qed.

Lemma lex_without_line chk file A B ia : lines_block A -> lex_all chk file A = Ok ia ->
  exists jB iB, lex_all chk file (normalize_text (A ++ B)) = Ok (ia ++ jB) /\
                lex_all chk file (normalize_text B) = Ok iB /\ items_eq jB iB.
Proof.
  intros HA Hia. destruct (lex_total chk file (normalize_text B)) as [iB HiB].
  destruct (lex_block_app chk file A (normalize_text B) ia iB HA Hia HiB) as [jb [H1 [H2 _]]].
  rewrite (normalize_app A B HA). exists jb, iB. repeat split; assumption.
Qed.

Lemma lex_pasted chk file A T B ia iT : lines_block A -> lex_all chk file A = Ok ia ->
  lex_all chk file (normalize_text T) = Ok iT ->
  exists jT jB iB, lex_all chk file (normalize_text (A ++ normalize_text T ++ B)) = Ok (ia ++ jT ++ jB) /\
    items_eq jT iT /\ lex_all chk file (normalize_text B) = Ok iB /\ items_eq jB iB.
Proof.
  intros HA Hia HiT. destruct (lex_total chk file (normalize_text B)) as [iB HiB].
  pose proof (normalize_lines_block T) as HT.
  destruct (lex_block_app chk file (normalize_text T) (normalize_text B) iT iB HT HiT HiB) as [jb [H1 [H2 _]]].
  destruct (lex_block_app chk file A (normalize_text T ++ normalize_text B) ia _ HA Hia H1) as [jb2 [H3 [_ H5]]].
  rewrite (normalize_app A _ HA), (normalize_app _ B HT). rewrite H3, H5, map_app.
  do 3 eexists. split; [reflexivity|]. split; [apply sh_items_eq|]. split; [exact HiB|].
  apply (items_eq_trans _ jb); [apply sh_items_eq|exact H2].
Qed.

(* ================================================================================== *)
(* 2. (B) include faults                                                                 *)

(* why an import fails, and the error it becomes *)
Lemma import_fault_kinds fs q rs e rs' : import_file fs q rs = (inl e, rs') ->
  rs' = rs /\
  ((assoc_str q fs = None /\ e = REInvalidPath) \/
   (exists u, assoc_str q fs = Some (inr u) /\ e = REIOErr) \/
   (exists t, assoc_str q fs = Some (inl t) /\ mem_str q (imported rs) = true /\ e = REFileAlreadyRead)).
Proof.
  unfold import_file. destruct (assoc_str q fs) as [[t|u]|].
  - destruct (mem_str q (imported rs)) eqn:Em; intros H; inversion H; subst.
    split; [reflexivity|]. right. right. exists t. repeat split.
  - intros H; inversion H; subst. split; [reflexivity|]. right. left. exists u. split; reflexivity.
  - intros H; inversion H; subst. split; [reflexivity|]. left. split; reflexivity.
Qed.

(* the three kinds of fault: absent path, injected IO fault, already imported (which covers a
   file including itself, a cycle, and a second inclusion: every open file has been imported) *)
Lemma import_absent fs q rs : assoc_str q fs = None -> import_file fs q rs = (inl REInvalidPath, rs).
Proof. intros H. unfold import_file. rewrite H. reflexivity. Qed.
Lemma import_io_fault fs q rs u : assoc_str q fs = Some (inr u) -> import_file fs q rs = (inl REIOErr, rs).
Proof. intros H. unfold import_file. rewrite H. reflexivity. Qed.
Lemma import_again fs q rs t : assoc_str q fs = Some (inl t) -> mem_str q (imported rs) = true ->
  import_file fs q rs = (inl REFileAlreadyRead, rs).
Proof. intros H Hm. unfold import_file. rewrite H, Hm. reflexivity. Qed.

Lemma import_fresh fs q rs (T : str) : assoc_str q fs = Some (inl T) -> mem_str q (imported rs) = false ->
  import_file fs q rs = (inr (N.of_nat (length (imported rs)), T), mkrs (imported rs ++ [q])).
Proof. intros H Hm. unfold import_file. rewrite H, Hm. reflexivity. Qed.

Lemma fault_error_absent path : to_parse_error REInvalidPath path = PEFileNotFound path.
Proof. reflexivity. Qed.
Lemma fault_error_io path : to_parse_error REIOErr path = PEIOError path.
Proof. reflexivity. Qed.
Lemma fault_error_again path : to_parse_error REFileAlreadyRead path = PECyclicDependency (wt path).
Proof. reflexivity. Qed.

Lemma fault_error_located e path :
  (e = REInvalidPath \/ e = REIOErr \/ e = REFileAlreadyRead) -> err_token (to_parse_error e path) = wt path.
Proof. intros [->|[->| ->]]; reflexivity. Qed.

(* step lemma: an include directive whose import fails contributes exactly the error, located at
   the directive's string token, no node, and the driver continues with the rest of the
   including file, in the same reader state *)
Theorem drive_include_fault chk fs top below rs nodes errs n rest path e rs' :
  parse_one top = Ok (inr n, rest) -> include_path n = Some path ->
  import_file fs (wv path) rs = (inl e, rs') ->
  (forall f, drive (S f) chk fs false (top :: below) rs nodes errs =
             drive f chk fs false (rest :: below) rs nodes (to_parse_error e path :: errs)) /\
  err_token (to_parse_error e path) = wt path /\
  tok_path (wt path) = Some (wv path) /\
  ((assoc_str (wv path) fs = None /\ to_parse_error e path = PEFileNotFound path) \/
   (exists u, assoc_str (wv path) fs = Some (inr u) /\ to_parse_error e path = PEIOError path) \/
   (exists t, assoc_str (wv path) fs = Some (inl t) /\ mem_str (wv path) (imported rs) = true /\
              to_parse_error e path = PECyclicDependency (wt path))).
Proof.
  intros Hp Hi He. destruct (import_fault_kinds _ _ _ _ _ He) as [-> Hk]. split; [|split; [|split]].
  - intros f. cbn [drive]. rewrite Hp. cbn [bind]. rewrite Hi, He. reflexivity.
  - apply fault_error_located. destruct Hk as [[_ ->]|[[u [_ ->]]|[t [_ [_ ->]]]]]; auto.
  - apply (parse_one_incwf _ _ _ Hp path Hi).
  - destruct Hk as [[H ->]|[[u [H ->]]|[t [H [Hm ->]]]]].
    + left. split; [exact H|reflexivity].
    + right. left. exists u. split; [exact H|reflexivity].
    + right. right. exists t. repeat split; assumption.
Qed.

(* the rest of the including file is parsed exactly as if the directive line were not there:
   on the driver, for a line `.include p` + newline whose import fails *)
Theorem run_include_fault_line chk fs p d s n rest below rs nodes errs e rs' r : inc_toks p d s n ->
  import_file fs p rs = (inl e, rs') ->
  (Run chk fs false ((LTok d :: LTok s :: LTok n :: rest) :: below) rs nodes errs r <->
   Run chk fs false (rest :: below) rs nodes (to_parse_error e (mkw p s) :: errs) r).
Proof.
  intros Ht He. destruct (import_fault_kinds _ _ _ _ _ He) as [-> _].
  rewrite (run_step chk fs false _ below rs nodes errs [LTok n :: rest] rs nodes (to_parse_error e (mkw p s) :: errs)).
  2:{ rewrite (dstep_include chk fs p d s n rest rs nodes errs Ht), He. reflexivity. }
  cbn [app].
  apply (run_step chk fs false (LTok n :: rest) below rs nodes _ [rest] rs nodes _).
  apply dstep_newline. apply Ht.
Qed.

(* end-to-end: base text A ++ L ++ B, where L is the line `.include p` and p fails to import
   when the line is reached, against base text A ++ B *)
Theorem include_fault chk (fs1 fs2 : store) (base p A L B : str) :
  lines_block A -> include_line p L ->
  assoc_str base fs1 = Some (inl (A ++ L ++ B)) ->
  assoc_str base fs2 = Some (inl (A ++ B)) ->
  (forall q, q <> base -> assoc_str q fs2 = assoc_str q fs1) ->
  forall ia, lex_all chk (Some 0%N) A = Ok ia -> closed ia = true ->
  forall nsA esA rsA, Run chk fs1 false [ia] (mkrs [base]) [entry_node 0] [] (nsA, esA, rsA) ->
  forall e rs', import_file fs1 p rsA = (inl e, rs') ->
  forall ns1 es1 rs1 ns2 es2 rs2,
    parse_from_file chk fs1 base false = Ok (ns1, es1, rs1) ->
    parse_from_file chk fs2 base false = Ok (ns2, es2, rs2) ->
    map erase_node ns1 = map erase_node ns2 /\
    exists pth esB1 esA2 esB2,
      wv pth = p /\ tok_path (wt pth) = Some p /\
      es1 = esA ++ to_parse_error e pth :: esB1 /\
      es2 = esA2 ++ esB2 /\
      map erase_perr esA = map erase_perr esA2 /\ map erase_perr esB1 = map erase_perr esB2.
Proof.
  intros HA HL Hb1 Hb2 Hoth ia Hia Hcl nsA esA rsA HrunA e rs' Himp ns1 es1 rs1 ns2 es2 rs2 Hp1 Hp2.
  pose proof (lexed_block chk _ A ia HA Hia) as Hlast. pose proof (closed_closedP _ Hcl) as HcP.
  (* run 1 *)
  apply (pff_run chk fs1 base _ false _ Hb1) in Hp1. destruct Hp1 as [items1 [Hl1 Hr1]].
  destruct (lex_with_line chk (Some 0%N) p A L B ia HA HL Hia) as [d [s [n [jB [iB [Hl1' [Htoks [HiB HjB]]]]]]]].
  rewrite Hl1' in Hl1. inversion Hl1; subst items1. clear Hl1.
  apply (run_block chk fs1 false ia _ _ _ _ _ Hlast HcP) in Hr1.
  destruct Hr1 as [nsA' [esA' [rsA' [Hr1a Hr1b]]]].
  pose proof (run_det _ _ _ _ _ _ _ _ _ Hr1a HrunA) as Heq. inversion Heq; subst nsA' esA' rsA'. clear Heq Hr1a.
  apply (run_include_fault_line chk fs1 p d s n jB [] rsA _ _ e rs' _ Htoks Himp) in Hr1b.
  apply run_acc in Hr1b. destruct Hr1b as [dn1 [de1 [Hn1 [He1 Hr1c]]]].
  (* run 2 *)
  apply (pff_run chk fs2 base _ false _ Hb2) in Hp2. destruct Hp2 as [items2 [Hl2 Hr2]].
  destruct (lex_without_line chk (Some 0%N) A B ia HA Hia) as [jB2 [iB2 [Hl2' [HiB2 HjB2]]]].
  rewrite Hl2' in Hl2. inversion Hl2; subst items2. clear Hl2.
  rewrite HiB in HiB2. inversion HiB2; subst iB2. clear HiB2.
  apply (run_block chk fs2 false ia _ _ _ _ _ Hlast HcP) in Hr2.
  destruct Hr2 as [nsA2 [esA2 [rsA2 [Hr2a Hr2b]]]].
  apply run_acc in Hr2b. destruct Hr2b as [dn2 [de2 [Hn2 [He2 Hr2c]]]].
  (* the two runs of A *)
  assert (Hrd0 : rd_agree no_excl fs1 (mkrs [base]) fs2 (mkrs [base])).
  { apply (rd_agree_base no_excl fs1 fs2 base _ _ _ Hb1 Hb2 (mem_base base)). intros q Hq _. apply Hoth. exact Hq. }
  destruct (run_lockstep chk fs1 fs2 false no_excl no_excl_dec [ia] [ia] (mkrs [base]) (mkrs [base]) [entry_node 0] [entry_node 0] [] []
              nsA esA rsA) as [nsA2' [esA2' [rsA2' [Hra [EA1 [EA2 HrdA]]]]]];
    [repeat constructor|exact Hrd0|reflexivity|reflexivity|exact HrunA|apply no_excl_ok|].
  pose proof (run_det _ _ _ _ _ _ _ _ _ Hra Hr2a) as Heq. inversion Heq; subst nsA2' esA2' rsA2'. clear Heq Hra.
  (* the two runs of B *)
  destruct (run_lockstep chk fs1 fs2 false no_excl no_excl_dec [jB] [jB2] rsA rsA2 [] [] [] [] dn1 de1 rs1)
    as [dn2' [de2' [rs2' [Hrb [EB1 [EB2 _]]]]]];
    [constructor; [apply (items_eq_trans _ iB); [exact HjB|apply items_eq_sym; exact HjB2]|constructor]
    |exact HrdA|reflexivity|reflexivity|exact Hr1c|apply no_excl_ok|].
  pose proof (run_det _ _ _ _ _ _ _ _ _ Hrb Hr2c) as Heq. inversion Heq; subst dn2' de2' rs2'. clear Heq Hrb.
  (* conclusion *)
  rewrite rev_involutive in Hn1, Hn2. rewrite rev_involutive in He2. cbn [rev] in He1. rewrite rev_involutive in He1.
  subst ns1 ns2 es1 es2. split.
  - rewrite !map_app, EA1, EB1. reflexivity.
  - exists (mkw p s), de1, esA2, de2. split; [reflexivity|]. split.
    + cbn [wt]. unfold tok_path. destruct Htoks as [_ [[Hs|Hs] _]]; rewrite Hs; reflexivity.
    + split; [rewrite <- app_assoc; reflexivity|]. split; [reflexivity|]. split; assumption.
Qed.

(* ================================================================================== *)
(* 3. (C) include = paste                                                               *)

Definition only (p : str) : str -> Prop := fun q => q = p.
Lemma only_dec p q : only p q \/ ~ only p q.
Proof.
  unfold only. destruct (str_eqb q p) eqn:E.
  - left. apply str_eqb_eq. exact E.
  - right. intros ->. rewrite str_eqb_refl in E. discriminate.
Qed.

Lemma no_cyclic_app_l p a b : no_cyclic p (a ++ b) -> no_cyclic p a.
Proof. intros H t Hin. apply H. apply in_or_app. left. exact Hin. Qed.
Lemma no_cyclic_app_r p a b : no_cyclic p (a ++ b) -> no_cyclic p b.
Proof. intros H t Hin. apply H. apply in_or_app. right. exact Hin. Qed.

(* the split program: what the run of base text A ++ L ++ B looks like when p imports *)
Lemma split_run chk (fs1 : store) (base p A L B T : str) :
  lines_block A -> include_line p L ->
  assoc_str base fs1 = Some (inl (A ++ L ++ B)) -> assoc_str p fs1 = Some (inl T) ->
  forall ia, lex_all chk (Some 0%N) A = Ok ia -> closed ia = true ->
  forall nsA esA rsA, Run chk fs1 false [ia] (mkrs [base]) [entry_node 0] [] (nsA, esA, rsA) ->
  mem_str p (imported rsA) = false ->
  forall ns1 es1 rs1, parse_from_file chk fs1 base false = Ok (ns1, es1, rs1) ->
  exists itemsT jB iB nT eT rsT nB eB,
    lex_all chk (Some (N.of_nat (length (imported rsA)))) (normalize_text T) = Ok itemsT /\
    lex_all chk (Some 0%N) (normalize_text B) = Ok iB /\ items_eq jB iB /\
    Run chk fs1 false [itemsT] (mkrs (imported rsA ++ [p])) [] [] (nT, eT, rsT) /\
    Run chk fs1 false [jB] rsT [] [] (nB, eB, rs1) /\
    ns1 = nsA ++ nT ++ nB /\ es1 = esA ++ eT ++ eB.
Proof.
  intros HA HL Hb1 Hp1 ia Hia Hcl nsA esA rsA HrunA Hmem ns1 es1 rs1 Hpf.
  pose proof (lexed_block chk _ A ia HA Hia) as Hlast. pose proof (closed_closedP _ Hcl) as HcP.
  apply (pff_run chk fs1 base _ false _ Hb1) in Hpf. destruct Hpf as [items1 [Hl1 Hr1]].
  destruct (lex_with_line chk (Some 0%N) p A L B ia HA HL Hia) as [d [s [n [jB [iB [Hl1' [Htoks [HiB HjB]]]]]]]].
  rewrite Hl1' in Hl1. inversion Hl1; subst items1. clear Hl1.
  apply (run_block chk fs1 false ia _ _ _ _ _ Hlast HcP) in Hr1.
  destruct Hr1 as [nsA' [esA' [rsA' [Hr1a Hr1b]]]].
  pose proof (run_det _ _ _ _ _ _ _ _ _ Hr1a HrunA) as Heq. inversion Heq; subst nsA' esA' rsA'. clear Heq Hr1a.
  destruct (lexed_text chk (N.of_nat (length (imported rsA))) T) as [itemsT [HlT _]].
  assert (Himp : import_file fs1 p rsA = (inr (N.of_nat (length (imported rsA)), T), mkrs (imported rsA ++ [p]))).
  { apply import_fresh; assumption. }
  rewrite (run_step chk fs1 false _ [] rsA _ _ [itemsT; LTok n :: jB] (mkrs (imported rsA ++ [p])) (rev nsA) (rev esA)) in Hr1b.
  2:{ rewrite (dstep_include chk fs1 p d s n jB rsA _ _ Htoks), Himp, HlT. reflexivity. }
  rewrite app_nil_r in Hr1b.
  apply (run_app chk fs1 false [itemsT] [LTok n :: jB]) in Hr1b.
  destruct Hr1b as [nT' [eT' [rsT [HrT HrB]]]].
  rewrite (run_step chk fs1 false (LTok n :: jB) [] rsT _ _ [jB] rsT (rev nT') (rev eT')) in HrB.
  2:{ apply dstep_newline. apply Htoks. }
  cbn [app] in HrB.
  apply run_acc in HrT. destruct HrT as [nT [eT [HnT [HeT HrT]]]].
  apply run_acc in HrB. destruct HrB as [nB [eB [HnB [HeB HrB]]]].
  rewrite rev_involutive in HnT, HeT, HnB, HeB. subst nT' eT' ns1 es1.
  exists itemsT, jB, iB, nT, eT, rsT, nB, eB. rewrite <- !app_assoc. repeat split; assumption.
Qed.

(* (C), per-file locations: in the split program, the nodes and errors coming from the included
   text are EXACTLY (not up to erasure) those of driving T's own items - lexed from T alone, from
   position 0, under the file id the reader gave T - in the reader state after the import; they
   sit between the nodes of what precedes the directive and the nodes of what follows it *)
Theorem include_locations chk (fs1 : store) (base p A L B T : str) :
  lines_block A -> include_line p L ->
  assoc_str base fs1 = Some (inl (A ++ L ++ B)) -> assoc_str p fs1 = Some (inl T) ->
  forall ia, lex_all chk (Some 0%N) A = Ok ia -> closed ia = true ->
  forall nsA esA rsA, Run chk fs1 false [ia] (mkrs [base]) [entry_node 0] [] (nsA, esA, rsA) ->
  mem_str p (imported rsA) = false ->
  forall ns1 es1 rs1, parse_from_file chk fs1 base false = Ok (ns1, es1, rs1) ->
  exists itemsT nT eT rsT nB eB,
    import_file fs1 p rsA = (inr (N.of_nat (length (imported rsA)), T), mkrs (imported rsA ++ [p])) /\
    lex_all chk (Some (N.of_nat (length (imported rsA)))) (normalize_text T) = Ok itemsT /\
    Run chk fs1 false [itemsT] (mkrs (imported rsA ++ [p])) [] [] (nT, eT, rsT) /\
    ns1 = nsA ++ nT ++ nB /\ es1 = esA ++ eT ++ eB.
Proof.
  intros HA HL Hb1 Hp1 ia Hia Hcl nsA esA rsA HrunA Hmem ns1 es1 rs1 Hpf.
  destruct (split_run chk fs1 base p A L B T HA HL Hb1 Hp1 ia Hia Hcl nsA esA rsA HrunA Hmem ns1 es1 rs1 Hpf)
    as [itemsT [jB [iB [nT [eT [rsT [nB [eB [H1 [_ [_ [H4 [_ [H6 H7]]]]]]]]]]]]]].
  exists itemsT, nT, eT, rsT, nB, eB. split; [|repeat split; assumption].
  apply import_fresh; assumption.
Qed.

(* (C) include = paste *)
Theorem include_paste chk (fs1 fs2 : store) (base p A L B T : str) :
  p <> base -> lines_block A -> include_line p L ->
  assoc_str base fs1 = Some (inl (A ++ L ++ B)) -> assoc_str p fs1 = Some (inl T) ->
  assoc_str base fs2 = Some (inl (A ++ normalize_text T ++ B)) ->
  (forall q, q <> base -> q <> p -> assoc_str q fs2 = assoc_str q fs1) ->
  forall ia iT, lex_all chk (Some 0%N) A = Ok ia -> closed ia = true ->
    lex_all chk (Some 0%N) (normalize_text T) = Ok iT -> closed iT = true ->
  forall nsA esA rsA, Run chk fs1 false [ia] (mkrs [base]) [entry_node 0] [] (nsA, esA, rsA) ->
  mem_str p (imported rsA) = false ->
  forall ns1 es1 rs1 ns2 es2 rs2,
    parse_from_file chk fs1 base false = Ok (ns1, es1, rs1) -> no_cyclic p es1 ->
    parse_from_file chk fs2 base false = Ok (ns2, es2, rs2) ->
    map erase_node ns1 = map erase_node ns2 /\ map erase_perr es1 = map erase_perr es2.
Proof.
  intros Hpb HA HL Hb1 Hp1 Hb2 Hoth ia iT Hia Hcl HiT HclT nsA esA rsA HrunA Hmem
         ns1 es1 rs1 ns2 es2 rs2 Hpf1 Hnc Hpf2.
  pose proof (lexed_block chk _ A ia HA Hia) as Hlast. pose proof (closed_closedP _ Hcl) as HcP.
  (* run 1 *)
  destruct (split_run chk fs1 base p A L B T HA HL Hb1 Hp1 ia Hia Hcl nsA esA rsA HrunA Hmem ns1 es1 rs1 Hpf1)
    as [itemsT [jB [iB [nT [eT [rsT [nB [eB [HlT [HiB [HjB [HrT [HrB [Hns1 Hes1]]]]]]]]]]]]]].
  (* run 2 *)
  apply (pff_run chk fs2 base _ false _ Hb2) in Hpf2. destruct Hpf2 as [items2 [Hl2 Hr2]].
  destruct (lex_pasted chk (Some 0%N) A T B ia iT HA Hia HiT) as [jT [jB2 [iB2 [Hl2' [HjT [HiB2 HjB2]]]]]].
  rewrite Hl2' in Hl2. inversion Hl2; subst items2. clear Hl2.
  rewrite HiB in HiB2. inversion HiB2; subst iB2. clear HiB2.
  apply (run_block chk fs2 false ia _ _ _ _ _ Hlast HcP) in Hr2.
  destruct Hr2 as [nsA2 [esA2 [rsA2 [Hr2a Hr2b]]]].
  assert (HlastT : last_nl jT).
  { apply (last_nl_items_eq iT jT (items_eq_sym _ _ HjT)).
    apply (lexed_block chk (Some 0%N) (normalize_text T) iT (normalize_lines_block T) HiT). }
  assert (HcPT : closedP jT) by (apply (closedP_items_eq iT jT (items_eq_sym _ _ HjT)), closed_closedP; exact HclT).
  apply (run_block chk fs2 false jT _ _ _ _ _ HlastT HcPT) in Hr2b.
  destruct Hr2b as [nT2' [eT2' [rsT2 [Hr2t Hr2c]]]].
  apply run_acc in Hr2t. destruct Hr2t as [nT2 [eT2 [HnT2 [HeT2 Hr2t]]]].
  apply run_acc in Hr2c. destruct Hr2c as [nB2 [eB2 [HnB2 [HeB2 Hr2c]]]].
  rewrite rev_involutive in HnT2, HeT2, HnB2, HeB2. subst nT2' eT2' ns2 es2.
  (* A *)
  assert (Hrd0 : rd_agree (only p) fs1 (mkrs [base]) fs2 (mkrs [base])).
  { apply (rd_agree_base (only p) fs1 fs2 base _ _ _ Hb1 Hb2 (mem_base base)). intros q Hq Hq'. apply Hoth; assumption. }
  assert (HexA : excl_ok (only p) fs1 (mkrs [base]) esA rsA).
  { intros q ->. split; [exists T; exact Hp1|]. left. exact Hmem. }
  destruct (run_lockstep chk fs1 fs2 false (only p) (only_dec p) [ia] [ia] (mkrs [base]) (mkrs [base]) [entry_node 0] [entry_node 0] [] []
              nsA esA rsA) as [nsA2' [esA2' [rsA2' [Hra [EA1 [EA2 HrdA]]]]]];
    [repeat constructor|exact Hrd0|reflexivity|reflexivity|exact HrunA|exact HexA|].
  pose proof (run_det _ _ _ _ _ _ _ _ _ Hra Hr2a) as Heq. inversion Heq; subst nsA2' esA2' rsA2'. clear Heq Hra.
  (* T *)
  assert (HrdT : rd_agree (only p) fs1 (mkrs (imported rsA ++ [p])) fs2 rsA2).
  { apply rd_agree_snoc_l; [reflexivity|exact HrdA]. }
  assert (HmemT : mem_str p (imported (mkrs (imported rsA ++ [p]))) = true).
  { cbn [imported]. rewrite mem_str_snoc, str_eqb_refl. apply orb_true_r. }
  rewrite Hes1 in Hnc.
  assert (HexT : excl_ok (only p) fs1 (mkrs (imported rsA ++ [p])) eT rsT).
  { intros q ->. split; [exists T; exact Hp1|]. right. split; [exact HmemT|].
    apply (no_cyclic_app_l p eT eB). apply (no_cyclic_app_r p esA). exact Hnc. }
  destruct (run_lockstep chk fs1 fs2 false (only p) (only_dec p) [itemsT] [jT] (mkrs (imported rsA ++ [p])) rsA2 [] [] [] []
              nT eT rsT) as [nT2' [eT2' [rsT2' [Hrt [ET1 [ET2 HrdT']]]]]];
    [constructor; [|constructor]|exact HrdT|reflexivity|reflexivity|exact HrT|exact HexT|].
  { apply (items_eq_trans _ iT); [|apply items_eq_sym; exact HjT].
    apply (lex_all_refile chk _ _ _ _ _ HlT HiT). }
  pose proof (run_det _ _ _ _ _ _ _ _ _ Hrt Hr2t) as Heq. inversion Heq; subst nT2' eT2' rsT2'. clear Heq Hrt.
  (* B *)
  assert (HmemB : mem_str p (imported rsT) = true).
  { apply (run_imported_mono chk fs1 false _ _ _ _ _ _ _ p HrT HmemT). }
  assert (HexB : excl_ok (only p) fs1 rsT eB rs1).
  { intros q ->. split; [exists T; exact Hp1|]. right. split; [exact HmemB|].
    apply (no_cyclic_app_r p eT). apply (no_cyclic_app_r p esA). exact Hnc. }
  destruct (run_lockstep chk fs1 fs2 false (only p) (only_dec p) [jB] [jB2] rsT rsT2 [] [] [] []
              nB eB rs1) as [nB2' [eB2' [rs2' [Hrb [EB1 [EB2 _]]]]]];
    [constructor; [|constructor]|exact HrdT'|reflexivity|reflexivity|exact HrB|exact HexB|].
  { apply (items_eq_trans _ iB); [exact HjB|apply items_eq_sym; exact HjB2]. }
  pose proof (run_det _ _ _ _ _ _ _ _ _ Hrb Hr2c) as Heq. inversion Heq; subst nB2' eB2' rs2'. clear Heq Hrb.
  subst ns1 es1. rewrite !map_app, EA1, EA2, ET1, ET2, EB1, EB2, <- !app_assoc. split; reflexivity.
Qed.

(* ================================================================================== *)
(* 4. boolean checkers for the hypotheses, for use on concrete programs                  *)

Definition include_items_b (p : str) (il : list lexitem) : bool :=
  match il with
  | [LTok d; LTok s; LTok n] =>
      (match tt d with
       | TDirective dn => match dir_from_str dn with Some DInclude => true | _ => false end
       | _ => false
       end &&
       match tt s with TString q | TSymbol q => str_eqb q p | _ => false end &&
       match tt n with TNewline => true | _ => false end)%bool
  | _ => false
  end.

Definition one_line_b (L : str) : bool :=
  match rev L with
  | c :: body => (N.eqb c c_nl && negb (existsb (N.eqb c_nl) body))%bool
  | [] => false
  end.

Definition include_line_b (p : str) (L : str) : bool :=
  (one_line_b L &&
   match lex_all true None L with Ok il => include_items_b p il | _ => false end &&
   match lex_all false None L with Ok il => include_items_b p il | _ => false end)%bool.

Lemma include_items_b_sound p il : include_items_b p il = true -> include_items p il.
Proof.
  unfold include_items_b. destruct il as [|[d| |] [|[s| |] [|[n| |] [|]]]]; try discriminate.
  intros H. apply andb_true_iff in H. destruct H as [H H3]. apply andb_true_iff in H. destruct H as [H1 H2].
  exists d, s, n. split; [reflexivity|]. split; [|split].
  - destruct (tt d); try discriminate. exists s0. split; [reflexivity|].
    destruct (dir_from_str s0) as [[]|]; try discriminate. reflexivity.
  - destruct (tt s); try discriminate; apply str_eqb_eq in H2; subst; auto.
  - destruct (tt n); try discriminate. reflexivity.
Qed.

Lemma one_line_b_sound L : one_line_b L = true -> one_line L.
Proof.
  unfold one_line_b. destruct (rev L) as [|c body] eqn:Er; [discriminate|].
  intros H. apply andb_true_iff in H. destruct H as [H1 H2]. apply N.eqb_eq in H1. subst c.
  exists (rev body). split.
  - rewrite <- (rev_involutive L), Er. reflexivity.
  - intros Hin. apply in_rev in Hin. apply negb_true_iff in H2.
    assert (Hex : existsb (N.eqb c_nl) body = true).
    { apply existsb_exists. exists c_nl. split; [exact Hin|apply N.eqb_refl]. }
    rewrite Hex in H2. discriminate.
Qed.

Lemma include_items_rf p f il : include_items p il -> include_items p (map (rf_item f) il).
Proof.
  intros H. apply (include_items_eq p il); [exact H|].
  unfold items_eq. rewrite map_map. apply map_ext. intros it. symmetry. apply rf_item_erase.
Qed.

Lemma include_line_b_sound p L : include_line_b p L = true -> include_line p L.
Proof.
  unfold include_line_b. intros H. apply andb_true_iff in H. destruct H as [H H3].
  apply andb_true_iff in H. destruct H as [H1 H2]. split; [apply one_line_b_sound; exact H1|].
  intros chk file. rewrite (lex_all_rf None file).
  destruct chk.
  - destruct (lex_all true None L) as [il| |]; try discriminate. exists (map (rf_item file) il).
    split; [reflexivity|]. apply include_items_rf. apply include_items_b_sound. exact H2.
  - destruct (lex_all false None L) as [il| |]; try discriminate. exists (map (rf_item file) il).
    split; [reflexivity|]. apply include_items_rf. apply include_items_b_sound. exact H3.
Qed.

Definition no_cyclic_b (p : str) (errs : list parse_error) : bool :=
  forallb (fun e => match e with
                    | PECyclicDependency t =>
                        negb (match tok_path t with Some q => str_eqb q p | None => false end)
                    | _ => true
                    end) errs.

Lemma no_cyclic_b_sound p errs : no_cyclic_b p errs = true -> no_cyclic p errs.
Proof.
  unfold no_cyclic_b, no_cyclic. intros H t Hin Hp. rewrite forallb_forall in H. specialize (H _ Hin).
  cbn beta iota in H. rewrite Hp, str_eqb_refl in H. discriminate.
Qed.

Lemma run_of_drive chk fs ign f stack rs n e r : drive f chk fs ign stack rs n e = Ok r -> Run chk fs ign stack rs n e r.
Proof. intros H. exists f. exact H. Qed.

Lemma lines_block_b (A : str) : match rev A with [] => true | c :: _ => N.eqb c c_nl end = true -> lines_block A.
Proof.
  destruct (rev A) as [|c r] eqn:Er; intros H.
  - left. rewrite <- (rev_involutive A), Er. reflexivity.
  - apply N.eqb_eq in H. subst c. right. exists (rev r). rewrite <- (rev_involutive A), Er. reflexivity.
Qed.
