(* C14, part 4: the value analysis commutes with renaming.  Register-indexed maps are re-indexed and
   re-sorted; the proofs go through lookups (`rm_get`) and extensionality of strictly sorted maps. *)
From Coq Require Import Lia ZifyBool ZifyN Sorting.Sorted Permutation.
From RV.Model Require Import Base I32 Imm Lexer Isa Parser Reader Cfg Avail Live Lints.
From RV.Spec Require Import RenameSpec.
From RV.Proofs Require Import RenameBase RenameGraph.
Open Scope N_scope.

(* ---- strictly sorted register maps ------------------------------------------------------------ *)
Notation above k m := (Forall (fun b : reg * aval => k < fst b) m).

Lemma rsorted_nil : rsorted []. Proof. constructor. Qed.
Lemma rsorted_cons k v m : rsorted m -> above k m -> rsorted ((k, v) :: m).
Proof. intros H A. constructor; assumption. Qed.
Lemma rsorted_inv k v m : rsorted ((k, v) :: m) -> rsorted m /\ above k m.
Proof. intros H. inversion H; subst. split; assumption. Qed.

Lemma above_get k m r : above k m -> r <= k -> rm_get r m = None.
Proof.
  induction m as [|[q w] m IH]; intros A L; cbn [rm_get]; [reflexivity|].
  inversion A as [|? ? Hq A']; subst. cbn [fst] in Hq.
  replace (N.eqb q r) with false by (symmetry; apply N.eqb_neq; lia). apply IH; assumption.
Qed.

Lemma above_insert k r v m : above k m -> k < r -> above k (rm_insert r v m).
Proof.
  induction m as [|[q w] m IH]; intros A L; cbn [rm_insert].
  - constructor; [exact L | constructor].
  - inversion A as [|? ? Hq A']; subst. cbn [fst] in Hq.
    destruct (N.eqb q r); [constructor; [exact L | exact A']|].
    destruct (N.ltb r q); [constructor; [exact L | exact A]|].
    constructor; [exact Hq | apply IH; assumption].
Qed.

Lemma rsorted_insert r v m : rsorted m -> rsorted (rm_insert r v m).
Proof.
  induction m as [|[q w] m IH]; intros H; cbn [rm_insert].
  - apply rsorted_cons; constructor.
  - apply rsorted_inv in H. destruct H as [Hm A].
    destruct (N.eqb_spec q r) as [->|Hn]; [apply rsorted_cons; assumption|].
    destruct (N.ltb_spec r q) as [L|L].
    + apply rsorted_cons; [apply rsorted_cons; assumption|].
      constructor; [exact L|]. eapply Forall_impl; [|exact A]. intros b Hb. cbn beta in *. lia.
    + apply rsorted_cons; [apply IH, Hm | apply above_insert; [exact A | lia]].
Qed.

Lemma above_filter k f m : above k m -> above k (filter f m).
Proof. intros A. apply Forall_forall. intros b Hb. apply filter_In in Hb. rewrite Forall_forall in A. apply A, Hb. Qed.

Lemma rsorted_filter f m : rsorted m -> rsorted (filter f m).
Proof.
  induction m as [|[q w] m IH]; intros H; cbn [filter]; [constructor|].
  apply rsorted_inv in H. destruct H as [Hm A].
  destruct (f (q, w)); [apply rsorted_cons; [apply IH, Hm | apply above_filter, A] | apply IH, Hm].
Qed.

Lemma rsorted_ext a : forall b, rsorted a -> rsorted b -> (forall r, rm_get r a = rm_get r b) -> a = b.
Proof.
  induction a as [|[k v] a IH]; intros [|[l w] b] Ha Hb E.
  - reflexivity.
  - specialize (E l). cbn [rm_get] in E. rewrite N.eqb_refl in E. discriminate.
  - specialize (E k). cbn [rm_get] in E. rewrite N.eqb_refl in E. discriminate.
  - apply rsorted_inv in Ha, Hb. destruct Ha as [Ha Aa], Hb as [Hb Ab].
    assert (K : k = l).
    { destruct (N.lt_trichotomy k l) as [L|[L|L]]; [|exact L|].
      - pose proof (E k) as Ek. cbn [rm_get] in Ek. rewrite N.eqb_refl in Ek.
        replace (N.eqb l k) with false in Ek by (symmetry; apply N.eqb_neq; lia).
        rewrite (above_get l b k Ab) in Ek by lia. discriminate.
      - pose proof (E l) as El. cbn [rm_get] in El. rewrite N.eqb_refl in El.
        replace (N.eqb k l) with false in El by (symmetry; apply N.eqb_neq; lia).
        rewrite (above_get k a l Aa) in El by lia. discriminate. }
    subst l. pose proof (E k) as Ek. cbn [rm_get] in Ek. rewrite N.eqb_refl in Ek. injection Ek as ->.
    f_equal. apply IH; [assumption|assumption|]. intros r.
    destruct (N.eqb_spec k r) as [<-|Hn].
    + rewrite (above_get k a k Aa), (above_get k b k Ab) by lia. reflexivity.
    + specialize (E r). cbn [rm_get] in E. apply N.eqb_neq in Hn. rewrite Hn in E. exact E.
Qed.

Lemma rm_get_filter f m r : rsorted m ->
  rm_get r (filter f m) = match rm_get r m with Some v => if f (r, v) then Some v else None | None => None end.
Proof.
  induction m as [|[k v] m IH]; intros H; cbn [filter rm_get]; [reflexivity|].
  apply rsorted_inv in H. destruct H as [Hm A].
  destruct (N.eqb_spec k r) as [->|Hn].
  - destruct (f (r, v)); cbn [rm_get]; [rewrite N.eqb_refl; reflexivity|].
    rewrite IH by exact Hm. rewrite (above_get r m r A) by lia. reflexivity.
  - destruct (f (k, v)); cbn [rm_get]; [apply N.eqb_neq in Hn; rewrite Hn|]; apply IH, Hm.
Qed.

Lemma rm_get_In m r v : rsorted m -> (rm_get r m = Some v <-> In (r, v) m).
Proof.
  induction m as [|[k w] m IH]; intros H; cbn [rm_get In]; [split; [discriminate|tauto]|].
  apply rsorted_inv in H. destruct H as [Hm A].
  destruct (N.eqb_spec k r) as [->|Hn].
  - split; [intros [= ->]; left; reflexivity|]. intros [[= ->]|Hin]; [reflexivity|].
    exfalso. rewrite Forall_forall in A. specialize (A _ Hin). cbn [fst] in A. lia.
  - rewrite IH by exact Hm. split; [tauto|]. intros [[= -> ->]|Hin]; [congruence|exact Hin].
Qed.

(* rm_eqb on sorted maps is pointwise *)
Lemma rm_eqb_pointwise a : forall b, rsorted a -> rsorted b ->
  (rm_eqb a b = true <-> forall r, opt_aval_eqb (rm_get r a) (rm_get r b) = true).
Proof.
  induction a as [|[k v] a IH]; intros [|[l w] b] Ha Hb.
  - cbn. split; auto.
  - cbn [rm_eqb]. split; [discriminate|]. intros E. specialize (E l). cbn [rm_get] in E.
    rewrite N.eqb_refl in E. cbn in E. discriminate.
  - cbn [rm_eqb]. split; [discriminate|]. intros E. specialize (E k). cbn [rm_get] in E.
    rewrite N.eqb_refl in E. cbn in E. discriminate.
  - apply rsorted_inv in Ha, Hb. destruct Ha as [Ha Aa], Hb as [Hb Ab]. cbn [rm_eqb]. split.
    + intros E. apply andb_true_iff in E. destruct E as [E E3]. apply andb_true_iff in E. destruct E as [E1 E2].
      apply N.eqb_eq in E1. subst l. intros r. cbn [rm_get].
      destruct (N.eqb k r); [exact E2|]. apply (IH b Ha Hb), E3.
    + intros E.
      assert (K : k = l).
      { destruct (N.lt_trichotomy k l) as [L|[L|L]]; [|exact L|].
        - pose proof (E k) as Ek. cbn [rm_get] in Ek. rewrite N.eqb_refl in Ek.
          replace (N.eqb l k) with false in Ek by (symmetry; apply N.eqb_neq; lia).
          rewrite (above_get l b k Ab) in Ek by lia. discriminate.
        - pose proof (E l) as El. cbn [rm_get] in El. rewrite N.eqb_refl in El.
          replace (N.eqb k l) with false in El by (symmetry; apply N.eqb_neq; lia).
          rewrite (above_get k a l Aa) in El by lia. discriminate. }
      subst l. rewrite N.eqb_refl. pose proof (E k) as Ek. cbn [rm_get] in Ek. rewrite N.eqb_refl in Ek.
      cbn [opt_aval_eqb] in Ek. rewrite Ek. cbn [andb]. apply (IH b Ha Hb). intros r.
      destruct (N.eqb_spec k r) as [<-|Hn].
      * rewrite (above_get k a k Aa), (above_get k b k Ab) by lia. reflexivity.
      * specialize (E r). cbn [rm_get] in E. apply N.eqb_neq in Hn. rewrite Hn in E. exact E.
Qed.

Lemma fold_left_inv' {A X} (P : A -> Prop) (F : A -> X -> A) (l : list X) :
  (forall a x, P a -> P (F a x)) -> forall a, P a -> P (fold_left F l a).
Proof. intros H. induction l as [|x l IH]; intros a Ha; cbn [fold_left]; [exact Ha|]. apply IH, H, Ha. Qed.

Lemma fold_left_map_comm_inv {A B X} (P : A -> Prop) (f : A -> B) (F : A -> X -> A) (F' : B -> X -> B) (l : list X) :
  (forall a x, P a -> P (F a x)) -> (forall a x, P a -> F' (f a) x = f (F a x)) ->
  forall a, P a -> fold_left F' l (f a) = f (fold_left F l a).
Proof.
  intros HP H. induction l as [|x l IH]; intros a Ha; cbn [fold_left]; [reflexivity|].
  rewrite H by exact Ha. apply IH, HP, Ha.
Qed.

Lemma fold_left_map_both {A B X Y} (h : A -> B) (g : X -> Y) (F : A -> X -> A) (F' : B -> Y -> B) (l : list X) :
  (forall a x, F' (h a) (g x) = h (F a x)) -> forall a, fold_left F' (map g l) (h a) = h (fold_left F l a).
Proof. intros H. induction l as [|x l IH]; intros a; cbn [map fold_left]; [reflexivity|]. rewrite H. apply IH. Qed.

(* lookups after the fold-based operations *)
Lemma rm_get_extend l r : forall m,
  rm_get r (fold_left (fun m q => rm_insert q (AOrig q 0) m) l m)
  = if existsb (fun q => N.eqb q r) l then Some (AOrig r 0) else rm_get r m.
Proof.
  induction l as [|q l IH]; intros m; cbn [fold_left existsb]; [reflexivity|].
  rewrite IH, rm_get_insert. destruct (N.eqb_spec q r) as [->|Hn]; cbn [orb].
  - destruct (existsb (fun q => N.eqb q r) l); reflexivity.
  - reflexivity.
Qed.
Lemma rsorted_extend S m : rsorted m -> rsorted (rm_extend_originals S m).
Proof. unfold rm_extend_originals. apply fold_left_inv'. intros a x Ha. apply rsorted_insert, Ha. Qed.

Lemma existsb_rs_elems S r : existsb (fun q => N.eqb q r) (rs_elems S) = (N.ltb r 32 && rs_mem r S)%bool.
Proof.
  apply bool_iff. rewrite existsb_exists, andb_true_iff, N.ltb_lt. split.
  - intros [q [Hq E]]. apply N.eqb_eq in E. subst q. apply (proj1 (in_rs_elems r S)), Hq.
  - intros H. exists r. split; [apply (proj2 (in_rs_elems r S)), H | apply N.eqb_refl].
Qed.

Definition zero_step (o : regmap) (kv : reg * aval) : regmap :=
  match zero_based (snd kv) with
  | Some i => if opt_aval_eqb (rm_get (fst kv) o) (Some (snd kv)) then rm_insert (fst kv) (AConst i) o else o
  | None => o end.
Lemma rule_zero_reg_fold out rin : rule_zero_to_const_reg out rin = fold_left zero_step rin out.
Proof. reflexivity. Qed.

Lemma zero_step_other o kv r : fst kv <> r -> rm_get r (zero_step o kv) = rm_get r o.
Proof.
  intros Hn. unfold zero_step. destruct (zero_based (snd kv)); [|reflexivity].
  destruct (opt_aval_eqb _ _); [|reflexivity]. apply rm_get_insert_other. congruence.
Qed.
Lemma zero_fold_absent rin r : forall o, rm_get r rin = None -> rm_get r (fold_left zero_step rin o) = rm_get r o.
Proof.
  induction rin as [|[k v] rin IH]; intros o H; cbn [fold_left]; [reflexivity|].
  cbn [rm_get] in H. destruct (N.eqb_spec k r) as [->|Hn]; [discriminate|].
  rewrite IH by exact H. apply zero_step_other. exact Hn.
Qed.
Lemma rm_get_zero rin r : rsorted rin -> forall o,
  rm_get r (fold_left zero_step rin o)
  = match rm_get r rin with
    | Some v => match zero_based v with
                | Some i => if opt_aval_eqb (rm_get r o) (Some v) then Some (AConst i) else rm_get r o
                | None => rm_get r o end
    | None => rm_get r o end.
Proof.
  induction rin as [|[k v] rin IH]; intros H o; cbn [fold_left rm_get]; [reflexivity|].
  apply rsorted_inv in H. destruct H as [Hm A].
  destruct (N.eqb_spec k r) as [->|Hn].
  - rewrite zero_fold_absent by (apply (above_get r rin r A); lia).
    unfold zero_step. cbn [fst snd]. destruct (zero_based v); [|reflexivity].
    destruct (opt_aval_eqb (rm_get r o) (Some v)); [apply rm_get_insert_same | reflexivity].
  - rewrite IH by exact Hm. rewrite !(zero_step_other o (k, v) r Hn). reflexivity.
Qed.
Lemma rsorted_zero_step o kv : rsorted o -> rsorted (zero_step o kv).
Proof.
  intros H. unfold zero_step. destruct (zero_based (snd kv)); [|exact H].
  destruct (opt_aval_eqb _ _); [apply rsorted_insert, H | exact H].
Qed.
Lemma rsorted_zero out rin : rsorted out -> rsorted (rule_zero_to_const_reg out rin).
Proof. rewrite rule_zero_reg_fold. apply fold_left_inv'. intros a x. apply rsorted_zero_step. Qed.

(* ---- the pieces of avail_transfer -------------------------------------------------------------- *)
Definition t_ovw (c : cnode) (ri : regmap) (mi : memmap) : regset :=
  let n := cn c in
  let c_in := set_avail c ri (rout c) mi (mout c) in
  let ow1 := kill_reg n in
  let ow2 := match calls_to n with Some _ => rs_union ow1 return_addr_set | None => ow1 end in
  if is_ecall n then
    rs_union ow2 (match known_ecall_signature c_in with Some (_, rets) => rets | None => program_args_set end)
  else ow2.
Definition t_stale (ow : regset) (v : aval) : bool := match v with ARegScalar r _ => rs_mem r ow | _ => false end.
Definition t_o3 (ow : regset) (ri : regmap) : regmap :=
  filter (fun kv => (negb (rs_mem (fst kv) ow) && negb (t_stale ow (snd kv)))%bool) ri.
Definition t_o7 (n : pnode) (o3 : regmap) : regmap :=
  let o4 := match gen_reg_value n with Some (r, v) => rm_insert r v o3 | None => o3 end in
  let o4 := if is_function_entry n then [] else o4 in
  let o5 := if is_handler_function_entry n then rm_extend_originals all_writable_set o4 else o4 in
  let o6 := if is_function_entry n then rm_extend_originals callee_saved_set o5 else o5 in
  if is_program_entry n then rm_extend_originals sp_ra_set o6 else o6.
Definition t_below (n : pnode) (ri : regmap) (l : memloc) : bool :=
  match calls_to n, l with
  | Some _, MStack off => match stack_offset ri with Some sp => Z.ltb off sp | None => true end
  | _, _ => false
  end.
Definition t_stored (n : pnode) (ri : regmap) : option (option Z * Z) :=
  match n with
  | PStore i rs1 _ imm _ =>
      if N.eqb (wv rs1) 2 then
        Some (option_map (fun sp => sp + wv imm) (stack_offset ri),
              if inst_is i ISb then 1 else if inst_is i ISh then 2 else 4)
      else None
  | _ => None
  end%Z.
Definition t_overl (sb : option (option Z * Z)) (l : memloc) : bool :=
  match l, sb with
  | MStack off, Some (Some start, width) => (Z.ltb off (start + width) && Z.ltb start (off + 4))%bool
  | MStack _, Some (None, _) => true
  | _, _ => false
  end%Z.
Definition t_kept (n : pnode) (ow : regset) (ri : regmap) (mi : memmap) : memmap :=
  filter (fun kv => (negb (t_stale ow (snd kv)) && negb (t_below n ri (fst kv)) && negb (t_overl (t_stored n ri) (fst kv)))%bool) mi.
Definition t_m1 (n : pnode) (ri : regmap) (mk : memmap) : memmap :=
  if is_any_entry n then []
  else match gen_memory_value n with
       | Some (MStack offset, v) =>
           match stack_offset ri with
           | Some cur => mm_insert (MStack (wrap32 (cur + offset))) v mk
           | None => mk
           end
       | Some (loc, v) => mm_insert loc v mk
       | None => mk
       end.
Definition t_regs (n : pnode) (o7 ri : regmap) (mi mo_old : memmap) : regmap :=
  let r1 := rule_expand_address_for_load n o7 ri in
  let r2 := rule_value_from_stack n r1 mi in
  let r3 := rule_pull_value_from_csr_memory n r2 mo_old in
  let r4 := rule_zero_to_const_reg r3 ri in
  rule_perform_math_ops n r4 ri.
Definition t_mems (n : pnode) (m1 : memmap) (ri : regmap) (mi : memmap) (r5 : regmap) : memmap :=
  let m2 := rule_zero_to_const_mem m1 mi in
  let m3 := rule_push_value_to_csr_memory n m2 r5 in
  rule_known_values_to_stack m3 ri.

Lemma transfer_pieces c ri mi :
  avail_transfer c ri mi =
  (let n := cn c in
   let ow := t_ovw c ri mi in
   let r5 := t_regs n (t_o7 n (t_o3 ow ri)) ri mi (mout c) in
   (rm_remove_set const_zero_set r5, t_mems n (t_m1 n ri (t_kept n ow ri mi)) ri mi r5)).
Proof. reflexivity. Qed.

Section Avail.
Variable s : reg -> reg.
Variable rho : str -> str.
Hypothesis Hs : class_perm s.
Hypothesis Hr : label_renaming rho.
Notation rn := (rn_node s rho).
Notation rc := (rn_cnode s rho).
Notation rw := (map_w rho).
Notation ra := (rn_aval s rho).
Notation rg := (rn_cfg s rho).
Notation ps := (perm_set s).
Notation pm := (rn_regmap s rho).
Notation mm := (rn_memmap s rho).

(* ---- values ------------------------------------------------------------------------------------ *)
Lemma aval_eqb_rn a b : aval_eqb (ra a) (ra b) = aval_eqb a b.
Proof.
  destruct a, b; cbn [rn_aval aval_eqb map_w wv]; try reflexivity;
    rewrite ?(s_eqb s Hs), ?(rho_eqb rho Hr); reflexivity.
Qed.
Lemma opt_aval_eqb_rn a b : opt_aval_eqb (option_map ra a) (option_map ra b) = opt_aval_eqb a b.
Proof. destruct a, b; cbn [option_map opt_aval_eqb]; try reflexivity. apply aval_eqb_rn. Qed.
Lemma opt_aval_eqb_rn1 a v : opt_aval_eqb (option_map ra a) (Some (ra v)) = opt_aval_eqb a (Some v).
Proof. apply (opt_aval_eqb_rn a (Some v)). Qed.
Lemma zero_based_rn v : zero_based (ra v) = zero_based v.
Proof.
  destruct v; cbn [rn_aval zero_based]; try reflexivity;
    rewrite (s_fixed_eqb s Hs 0 _ (s_0 s Hs)); reflexivity.
Qed.
Lemma t_stale_rn ow v : t_stale (ps ow) (ra v) = t_stale ow v.
Proof. destruct v; cbn [rn_aval t_stale]; try reflexivity. apply (perm_set_spec s Hs). Qed.
Lemma holds_original_rn r v : holds_original (s r) (ra v) = holds_original r v.
Proof. destruct v; cbn [rn_aval holds_original]; try reflexivity. rewrite (s_eqb s Hs). reflexivity. Qed.

(* ---- register maps ----------------------------------------------------------------------------- *)
Lemma rsorted_pm m : rsorted (pm m).
Proof.
  induction m as [|[k v] m IH]; cbn [rn_regmap fold_right]; [constructor|].
  apply rsorted_insert, IH.
Qed.

(* the generic way to prove an equation  X = pm Y  *)
Lemma pm_ext X Y : rsorted X -> (forall r, rm_get (s r) X = option_map ra (rm_get r Y)) -> X = pm Y.
Proof.
  intros HX E. apply rsorted_ext; [exact HX | apply rsorted_pm|].
  intros n. destruct (cp_surj s Hs n) as [r <-]. rewrite E, (rm_get_rn s rho Hs). reflexivity.
Qed.

Lemma pm_insert r v m : rm_insert (s r) (ra v) (pm m) = pm (rm_insert r v m).
Proof.
  apply pm_ext; [apply rsorted_insert, rsorted_pm|]. intros q.
  rewrite !rm_get_insert, (s_eqb s Hs), (rm_get_rn s rho Hs). destruct (N.eqb r q); reflexivity.
Qed.

Lemma pm_filter (f f' : reg * aval -> bool) m : rsorted m ->
  (forall k v, f' (s k, ra v) = f (k, v)) -> filter f' (pm m) = pm (filter f m).
Proof.
  intros Hm Hf. apply pm_ext; [apply rsorted_filter, rsorted_pm|]. intros q.
  rewrite !rm_get_filter by (try apply rsorted_pm; exact Hm). rewrite (rm_get_rn s rho Hs).
  destruct (rm_get q m) as [v|]; cbn [option_map]; [|reflexivity].
  rewrite Hf. destruct (f (q, v)); reflexivity.
Qed.

Lemma pm_meet a b : rsorted a -> rm_meet (pm a) (pm b) = pm (rm_meet a b).
Proof.
  intros Ha. unfold rm_meet. apply pm_filter; [exact Ha|]. intros k v. cbn [fst snd].
  rewrite (rm_get_rn s rho Hs). apply opt_aval_eqb_rn1.
Qed.

Lemma rm_eqb_rn a b : rsorted a -> rsorted b -> rm_eqb (pm a) (pm b) = rm_eqb a b.
Proof.
  intros Ha Hb. apply bool_iff.
  rewrite (rm_eqb_pointwise (pm a) (pm b) (rsorted_pm a) (rsorted_pm b)), (rm_eqb_pointwise a b Ha Hb). split.
  - intros E r. specialize (E (s r)). rewrite !(rm_get_rn s rho Hs), opt_aval_eqb_rn in E. exact E.
  - intros E n. destruct (cp_surj s Hs n) as [r <-]. rewrite !(rm_get_rn s rho Hs), opt_aval_eqb_rn. apply E.
Qed.

Lemma pm_remove_set S m : rsorted m -> rm_remove_set (ps S) (pm m) = pm (rm_remove_set S m).
Proof.
  intros Hm. unfold rm_remove_set. apply pm_filter; [exact Hm|]. intros k v. cbn [fst].
  rewrite (perm_set_spec s Hs). reflexivity.
Qed.

Lemma pm_extend S m : ps S = S -> rm_extend_originals S (pm m) = pm (rm_extend_originals S m).
Proof.
  intros ES. apply pm_ext; [apply rsorted_extend, rsorted_pm|]. intros q.
  unfold rm_extend_originals. rewrite !rm_get_extend, !existsb_rs_elems, (rm_get_rn s rho Hs).
  rewrite (mem_inv_of s Hs S q ES).
  replace (N.ltb (s q) 32) with (N.ltb q 32).
  2:{ apply bool_iff. rewrite !N.ltb_lt. symmetry. apply (s_lt_iff s Hs). }
  destruct (N.ltb q 32 && rs_mem q S)%bool; reflexivity.
Qed.

Lemma pm_zero out rin : rsorted out -> rsorted rin ->
  rule_zero_to_const_reg (pm out) (pm rin) = pm (rule_zero_to_const_reg out rin).
Proof.
  intros Ho Hi. apply pm_ext; [apply rsorted_zero, rsorted_pm|]. intros q.
  rewrite !rule_zero_reg_fold, !rm_get_zero by (try apply rsorted_pm; exact Hi).
  rewrite !(rm_get_rn s rho Hs).
  destruct (rm_get q rin) as [v|]; cbn [option_map]; [|reflexivity].
  rewrite zero_based_rn. destruct (zero_based v); [|reflexivity].
  rewrite opt_aval_eqb_rn1. destruct (opt_aval_eqb (rm_get q out) (Some v)); reflexivity.
Qed.

Lemma stack_offset_rn m : stack_offset (pm m) = stack_offset m.
Proof.
  unfold stack_offset. rewrite (rm_get_rn_fixed s rho Hs 2 m (s_2 s Hs)).
  destruct (rm_get 2 m) as [[]|]; cbn [option_map rn_aval]; try reflexivity.
  rewrite (s_fixed_eqb s Hs 2 _ (s_2 s Hs)). reflexivity.
Qed.
Lemma is_original_value_rn m r : is_original_value (pm m) (s r) = is_original_value m r.
Proof.
  unfold is_original_value. rewrite (rm_get_rn s rho Hs).
  destruct (rm_get r m) as [[]|]; cbn [option_map rn_aval]; try reflexivity.
  rewrite (s_eqb s Hs). reflexivity.
Qed.

(* ---- memory maps ------------------------------------------------------------------------------- *)
Lemma mm_get_rn l m : mm_get l (mm m) = option_map ra (mm_get l m).
Proof.
  induction m as [|[k v] m IH]; cbn [rn_memmap map mm_get fst snd]; [reflexivity|].
  destruct (memloc_eqb k l); [reflexivity | exact IH].
Qed.
Lemma mm_insert_rn l v m : mm_insert l (ra v) (mm m) = mm (mm_insert l v m).
Proof.
  induction m as [|[k w] m IH]; cbn [rn_memmap map mm_insert fst snd]; [reflexivity|].
  destruct (memloc_eqb k l); [reflexivity|]. destruct (memloc_ltb l k); [reflexivity|].
  cbn [map fst snd]. f_equal. exact IH.
Qed.
Lemma mm_meet_rn a b : mm_meet (mm a) (mm b) = mm (mm_meet a b).
Proof.
  unfold mm_meet, rn_memmap. apply filter_map_comm. intros [k v]. cbn [fst snd].
  fold (rn_memmap s rho b). rewrite mm_get_rn. apply opt_aval_eqb_rn1.
Qed.
Lemma mm_eqb_rn a : forall b, mm_eqb (mm a) (mm b) = mm_eqb a b.
Proof.
  induction a as [|[k v] a IH]; intros [|[l w] b]; cbn [rn_memmap map mm_eqb fst snd]; try reflexivity.
  rewrite aval_eqb_rn. fold (rn_memmap s rho a). fold (rn_memmap s rho b). rewrite IH. reflexivity.
Qed.
Lemma mm_filter (f f' : memloc * aval -> bool) m :
  (forall k v, f' (k, ra v) = f (k, v)) -> filter f' (mm m) = mm (filter f m).
Proof. intros H. unfold rn_memmap. apply filter_map_comm. intros [k v]. apply H. Qed.


(* ---- the rules ---------------------------------------------------------------------------------- *)
Lemma rule_expand_rn n out rin :
  rule_expand_address_for_load (rn n) (pm out) (pm rin) = pm (rule_expand_address_for_load n out rin).
Proof.
  unfold rule_expand_address_for_load.
  destruct n; cbn [rn_node rename_regs rename_labels writes_to]; try reflexivity.
  cbn [map_w wv]. rewrite (rm_get_rn s rho Hs).
  destruct (rm_get (wv rs1) rin) as [[]|]; cbn [option_map rn_aval]; try reflexivity.
  - apply (pm_insert (wv rd) (AMem (wv l) (wv imm))).
  - apply (pm_insert (wv rd) (AMemAtOrig r (wrap32 (off + wv imm)))).
Qed.

Lemma rule_vfs_rn n out mi :
  rule_value_from_stack (rn n) (pm out) (mm mi) = pm (rule_value_from_stack n out mi).
Proof.
  unfold rule_value_from_stack. rewrite (rn_writes_to s rho), (rn_loads_word s rho).
  destruct (writes_to n) as [dst|]; cbn [option_map map_w wv]; [|reflexivity].
  set (out1 := match rm_get (wv dst) out with
               | Some (AValueInCsr csr) => match mm_get (MCsr csr) mi with Some v => rm_insert (wv dst) v out | None => out end
               | _ => out end).
  assert (E1 : match rm_get (s (wv dst)) (pm out) with
               | Some (AValueInCsr csr) =>
                   match mm_get (MCsr csr) (mm mi) with Some v => rm_insert (s (wv dst)) v (pm out) | None => pm out end
               | _ => pm out end = pm out1).
  { unfold out1. rewrite (rm_get_rn s rho Hs).
    destruct (rm_get (wv dst) out) as [[]|]; cbn [option_map rn_aval]; try reflexivity.
    rewrite mm_get_rn. destruct (mm_get (MCsr c) mi); cbn [option_map]; [apply pm_insert | reflexivity]. }
  rewrite E1. rewrite (rm_get_rn s rho Hs).
  destruct (rm_get (wv dst) out1) as [[]|]; cbn [option_map rn_aval]; try reflexivity.
  rewrite (s_fixed_eqb s Hs 2 _ (s_2 s Hs)). destruct (N.eqb r 2 && loads_word n)%bool; [|reflexivity].
  rewrite mm_get_rn. destruct (mm_get (MStack off) mi); cbn [option_map]; [apply pm_insert | reflexivity].
Qed.

Lemma rule_pull_rn n out mo :
  rule_pull_value_from_csr_memory (rn n) (pm out) (mm mo) = pm (rule_pull_value_from_csr_memory n out mo).
Proof.
  unfold rule_pull_value_from_csr_memory. rewrite (rn_reads_from_memory s rho).
  destruct (reads_from_memory n) as [[[r off] dest]|]; cbn [option_map pairm fst snd]; [|reflexivity].
  rewrite (rm_get_rn s rho Hs). destruct (rm_get r out) as [[]|]; cbn [option_map rn_aval]; try reflexivity.
  rewrite mm_get_rn. destruct (mm_get (MCsrOff c off) mo); cbn [option_map]; [apply pm_insert | reflexivity].
Qed.

Lemma rule_math_rn n out rin :
  rule_perform_math_ops (rn n) (pm out) (pm rin) = pm (rule_perform_math_ops n out rin).
Proof.
  unfold rule_perform_math_ops. rewrite (rn_node_inst s rho).
  destruct n; cbn [rn_node rename_regs rename_labels writes_to map_w wv]; try reflexivity.
  - rewrite !(rm_get_rn s rho Hs).
    destruct (rm_get (wv rs1) rin) as [[]|]; destruct (rm_get (wv rs2) rin) as [[]|];
      cbn [option_map rn_aval]; try reflexivity.
    + destruct (math_op _); cbn [option_map]; [apply (pm_insert (wv rd) (AConst _)) | reflexivity].
    + destruct (scalar_op _) as [[]|]; try reflexivity. apply (pm_insert (wv rd) (AOrig _ _)).
    + destruct (scalar_op _); cbn [option_map]; [apply (pm_insert (wv rd) (AOrig _ _)) | reflexivity].
  - rewrite !(rm_get_rn s rho Hs).
    destruct (rm_get (wv rs1) rin) as [[]|]; cbn [option_map rn_aval]; try reflexivity.
    + destruct (math_op _); cbn [option_map]; [apply (pm_insert (wv rd) (AConst _)) | reflexivity].
    + destruct (scalar_op _); cbn [option_map]; [apply (pm_insert (wv rd) (AOrig _ _)) | reflexivity].
Qed.

Lemma rule_zero_mem_rn mo mi : rule_zero_to_const_mem (mm mo) (mm mi) = mm (rule_zero_to_const_mem mo mi).
Proof.
  unfold rule_zero_to_const_mem. unfold rn_memmap at 2. apply (fold_left_map_both mm).
  intros a [k v]. cbn [fst snd]. rewrite zero_based_rn. destruct (zero_based v); [|reflexivity].
  rewrite mm_get_rn, opt_aval_eqb_rn1. destruct (opt_aval_eqb (mm_get k a) (Some v)); [|reflexivity].
  apply (mm_insert_rn k (AConst z)).
Qed.

Lemma rule_known_rn mo rin : rule_known_values_to_stack (mm mo) (pm rin) = mm (rule_known_values_to_stack mo rin).
Proof.
  unfold rule_known_values_to_stack. unfold rn_memmap at 2. apply (fold_left_map_both mm).
  intros a [k v]. cbn [fst snd]. destruct v; cbn [rn_aval]; try reflexivity.
  rewrite (rm_get_rn s rho Hs). destruct (rm_get r rin) as [[]|]; cbn [option_map rn_aval]; try reflexivity.
  - apply (mm_insert_rn k (AConst _)).
  - apply (mm_insert_rn k (AOrig _ _)).
Qed.

Lemma rule_push_rn n mo out :
  rule_push_value_to_csr_memory (rn n) (mm mo) (pm out) = mm (rule_push_value_to_csr_memory n mo out).
Proof.
  unfold rule_push_value_to_csr_memory. rewrite (rn_stores_to_memory s rho Hs).
  destruct (stores_to_memory n) as [[src [r off]]|]; cbn [option_map pair3 fst snd]; [|reflexivity].
  rewrite (rm_get_rn s rho Hs). destruct (rm_get r out) as [[]|]; cbn [option_map rn_aval]; try reflexivity.
  apply (mm_insert_rn _ (ARegScalar src 0)).
Qed.

(* sortedness is kept by the rules *)
Lemma rsorted_rule_expand n out rin : rsorted out -> rsorted (rule_expand_address_for_load n out rin).
Proof.
  intros H. unfold rule_expand_address_for_load. destruct (writes_to n); [|exact H].
  destruct n; try exact H. destruct (rm_get (wv rs1) rin) as [[]|]; try exact H; apply rsorted_insert, H.
Qed.
Lemma rsorted_rule_vfs n out mi : rsorted out -> rsorted (rule_value_from_stack n out mi).
Proof.
  intros H. unfold rule_value_from_stack. destruct (writes_to n) as [dst|]; [|exact H].
  set (out1 := match rm_get (wv dst) out with Some (AValueInCsr csr) => _ | _ => out end).
  assert (H1 : rsorted out1).
  { unfold out1. destruct (rm_get (wv dst) out) as [[]|]; try exact H.
    destruct (mm_get (MCsr c) mi); [apply rsorted_insert, H | exact H]. }
  destruct (rm_get (wv dst) out1) as [[]|]; try exact H1.
  destruct (N.eqb r 2 && loads_word n)%bool; [|exact H1].
  destruct (mm_get (MStack off) mi); [apply rsorted_insert, H1 | exact H1].
Qed.
Lemma rsorted_rule_pull n out mo : rsorted out -> rsorted (rule_pull_value_from_csr_memory n out mo).
Proof.
  intros H. unfold rule_pull_value_from_csr_memory. destruct (reads_from_memory n) as [[[r off] dest]|]; [|exact H].
  destruct (rm_get r out) as [[]|]; try exact H. destruct (mm_get (MCsrOff c off) mo); [apply rsorted_insert, H | exact H].
Qed.
Lemma rsorted_rule_math n out rin : rsorted out -> rsorted (rule_perform_math_ops n out rin).
Proof.
  intros H. unfold rule_perform_math_ops. destruct (writes_to n) as [dst|]; [|exact H].
  match goal with |- rsorted (match ?r with Some v => _ | None => _ end) => destruct r end;
    [apply rsorted_insert, H | exact H].
Qed.

(* ---- the pieces -------------------------------------------------------------------------------- *)
Lemma rc_set_avail c ri ro mi mo :
  rc (set_avail c ri ro mi mo) = set_avail (rc c) (pm ri) (pm ro) (mm mi) (mm mo).
Proof. rc_fields. Qed.

Lemma t_ovw_rn c ri mi : t_ovw (rc c) (pm ri) (mm mi) = ps (t_ovw c ri mi).
Proof.
  unfold t_ovw. cbv zeta.
  change (rout (rc c)) with (pm (rout c)). change (mout (rc c)) with (mm (mout c)).
  rewrite <- rc_set_avail, (known_ecall_signature_rn s rho Hs).
  change (cn (rc c)) with (rn (cn c)).
  rewrite (rn_kill_reg s rho Hs), (rn_calls_to s rho Hs), (rn_is_ecall s rho).
  set (ow2 := match calls_to (cn c) with Some _ => rs_union (kill_reg (cn c)) return_addr_set | None => kill_reg (cn c) end).
  assert (E2 : match option_map rw (calls_to (cn c)) with
               | Some _ => rs_union (ps (kill_reg (cn c))) return_addr_set
               | None => ps (kill_reg (cn c)) end = ps ow2).
  { unfold ow2. destruct (calls_to (cn c)); cbn [option_map]; [|reflexivity].
    rewrite (perm_set_union s Hs), (ps_return_addr s Hs). reflexivity. }
  rewrite E2. destruct (is_ecall (cn c)); [|reflexivity].
  rewrite (perm_set_union s Hs). f_equal.
  set (c_in := set_avail c ri (rout c) mi (mout c)).
  assert (INV : forall a r, known_ecall_signature c_in = Some (a, r) -> ps r = r).
  { intros a r E. unfold known_ecall_signature in E. destruct (known_ecall c_in) as [k|]; [|discriminate].
    apply (env_invariant s Hs k a r E). }
  destruct (known_ecall_signature c_in) as [[a r]|]; [symmetry; apply (INV a r eq_refl) | symmetry; apply ps_program_args, Hs].
Qed.

Lemma t_o3_rn ow ri : rsorted ri -> t_o3 (ps ow) (pm ri) = pm (t_o3 ow ri).
Proof.
  intros H. unfold t_o3. apply pm_filter; [exact H|]. intros k v. cbn [fst snd].
  rewrite (perm_set_spec s Hs), t_stale_rn. reflexivity.
Qed.

Lemma t_o7_rn n o3 : t_o7 (rn n) (pm o3) = pm (t_o7 n o3).
Proof.
  unfold t_o7. cbv zeta.
  rewrite (rn_gen_reg_value s rho Hs), (rn_is_function_entry s rho), (rn_is_handler s rho), (rn_is_program_entry s rho).
  set (o4 := match gen_reg_value n with Some (r, v) => rm_insert r v o3 | None => o3 end).
  assert (E : match option_map (rn_kv s rho) (gen_reg_value n) with
              | Some (r, v) => rm_insert r v (pm o3) | None => pm o3 end = pm o4).
  { unfold o4. destruct (gen_reg_value n) as [[r v]|]; cbn [option_map rn_kv fst snd]; [apply pm_insert | reflexivity]. }
  rewrite E. clearbody o4.
  destruct (is_function_entry n), (is_handler_function_entry n), (is_program_entry n);
    rewrite <- ?(pm_extend sp_ra_set _ (ps_sp_ra s Hs)), <- ?(pm_extend callee_saved_set _ (ps_callee_saved s Hs)),
            <- ?(pm_extend all_writable_set _ (ps_all_writable s Hs)); reflexivity.
Qed.

Lemma t_below_rn n ri l : t_below (rn n) (pm ri) l = t_below n ri l.
Proof.
  unfold t_below. rewrite (rn_calls_to s rho Hs), stack_offset_rn. destruct (calls_to n); reflexivity.
Qed.
Lemma t_stored_rn n ri : t_stored (rn n) (pm ri) = t_stored n ri.
Proof.
  destruct n; try reflexivity. cbn [rn_node rename_regs rename_labels t_stored map_w wv].
  rewrite (s_fixed_eqb s Hs 2 _ (s_2 s Hs)), stack_offset_rn. reflexivity.
Qed.
Lemma t_kept_rn n ow ri mi : t_kept (rn n) (ps ow) (pm ri) (mm mi) = mm (t_kept n ow ri mi).
Proof.
  unfold t_kept. apply mm_filter. intros k v. cbn [fst snd].
  rewrite t_stale_rn, t_below_rn, t_stored_rn. reflexivity.
Qed.
Lemma t_m1_rn n ri mk : t_m1 (rn n) (pm ri) (mm mk) = mm (t_m1 n ri mk).
Proof.
  unfold t_m1. rewrite (rn_is_any_entry s rho), (rn_gen_memory_value s rho Hs), stack_offset_rn.
  destruct (is_any_entry n); [reflexivity|].
  destruct (gen_memory_value n) as [[[off|c|c off] v]|]; cbn [option_map rn_mkv fst snd]; try apply mm_insert_rn; [|reflexivity].
  destruct (stack_offset ri); [apply mm_insert_rn | reflexivity].
Qed.

Lemma rsorted_t_o3 ow ri : rsorted ri -> rsorted (t_o3 ow ri).
Proof. apply rsorted_filter. Qed.
Lemma rsorted_t_o7 n o3 : rsorted o3 -> rsorted (t_o7 n o3).
Proof.
  intros H. unfold t_o7. cbv zeta.
  set (o4 := match gen_reg_value n with Some (r, v) => rm_insert r v o3 | None => o3 end).
  assert (H4 : rsorted o4) by (unfold o4; destruct (gen_reg_value n) as [[r v]|]; [apply rsorted_insert, H | exact H]).
  clearbody o4.
  destruct (is_function_entry n), (is_handler_function_entry n), (is_program_entry n);
    repeat apply rsorted_extend; first [exact H4 | constructor].
Qed.
Lemma rsorted_t_regs n o7 ri mi mo : rsorted o7 -> rsorted (t_regs n o7 ri mi mo).
Proof.
  intros H. unfold t_regs. cbv zeta.
  apply rsorted_rule_math, rsorted_zero, rsorted_rule_pull, rsorted_rule_vfs, rsorted_rule_expand, H.
Qed.

Lemma t_regs_rn n o7 ri mi mo : rsorted o7 -> rsorted ri ->
  t_regs (rn n) (pm o7) (pm ri) (mm mi) (mm mo) = pm (t_regs n o7 ri mi mo).
Proof.
  intros H7 Hi. unfold t_regs. cbv zeta.
  rewrite rule_expand_rn, rule_vfs_rn, rule_pull_rn.
  rewrite pm_zero by (try exact Hi; apply rsorted_rule_pull, rsorted_rule_vfs, rsorted_rule_expand, H7).
  apply rule_math_rn.
Qed.
Lemma t_mems_rn n m1 ri mi r5 : t_mems (rn n) (mm m1) (pm ri) (mm mi) (pm r5) = mm (t_mems n m1 ri mi r5).
Proof. unfold t_mems. cbv zeta. rewrite rule_zero_mem_rn, rule_push_rn. apply rule_known_rn. Qed.

Theorem avail_transfer_rn c ri mi : rsorted ri ->
  avail_transfer (rc c) (pm ri) (mm mi) = (pm (fst (avail_transfer c ri mi)), mm (snd (avail_transfer c ri mi))).
Proof.
  intros Hi. rewrite !transfer_pieces. cbv zeta. cbn [fst snd].
  change (cn (rc c)) with (rn (cn c)). change (mout (rc c)) with (mm (mout c)).
  rewrite t_ovw_rn, (t_o3_rn _ _ Hi), t_o7_rn, t_kept_rn, t_m1_rn.
  rewrite t_regs_rn by (try exact Hi; apply rsorted_t_o7, rsorted_t_o3, Hi).
  rewrite t_mems_rn. f_equal.
  rewrite <- (ps_const_zero s Hs) at 1. apply pm_remove_set, rsorted_t_regs, rsorted_t_o7, rsorted_t_o3, Hi.
Qed.

Lemma avail_transfer_sorted c ri mi : rsorted ri -> rsorted (fst (avail_transfer c ri mi)).
Proof.
  intros Hi. rewrite transfer_pieces. cbv zeta. cbn [fst].
  apply rsorted_filter, rsorted_t_regs, rsorted_t_o7, rsorted_t_o3, Hi.
Qed.

(* ---- the pass ----------------------------------------------------------------------------------- *)
Lemma nth_opt_In' {A} (l : list A) : forall i x, nth_opt l i = Some x -> In x l.
Proof. induction l as [|y l IH]; intros [|i] x H; cbn in H; try discriminate; [injection H as ->; left; reflexivity | right; eapply IH, H]. Qed.

Lemma in_upd {A} (f : A -> A) (l : list A) : forall i y, In y (upd l i f) -> In y l \/ exists x, In x l /\ y = f x.
Proof.
  induction l as [|x l IH]; intros [|i] y H; cbn [upd In] in *; try tauto.
  - destruct H as [<-|H]; [right; exists x; auto | left; auto].
  - destruct H as [<-|H]; [left; auto|]. destruct (IH i y H) as [H1|[z [Hz ->]]]; [left; auto | right; exists z; auto].
Qed.

Lemma rsorted_meet_regs g pl v : maps_sorted g -> rsorted (meet_regs g pl v).
Proof.
  intros Hg. unfold meet_regs. destruct (filter (fun p => memn p v) pl) as [|p ps']; [constructor|].
  apply fold_left_inv'.
  - intros a q Ha. destruct (getn g q); [apply rsorted_filter, Ha | exact Ha].
  - destruct (getn g p) as [c|] eqn:E; [|constructor]. apply nth_opt_In' in E. apply Hg, E.
Qed.

Lemma meet_regs_rn g pl v : maps_sorted g -> meet_regs (map rc g) pl v = pm (meet_regs g pl v).
Proof.
  intros Hg. unfold meet_regs. destruct (filter (fun p => memn p v) pl) as [|p ps']; [reflexivity|].
  transitivity (fold_left (fun acc q => match getn (map rc g) q with Some c => rm_meet acc (rout c) | None => acc end) ps'
                          (pm (match getn g p with Some c => rout c | None => [] end))).
  { f_equal. rewrite (getn_rc s rho). destruct (getn g p); reflexivity. }
  apply (fold_left_map_comm_inv rsorted).
  - intros a q Ha. destruct (getn g q); [apply rsorted_filter, Ha | exact Ha].
  - intros a q Ha. rewrite (getn_rc s rho). destruct (getn g q) as [c|]; cbn [option_map]; [|reflexivity].
    change (rout (rc c)) with (pm (rout c)). apply pm_meet, Ha.
  - destruct (getn g p) as [c|] eqn:E; [|constructor]. apply nth_opt_In' in E. apply Hg, E.
Qed.

Lemma meet_mems_rn g pl v : meet_mems (map rc g) pl v = mm (meet_mems g pl v).
Proof.
  unfold meet_mems. destruct (filter (fun p => memn p v) pl) as [|p ps']; [reflexivity|].
  transitivity (fold_left (fun acc q => match getn (map rc g) q with Some c => mm_meet acc (mout c) | None => acc end) ps'
                          (mm (match getn g p with Some c => mout c | None => [] end))).
  { f_equal. rewrite (getn_rc s rho). destruct (getn g p); reflexivity. }
  apply fold_left_map_comm. intros a q. rewrite (getn_rc s rho). destruct (getn g q) as [c|]; cbn [option_map]; [|reflexivity].
  change (mout (rc c)) with (mm (mout c)). apply mm_meet_rn.
Qed.

Lemma avail_node_rn g v i : maps_sorted g ->
  avail_node (map rc g) v i = (map rc (fst (avail_node g v i)), snd (avail_node g v i)).
Proof.
  intros Hg. unfold avail_node. rewrite (getn_rc s rho).
  destruct (getn g i) as [c|] eqn:Ec; cbn [option_map]; [|reflexivity].
  change (prevs (rc c)) with (prevs c).
  rewrite (meet_regs_rn g _ _ Hg), meet_mems_rn.
  pose proof (rsorted_meet_regs g (prevs c) v Hg) as Hri.
  rewrite (avail_transfer_rn c _ _ Hri).
  pose proof (avail_transfer_sorted c (meet_regs g (prevs c) v) (meet_mems g (prevs c) v) Hri) as Hro.
  destruct (avail_transfer c (meet_regs g (prevs c) v) (meet_mems g (prevs c) v)) as [ro mo]. cbn [fst snd] in *.
  change (rin (rc c)) with (pm (rin c)). change (rout (rc c)) with (pm (rout c)).
  change (min (rc c)) with (mm (min c)). change (mout (rc c)) with (mm (mout c)).
  apply nth_opt_In' in Ec. destruct (Hg c Ec) as [Hci Hco].
  rewrite !rm_eqb_rn, !mm_eqb_rn by assumption.
  f_equal. symmetry. apply map_upd_comm. intros x. apply rc_set_avail.
Qed.

Lemma avail_node_sorted g v i : maps_sorted g -> maps_sorted (fst (avail_node g v i)).
Proof.
  intros Hg. unfold avail_node. destruct (getn g i) as [c|]; [|exact Hg].
  pose proof (rsorted_meet_regs g (prevs c) v Hg) as Hri.
  pose proof (avail_transfer_sorted c (meet_regs g (prevs c) v) (meet_mems g (prevs c) v) Hri) as Hro.
  destruct (avail_transfer c (meet_regs g (prevs c) v) (meet_mems g (prevs c) v)) as [ro mo]. cbn [fst snd] in *.
  intros y Hy. apply in_upd in Hy. destruct Hy as [Hy|[x [Hx ->]]]; [apply Hg, Hy|].
  cbn [set_avail rin rout]. split; assumption.
Qed.

Lemma avail_sweep_rn idx : forall g v ch, maps_sorted g ->
  avail_sweep idx (map rc g) v ch = (let '(g', v', ch') := avail_sweep idx g v ch in (map rc g', v', ch')).
Proof.
  induction idx as [|i idx IH]; intros g v ch Hg; cbn [avail_sweep]; [reflexivity|].
  rewrite (avail_node_rn g v i Hg). pose proof (avail_node_sorted g v i Hg) as Hg'.
  destruct (avail_node g v i) as [g' c']. cbn [fst snd] in *. apply IH, Hg'.
Qed.
Lemma avail_sweep_sorted idx : forall g v ch, maps_sorted g -> maps_sorted (fst (fst (avail_sweep idx g v ch))).
Proof.
  induction idx as [|i idx IH]; intros g v ch Hg; cbn [avail_sweep]; [exact Hg|].
  pose proof (avail_node_sorted g v i Hg) as Hg'.
  destruct (avail_node g v i) as [g' c']. cbn [fst snd] in *. apply IH, Hg'.
Qed.

Lemma avail_loop_rn fuel : forall g v, maps_sorted g ->
  avail_loop fuel (map rc g) v = map_res (map rc) (avail_loop fuel g v).
Proof.
  induction fuel as [|f IH]; intros g v Hg; cbn [avail_loop]; [reflexivity|].
  rewrite map_length, (avail_sweep_rn _ g v false Hg).
  pose proof (avail_sweep_sorted (seq 0 (length g)) g v false Hg) as Hg'.
  destruct (avail_sweep (seq 0 (length g)) g v false) as [[g' v'] ch']. cbn [fst] in Hg'.
  destruct ch'; [apply IH, Hg' | reflexivity].
Qed.
Lemma avail_loop_sorted fuel : forall g v g', maps_sorted g -> avail_loop fuel g v = Ok g' -> maps_sorted g'.
Proof.
  induction fuel as [|f IH]; intros g v g' Hg E; cbn [avail_loop] in E; [discriminate|].
  pose proof (avail_sweep_sorted (seq 0 (length g)) g v false Hg) as Hg1.
  destruct (avail_sweep (seq 0 (length g)) g v false) as [[g1 v1] ch1]. cbn [fst] in Hg1.
  destruct ch1; [eapply IH; eassumption | injection E as <-; exact Hg1].
Qed.

Theorem avail_pass_rn g : maps_sorted (gnodes g) -> avail_pass (rg g) = map_res rg (avail_pass g).
Proof.
  intros Hg. unfold avail_pass, avail_fuel. cbn [rn_cfg gnodes gfuncs glabelfn]. rewrite map_length.
  fold (rn_cfg s rho g). rewrite (avail_loop_rn _ _ _ Hg).
  destruct (avail_loop _ (gnodes g) []); reflexivity.
Qed.

End Avail.

Theorem avail_pass_sorted g g' : maps_sorted (gnodes g) -> avail_pass g = Ok g' -> maps_sorted (gnodes g').
Proof.
  intros Hg E. unfold avail_pass in E.
  destruct (avail_loop (avail_fuel g) (gnodes g) []) as [ns| |] eqn:El; cbn [bind] in E; try discriminate.
  injection E as <-. cbn [gnodes]. eapply avail_loop_sorted; eassumption.
Qed.
