(* C14, part 3: the liveness pass commutes with renaming. *)
From Coq Require Import Lia ZifyBool ZifyN Sorting.Sorted Permutation.
From RV.Model Require Import Base I32 Imm Lexer Isa Parser Reader Cfg Avail Live Lints.
From RV.Spec Require Import RenameSpec.
From RV.Proofs Require Import RenameBase RenameGraph.
Open Scope N_scope.

Section Live.
Variable s : reg -> reg.
Variable rho : str -> str.
Hypothesis Hs : class_perm s.
Hypothesis Hr : label_renaming rho.
Notation rn := (rn_node s rho).
Notation rc := (rn_cnode s rho).
Notation rw := (map_w rho).
Notation rg := (rn_cfg s rho).
Notation ps := (perm_set s).

Lemma assoc_fn_rn x l : assoc_fn (rho x) (map (fun kv => (rho (fst kv), snd kv)) l) = assoc_fn x l.
Proof.
  induction l as [|[k v] l IH]; cbn [map assoc_fn fst snd]; [reflexivity|].
  rewrite (rho_eqb rho Hr), IH. reflexivity.
Qed.

Lemma calls_to_from_cfg_rn G c : calls_to_from_cfg (rg G) (rc c) = calls_to_from_cfg G c.
Proof.
  unfold calls_to_from_cfg. cbn [rn_cnode cn rn_cfg glabelfn].
  rewrite (rn_calls_to s rho Hs), (rn_is_some_jump s rho Hs).
  destruct (calls_to (cn c)) as [name|]; cbn [option_map map_w wv]; [apply assoc_fn_rn|].
  destruct (is_some_jump_to_label (cn c)) as [name|]; cbn [option_map map_w wv]; [apply assoc_fn_rn|reflexivity].
Qed.

Lemma union_live_in_rn ns l : union_live_in (map rc ns) l = ps (union_live_in ns l).
Proof.
  unfold union_live_in.
  transitivity (fold_left (fun acc i => match getn (map rc ns) i with Some c => rs_union acc (lin c) | None => acc end) l (ps rs_empty)).
  { rewrite (perm_set_empty s Hs). reflexivity. }
  apply fold_left_map_comm. intros a i. rewrite getn_rc. destruct (getn ns i) as [c|]; cbn [option_map]; [|reflexivity].
  cbn [rn_cnode lin]. rewrite (perm_set_union s Hs). reflexivity.
Qed.

Lemma meet_udef_rn ns pl v : meet_udef (map rc ns) pl v = ps (meet_udef ns pl v).
Proof.
  unfold meet_udef. destruct (filter (fun p => memn p v) pl) as [|p ps']; [symmetry; apply perm_set_empty, Hs|].
  transitivity (fold_left (fun acc q => match getn (map rc ns) q with Some c => rs_inter acc (udef c) | None => acc end) ps'
                          (ps (match getn ns p with Some c => udef c | None => rs_empty end))).
  { f_equal. rewrite getn_rc. destruct (getn ns p) as [c|]; cbn [option_map]; [reflexivity|].
    symmetry. apply perm_set_empty, Hs. }
  apply fold_left_map_comm. intros a i. rewrite getn_rc. destruct (getn ns i) as [c|]; cbn [option_map]; [|reflexivity].
  cbn [rn_cnode udef]. rewrite (perm_set_inter s Hs). reflexivity.
Qed.

Lemma lin_at_rn ns j :
  match getn (map rc ns) j with Some e => lin e | None => rs_empty end
  = ps (match getn ns j with Some e => lin e | None => rs_empty end).
Proof. rewrite getn_rc. destruct (getn ns j); cbn [option_map]; [reflexivity | symmetry; apply perm_set_empty, Hs]. Qed.
Lemma udef_at_rn ns j :
  match getn (map rc ns) j with Some e => udef e | None => rs_empty end
  = ps (match getn ns j with Some e => udef e | None => rs_empty end).
Proof. rewrite getn_rc. destruct (getn ns j); cbn [option_map]; [reflexivity | symmetry; apply perm_set_empty, Hs]. Qed.
Lemma entry_lo_rn ns fe (i : nat) lo :
  match getn (map rc ns) fe with Some e => if Nat.eqb fe i then ps lo else lout e | None => rs_empty end
  = ps (match getn ns fe with Some e => if Nat.eqb fe i then lo else lout e | None => rs_empty end).
Proof.
  rewrite getn_rc. destruct (getn ns fe); cbn [option_map]; [|symmetry; apply perm_set_empty, Hs].
  destruct (Nat.eqb fe i); reflexivity.
Qed.
Lemma cur_rn ns i c :
  match getn (map rc ns) i with Some x => x | None => rc c end = rc (match getn ns i with Some x => x | None => c end).
Proof. rewrite getn_rc. destruct (getn ns i); reflexivity. Qed.

Lemma rc_set_live x li lo ud : rc (set_live x li lo ud) = set_live (rc x) (ps li) (ps lo) (ps ud).
Proof. rc_fields. Qed.
Lemma rc_set_lin x li : rc (set_lin x li) = set_lin (rc x) (ps li).
Proof. rc_fields. Qed.

Lemma upd_set_live_rn ns i li lo ud :
  map rc (upd ns i (fun x => set_live x li lo ud)) = upd (map rc ns) i (fun x => set_live x (ps li) (ps lo) (ps ud)).
Proof. apply map_upd_comm. intros x. apply rc_set_live. Qed.

Lemma lin_rc c : lin (rc c) = ps (lin c). Proof. reflexivity. Qed.
Lemma lout_rc c : lout (rc c) = ps (lout c). Proof. reflexivity. Qed.
Lemma udef_rc c : udef (rc c) = ps (udef c). Proof. reflexivity. Qed.

Lemma pull_inv_union X S : ps S = S -> rs_union (ps X) S = ps (rs_union X S).
Proof. intros E. rewrite (perm_set_union s Hs), E. reflexivity. Qed.
Lemma pull_inv_diff X S : ps S = S -> rs_diff (ps X) S = ps (rs_diff X S).
Proof. intros E. rewrite (perm_set_diff s Hs), E. reflexivity. Qed.
Lemma pull_inv_inter X S : ps S = S -> rs_inter (ps X) S = ps (rs_inter X S).
Proof. intros E. rewrite (perm_set_inter s Hs), E. reflexivity. Qed.

Ltac pull :=
  repeat first
    [ rewrite (pull_inv_diff _ caller_saved_set (ps_caller_saved s Hs))
    | rewrite (pull_inv_inter _ return_set (ps_return s Hs))
    | rewrite (pull_inv_inter _ argument_set (ps_argument s Hs))
    | rewrite (pull_inv_union _ ecall_always_argument_set (ps_ecall_always s Hs))
    | rewrite (pull_inv_union _ rs_empty (perm_set_empty s Hs))
    | rewrite <- (perm_set_union s Hs)
    | rewrite <- (perm_set_inter s Hs)
    | rewrite <- (perm_set_diff s Hs) ].

Lemma live_node_rn G ns v i :
  live_node (rg G) (map rc ns) v i = (map rc (fst (live_node G ns v i)), snd (live_node G ns v i)).
Proof.
  unfold live_node. rewrite getn_rc. destruct (getn ns i) as [c|]; cbn [option_map fst snd]; [|reflexivity].
  rewrite calls_to_from_cfg_rn.
  destruct (calls_to_from_cfg G c) as [fid|].
  - (* a call *)
    cbn [rn_cfg gfuncs]. rewrite nth_opt_map'. destruct (nth_opt (gfuncs G) fid) as [f|]; cbn [option_map fst snd]; [|reflexivity].
    cbv zeta. cbn [rn_func fexit fentry]. cbn [rn_cnode cn nexts prevs].
    rewrite !union_live_in_rn, !lin_at_rn.
    rewrite <- (perm_set_union s Hs).
    rewrite <- (map_upd_comm rc (fun e => set_lin e (rs_union (union_live_in ns (nexts c))
                                                   match getn ns (fexit f) with Some e0 => lin e0 | None => rs_empty end)))
      by (intros x; apply rc_set_lin).
    set (ns1 := upd ns (fexit f) _).
    rewrite !udef_at_rn, !meet_udef_rn, !entry_lo_rn, !cur_rn.
    fold (rn_node s rho (cn c)).
    rewrite (rn_kill_reg s rho Hs), (rn_gen_reg s rho Hs).
    cbn [lin lout udef rn_cnode]. pull. rewrite !(perm_set_eqb s Hs).
    rewrite upd_set_live_rn. reflexivity.
  - (* no call *)
    cbv zeta. cbn [rn_cnode cn nexts prevs lin lout udef].
    rewrite !union_live_in_rn, !meet_udef_rn.
    fold (rn_node s rho (cn c)). fold (rn_cnode s rho c).
    rewrite (rn_is_ecall s rho), (rn_is_return s rho Hs), (rn_is_function_entry s rho).
    rewrite (rn_kill_reg s rho Hs), (rn_gen_reg s rho Hs).
    rewrite known_ecall_signature_rn by assumption.
    destruct (is_ecall (cn c)).
    + assert (INV : forall a r, known_ecall_signature c = Some (a, r) -> ps a = a /\ ps r = r).
      { intros a r E. unfold known_ecall_signature in E. destruct (known_ecall c) as [k|]; [|discriminate].
        apply (env_invariant s Hs k a r E). }
      destruct (known_ecall_signature c) as [[a r]|].
      * destruct (INV a r eq_refl) as [Ea Er]. cbv beta iota zeta. cbn [fst snd].
        pull. rewrite (pull_inv_union _ a Ea), (pull_inv_union _ r Er). rewrite !(perm_set_eqb s Hs).
        rewrite upd_set_live_rn. reflexivity.
      * cbv beta iota zeta. cbn [fst snd].
        pull. rewrite !(perm_set_eqb s Hs).
        rewrite upd_set_live_rn. reflexivity.
    + destruct (is_return (cn c)).
      * cbv beta iota zeta. cbn [fst snd]. pull. rewrite !(perm_set_eqb s Hs).
        rewrite upd_set_live_rn. reflexivity.
      * destruct (is_function_entry (cn c)).
        -- cbv beta iota zeta. cbn [fst snd]. pull. rewrite !(perm_set_eqb s Hs).
           rewrite upd_set_live_rn. reflexivity.
        -- cbv beta iota zeta. cbn [fst snd]. pull. rewrite !(perm_set_eqb s Hs).
           rewrite upd_set_live_rn. reflexivity.
Qed.

Lemma live_sweep_rn G idx : forall ns v ch,
  live_sweep (rg G) idx (map rc ns) v ch
  = (let '(ns', v', ch') := live_sweep G idx ns v ch in (map rc ns', v', ch')).
Proof.
  induction idx as [|i idx IH]; intros ns v ch; cbn [live_sweep]; [reflexivity|].
  rewrite live_node_rn. destruct (live_node G ns v i) as [ns' c']. cbn [fst snd]. apply IH.
Qed.

Lemma live_loop_rn G fuel : forall ns v,
  live_loop fuel (rg G) (map rc ns) v = map_res (map rc) (live_loop fuel G ns v).
Proof.
  induction fuel as [|f IH]; intros ns v; cbn [live_loop]; [reflexivity|].
  rewrite map_length, live_sweep_rn.
  destruct (live_sweep G (rev (seq 0 (length ns))) ns v false) as [[ns' v'] ch'].
  destruct ch'; [apply IH | reflexivity].
Qed.

Theorem liveness_pass_rn g : liveness_pass (rg g) = map_res rg (liveness_pass g).
Proof.
  unfold liveness_pass, live_fuel. cbn [rn_cfg gnodes gfuncs glabelfn]. rewrite map_length.
  fold (rn_cfg s rho g). rewrite live_loop_rn.
  destruct (live_loop _ g (gnodes g) []); reflexivity.
Qed.

(* cfg/function.rs *)
Lemma fn_arguments_rn g f : fn_arguments (rg g) (rn_func s f) = ps (fn_arguments g f).
Proof.
  unfold fn_arguments. cbn [rn_cfg gnodes rn_func fentry]. rewrite getn_rc.
  destruct (getn (gnodes g) (fentry f)); cbn [option_map]; [|symmetry; apply perm_set_empty, Hs].
  rewrite lout_rc, (perm_set_inter s Hs), (ps_argument s Hs). reflexivity.
Qed.
Lemma fn_returns_rn g f : fn_returns (rg g) (rn_func s f) = ps (fn_returns g f).
Proof.
  unfold fn_returns. cbn [rn_cfg gnodes rn_func fexit]. rewrite getn_rc.
  destruct (getn (gnodes g) (fexit f)); cbn [option_map]; [|symmetry; apply perm_set_empty, Hs].
  rewrite lin_rc, (perm_set_inter s Hs), (ps_return s Hs). reflexivity.
Qed.
Lemma fn_to_save_rn f : fn_to_save (rn_func s f) = ps (fn_to_save f).
Proof.
  unfold fn_to_save. cbn [rn_func fdefs].
  rewrite (perm_set_diff s Hs), (perm_set_inter s Hs), (ps_callee_saved s Hs), (ps_one_2 s Hs). reflexivity.
Qed.

End Live.
