(* C18 - proofs about the output channels (Model/Printer.v): kind table, the rendered excerpt, order under
   the file filter, agreement of the channels, decoding the compact channel. *)
From Coq Require Import List Permutation Sorted Lia ZifyN ZifyNat ZifyBool.
From RV.Model Require Import Base I32 Imm Lexer Parser Reader Cfg Lints Serde Output Printer.
From RV.Spec Require Import PrintSpec.
From RV.Proofs Require Import OutputProofs SerdeProofs.
Import ListNotations.
Open Scope N_scope.
Open Scope nat_scope.

(* ================================================================================================ *)
(* (1) kind table                                                                                    *)
(* ================================================================================================ *)
Lemma s2l_cons_app a s (x : str) : s2l (String.String a s) ++ x = Ascii.N_of_ascii a :: (s2l s ++ x).
Proof. reflexivity. Qed.

Lemma lint_title_nonempty c : lint_title c <> [].
Proof. destruct c; discriminate. Qed.

Lemma parse_error_title_nonempty e : parse_error_title e <> [].
Proof. destruct e; cbn [parse_error_title]; try rewrite s2l_cons_app; discriminate. Qed.

Lemma cfg_error_title_nonempty e : cfg_error_title e <> [].
Proof. destruct e; cbn [cfg_error_title]; try rewrite s2l_cons_app; discriminate. Qed.

Lemma all_lintcodes_complete c : In c all_lintcodes.
Proof. destruct c; cbn; tauto. Qed.

Lemma lint_severity_of_code (l1 l2 : lint) : lcode l1 = lcode l2 -> lint_severity (lcode l1) = lint_severity (lcode l2).
Proof. intros H. rewrite H. reflexivity. Qed.

Lemma level_name_nonempty s : level_name s <> [].
Proof. destruct s; discriminate. Qed.

(* ================================================================================================ *)
(* small list facts                                                                                  *)
(* ================================================================================================ *)
Lemma nth_firstn_lt {A} (l : list A) d : forall i n, i < n -> nth i (firstn n l) d = nth i l d.
Proof.
  induction l as [|x l IH]; intros i n H.
  - rewrite firstn_nil. reflexivity.
  - destruct n as [|n]; [lia|]. destruct i as [|i]; [reflexivity|]. cbn [firstn nth]. apply IH. lia.
Qed.

Lemma nth_skipn_add {A} (l : list A) d : forall n i, nth i (skipn n l) d = nth (n + i) l d.
Proof.
  induction l as [|x l IH]; intros n i.
  - rewrite skipn_nil. destruct i, n; reflexivity.
  - destruct n as [|n]; [reflexivity|]. cbn [skipn]. rewrite IH. reflexivity.
Qed.

Lemma all_ws_app a b : all_ws (a ++ b) = (all_ws a && all_ws b)%bool.
Proof. apply forallb_app. Qed.

Lemma all_ws_rev a : all_ws (rev a) = all_ws a.
Proof.
  induction a as [|c a IH]; [reflexivity|]. cbn [rev]. rewrite all_ws_app, IH. unfold all_ws. cbn [forallb].
  destruct (is_whitespace c), (forallb is_whitespace a); reflexivity.
Qed.

Lemma all_ws_nth s : all_ws s = true -> forall j d, j < length s -> is_whitespace (nth j s d) = true.
Proof.
  intros H j d Hj. unfold all_ws in H. rewrite forallb_forall in H. apply H. apply nth_In. exact Hj.
Qed.

(* ================================================================================================ *)
(* (2) the excerpt                                                                                   *)
(* ================================================================================================ *)
Lemma format_region_eq text ln start end_ :
  format_region text ln start end_ = excerpt_with text ln (marker_of text start end_).
Proof. reflexivity. Qed.

(* the index of the first character that is not white space; 0 when there is none *)
Lemma fnw_from_spec s : forall i,
  (all_ws s = true /\ first_non_ws_from s i = 0) \/
  (exists k, first_non_ws_from s i = i + k /\ k < length s /\ all_ws (firstn k s) = true /\
             (forall d, is_whitespace (nth k s d) = false) /\ trim_start s = skipn k s).
Proof.
  induction s as [|c s IH]; intros i; cbn [first_non_ws_from].
  - left. split; reflexivity.
  - destruct (is_whitespace c) eqn:W.
    + destruct (IH (S i)) as [[A B]|(k & A & B & C & D & E)].
      * left. split; [|exact B]. unfold all_ws in *. cbn [forallb]. rewrite W, A. reflexivity.
      * right. exists (S k). split; [lia|]. split; [cbn [length]; lia|].
        split; [unfold all_ws in *; cbn [firstn forallb]; rewrite W, C; reflexivity|].
        split; [intros d; cbn [nth]; apply D|]. cbn [trim_start skipn]. rewrite W. exact E.
    + right. exists 0. split; [lia|]. split; [cbn [length]; lia|]. split; [reflexivity|].
      split; [intros d; exact W|]. cbn [trim_start skipn]. rewrite W. reflexivity.
Qed.

Lemma fnw_spec text : all_ws text = false ->
  first_non_ws text < length text /\ all_ws (firstn (first_non_ws text) text) = true /\
  (forall d, is_whitespace (nth (first_non_ws text) text d) = false) /\
  trim_start text = skipn (first_non_ws text) text.
Proof.
  intros H. unfold first_non_ws. destruct (fnw_from_spec text 0) as [[A _]|(k & A & B & C & D & E)]; [congruence|].
  rewrite A. cbn [Nat.add]. auto.
Qed.

Lemma fnw_all_ws text : all_ws text = true -> first_non_ws text = 0 /\ trim text = [].
Proof.
  intros H. unfold first_non_ws. destruct (fnw_from_spec text 0) as [[_ B]|(k & A & B & C & D & E)].
  - split; [exact B|]. unfold trim.
    assert (trim_start text = []) as ->; [|reflexivity].
    clear B. induction text as [|c t IH]; [reflexivity|]. unfold all_ws in *. cbn [forallb] in H.
    apply andb_prop in H. destruct H as [H1 H2]. cbn [trim_start]. rewrite H1. auto.
  - exfalso. pose proof (all_ws_nth _ H k c_space B) as X. rewrite D in X. discriminate.
Qed.

Lemma fnw_le_length text : first_non_ws text <= length text.
Proof.
  destruct (all_ws text) eqn:E.
  - destruct (fnw_all_ws _ E) as [-> _]. lia.
  - pose proof (fnw_spec _ E). lia.
Qed.

(* trim_start removes a white prefix and leaves a string that does not start with white space *)
Lemma trim_start_split s :
  exists w, s = w ++ trim_start s /\ all_ws w = true /\
            (trim_start s = [] \/ exists c t, trim_start s = c :: t /\ is_whitespace c = false).
Proof.
  induction s as [|c s (w & A & B & C)].
  - exists []. repeat split. left. reflexivity.
  - cbn [trim_start]. destruct (is_whitespace c) eqn:W.
    + exists (c :: w). split; [cbn [app]; congruence|]. split; [|exact C].
      unfold all_ws in *. cbn [forallb]. rewrite W, B. reflexivity.
    + exists []. repeat split. right. exists c, s. auto.
Qed.

Lemma trim_end_split s :
  exists w, s = trim_end s ++ w /\ all_ws w = true /\
            (trim_end s = [] \/ exists t c, trim_end s = t ++ [c] /\ is_whitespace c = false).
Proof.
  destruct (trim_start_split (rev s)) as (w & A & B & C). unfold trim_end.
  exists (rev w). split; [|split].
  - rewrite <- rev_app_distr, <- A, rev_involutive. reflexivity.
  - rewrite all_ws_rev. exact B.
  - destruct C as [C|(c & t & C & D)]; rewrite C; [left; reflexivity|].
    right. exists (rev t), c. split; [reflexivity|exact D].
Qed.

(* the marker line, under the hypothesis that the start column is on the line, after the indentation *)
Lemma marker_length text start end_ :
  first_non_ws text <= start -> start <= S end_ -> start <= length text ->
  length (marker_of text start end_) = S end_ - first_non_ws text.
Proof.
  intros H1 H2 H3. unfold marker_of.
  rewrite app_length, firstn_length, map_length, skipn_length, repeat_length. lia.
Qed.

Lemma marker_blank text start end_ j d :
  first_non_ws text <= j < start -> j < length text ->
  nth (j - first_non_ws text) (marker_of text start end_) d = blank (nth j text d).
Proof.
  intros H1 H2. unfold marker_of.
  rewrite app_nth1 by (rewrite firstn_length, map_length, skipn_length; lia).
  rewrite nth_firstn_lt by lia.
  rewrite (nth_indep _ d (blank d)) by (rewrite map_length, skipn_length; lia).
  rewrite map_nth, nth_skipn_add. f_equal. f_equal. lia.
Qed.

Lemma marker_caret text start end_ j d :
  first_non_ws text <= start -> start <= length text -> start <= j <= end_ ->
  nth (j - first_non_ws text) (marker_of text start end_) d = c_caret.
Proof.
  intros H1 H2 H3. unfold marker_of.
  assert (length (firstn (start - first_non_ws text) (map blank (skipn (first_non_ws text) text)))
          = start - first_non_ws text) as L
    by (rewrite firstn_length, map_length, skipn_length; lia).
  rewrite app_nth2 by lia. rewrite L.
  rewrite (nth_indep _ d c_caret) by (rewrite repeat_length; lia).
  apply nth_repeat.
Qed.

Lemma excerpt_exact text ln start end_ :
  first_non_ws text <= start -> start <= end_ -> start <= length text ->
  exists marker,
    format_region text ln start end_ = excerpt_with text ln marker /\
    length marker = S end_ - first_non_ws text /\
    (forall j d, first_non_ws text <= j < start ->
                 nth (j - first_non_ws text) marker d = (if is_whitespace (nth j text d) then nth j text d else c_space)) /\
    (forall j d, start <= j <= end_ -> nth (j - first_non_ws text) marker d = c_caret).
Proof.
  intros H1 H2 H3. exists (marker_of text start end_).
  split; [apply format_region_eq|]. split; [apply marker_length; lia|]. split.
  - intros j d Hj. apply marker_blank; lia.
  - intros j d Hj. apply marker_caret; lia.
Qed.

(* the shown source line *)
Lemma shown_line text : all_ws text = false ->
  let fnw := first_non_ws text in
  fnw < length text /\
  (forall j d, j < fnw -> is_whitespace (nth j text d) = true) /\
  (forall d, is_whitespace (nth fnw text d) = false) /\
  trim text = trim_end (skipn fnw text) /\
  (exists w, skipn fnw text = trim text ++ w /\ all_ws w = true) /\
  (exists t c, trim text = t ++ [c] /\ is_whitespace c = false) /\
  (forall j d, fnw <= j < fnw + length (trim text) -> nth (j - fnw) (trim text) d = nth j text d) /\
  (forall j d, fnw <= j < length text -> is_whitespace (nth j text d) = false -> j < fnw + length (trim text)).
Proof.
  intros H fnw. destruct (fnw_spec text H) as (A & B & C & D). fold fnw in A, B, C, D.
  assert (trim text = trim_end (skipn fnw text)) as T by (unfold trim, trim_end; rewrite D; reflexivity).
  destruct (trim_end_split (skipn fnw text)) as (w & E & F & G). rewrite <- T in E, G.
  assert (forall j d, fnw <= j -> nth j text d = nth (j - fnw) (trim text ++ w) d) as N.
  { intros j d Hj. rewrite <- E, nth_skipn_add. f_equal. lia. }
  split; [exact A|]. split.
  { intros j d Hj. pose proof (all_ws_nth _ B j d) as X. rewrite firstn_length in X.
    rewrite nth_firstn_lt in X by exact Hj. apply X. lia. }
  split; [exact C|]. split; [exact T|]. split; [exists w; auto|].
  assert (trim text <> []) as NE.
  { intros Z. rewrite Z in E. cbn [app] in E. pose proof (all_ws_nth _ F 0 c_space) as X.
    rewrite <- E, nth_skipn_add, Nat.add_0_r, C, skipn_length in X.
    assert (0 < length text - fnw) as Y by lia. specialize (X Y). discriminate. }
  split; [destruct G as [G|G]; [contradiction|exact G]|]. split.
  - intros j d Hj. rewrite (N j d) by lia. rewrite app_nth1 by lia. reflexivity.
  - intros j d Hj W. destruct (Nat.lt_ge_cases j (fnw + length (trim text))) as [L|L]; [exact L|exfalso].
    rewrite (N j d) in W by lia. rewrite app_nth2 in W by lia.
    pose proof (f_equal (@length _) E) as LE. rewrite skipn_length, app_length in LE.
    rewrite (all_ws_nth _ F) in W by lia. discriminate.
Qed.

(* outside the hypothesis *)
Lemma marker_beyond_end text start end_ :
  length text <= start ->
  marker_of text start end_ = map blank (skipn (first_non_ws text) text) ++ repeat c_caret (S end_ - start).
Proof.
  intros H. unfold marker_of. rewrite firstn_all2; [reflexivity|].
  rewrite map_length, skipn_length. pose proof (fnw_le_length text). lia.
Qed.

Lemma marker_in_indentation text start end_ :
  start <= first_non_ws text -> marker_of text start end_ = repeat c_caret (S end_ - start).
Proof. intros H. unfold marker_of. replace (start - first_non_ws text) with 0 by lia. reflexivity. Qed.

Lemma marker_reversed_range text start end_ :
  end_ < start -> marker_of text start end_ = firstn (start - first_non_ws text) (map blank (skipn (first_non_ws text) text)).
Proof. intros H. unfold marker_of. replace (S end_ - start) with 0 by lia. cbn [repeat]. apply app_nil_r. Qed.

(* the lines of a text: `split_lines` is the unique split at newlines *)
Lemma split_lines_nonempty s : forall cur, split_lines s cur <> [].
Proof.
  induction s as [|c s IH]; intros cur; cbn [split_lines]; [discriminate|].
  destruct (N.eqb c c_nl); [discriminate|apply IH].
Qed.

Lemma split_lines_join s : forall cur, join [c_nl] (split_lines s cur) = rev cur ++ s.
Proof.
  induction s as [|c s IH]; intros cur; cbn [split_lines].
  - cbn [join]. rewrite app_nil_r. reflexivity.
  - destruct (N.eqb c c_nl) eqn:E.
    + apply N.eqb_eq in E. subst c. pose proof (IH []) as J. pose proof (split_lines_nonempty s []) as NE.
      destruct (split_lines s []) as [|x l]; [congruence|].
      change (join [c_nl] (rev cur :: x :: l)) with (rev cur ++ [c_nl] ++ join [c_nl] (x :: l)).
      rewrite J. reflexivity.
    + rewrite IH. cbn [rev]. rewrite <- app_assoc. reflexivity.
Qed.

Lemma split_lines_no_nl s : forall cur, no_nl cur -> Forall no_nl (split_lines s cur).
Proof.
  induction s as [|c s IH]; intros cur H; cbn [split_lines].
  - constructor; [|constructor]. unfold no_nl in *. rewrite <- in_rev. exact H.
  - destruct (N.eqb c c_nl) eqn:E.
    + constructor; [unfold no_nl in *; rewrite <- in_rev; exact H|]. apply IH. intros [].
    + apply IH. unfold no_nl in *. intros [X|X]; [|contradiction]. subst c. rewrite N.eqb_refl in E. discriminate.
Qed.

Lemma lines_of_text t : join [c_nl] (split_lines t []) = t /\ Forall no_nl (split_lines t []).
Proof. split; [apply (split_lines_join t [])|apply split_lines_no_nl; intros []]. Qed.

(* the pretty block: header, excerpt of the line the range starts on, blank line *)
Lemma format_item_eq p : format_item p = header_of (fields p) ++ excerpt_of p ++ [c_nl].
Proof. unfold format_item, header_of, fields, excerpt_of. rewrite <- !app_assoc. reflexivity. Qed.

Lemma excerpt_of_line p t region :
  ptext p = Some t -> nth_error (split_lines t []) (N.to_nat (line (rstart (prange p)))) = Some region ->
  excerpt_of p = format_region region (line (rstart (prange p)))
                   (N.to_nat (column (rstart (prange p)))) (N.to_nat (column (rend (prange p)))).
Proof. intros H1 H2. unfold excerpt_of. rewrite H1, H2. reflexivity. Qed.

(* ================================================================================================ *)
(* (3) the file filter keeps the order; the counter                                                   *)
(* ================================================================================================ *)
Lemma StronglySorted_filter {A} (R : A -> A -> Prop) (f : A -> bool) l :
  StronglySorted R l -> StronglySorted R (filter f l).
Proof.
  induction 1 as [|a l Hs IH Hf]; cbn [filter]; [constructor|].
  destruct (f a); [|exact IH]. constructor; [exact IH|].
  rewrite Forall_forall in *. intros x Hx. apply filter_In in Hx. apply Hf. tauto.
Qed.

Lemma StronglySorted_nth {A} (R : A -> A -> Prop) l d :
  StronglySorted R l -> forall i j, i < j < length l -> R (nth i l d) (nth j l d).
Proof.
  induction 1 as [|a l Hs IH Hf]; intros i j H; [cbn in H; lia|].
  destruct j as [|j]; [lia|]. cbn [length] in H. destruct i as [|i]; cbn [nth].
  - rewrite Forall_forall in Hf. apply Hf. apply nth_In. lia.
  - apply IH. lia.
Qed.

Lemma Permutation_filter' {A} (f : A -> bool) l l' : Permutation l l' -> Permutation (filter f l) (filter f l').
Proof.
  induction 1 as [|x l l' H IH|x y l|l l' l'' H1 IH1 H2 IH2]; cbn [filter].
  - constructor.
  - destruct (f x); [constructor|]; exact IH.
  - destruct (f x), (f y); try reflexivity. apply perm_swap.
  - etransitivity; eassumption.
Qed.

Lemma filter_true {A} (f : A -> bool) l : (forall x, f x = true) -> filter f l = l.
Proof. intros H. induction l as [|x l IH]; [reflexivity|]. cbn [filter]. rewrite H, IH. reflexivity. Qed.

Lemma filter_length_compl {A} (f : A -> bool) l :
  length (filter f l) + length (filter (fun x => negb (f x)) l) = length l.
Proof. induction l as [|x l IH]; [reflexivity|]. cbn [filter]. destruct (f x); cbn [negb length]; lia. Qed.

Lemma visible_sorted {A} (key : A -> okey) (f : A -> bool) items :
  StronglySorted (le key) (filter f (sort_items key items)) /\
  Permutation (filter f items) (filter f (sort_items key items)).
Proof. split; [apply StronglySorted_filter, sort_sorted|apply Permutation_filter', sort_perm]. Qed.

(* what the order means: file names never decrease; within one file positions never decrease *)
Lemma key_leb_files a b : key_leb a b = true -> ostr_cmp (fst a) (fst b) <> Gt.
Proof. unfold key_leb, key_cmp. destruct (ostr_cmp (fst a) (fst b)); congruence. Qed.

Lemma key_leb_same_file a b : fst a = fst b -> key_leb a b = true ->
  (raw (rstart (snd a)) < raw (rstart (snd b)))%N \/
  (raw (rstart (snd a)) = raw (rstart (snd b)) /\ (raw (rend (snd a)) <= raw (rend (snd b)))%N).
Proof.
  intros H. unfold key_leb, key_cmp. rewrite H. destruct ostr_cmp_ok as (R & _). rewrite R.
  unfold range_cmp. destruct (N.compare (raw (rstart (snd a))) (raw (rstart (snd b)))) eqn:E.
  - apply N.compare_eq in E. destruct (N.compare (raw (rend (snd a))) (raw (rend (snd b)))) eqn:F; intros X; try discriminate;
      right; split; auto.
    + apply N.compare_eq in F. lia.
    + rewrite N.compare_lt_iff in F. lia.
  - rewrite N.compare_lt_iff in E. auto.
  - discriminate.
Qed.

Lemma visible_by_position hb all items d i j :
  let vis := filter (shown hb all) (sort_items pkey items) in
  i < j < length vis ->
  let x := nth i vis d in let y := nth j vis d in
  ostr_cmp (pfile x) (pfile y) <> Gt /\
  (pfile x = pfile y ->
     (raw (rstart (prange x)) < raw (rstart (prange y)))%N \/
     (raw (rstart (prange x)) = raw (rstart (prange y)) /\ (raw (rend (prange x)) <= raw (rend (prange y)))%N)).
Proof.
  intros vis H x y.
  assert (le pkey x y) as L by (apply StronglySorted_nth; [apply StronglySorted_filter, sort_sorted|exact H]).
  split; [apply (key_leb_files (pkey x) (pkey y) L)|]. intros F. apply (key_leb_same_file (pkey x) (pkey y) F L).
Qed.

Lemma display_pretty_eq compact all hb items :
  display_pretty compact all hb items =
  concat (map (fmt_of compact) (filter (shown hb all) items))
  ++ counter_line (length items - length (filter (shown hb all) items)).
Proof. reflexivity. Qed.

Lemma hidden_count hb all (items : list pitem) :
  length items - length (filter (shown hb all) items) = length (filter (fun p => negb (shown hb all p)) items).
Proof. pose proof (filter_length_compl (shown hb all) items). lia. Qed.

Lemma display_pretty_all compact all hb items : all = true \/ hb = false ->
  display_pretty compact all hb items = concat (map (fmt_of compact) items).
Proof.
  intros H. rewrite display_pretty_eq, filter_true.
  - rewrite Nat.sub_diag. cbn [counter_line]. apply app_nil_r.
  - intros p. unfold shown. destruct H as [-> | ->]; [apply orb_true_r|reflexivity].
Qed.

Lemma counter_line_nil n : counter_line n = [] <-> n = 0.
Proof.
  split; [|intros ->; reflexivity]. destruct n as [|n]; [reflexivity|]. cbn [counter_line]. intros H. exfalso.
  destruct (show_nat_head (Z.of_N (N.of_nat (S n)))) as (c & s & E & _). unfold show_N in H. rewrite E in H. discriminate.
Qed.

(* ================================================================================================ *)
(* (4) the channels agree                                                                            *)
(* ================================================================================================ *)
Lemma compact_eq p : format_item_compact p = compact_of (fields p).
Proof. reflexivity. Qed.

Lemma compact_fields p q : fields p = fields q -> format_item_compact p = format_item_compact q.
Proof. intros H. rewrite !compact_eq, H. reflexivity. Qed.

Lemma header_fields p q : fields p = fields q ->
  exists h, format_item p = h ++ excerpt_of p ++ [c_nl] /\ format_item q = h ++ excerpt_of q ++ [c_nl] /\ h = header_of (fields p).
Proof. intros H. exists (header_of (fields p)). rewrite !format_item_eq, H. auto. Qed.

Lemma wrap_item_fields canon p :
  jfields (wrap_item canon p) = fields_nopath (fields p) /\
  jfile (wrap_item canon p) = option_map canon (pfile p) /\ jdesc (wrap_item canon p) = pdesc p.
Proof. repeat split. Qed.

Lemma display_json_fields canon items :
  map jfields (display_json canon items) = map (fun p => fields_nopath (fields p)) items.
Proof. unfold display_json. rewrite map_map. reflexivity. Qed.

(* ---- newline-free strings ---------------------------------------------------------------------- *)
Lemma no_nl_app a b : no_nl (a ++ b) <-> no_nl a /\ no_nl b.
Proof. unfold no_nl. rewrite in_app_iff. tauto. Qed.

Lemma no_nl_dec s : forallb (fun c => negb (N.eqb c c_nl)) s = true -> no_nl s.
Proof.
  intros H X. rewrite forallb_forall in H. specialize (H _ X). rewrite N.eqb_refl in H. discriminate.
Qed.

Lemma no_nl_digits s : Forall isdig s -> no_nl s.
Proof. intros H X. rewrite Forall_forall in H. specialize (H _ X). unfold isdig, c_nl in H. lia. Qed.

Lemma no_nl_show_N n : no_nl (show_N n).
Proof. apply no_nl_digits, show_nat_digits. Qed.

Lemma no_nl_level s : no_nl (level_name s).
Proof. destruct s; apply no_nl_dec; reflexivity. Qed.

(* the compact rendering of an item without its final newline *)
Definition compact_body (p : pitem) : str :=
  level_name (psev p) ++ «": "» ++ ptitle p ++ «" in "» ++ path_of p ++ «" at "»
  ++ show_N (line (rstart (prange p)) + 1) ++ «" "» ++ show_N (column (rstart (prange p)) + 1)
  ++ «":"» ++ show_N (column (rend (prange p)) + 1).

Lemma compact_body_eq p : format_item_compact p = compact_body p ++ [c_nl].
Proof. unfold format_item_compact, compact_body. rewrite <- !app_assoc. reflexivity. Qed.

Lemma compact_body_no_nl p : no_nl (ptitle p) -> no_nl (path_of p) -> no_nl (compact_body p).
Proof.
  intros H1 H2. unfold compact_body. rewrite !no_nl_app.
  repeat split; auto using no_nl_level, no_nl_show_N; apply no_nl_dec; reflexivity.
Qed.

(* the compact rendering is one line ending with " at L C:E" in one-based numbers *)
Lemma compact_one_line p : no_nl (ptitle p) -> no_nl (path_of p) ->
  exists body, format_item_compact p = body ++ [c_nl] /\ no_nl body /\
    body = (level_name (psev p) ++ «": "» ++ ptitle p ++ «" in "» ++ path_of p)
           ++ «" at "» ++ show_N (line (rstart (prange p)) + 1) ++ «" "» ++ show_N (column (rstart (prange p)) + 1)
           ++ «":"» ++ show_N (column (rend (prange p)) + 1).
Proof.
  intros H1 H2. exists (compact_body p). split; [apply compact_body_eq|]. split; [apply compact_body_no_nl; assumption|].
  unfold compact_body. rewrite <- !app_assoc. reflexivity.
Qed.

(* ---- reading a compact line back ---------------------------------------------------------------- *)
Lemma isdig_b c : isdig c -> is_ascii_digit c = true.
Proof. unfold isdig, is_ascii_digit, in_range. lia. Qed.

Lemma span_dig_app d c r : Forall isdig d -> is_ascii_digit c = false -> span_dig (d ++ c :: r) = (d, c :: r).
Proof.
  intros Hd Hc. induction Hd as [|x d Hx Hd IH]; cbn [app span_dig].
  - rewrite Hc. reflexivity.
  - rewrite (isdig_b _ Hx), IH. reflexivity.
Qed.

Lemma rev_show_N_digits n : Forall isdig (rev (show_N n)).
Proof. apply Forall_rev, show_nat_digits. Qed.

Lemma read_num1_show n : read_num1 (rev (show_N (n + 1)%N)) = Some n.
Proof.
  unfold read_num1, show_N. rewrite rev_involutive, parse_show_nat by lia.
  replace (Z.leb 1 (Z.of_N (n + 1)%N)) with true by lia. f_equal. lia.
Qed.

Lemma read_level_ok s rest : read_level (level_name s ++ «": "» ++ rest) = Some (s, rest).
Proof. destruct s; reflexivity. Qed.

Lemma rev_shape (X A L C E : str) sp colon nl :
  rev (X ++ A ++ L ++ [sp] ++ C ++ [colon] ++ E ++ [nl])
  = nl :: (rev E ++ colon :: (rev C ++ sp :: (rev L ++ (rev A ++ rev X)))).
Proof. rewrite !rev_app_distr. cbn [rev app]. rewrite <- !app_assoc. reflexivity. Qed.

Lemma read_compact_ok p : read_compact (format_item_compact p) = Some (compact_core p).
Proof.
  assert (format_item_compact p =
          (level_name (psev p) ++ «": "» ++ ptitle p ++ «" in "» ++ path_of p) ++ «" at "»
          ++ show_N (line (rstart (prange p)) + 1)%N ++ [c_space] ++ show_N (column (rstart (prange p)) + 1)%N
          ++ [c_colon] ++ show_N (column (rend (prange p)) + 1)%N ++ [c_nl]) as S
    by (unfold format_item_compact; rewrite <- !app_assoc; reflexivity).
  unfold read_compact. rewrite S, rev_shape. cbv beta iota.
  rewrite N.eqb_refl. cbn [negb].
  rewrite span_dig_app by (auto using rev_show_N_digits). cbv beta iota.
  rewrite N.eqb_refl. cbn [negb].
  rewrite span_dig_app by (auto using rev_show_N_digits). cbv beta iota.
  rewrite N.eqb_refl. cbn [negb].
  change (rev «" at "») with (c_space :: «"ta "»). cbn [app].
  rewrite span_dig_app by (auto using rev_show_N_digits). cbv beta iota.
  change (c_space :: «"ta "» ++ rev (level_name (psev p) ++ «": "» ++ ptitle p ++ «" in "» ++ path_of p))
    with ((c_space :: «"ta "») ++ rev (level_name (psev p) ++ «": "» ++ ptitle p ++ «" in "» ++ path_of p)).
  rewrite strip_prefix_app, rev_involutive, read_level_ok, !read_num1_show. reflexivity.
Qed.

Lemma compact_inj p q : format_item_compact p = format_item_compact q -> compact_core p = compact_core q.
Proof.
  intros H. apply (f_equal read_compact) in H. rewrite !read_compact_ok in H. congruence.
Qed.

Lemma compact_inj_fields p q :
  format_item_compact p = format_item_compact q -> path_of p = path_of q -> fields p = fields q.
Proof.
  intros H P. apply compact_inj in H. unfold compact_core in H. unfold fields.
  injection H as H1 H2 H3 H4 H5. rewrite P in H2. apply app_inv_tail in H2. congruence.
Qed.

Lemma compact_inj_fields_title p q :
  format_item_compact p = format_item_compact q -> ptitle p = ptitle q -> fields p = fields q.
Proof.
  intros H P. apply compact_inj in H. unfold compact_core in H. unfold fields.
  injection H as H1 H2 H3 H4 H5. rewrite P in H2. apply (app_inv_head (ptitle q)) in H2. apply (app_inv_head «" in "») in H2. congruence.
Qed.

Lemma compact_severity p q : format_item_compact p = format_item_compact q -> psev p = psev q.
Proof. intros H. apply compact_inj in H. unfold compact_core in H. congruence. Qed.

(* ---- the pretty header determines level, title and path ------------------------------------------ *)
Lemma nl_span_unique b1 : forall b2 r1 r2, no_nl b1 -> no_nl b2 -> b1 ++ c_nl :: r1 = b2 ++ c_nl :: r2 -> b1 = b2 /\ r1 = r2.
Proof.
  unfold no_nl. induction b1 as [|x b1 IH]; intros [|y b2] r1 r2 H1 H2 H; cbn [app] in H.
  - injection H as H. auto.
  - injection H as H H'. exfalso. apply H2. left. auto.
  - injection H as H H'. exfalso. apply H1. left. auto.
  - injection H as H H'. subst y. destruct (IH b2 r1 r2) as [A B]; auto.
    + intros X. apply H1. right. exact X.
    + intros X. apply H2. right. exact X.
    + subst. auto.
Qed.

Lemma level_prefix_inj s1 s2 x y : level_name s1 ++ «": "» ++ x = level_name s2 ++ «": "» ++ y -> s1 = s2 /\ x = y.
Proof. intros H. apply (f_equal read_level) in H. rewrite !read_level_ok in H. split; congruence. Qed.

Lemma pretty_inj p q : no_nl (ptitle p) -> no_nl (ptitle q) -> no_nl (path_of p) -> no_nl (path_of q) ->
  format_item p = format_item q ->
  psev p = psev q /\ ptitle p = ptitle q /\ path_of p = path_of q /\ excerpt_of p = excerpt_of q.
Proof.
  intros T1 T2 P1 P2 H. rewrite !format_item_eq in H. unfold header_of, fields in H. rewrite <- !app_assoc in H.
  apply level_prefix_inj in H. destruct H as [A H].
  cbn [app] in H. apply nl_span_unique in H; [|assumption|assumption]. destruct H as [B H].
  apply app_inv_head in H. apply nl_span_unique in H; [|assumption|assumption]. destruct H as [C H].
  apply app_inv_tail in H. auto.
Qed.

(* ---- the whole compact output, read back line by line --------------------------------------------- *)
Lemma split_lines_line body : forall rest cur, no_nl body ->
  split_lines (body ++ c_nl :: rest) cur = (rev cur ++ body) :: split_lines rest [].
Proof.
  induction body as [|c body IH]; intros rest cur H; cbn [app split_lines].
  - rewrite N.eqb_refl, app_nil_r. reflexivity.
  - destruct (N.eqb c c_nl) eqn:E.
    + apply N.eqb_eq in E. exfalso. apply H. left. auto.
    + rewrite IH by (intros X; apply H; right; exact X). cbn [rev]. rewrite <- app_assoc. reflexivity.
Qed.

Lemma split_lines_lines bodies tail : Forall no_nl bodies ->
  split_lines (concat (map (fun b => b ++ [c_nl]) bodies) ++ tail) [] = bodies ++ split_lines tail [].
Proof.
  induction 1 as [|b bodies Hb Hbs IH]; [reflexivity|].
  cbn [map concat]. rewrite <- !app_assoc. cbn [app]. rewrite split_lines_line by exact Hb. cbn [rev app].
  rewrite IH. reflexivity.
Qed.

Definition counter_tail : str := «" found in other files. To see all errors, run with the `--all-files` option."».
Lemma counter_line_shape n : n <> 0 ->
  exists pre, counter_line n = (pre ++ [46%N]) ++ [c_nl] /\ no_nl (pre ++ [46%N]).
Proof.
  intros H. destruct n as [|n]; [congruence|]. cbn [counter_line].
  assert (counter_tail = removelast counter_tail ++ [46%N]) as T by reflexivity.
  exists (show_N (N.of_nat (S n)) ++ «" diagnostic"» ++ (if Nat.ltb 1 (S n) then «"s"» else []) ++ removelast counter_tail).
  split.
  - fold counter_tail. rewrite T at 1. rewrite <- !app_assoc. reflexivity.
  - rewrite <- !app_assoc, !no_nl_app. repeat split; auto using no_nl_show_N; try (apply no_nl_dec; reflexivity).
    destruct (Nat.ltb 1 (S n)); apply no_nl_dec; reflexivity.
Qed.

Lemma read_compact_counter pre : read_compact ((pre ++ [46%N]) ++ [c_nl]) = None.
Proof. unfold read_compact. rewrite !rev_app_distr. reflexivity. Qed.

Lemma read_output_compact all hb items :
  Forall (fun p => no_nl (ptitle p) /\ no_nl (path_of p)) items ->
  read_output (display_pretty true all hb items)
  = map (fun p => Some (compact_core p)) (filter (shown hb all) items)
    ++ (if Nat.eqb (length (filter (fun p => negb (shown hb all p)) items)) 0 then [] else [None]).
Proof.
  intros F. rewrite display_pretty_eq, hidden_count. cbn [fmt_of].
  set (vis := filter (shown hb all) items). set (k := length (filter (fun p => negb (shown hb all p)) items)).
  assert (Forall no_nl (map compact_body vis)) as NB.
  { apply Forall_forall. intros b Hb. apply in_map_iff in Hb. destruct Hb as (p & <- & Hp).
    apply filter_In in Hp. destruct Hp as [Hp _]. rewrite Forall_forall in F. destruct (F _ Hp).
    apply compact_body_no_nl; assumption. }
  assert (map format_item_compact vis = map (fun b => b ++ [c_nl]) (map compact_body vis)) as M
    by (rewrite map_map; apply map_ext; intros p; apply compact_body_eq).
  unfold read_output. rewrite M, split_lines_lines by exact NB.
  assert (forall l, map (fun b => read_compact (b ++ [c_nl])) (map compact_body l) = map (fun p => Some (compact_core p)) l) as R.
  { intros l. rewrite map_map. apply map_ext. intros p. rewrite <- compact_body_eq. apply read_compact_ok. }
  destruct (Nat.eqb k 0) eqn:K.
  - apply Nat.eqb_eq in K. rewrite K. cbn [counter_line split_lines rev].
    rewrite app_nil_r, <- R. apply f_equal. apply removelast_last.
  - apply Nat.eqb_neq in K. destruct (counter_line_shape k K) as (pre & C & N). rewrite C.
    replace ((pre ++ [46%N]) ++ [c_nl]) with ((pre ++ [46%N]) ++ c_nl :: []) by reflexivity.
    rewrite split_lines_line by exact N. cbn [rev app split_lines].
    assert (removelast (map compact_body vis ++ [pre ++ [46%N]; []]) = map compact_body vis ++ [pre ++ [46%N]]) as RL.
    { change (map compact_body vis ++ [pre ++ [46%N]; []]) with (map compact_body vis ++ [pre ++ [46%N]] ++ [[]]).
      rewrite app_assoc. apply removelast_last. }
    etransitivity; [apply f_equal; exact RL|].
    rewrite map_app, R. cbn [map]. rewrite read_compact_counter. reflexivity.
Qed.
