(* C09 beyond the lexer, tightness, for include trees: the tight node-range theorem of
   Proofs/LocTightProofs.v (an INSTRUCTION statement consumes nothing but its mnemonic and its operand
   tokens, so the raw range of an instruction node runs exactly from the mnemonic through the last
   operand) lifted from a single file to any store, any base file, imports followed or not.

   [parse_one_tight] is per statement and only looks at the item list on top of the lexer stack, so it
   applies unchanged to every step of the driver; what is new here is the driver part: [dstep_tree_tight]
   and [drive_tree_tight] are [dstep_tree] / [drive_tree] of Proofs/LocProofs.v with [segs_tight] in the
   place of [segs] (the facts about file ids and the growth of [imported] are taken from [drive_tree]).

   Statements: Props/C09loc.v, C09loc_tree_segs_tight and C09loc_tree_node_range_tight. *)
From RV.Model Require Import Base I32 Imm Lexer Isa Parser Reader Cfg Lints.
From RV.Spec Require Import PosSpec LineSpec ParamSpec ParamPlaceSpec IncludeSpec LocSpec.
From RV.Proofs Require Import LexProofs ImmProofs LineProofs IncludeRun ParamProofs LocProofs LocTightProofs.
From RV.Proofs Require ErrProofs.
From Coq Require Import Lia ZifyN ZifyNat ZifyBool.
Open Scope N_scope.

(* ================================================================================== *)
(* Part A: one step of the driver, any store, any reader state.                          *)
(* The three outcomes of [dstep_tree]; in the middle one (the driver goes on with a       *)
(* suffix [top'] of the same file) the nodes pushed are a tight front segment.  When the  *)
(* statement is a successful `.include` the directive node is NOT pushed (dn = []), when  *)
(* the include fails it is not pushed either (only a parse error is), and with ign = true *)
(* it is pushed like any other directive node - about which [stmt_tight] claims nothing.  *)

Lemma dstep_tree_tight chk fs ign top rs tops rs1 dn de :
  dstep chk fs ign top rs [] [] = Ok (tops, rs1, dn, de) ->
  (tops = [] /\ dn = [] /\ rs1 = rs) \/
  (exists top', tops = [top'] /\ rs1 = rs /\ (exists d, top = d ++ top') /\
                forall new', segs_tight top' new' -> segs_tight top (rev dn ++ new')) \/
  (exists pth text items rest, tops = [items; rest] /\ dn = [] /\ de = [] /\
       import_file fs pth rs = (inr (N.of_nat (length (imported rs)), text), rs1) /\
       lex_all chk (Some (N.of_nat (length (imported rs)))) (normalize_text text) = Ok items /\
       exists d, top = d ++ rest).
Proof.
  unfold dstep. intros H.
  destruct (parse_one top) as [[x rest]| |] eqn:Ep; cbn [bind] in H; try discriminate H.
  destruct (parse_one_loc top x rest Ep) as [[d0 Hd0] Hx].
  pose proof (parse_one_tight top x rest Ep) as Ht.
  assert (Hrec : exists d, top = d ++ recover rest).
  { destruct (recover_suffix rest) as [d2 Hd2]. exists (d0 ++ d2). rewrite <- app_assoc, <- Hd2. exact Hd0. }
  assert (Hplain : forall top', (exists d, top = d ++ top') ->
            forall new', segs_tight top' new' -> segs_tight top (rev [] ++ new')).
  { intros top' [d Hd] new' Hs. cbn [rev app]. rewrite Hd. apply segs_tight_prefix. exact Hs. }
  destruct x as [e|n].
  - assert (Hde : de = match err_perr e with Some pe => [pe] | None => [] end /\ rs1 = rs /\
                  tops = match stmt_next (inl e) rest with Some t => [t] | None => [] end /\
                  dn = err_nodes e).
    { inversion H; subst. rewrite app_nil_r. destruct (err_perr e); auto. }
    destruct Hde as [_ [-> [-> ->]]].
    destruct e; cbn [stmt_next err_nodes].
    + right. left. eexists. split; [reflexivity|]. split; [reflexivity|].
      split; [destruct (is_newline_tok got); eauto|]. apply Hplain. destruct (is_newline_tok got); eauto.
    + right. left. eexists. split; [reflexivity|]. split; [reflexivity|]. split; [eauto|]. apply Hplain. eauto.
    + right. left. eexists. split; [reflexivity|]. split; [reflexivity|]. split; [eauto|]. apply Hplain. eauto.
    + right. left. eexists. split; [reflexivity|]. split; [reflexivity|]. split; [eauto|]. apply Hplain. eauto.
    + right. left. eexists. split; [reflexivity|]. split; [reflexivity|]. split; [eauto|]. apply Hplain. eauto.
    + left. repeat split; reflexivity.
    + right. left. eexists. split; [reflexivity|]. split; [reflexivity|]. split; [eauto|].
      cbn [stmt_res] in Hx. destruct Hx as [u [A1 [A2 [A3 A4]]]]. destruct (Ht u A1) as [T1 T2].
      intros new' Hs. cbn [rev app]. rewrite A1. apply (segst_two [] u rest n1 n2 new'); assumption.
    + right. left. eexists. split; [reflexivity|]. split; [reflexivity|]. split; [eauto|]. apply Hplain. eauto.
    + right. left. eexists. split; [reflexivity|]. split; [reflexivity|]. split; [eauto|]. apply Hplain. eauto.
    + right. left. eexists. split; [reflexivity|]. split; [reflexivity|]. split; [eauto|]. apply Hplain. eauto.
    + right. left. eexists. split; [reflexivity|]. split; [reflexivity|]. split; [eauto|]. apply Hplain. eauto.
  - cbn [stmt_res] in Hx. destruct Hx as [u [A1 A2]]. pose proof (Ht u A1) as T1. cbv beta iota in T1.
    destruct (if ign then None else include_path n) as [pth|] eqn:Einc.
    + destruct (import_file fs (wv pth) rs) as [[e|[id text]] rs2] eqn:Ei.
      * pose proof (import_file_fail _ _ _ _ _ Ei) as ->. inversion H; subst.
        right. left. eexists. split; [reflexivity|]. split; [reflexivity|]. split; [eauto|]. apply Hplain. eauto.
      * destruct (lex_all chk (Some id) (normalize_text text)) as [items| |] eqn:El; cbn [bind] in H; try discriminate H.
        inversion H; subst.
        right. right. destruct (import_file_ok _ _ _ _ _ _ Ei) as [_ [_ [Hid _]]]. subst id.
        exists (wv pth), text, items, rest. repeat split; try reflexivity; try assumption. eauto.
    + inversion H; subst.
      right. left. eexists. split; [reflexivity|]. split; [reflexivity|]. split; [eauto|].
      intros new' Hs. cbn [rev app]. rewrite A1. apply (segst_one [] u rest n new'); assumption.
Qed.

(* ================================================================================== *)
(* Part B: the run of one file's items and of everything it includes.                    *)
(* Every file of the lexer stack is driven on its own item list: a statement never        *)
(* crosses a file boundary ([parse_one] only sees the top of the stack), so the first      *)
(* statement of an included file starts at the first item of that file's lexer output and  *)
(* its last statement ends within it; the rest of the including file is driven afterwards  *)
(* from the suffix left behind by the `.include` statement.                                *)

Lemma drive_tree_tight chk fs ign : forall f top rs k0 ns es rs',
  drive f chk fs ign [top] rs [] [] = Ok (ns, es, rs') ->
  Forall (item_file (Some k0)) top -> k0 < nimp rs ->
  segs_tight top (filter (in_file k0) ns) /\
  (forall k, nimp rs <= k < nimp rs' ->
     exists text items, file_items chk fs (imported rs') k text items /\
                        segs_tight items (filter (in_file k) ns)).
Proof.
  induction f as [|f IH]; intros top rs k0 ns es rs' H Hfile Hk0; [discriminate H|].
  rewrite drive_S in H.
  destruct (dstep chk fs ign top rs [] []) as [[[[tops rs1] dn] de]| |] eqn:Ed; cbn [bind] in H; try discriminate H.
  destruct (dstep_tree _ _ _ _ _ _ _ _ _ Ed) as [_ [Hdn _]]. specialize (Hdn _ Hfile).
  destruct (dstep_tree_tight _ _ _ _ _ _ _ _ _ Ed)
    as [[-> [-> ->]]|[[top' [-> [-> [[d Hd] Hs]]]]|[pth [text [items [rest [-> [-> [-> [Hi [Hl [d Hd]]]]]]]]]]]].
  - (* end of the file *)
    cbn [app] in H. destruct f as [|f]; [discriminate H|]. rewrite drive_nil in H. inversion H; subst. cbn [rev].
    split; [cbn [filter]; constructor|]. intros k Hk; lia.
  - (* a statement of this file *)
    cbn [app] in H. rewrite drive_acc in H.
    destruct (drive f chk fs ign [top'] rs [] []) as [[[ns' es'] rs'']| |] eqn:E'; try discriminate H.
    inversion H; subst ns es rs''. clear H.
    assert (Hfile' : Forall (item_file (Some k0)) top') by (rewrite Hd in Hfile; apply Forall_app in Hfile; tauto).
    destruct (IH top' rs k0 ns' es' rs' E' Hfile' Hk0) as [I3 I4].
    split.
    { rewrite filter_app, (filter_all k0 (rev dn)); [apply Hs; exact I3|].
      apply Forall_rev. eapply Forall_impl; [|exact Hdn]. intros n Hn.
      rewrite (in_file_of n k0 k0 Hn). apply N.eqb_refl. }
    intros k Hk. destruct (I4 k Hk) as [tx [its [F1 F2]]]. exists tx, its. split; [exact F1|].
    rewrite filter_app, filter_none; [exact F2|].
    apply Forall_rev. eapply Forall_impl; [|exact Hdn]. intros n Hn.
    rewrite (in_file_of n k0 k Hn). apply N.eqb_neq. lia.
  - (* an include: the new file is driven to its end, then the rest of this one *)
    cbn [app] in H. change [items; rest] with ([items] ++ [rest]) in H.
    destruct (drive_app _ _ _ _ _ _ _ _ _ _ H) as [ns1 [es1 [rs2 [H1 H2]]]].
    rewrite drive_acc in H2.
    destruct (drive f chk fs ign [rest] rs2 [] []) as [[[ns2 es2] rs3]| |] eqn:E2; try discriminate H2.
    inversion H2; subst ns es rs3. clear H2 H. rewrite !rev_involutive.
    destruct (import_file_ok _ _ _ _ _ _ Hi) as [A1 [_ [_ A4]]].
    assert (Hb : nimp rs1 = nimp rs + 1).
    { subst rs1. unfold nimp. cbn [imported]. rewrite app_length. cbn [length]. lia. }
    assert (Hfile1 : Forall (item_file (Some (nimp rs))) items) by (apply (ErrProofs.lex_all_file _ _ _ _ Hl)).
    assert (Hfile2 : Forall (item_file (Some k0)) rest) by (rewrite Hd in Hfile; apply Forall_app in Hfile; tauto).
    destruct (drive_tree chk fs ign f items rs1 (nimp rs) ns1 es1 rs2 H1 Hfile1 ltac:(lia)) as [J1 [J2 _]].
    destruct (drive_tree chk fs ign f rest rs2 k0 ns2 es2 rs' E2 Hfile2 ltac:(lia)) as [K1 [K2 _]].
    destruct (IH items rs1 (nimp rs) ns1 es1 rs2 H1 Hfile1 ltac:(lia)) as [J3 J4].
    destruct (IH rest rs2 k0 ns2 es2 rs' E2 Hfile2 ltac:(lia)) as [K3 K4].
    destruct (drive_imported _ _ _ _ _ _ _ _ _ _ _ H1) as [di1 D1].
    destruct (drive_imported _ _ _ _ _ _ _ _ _ _ _ E2) as [di2 D2].
    assert (Hfa : file_items chk fs (imported rs') (nimp rs) text items).
    { exists pth. split; [|split; [exact A1|exact Hl]].
      rewrite D2, D1, A4. cbn [imported]. unfold nimp. rewrite Nat2N.id.
      rewrite <- !app_assoc. rewrite nth_error_app2, Nat.sub_diag; [reflexivity|lia]. }
    split.
    { rewrite filter_app, (filter_NF_none _ k0 ns1 J2) by (intros j Hj; lia).
      cbn [app]. rewrite Hd. apply segs_tight_prefix. exact K3. }
    intros k Hk.
    assert (Hc : k = nimp rs \/ nimp rs1 <= k < nimp rs2 \/ nimp rs2 <= k < nimp rs') by lia.
    destruct Hc as [->|[Hc|Hc]].
    + exists text, items. split; [exact Hfa|].
      rewrite filter_app, (filter_NF_none _ (nimp rs) ns2 K2) by (intros j Hj; lia).
      rewrite app_nil_r. exact J3.
    + destruct (J4 k Hc) as [tx [its [F1 F2]]]. exists tx, its.
      split; [rewrite D2; apply file_items_mono; exact F1|].
      rewrite filter_app, (filter_NF_none _ k ns2 K2) by (intros j Hj; lia).
      rewrite app_nil_r. exact F2.
    + destruct (K4 k Hc) as [tx [its [F1 F2]]]. exists tx, its. split; [exact F1|].
      rewrite filter_app, (filter_NF_none _ k ns1 J2) by (intros j Hj; lia). exact F2.
Qed.

(* ================================================================================== *)
(* Part C: the theorems for include trees.                                               *)

Section TreeT.
  Variables (chk : bool) (fs : store) (base : str) (ign : bool).
  Variables (nodes : list pnode) (errs : list parse_error) (rs : rstate).
  Hypothesis Hparse : parse_from_file chk fs base ign = Ok (nodes, errs, rs).

  (* the structure of the result: either the base file could not be read, or the nodes are the entry
     followed by [body], every node of [body] is located in one of the imported files, and for every
     imported file [k] the nodes of [body] located in file [k] are, in order, the statements of disjoint
     segments of that file's lexer output - tight for every instruction statement *)
  Theorem parse_tree_segs_tight :
    (nodes = [] /\ exists e, errs = [to_parse_error e (mkw base tok_default)]) \/
    exists body, nodes = entry_node 0 :: body /\
      Forall (NF (fun k => k < nimp rs)) body /\
      forall k, k < nimp rs -> exists text items,
        file_items chk fs (imported rs) k text items /\ segs_tight items (filter (in_file k) body).
  Proof.
    unfold parse_from_file in Hparse.
    destruct (import_file fs base (mkrs [])) as [[e|[id text]] rs0] eqn:Ei.
    - left. inversion Hparse; subst. split; [reflexivity|]. exists e. reflexivity.
    - right. destruct (import_file_ok _ _ _ _ _ _ Ei) as [A1 [_ [A3 A4]]]. cbn [imported length app] in A3, A4.
      change (N.of_nat 0) with 0 in A3. subst id.
      destruct (lex_all chk (Some 0) (normalize_text text)) as [items| |] eqn:El; cbn [bind] in Hparse; try discriminate Hparse.
      rewrite drive_acc in Hparse.
      destruct (drive _ chk fs ign [items] rs0 [] []) as [[[ns es] rs']| |] eqn:Ed; try discriminate Hparse.
      inversion Hparse; subst nodes errs rs'. clear Hparse. cbn [rev app].
      assert (H0 : nimp rs0 = 1) by (subst rs0; reflexivity).
      destruct (drive_tree chk fs ign _ items rs0 0 ns es rs Ed (ErrProofs.lex_all_file _ _ _ _ El) ltac:(lia))
        as [T1 [T2 _]].
      destruct (drive_tree_tight chk fs ign _ items rs0 0 ns es rs Ed (ErrProofs.lex_all_file _ _ _ _ El) ltac:(lia))
        as [T3 T4].
      destruct (drive_imported _ _ _ _ _ _ _ _ _ _ _ Ed) as [di D].
      assert (Hf0 : file_items chk fs (imported rs) 0 text items).
      { exists base. split; [|split; assumption]. rewrite D, A4. reflexivity. }
      exists ns. split; [reflexivity|]. split.
      { eapply NF_weaken; [|exact T2]. cbv beta. intros k Hk. lia. }
      intros k Hk. assert (Hc : k = 0 \/ nimp rs0 <= k < nimp rs) by lia. destruct Hc as [->|Hc].
      + exists text, items. split; [exact Hf0|exact T3].
      + apply T4. exact Hc.
  Qed.

  (* spelled out for one instruction node: its statement is a segment [tf :: u'] of the lexer output of
     the file the node is located in; [tf] is its mnemonic, all of them are operand tokens (no newline, no
     comment), the node's raw range is the hull of tf and the last of them (in particular it carries the
     file id of that file), and the tokens the node carries are among them *)
  Theorem tree_node_range_tight n : In n nodes -> is_instruction_node n = true ->
    exists k text items pre tf u' post,
      k < nimp rs /\ file_items chk fs (imported rs) k text items /\
      items = pre ++ map LTok (tf :: u') ++ post /\ mnemonic_tok n = Some tf /\
      Forall operand_tok (tf :: u') /\ node_raw n = hull tf (last u' tf) /\
      Forall (fun t => In t (tf :: u')) (node_tokens n) /\
      rfile (node_raw n) = Some k /\ tfile tf = Some k.
  Proof.
    intros Hin Hi. destruct parse_tree_segs_tight as [[-> _]|[body [-> [B1 B2]]]]; [destruct Hin|].
    destruct Hin as [<-|Hin]; [discriminate Hi|].
    rewrite Forall_forall in B1. destruct (B1 n Hin) as [k [R Hk]].
    destruct (B2 k Hk) as [text [items [F S]]].
    assert (Hf : In n (filter (in_file k) body)).
    { apply filter_In. split; [exact Hin|]. rewrite (in_file_of n k k R). apply N.eqb_refl. }
    destruct (segs_tight_in items _ S n Hf) as [pre [u [post [Ei [Hn Ht]]]]].
    destruct (Ht Hi) as [Hm Ho]. destruct u as [|tf u']; [contradiction|]. destruct Hn as [Hr Hts].
    exists k, text, items, pre, tf, u', post.
    split; [exact Hk|]. split; [exact F|]. split; [exact Ei|]. split; [exact Hm|]. split; [exact Ho|].
    split; [exact Hr|]. split; [exact Hts|]. split; [exact R|].
    rewrite Hr in R. cbn [hull rfile] in R. exact R.
  Qed.
End TreeT.
