(* Proofs for C09 beyond the lexer (Props/C09loc.v): the tokens carried by parser nodes are tokens
   of the lexer output; the raw range of a node is the hull of the tokens its statement consumed;
   nodes of different statements have disjoint ranges in source order; the location of a parse
   error is the range of a lexer item; every location of every diagnostic is one of these. *)
From RV.Model Require Import Base I32 Imm Lexer Isa Parser Reader Cfg Lints.
From RV.Spec Require Import PosSpec LineSpec ParamSpec ParamPlaceSpec IncludeSpec LocSpec.
From RV.Proofs Require Import LexProofs ImmProofs LineProofs IncludeRun ParamProofs.
From RV.Proofs Require ErrProofs.
From Coq Require Import Lia ZifyN ZifyNat ZifyBool Sorted.
Open Scope N_scope.

(* ================================================================================== *)
(* Part A: one statement.  A partial-correctness logic for the parser monad relative to   *)
(* the item list [top] the statement starts from: no hypothesis on [top] at all.           *)

Definition inu (u : list lexitem) (t : token) : Prop := In (LTok t) u.

(* the lexer item an error of the statement parser is about *)
Definition lexerr_item (e : lexerr) (it : lexitem) : Prop :=
  match e with
  | EInvalidString t p k => it = LErrString t p k
  | EUnexpectedToken t => it = LTok t \/ it = LErrUnexpected t
  | EExpected _ t | EIsNewline t | EIgnoredWithWarning t | EUnexpectedError t | EUnknownDirective t
  | EUnsupportedDirective t => it = LTok t
  | EIgnoredWithoutWarning | EUnexpectedEOF | ENeedTwoNodes _ _ => False
  end.

Lemma inu_app_l u d t : inu u t -> inu (u ++ d) t.
Proof. unfold inu. intros H. apply in_or_app. left. exact H. Qed.

Lemma Forall_inu_map u (vals : list (wth Z)) :
  Forall (fun w => inu u (wt w)) vals -> Forall (inu u) (map wt vals).
Proof. intros H. apply Forall_map. exact H. Qed.

Section StmtL.
  Variable top : list lexitem.
  Notation W := (LineProofs.W top).

  Definition Suf (st : pstate) : Prop := exists d, top = d ++ fst st.

  Definition NPL (n : pnode) (st : pstate) : Prop :=
    exists u, W u st /\ node_raw n = rs u /\ Forall (inu u) (node_tokens n).

  Definition EPL (e : lexerr) (st : pstate) : Prop :=
    match e with
    | ENeedTwoNodes n1 n2 =>
        exists u, W u st /\ node_raw n1 = rs u /\ node_raw n2 = rs u /\
                  Forall (inu u) (node_tokens n1) /\ Forall (inu u) (node_tokens n2) /\ expansion_pair n1 n2
    | EIgnoredWithoutWarning | EUnexpectedEOF => True
    | _ => exists it, In it top /\ lexerr_item e it
    end.

  Definition FinL (r : res ((lexerr + pnode) * pstate)) : Prop :=
    forall x st', r = Ok (x, st') ->
      Suf st' /\ match x with inr n => NPL n st' | inl e => EPL e st' end.

  Lemma W_suf u st : W u st -> Suf st.
  Proof. intros [H _]. exists u. exact H. Qed.

  Lemma W_in u st it : W u st -> In it u -> In it top.
  Proof. intros [H _] Hin. rewrite H. apply in_or_app. left. exact Hin. Qed.

  Lemma EPL_item e it : In it top -> lexerr_item e it -> forall st, EPL e st.
  Proof.
    intros Hin Hit st. destruct e; cbn [EPL lexerr_item] in *; try contradiction; exists it; split; assumption.
  Qed.

  Lemma finl_ret n u st : W u st -> node_raw n = rs u -> Forall (inu u) (node_tokens n) -> FinL (ret n st).
  Proof.
    intros H1 H2 H3 x st' E. unfold ret in E. inversion E; subst.
    split; [apply (W_suf u); exact H1|]. exists u. auto.
  Qed.

  Lemma finl_fail e st : Suf st -> EPL e st -> FinL (@fail pnode e st).
  Proof. intros H1 H2 x st' E. unfold fail in E. inversion E; subst. split; assumption. Qed.

  Lemma finl_fail_item e it u st : lexerr_item e it -> W u st -> In it u -> FinL (@fail pnode e st).
  Proof.
    intros Hit HW Hin. apply finl_fail; [apply (W_suf u); exact HW|].
    apply (EPL_item e it); [apply (W_in u st); assumption|exact Hit].
  Qed.

  Lemma suf_cons u st it l : W u st -> fst st = it :: l -> forall o, Suf (l, o).
  Proof.
    intros [H _] Hf o. exists (u ++ [it]). cbn [fst]. rewrite H, Hf, <- app_assoc. reflexivity.
  Qed.

  Lemma in_top_cons u st it l : W u st -> fst st = it :: l -> In it top.
  Proof. intros [H _] Hf. rewrite H, Hf. apply in_or_app. right. left. reflexivity. Qed.

  Lemma get_any_finl u st (k : token -> P pnode) :
    W u st -> (forall t st', W (u ++ [LTok t]) st' -> FinL (k t st')) -> FinL (pbind get_any k st).
  Proof.
    intros HW Hk. unfold pbind, get_any. destruct (fst st) as [|it l] eqn:Ef.
    - intros x st' E. inversion E; subst. split; [apply (W_suf u); exact HW|exact I].
    - destruct it as [t|t p kk|t]; cbn [item_result].
      + apply Hk. apply (W_snoc top u st t l (or_introl HW) Ef).
      + intros x st' E. inversion E; subst. split; [apply (suf_cons u st _ l HW Ef)|].
        apply (EPL_item _ (LErrString t p kk)); [apply (in_top_cons u st _ l HW Ef)|reflexivity].
      + intros x st' E. inversion E; subst. split; [apply (suf_cons u st _ l HW Ef)|].
        apply (EPL_item _ (LErrUnexpected t)); [apply (in_top_cons u st _ l HW Ef)|right; reflexivity].
  Qed.

  Lemma peek_finl u st (k : token -> P pnode) :
    W u st -> (forall t l, fst st = LTok t :: l -> FinL (k t st)) -> FinL (pbind peek_any k st).
  Proof.
    intros HW Hk. unfold pbind, peek_any. destruct (fst st) as [|it l] eqn:Ef.
    - intros x st' E. inversion E; subst. split; [apply (W_suf u); exact HW|exact I].
    - destruct it as [t|t p kk|t]; cbn [item_result].
      + apply (Hk t l eq_refl).
      + intros x st' E. inversion E; subst. split; [apply (W_suf u); exact HW|].
        apply (EPL_item _ (LErrString t p kk)); [apply (in_top_cons u st' _ l HW Ef)|reflexivity].
      + intros x st' E. inversion E; subst. split; [apply (W_suf u); exact HW|].
        apply (EPL_item _ (LErrUnexpected t)); [apply (in_top_cons u st' _ l HW Ef)|right; reflexivity].
  Qed.

  Lemma get_known_finl u st t l (k : token -> P pnode) :
    W u st -> fst st = LTok t :: l ->
    (forall st', W (u ++ [LTok t]) st' -> FinL (k t st')) -> FinL (pbind get_any k st).
  Proof.
    intros HW Hf Hk. unfold pbind, get_any. rewrite Hf. cbn [item_result].
    apply Hk. apply (W_snoc top u st t l (or_introl HW) Hf).
  Qed.

  Lemma in_last (u : list lexitem) it : In it (u ++ [it]).
  Proof. apply in_or_app. right. left. reflexivity. Qed.

  Lemma get_reg_finl u st (k : wth reg -> P pnode) :
    W u st -> (forall r st', W (u ++ [LTok (wt r)]) st' -> FinL (k r st')) -> FinL (pbind get_reg k st).
  Proof.
    intros HW Hk. unfold get_reg. rewrite pbind_assoc. apply (get_any_finl u st _ HW).
    intros t st' HW'. unfold as_reg. destruct (tok_reg t) as [r|] eqn:Er.
    - destruct (tok_reg_wt _ _ Er) as [<- _]. apply Hk. exact HW'.
    - eapply finl_fail_item; [cbn [lexerr_item]; reflexivity|exact HW'|apply in_last].
  Qed.

  Lemma get_label_finl u st (k : wth str -> P pnode) :
    W u st -> (forall r st', W (u ++ [LTok (wt r)]) st' -> FinL (k r st')) -> FinL (pbind get_label k st).
  Proof.
    intros HW Hk. unfold get_label. rewrite pbind_assoc. apply (get_any_finl u st _ HW).
    intros t st' HW'. unfold as_label. destruct (tok_label t) as [r|] eqn:Er.
    - destruct (tok_label_wt _ _ Er) as [<- _]. apply Hk. exact HW'.
    - eapply finl_fail_item; [cbn [lexerr_item]; reflexivity|exact HW'|apply in_last].
  Qed.

  Lemma get_string_finl u st (k : wth str -> P pnode) :
    W u st -> (forall r st', W (u ++ [LTok (wt r)]) st' -> FinL (k r st')) -> FinL (pbind get_string k st).
  Proof.
    intros HW Hk. unfold get_string. rewrite pbind_assoc. apply (get_any_finl u st _ HW).
    intros t st' HW'. unfold as_string. destruct (tok_string t) as [r|] eqn:Er.
    - destruct (tok_string_wt _ _ Er) as [<- _]. apply Hk. exact HW'.
    - eapply finl_fail_item; [cbn [lexerr_item]; reflexivity|exact HW'|apply in_last].
  Qed.

  Lemma lift_imm_finl t st (k : option (wth Z) -> P pnode) :
    (forall o, tok_imm t = Ok o -> FinL (k o st)) -> FinL (pbind (lift_res (tok_imm t)) k st).
  Proof.
    intros Hk. unfold pbind, lift_res. destruct (tok_imm t) as [o| |] eqn:E.
    - apply Hk. reflexivity.
    - intros x st' H. discriminate H.
    - intros x st' H. discriminate H.
  Qed.

  Lemma lift_csrimm_finl t st (k : option (wth Z) -> P pnode) :
    (forall o, tok_csrimm t = Ok o -> FinL (k o st)) -> FinL (pbind (lift_res (tok_csrimm t)) k st).
  Proof.
    intros Hk. unfold pbind, lift_res. destruct (tok_csrimm t) as [o| |] eqn:E.
    - apply Hk. reflexivity.
    - intros x st' H. discriminate H.
    - intros x st' H. discriminate H.
  Qed.

  Lemma get_imm_finl u st (k : wth Z -> P pnode) :
    W u st -> (forall r st', W (u ++ [LTok (wt r)]) st' -> FinL (k r st')) -> FinL (pbind get_imm k st).
  Proof.
    intros HW Hk. unfold get_imm. rewrite pbind_assoc. apply (get_any_finl u st _ HW).
    intros t st' HW'. unfold as_imm. rewrite pbind_assoc. apply lift_imm_finl. intros [r|] Er.
    - destruct (tok_imm_wt _ _ Er) as [<- _]. apply Hk. exact HW'.
    - eapply finl_fail_item; [cbn [lexerr_item]; reflexivity|exact HW'|apply in_last].
  Qed.

  Lemma get_csrimm_finl u st (k : wth Z -> P pnode) :
    W u st -> (forall r st', W (u ++ [LTok (wt r)]) st' -> FinL (k r st')) -> FinL (pbind get_csrimm k st).
  Proof.
    intros HW Hk. unfold get_csrimm. rewrite pbind_assoc. apply (get_any_finl u st _ HW).
    intros t st' HW'. unfold as_csrimm. rewrite pbind_assoc. apply lift_csrimm_finl. intros [r|] Er.
    - destruct (tok_csrimm_wt _ _ Er) as [<- _]. apply Hk. exact HW'.
    - eapply finl_fail_item; [cbn [lexerr_item]; reflexivity|exact HW'|apply in_last].
  Qed.

  Lemma expect_rparen_finl u st (k : unit -> P pnode) :
    W u st -> (forall t st', W (u ++ [LTok t]) st' -> FinL (k Datatypes.tt st')) -> FinL (pbind expect_rparen k st).
  Proof.
    intros HW Hk. unfold expect_rparen. rewrite pbind_assoc. apply (get_any_finl u st _ HW).
    intros t st' HW'. destruct (is_rparen t) eqn:Er.
    - apply (Hk t). exact HW'.
    - eapply finl_fail_item; [cbn [lexerr_item]; reflexivity|exact HW'|apply in_last].
  Qed.

  Lemma get_raw_finl u st (k : rawtok -> P pnode) : W u st -> FinL (k (rs u) st) -> FinL (pbind get_raw k st).
  Proof.
    intros [_ [_ [H3 _]]] Hk. unfold pbind, get_raw. unfold rs in Hk. rewrite <- H3 in Hk. exact Hk.
  Qed.

  Ltac in_tac := unfold inu; repeat rewrite in_app_iff; cbn [In]; auto 15.
  Ltac toks_tac :=
    cbn [node_tokens dir_tokens wt];
    repeat first [apply Forall_nil | apply Forall_cons; [in_tac|]].
  Ltac pstepL :=
    cbv beta;
    lazymatch goal with
    | |- FinL (pbind get_reg _ _) => eapply get_reg_finl; [eassumption|intros ? ? ?]
    | |- FinL (pbind get_imm _ _) => eapply get_imm_finl; [eassumption|intros ? ? ?]
    | |- FinL (pbind get_label _ _) => eapply get_label_finl; [eassumption|intros ? ? ?]
    | |- FinL (pbind get_csrimm _ _) => eapply get_csrimm_finl; [eassumption|intros ? ? ?]
    | |- FinL (pbind get_string _ _) => eapply get_string_finl; [eassumption|intros ? ? ?]
    | |- FinL (pbind expect_rparen _ _) => eapply expect_rparen_finl; [eassumption|intros ? ? ?]
    | |- FinL (pbind get_raw _ _) => eapply get_raw_finl; [eassumption|]
    | |- FinL (ret _ _) => eapply finl_ret; [eassumption|reflexivity|toks_tac]
    | |- FinL (fail (ENeedTwoNodes _ _) _) =>
        apply finl_fail; [eapply W_suf; eassumption|];
        cbn [EPL]; eexists; split; [eassumption|];
        split; [reflexivity|]; split; [reflexivity|]; split; [toks_tac|]; split; [toks_tac|];
        cbn [expansion_pair wv]; repeat split; reflexivity
    | |- FinL (fail _ _) =>
        eapply finl_fail_item; [cbn [lexerr_item]; first [reflexivity|left; reflexivity]|eassumption|in_tac]
    end.

  Lemma parse_inst_finl i t0 st : W [LTok t0] st -> FinL (parse_inst i t0 st).
  Proof.
    intros HW0. unfold parse_inst. cbv zeta.
    destruct (inst_kind i) eqn:K.
    - (* KArith *) repeat pstepL.
    - repeat pstepL.
    - repeat pstepL.
    - (* KJumpLink *)
      eapply get_any_finl; [eassumption|]. intros nx st1 HW1.
      destruct (tok_reg nx) as [r|] eqn:Er.
      + destruct (tok_reg_wt _ _ Er) as [<- _]. repeat pstepL.
      + destruct (tok_label nx) as [nm|] eqn:El.
        * destruct (tok_label_wt _ _ El) as [<- _]. repeat pstepL.
        * pstepL.
    - (* KJumpLinkR *)
      pstepL. eapply peek_finl; [eassumption|]. intros nx l0 Hnx.
      destruct (tok_reg nx) as [r1|] eqn:Er.
      + destruct (tok_reg_wt _ _ Er) as [Hw _].
        eapply get_known_finl; [eassumption|exact Hnx|]. intros st2 HW2. rewrite <- Hw in *.
        repeat pstepL.
      + apply lift_imm_finl. intros [imm|] Ei.
        * destruct (tok_imm_wt _ _ Ei) as [Hw _].
          eapply get_known_finl; [eassumption|exact Hnx|]. intros st2 HW2. rewrite <- Hw in *.
          eapply peek_finl; [eassumption|]. intros pk l Hpk.
          destruct (is_lparen pk) eqn:Elp.
          -- eapply get_known_finl; [eassumption|exact Hpk|]. intros ? ?.
             repeat pstepL.
          -- repeat pstepL.
        * destruct (is_lparen nx) eqn:Elp.
          -- eapply get_known_finl; [eassumption|exact Hnx|]. intros st2 HW2.
             repeat pstepL.
          -- repeat pstepL.
    - (* KLoad *)
      pstepL. eapply get_any_finl; [eassumption|]. intros nx st2 HW2.
      apply lift_imm_finl. intros [imm|] Ei.
      + destruct (tok_imm_wt _ _ Ei) as [<- _].
        eapply peek_finl; [eassumption|]. intros pk l Hpk.
        destruct (is_lparen pk) eqn:Elp.
        * eapply get_known_finl; [eassumption|exact Hpk|]. intros ? ?.
          repeat pstepL.
        * repeat pstepL.
      + destruct (tok_label nx) as [lb|] eqn:El.
        * destruct (tok_label_wt _ _ El) as [<- _]. repeat pstepL.
        * destruct (is_lparen nx) eqn:Elp; repeat pstepL.
    - (* KStore *)
      pstepL. eapply get_any_finl; [eassumption|]. intros nx st2 HW2.
      apply lift_imm_finl. intros [imm|] Ei.
      + destruct (tok_imm_wt _ _ Ei) as [<- _].
        eapply peek_finl; [eassumption|]. intros pk l Hpk.
        destruct (is_lparen pk) eqn:Elp.
        * eapply get_known_finl; [eassumption|exact Hpk|]. intros ? ?.
          repeat pstepL.
        * destruct (tok_reg pk) as [tmp|] eqn:Et.
          -- destruct (tok_reg_wt _ _ Et) as [<- _].
             eapply get_known_finl; [eassumption|exact Hpk|]. intros ? ?.
             repeat pstepL.
          -- repeat pstepL.
      + destruct (tok_label nx) as [lb|] eqn:El.
        * destruct (tok_label_wt _ _ El) as [<- _]. repeat pstepL.
        * destruct (is_lparen nx) eqn:Elp; repeat pstepL.
    - repeat pstepL.
    - repeat pstepL.
    - repeat pstepL.
    - repeat pstepL.
    - (* KPseudo *) destruct i; repeat pstepL.
    - (* KUpperArith *)
      pstepL. pstepL. destruct (lui_imm (wv r0)); repeat pstepL.
  Qed.

  Lemma data_values_finl : forall f acc u st, W u st -> Forall (fun w => inu u (wt w)) acc ->
    forall x st', data_values f acc st = Ok (x, st') ->
    exists vals d, x = inr vals /\ W (u ++ d) st' /\ Forall (fun w => inu (u ++ d) (wt w)) vals.
  Proof.
    induction f as [|f IH]; intros acc u st HW Hacc x st' E; [discriminate E|].
    cbn [data_values] in E.
    assert (Hstop : ret (rev acc) st = Ok (x, st') ->
              exists vals d, x = inr vals /\ W (u ++ d) st' /\ Forall (fun w => inu (u ++ d) (wt w)) vals).
    { intros E'. unfold ret in E'. inversion E'; subst. exists (rev acc), []. rewrite app_nil_r.
      split; [reflexivity|]. split; [exact HW|apply Forall_rev; exact Hacc]. }
    destruct (fst st) as [|it l] eqn:Ef; [apply Hstop; exact E|].
    destruct it as [t|t p k|t]; try (apply Hstop; exact E).
    pose proof (W_snoc top u st t l (or_introl HW) Ef) as HW'.
    assert (Hget : forall acc', Forall (fun w => inu (u ++ [LTok t]) (wt w)) acc' ->
              pbind get_any (fun _ => data_values f acc') st = Ok (x, st') ->
              exists vals d, x = inr vals /\ W (u ++ d) st' /\ Forall (fun w => inu (u ++ d) (wt w)) vals).
    { intros acc' Hacc' E'. unfold pbind at 1, get_any in E'. rewrite Ef in E'. cbn [item_result] in E'.
      destruct (IH acc' _ _ HW' Hacc' _ _ E') as [vals [d [H1 [H2 H3]]]].
      exists vals, ([LTok t] ++ d). rewrite app_assoc. auto. }
    assert (Hacc1 : Forall (fun w => inu (u ++ [LTok t]) (wt w)) acc).
    { eapply Forall_impl; [|exact Hacc]. intros w Hw. apply inu_app_l. exact Hw. }
    unfold pbind at 1, peek_any in E. rewrite Ef in E. cbn [item_result] in E.
    assert (Hother :
         pbind (lift_res (tok_imm t))
           (fun r => match r with
                     | Some i => pbind get_any (fun _ => data_values f (i :: acc))
                     | None => ret (rev acc)
                     end) st = Ok (x, st') ->
         exists vals d, x = inr vals /\ W (u ++ d) st' /\ Forall (fun w => inu (u ++ d) (wt w)) vals).
    { intros E'. unfold pbind at 1, lift_res in E'. destruct (tok_imm t) as [[i|]| |] eqn:Ei; try discriminate E'.
      - apply (Hget (i :: acc)); [|exact E']. constructor; [|exact Hacc1].
        destruct (tok_imm_wt _ _ Ei) as [-> _]. apply in_last.
      - apply Hstop. exact E'. }
    destruct (tt t); try (apply Hother; exact E). apply (Hget acc Hacc1). exact E.
  Qed.

  Lemma skip_macro_finl : forall f u st, W u st ->
    forall x st', skip_macro f st = Ok (x, st') ->
      Suf st' /\ match x with inl e => EPL e st' | inr _ => True end.
  Proof.
    induction f as [|f IH]; intros u st HW x st' E; [discriminate E|].
    cbn [skip_macro] in E. unfold pbind at 1, get_any in E.
    destruct (fst st) as [|it l] eqn:Ef.
    - inversion E; subst. split; [apply (W_suf u); exact HW|exact I].
    - destruct it as [t|t p k|t]; cbn [item_result] in E.
      + pose proof (W_snoc top u st t l (or_introl HW) Ef) as HW'.
        destruct (tt t); try (apply (IH _ _ HW' _ _ E)).
        destruct (dir_from_str s) as [[]|]; try (apply (IH _ _ HW' _ _ E)).
        unfold ret in E. inversion E; subst. split; [apply (W_suf _ _ HW')|exact I].
      + inversion E; subst. split; [apply (suf_cons u st _ l HW Ef)|].
        apply (EPL_item _ (LErrString t p k)); [apply (in_top_cons u st _ l HW Ef)|reflexivity].
      + inversion E; subst. split; [apply (suf_cons u st _ l HW Ef)|].
        apply (EPL_item _ (LErrUnexpected t)); [apply (in_top_cons u st _ l HW Ef)|right; reflexivity].
  Qed.

  Lemma parse_directive_finl d t0 st : W [LTok t0] st -> FinL (parse_directive d t0 st).
  Proof.
    intros HW0. unfold parse_directive. cbv zeta.
    assert (Hdata : forall dt, FinL (pbind remaining (fun n => pbind (data_values (S n) [])
              (fun vals => pbind get_raw (fun rt => ret (PDirective (mkw d t0) (DDat dt vals) rt)))) st)).
    { intros dt. rewrite remaining_bind. intros x st' E. unfold pbind at 1 in E.
      destruct (data_values (S (length (fst st))) [] st) as [[x1 st1]| |] eqn:Ed; try discriminate E.
      destruct (data_values_finl _ _ _ _ HW0 (Forall_nil _) _ _ Ed) as [vals [dd [-> [HW1 Hv]]]].
      revert x st' E.
      change (FinL (pbind get_raw (fun rt => ret (PDirective (mkw d t0) (DDat dt vals) rt)) st1)).
      pstepL. eapply finl_ret; [eassumption|reflexivity|].
      cbn [node_tokens dir_tokens wt]. apply Forall_cons; [in_tac|]. apply Forall_inu_map. exact Hv. }
    destruct d; try (apply Hdata); try (repeat pstepL).
    (* DMacro *)
    rewrite remaining_bind. intros x st' E. unfold pbind at 1 in E.
    destruct (skip_macro (S (length (fst st))) st) as [[x1 st1]| |] eqn:Es; try discriminate E.
    destruct (skip_macro_finl _ _ _ HW0 _ _ Es) as [S1 S2].
    destruct x1 as [e|[]].
    - inversion E; subst. split; assumption.
    - unfold fail in E. inversion E; subst. split; [exact S1|].
      apply (EPL_item _ (LTok t0)); [apply (W_in _ _ _ HW0); left; reflexivity|reflexivity].
  Qed.

  Lemma parse_stmt_finl : FinL (parse_stmt (top, None)).
  Proof.
    unfold parse_stmt, pbind at 1, get_any. cbn [fst snd].
    assert (Hcase : top = [] \/ exists it l, top = it :: l) by (destruct top; eauto).
    destruct Hcase as [Et|[it [l Et]]]; rewrite Et.
    { intros x st' E. inversion E; subst. split; [exists []; exact Et|exact I]. }
    assert (Hit : In it top) by (rewrite Et; left; reflexivity).
    assert (Hsuf : forall o, Suf (l, o)) by (intros o; exists [it]; exact Et).
    destruct it as [t0|t p k|t]; cbn [item_result].
    2:{ intros x st' E. inversion E; subst. split; [apply Hsuf|].
        apply (EPL_item _ (LErrString t p k)); [exact Hit|reflexivity]. }
    2:{ intros x st' E. inversion E; subst. split; [apply Hsuf|].
        apply (EPL_item _ (LErrUnexpected t)); [exact Hit|right; reflexivity]. }
    set (st := (l, Some (raw_of_token t0)) : pstate).
    assert (HW : W [LTok t0] st).
    { split; [rewrite Et; reflexivity|]. split; [repeat constructor|]. split; [reflexivity|discriminate]. }
    destruct (tt t0) as [| | |s|s|d|s|c|s] eqn:Ett.
    - pstepL.
    - pstepL.
    - pstepL.
    - destruct (label_from_str s); repeat pstepL.
    - destruct (inst_from_str s); [apply parse_inst_finl; exact HW|pstepL].
    - destruct (dir_from_str d) as [dt|]; [apply parse_directive_finl; exact HW|pstepL].
    - pstepL.
    - pstepL.
    - apply finl_fail; [apply Hsuf|exact I].
  Qed.
End StmtL.

(* ================================================================================== *)
(* Part B: one call of [parse_one], in terms of token lists and hulls.                   *)

Lemma is_tok_map : forall u, Forall is_tok u -> exists ut, u = map LTok ut.
Proof.
  induction u as [|x u IH]; intros H; [exists []; reflexivity|].
  inversion H as [|? ? Hx Hu]; subst. destruct (IH Hu) as [ut ->].
  destruct x as [t| |]; try contradiction. exists (t :: ut). reflexivity.
Qed.

Lemma last_cons {A} : forall (l : list A) a d, last (a :: l) d = last l a.
Proof.
  induction l as [|b l IH]; intros a d; [reflexivity|].
  change (last (a :: b :: l) d) with (last (b :: l) d). rewrite (IH b d), (IH b a). reflexivity.
Qed.

Lemma fold_hull : forall l tf r, rend (rrange r) = rend (trange tf) ->
  fold_left rawstep (map LTok l) (Some r) =
  Some (mkraw (mkrange (rstart (rrange r)) (rend (trange (last l tf)))) (rfile r)).
Proof.
  induction l as [|t l IH]; intros tf r Hr.
  - cbn [map fold_left last]. destruct r as [[s e] f]. cbn [rrange rend rstart rfile] in *. subst e. reflexivity.
  - cbn [map fold_left rawstep].
    rewrite (IH t (mkraw (mkrange (rstart (rrange r)) (rend (trange t))) (rfile r)) eq_refl).
    rewrite last_cons. reflexivity.
Qed.

Lemma rs_hull tf u' : rs (map LTok (tf :: u')) = hull tf (last u' tf).
Proof.
  unfold rs, rawsum. cbn [map fold_left rawstep]. rewrite (fold_hull u' tf (raw_of_token tf) eq_refl). reflexivity.
Qed.

Lemma inu_map_in ut t : inu (map LTok ut) t -> In t ut.
Proof.
  unfold inu. intros H. apply in_map_iff in H. destruct H as [t' [E Hin]]. inversion E; subst. exact Hin.
Qed.

Lemma stmt_node_of top u st n :
  W top u st -> node_raw n = rs u -> Forall (inu u) (node_tokens n) ->
  exists ut, top = map LTok ut ++ fst st /\ stmt_node ut n.
Proof.
  intros [H1 [H2 [_ H4]]] Hr Ht. destruct (is_tok_map u H2) as [ut ->].
  exists ut. split; [exact H1|]. destruct ut as [|tf ut']; [contradiction H4; reflexivity|].
  cbn [stmt_node]. split; [rewrite Hr; apply rs_hull|].
  eapply Forall_impl; [|exact Ht]. intros t. apply inu_map_in.
Qed.

(* what one statement yields, relative to the items it started from *)
Definition stmt_res (top : list lexitem) (x : lexerr + pnode) (rest : list lexitem) : Prop :=
  match x with
  | inr n => exists u, top = map LTok u ++ rest /\ stmt_node u n
  | inl (ENeedTwoNodes n1 n2) =>
      exists u, top = map LTok u ++ rest /\ stmt_node u n1 /\ stmt_node u n2 /\ expansion_pair n1 n2
  | inl e => match e with
             | EIgnoredWithoutWarning | EUnexpectedEOF => True
             | _ => exists it, In it top /\ lexerr_item e it
             end
  end.

Theorem parse_one_loc top x rest :
  parse_one top = Ok (x, rest) -> (exists d, top = d ++ rest) /\ stmt_res top x rest.
Proof.
  intros E. unfold parse_one, bind in E.
  destruct (parse_stmt (top, None)) as [[x' [rest' o]]| |] eqn:Ep; try discriminate E.
  inversion E; subst x' rest'. clear E.
  destruct (parse_stmt_finl top _ _ Ep) as [Hs Hx]. cbn [fst] in Hs. split; [exact Hs|].
  destruct x as [e|n].
  - destruct e; cbn [EPL stmt_res] in *; try exact Hx.
    destruct Hx as [u [HW [R1 [R2 [T1 [T2 X]]]]]].
    destruct (stmt_node_of top u _ n1 HW R1 T1) as [ut [A1 A2]].
    destruct (stmt_node_of top u _ n2 HW R2 T2) as [ut' [B1 B2]].
    cbn [fst] in A1, B1.
    assert (ut' = ut).
    { rewrite A1 in B1. apply app_inv_tail in B1. clear -B1. revert ut' B1.
      induction ut as [|a ut IH]; intros [|b ut'] H; try discriminate H; [reflexivity|].
      cbn [map] in H. inversion H; subst. f_equal. apply IH. assumption. }
    subst ut'. exists ut. auto.
  - destruct Hx as [u [HW [R T]]]. destruct (stmt_node_of top u _ n HW R T) as [ut [A1 A2]].
    exists ut. split; assumption.
Qed.

(* ================================================================================== *)
(* Part C: the file driver on a single-file store.                                       *)

Definition err_from (top : list lexitem) (e : parse_error) : Prop := exists it, In it top /\ err_item e it.

Lemma segs_prefix d l ns : segs l ns -> segs (d ++ l) ns.
Proof.
  intros H. inversion H; subst.
  - constructor.
  - rewrite app_assoc. apply segs_one; assumption.
  - rewrite app_assoc. apply segs_two; assumption.
Qed.

Lemma err_from_prefix d l e : err_from l e -> err_from (d ++ l) e.
Proof. intros [it [H1 H2]]. exists it. split; [apply in_or_app; right; exact H1|exact H2]. Qed.

Lemma err_perr_item e pe it : err_perr e = Some pe -> lexerr_item e it -> err_item pe it.
Proof.
  destruct e; cbn [err_perr lexerr_item]; intros E H; try discriminate E; injection E as <-; cbn [err_item LineSpec.err_token]; exact H.
Qed.

Lemma to_parse_error_item e pth : err_item (to_parse_error e pth) (LTok (wt pth)).
Proof. destruct e; reflexivity. Qed.

Lemma include_path_token n pth u : include_path n = Some pth -> stmt_node u n -> In (wt pth) u.
Proof.
  intros Hi Hn. destruct n; try discriminate Hi. destruct dt; try discriminate Hi.
  cbn [include_path] in Hi. inversion Hi; subst.
  destruct u as [|tf u']; [contradiction|]. destruct Hn as [_ Ht].
  cbn [node_tokens dir_tokens] in Ht. inversion Ht as [|? ? _ Ht']; subst. inversion Ht' as [|? ? Hp _]; subst. exact Hp.
Qed.

Section DriveL.
  Variables (chk : bool) (path text : str).
  Notation fs := [(path, @inl str unit text)].
  Notation rs1 := (mkrs [path]).

  (* one step: the nodes pushed are the statement of a front segment, the errors are about items of [top],
     and the driver continues with a suffix of [top] *)
  Lemma dstep_loc top tops rs' dn de :
    dstep chk fs false top rs1 [] [] = Ok (tops, rs', dn, de) ->
    rs' = rs1 /\ Forall (err_from top) de /\
    ((tops = [] /\ dn = []) \/
     exists top', tops = [top'] /\ (exists d, top = d ++ top') /\
                  forall new', segs top' new' -> segs top (rev dn ++ new')).
  Proof.
    unfold dstep. intros H.
    destruct (parse_one top) as [[x rest]| |] eqn:Ep; cbn [bind] in H; try discriminate H.
    destruct (parse_one_loc top x rest Ep) as [[d0 Hd0] Hx].
    assert (Hrec : exists d, top = d ++ recover rest).
    { destruct (recover_suffix rest) as [d2 Hd2]. exists (d0 ++ d2). rewrite <- app_assoc, <- Hd2. exact Hd0. }
    assert (Hplain : forall top', (exists d, top = d ++ top') ->
              forall new', segs top' new' -> segs top (rev [] ++ new')).
    { intros top' [d Hd] new' Hs. cbn [rev app]. rewrite Hd. apply segs_prefix. exact Hs. }
    destruct x as [e|n].
    - assert (He : Forall (err_from top) (match err_perr e with Some pe => [pe] | None => [] end)).
      { destruct (err_perr e) as [pe|] eqn:Epe; [|constructor]. constructor; [|constructor].
        destruct e; try discriminate Epe; cbn [stmt_res] in Hx;
          destruct Hx as [it [H1 H2]]; exists it; (split; [exact H1|]); apply (err_perr_item _ _ _ Epe H2). }
      assert (Hde : de = match err_perr e with Some pe => [pe] | None => [] end /\ rs' = rs1 /\
                    tops = match stmt_next (inl e) rest with Some t => [t] | None => [] end /\
                    dn = err_nodes e).
      { inversion H; subst. rewrite app_nil_r. destruct (err_perr e); auto. }
      destruct Hde as [-> [-> [-> ->]]]. split; [reflexivity|]. split; [exact He|].
      destruct e; cbn [stmt_next err_nodes].
      + right. eexists. split; [reflexivity|]. split; [destruct (is_newline_tok got); eauto|]. apply Hplain.
        destruct (is_newline_tok got); eauto.
      + right. eexists. split; [reflexivity|]. split; [eauto|]. apply Hplain. eauto.
      + right. eexists. split; [reflexivity|]. split; [eauto|]. apply Hplain. eauto.
      + right. eexists. split; [reflexivity|]. split; [eauto|]. apply Hplain. eauto.
      + right. eexists. split; [reflexivity|]. split; [eauto|]. apply Hplain. eauto.
      + left. split; reflexivity.
      + right. eexists. split; [reflexivity|]. split; [eauto|].
        cbn [stmt_res] in Hx. destruct Hx as [u [A1 [A2 [A3 A4]]]].
        intros new' Hs. cbn [rev app]. rewrite A1. apply (segs_two [] u rest n1 n2 new'); assumption.
      + right. eexists. split; [reflexivity|]. split; [eauto|]. apply Hplain. eauto.
      + right. eexists. split; [reflexivity|]. split; [eauto|]. apply Hplain. eauto.
      + right. eexists. split; [reflexivity|]. split; [eauto|]. apply Hplain. eauto.
      + right. eexists. split; [reflexivity|]. split; [eauto|]. apply Hplain. eauto.
    - cbn [stmt_res] in Hx. destruct Hx as [u [A1 A2]].
      destruct (include_path n) as [pth|] eqn:Einc.
      + destruct (import_fail path text (wv pth)) as [e [I1 _]]. rewrite I1 in H. inversion H; subst.
        split; [reflexivity|]. split.
        * constructor; [|constructor]. exists (LTok (wt pth)). split; [|apply to_parse_error_item].
          rewrite A1. apply in_or_app. left. apply in_map. apply (include_path_token n pth u Einc A2).
        * right. eexists. split; [reflexivity|]. split; [eauto|]. apply Hplain. eauto.
      + inversion H; subst. split; [reflexivity|]. split; [constructor|].
        right. eexists. split; [reflexivity|]. split; [eauto|].
        intros new' Hs. cbn [rev app]. rewrite A1. apply (segs_one [] u rest n new'); assumption.
  Qed.

  Lemma drive_loc : forall f top nodes errs ns es rs',
    drive f chk fs false [top] rs1 nodes errs = Ok (ns, es, rs') ->
    exists newn newe, ns = rev nodes ++ newn /\ es = rev errs ++ newe /\
                      segs top newn /\ Forall (err_from top) newe.
  Proof.
    induction f as [|f IH]; intros top nodes errs ns es rs' H; [discriminate H|].
    rewrite drive_S, dstep_acc in H.
    destruct (dstep chk fs false top rs1 [] []) as [[[[tops rs''] dn] de]| |] eqn:Ed; cbn [bind] in H; try discriminate H.
    destruct (dstep_loc top tops rs'' dn de Ed) as [-> [He [[-> ->]|[top' [-> [[d Hd] Hs]]]]]].
    - cbn [app] in H. destruct f as [|f]; [discriminate H|]. rewrite drive_nil in H. inversion H; subst.
      exists [], (rev de). rewrite app_nil_r, rev_app_distr. split; [reflexivity|]. split; [reflexivity|].
      split; [constructor|apply Forall_rev; exact He].
    - cbn [app] in H. destruct (IH top' _ _ _ _ _ H) as [newn [newe [N1 [N2 [N3 N4]]]]].
      exists (rev dn ++ newn), (rev de ++ newe).
      split; [rewrite N1, rev_app_distr, <- app_assoc; reflexivity|].
      split; [rewrite N2, rev_app_distr, <- app_assoc; reflexivity|].
      split; [apply Hs; exact N3|].
      apply Forall_app. split; [apply Forall_rev; exact He|].
      eapply Forall_impl; [|exact N4]. intros e Hee. rewrite Hd. apply err_from_prefix. exact Hee.
  Qed.

  (* the parse of a single file, structurally *)
  Theorem parse_file_segs nodes errs rs items :
    parse_from_file chk fs path false = Ok (nodes, errs, rs) ->
    lex_all chk (Some 0) (normalize_text text) = Ok items ->
    exists body, nodes = entry_node 0 :: body /\ segs items body /\ Forall (err_from items) errs.
  Proof.
    intros Hp Hl. rewrite parse_from_file_unfold, Hl in Hp. cbn [bind] in Hp.
    destruct (drive_loc _ _ _ _ _ _ _ Hp) as [newn [newe [N1 [N2 [N3 N4]]]]].
    exists newn. subst. split; [reflexivity|]. split; assumption.
  Qed.
End DriveL.

(* ================================================================================== *)
(* Part D: geometry.  What the lexer facts say about the tokens, hulls and segments.     *)

(* a range that may span lines (the hull of a statement; a `.word` list may continue on the next
   line): both ends consistent with the text, ordered, inside the text *)
Definition span_ok (src : str) (r : range) : Prop :=
  pos_ok src (rstart r) /\ pos_ok src (rend r) /\
  raw (rstart r) <= raw (rend r) /\ raw (rend r) < N.of_nat (length src).

Lemma range_span src r : range_ok src r -> span_ok src r.
Proof. intros [H1 [H2 [H3 [H4 _]]]]. repeat split; assumption. Qed.

Lemma ssorted_app_inv {A} (R : A -> A -> Prop) : forall l1 l2,
  StronglySorted R (l1 ++ l2) ->
  StronglySorted R l1 /\ StronglySorted R l2 /\ forall a b, In a l1 -> In b l2 -> R a b.
Proof.
  induction l1 as [|x l1 IH]; intros l2 H; cbn [app] in H.
  - split; [constructor|]. split; [exact H|]. intros a b [].
  - inversion H as [|? ? Hs Hf]; subst. destruct (IH l2 Hs) as [I1 [I2 I3]].
    apply Forall_app in Hf. destruct Hf as [F1 F2]. split; [constructor; assumption|]. split; [exact I2|].
    intros a b [<-|Ha] Hb; [|apply I3; assumption]. rewrite Forall_forall in F2. apply F2. exact Hb.
Qed.

Lemma before_tok_lt a b it : before (LTok a) it -> it = LTok b \/ item_range it = trange b ->
  raw (rend (trange a)) < raw (rstart (trange b)).
Proof.
  intros [H|[t [p [k [E _]]]]] Hb; [|discriminate E]. cbn [item_range] in H.
  destruct Hb as [->|Hb]; [exact H|]. rewrite Hb in H. exact H.
Qed.

(* all the facts about the lexer output of a block of lines we need *)
Definition items_good (src : str) (file : option N) (items : list lexitem) : Prop :=
  StronglySorted before items /\
  forall it, In it items ->
    range_ok src (item_range it) /\ tfile (item_token it) = file /\
    match it with LTok t => spelling_ok src t | _ => True end.

Lemma lex_items_good chk file src items :
  Lb src -> lex_all chk file src = Ok items -> items_good src file items.
Proof.
  intros HL Hl. destruct (lex_items_facts chk file src items HL Hl) as [[_ [Hs _]] [Hlast Hlen]].
  split; [exact Hs|]. intros it Hin.
  destruct HL as [->|HE]; [destruct items; [destruct Hin|cbn [length] in Hlen; lia]|].
  destruct (lex_all_spec chk src file) as [items' [S1 [_ S3]]]. rewrite Hl in S1. inversion S1; subst items'.
  specialize (S3 HE). rewrite Forall_forall in S3. pose proof (S3 it Hin) as Hok.
  destruct it as [t|t p k|t]; cbn [item_ok item_range item_token] in *.
  - destruct Hok as [H1 [H2 H3]]. auto.
  - destruct Hok as [P1 [P2 [R1 [R2 [R3 F]]]]]. split; [|split; [exact F|exact I]].
    destruct Hlast as [->|[pre [tn [Hpre Htn]]]]; [destruct Hin|].
    assert (Hnl : In (LTok tn) items) by (rewrite Hpre; apply in_or_app; right; left; reflexivity).
    destruct (S3 _ Hnl) as [[_ [_ [N1 [N2 _]]]] _].
    assert (Hinpre : In (LErrString t p k) pre).
    { rewrite Hpre in Hin. apply in_app_or in Hin. destruct Hin as [Hin|[Hin|[]]]; [exact Hin|discriminate Hin]. }
    rewrite Hpre in Hs. destruct (ssorted_app_inv before _ _ Hs) as [_ [_ Hrel]].
    pose proof (before_le _ _ (Hrel _ _ Hinpre (or_introl eq_refl))) as B. cbn [item_range] in B.
    unfold range_ok. rewrite R1 in *. repeat split; try assumption; lia.
  - destruct Hok as [H1 [H2 _]]. auto.
Qed.

Lemma last_in_or {A} : forall (l : list A) d, (l = [] /\ last l d = d) \/ In (last l d) l.
Proof.
  induction l as [|a l IH]; intros d; [left; split; reflexivity|right].
  rewrite last_cons. destruct (IH a) as [[-> E]|Hin]; [left; reflexivity|right; exact Hin].
Qed.

Lemma in_last_or {A} : forall (l : list A) d t, In t l ->
  t = last l d \/ exists l1 l2, l = l1 ++ l2 /\ In t l1 /\ In (last l d) l2.
Proof.
  induction l as [|a l IH]; intros d t Hin; [destruct Hin|].
  rewrite last_cons. destruct Hin as [<-|Hin].
  - destruct (last_in_or l a) as [[-> E]|Hl]; [left; reflexivity|].
    right. exists [a], l. split; [reflexivity|]. split; [left; reflexivity|exact Hl].
  - destruct (IH a t Hin) as [E|[l1 [l2 [E [H1 H2]]]]]; [left; exact E|].
    right. exists (a :: l1), l2. split; [rewrite E; reflexivity|]. split; [right; exact H1|exact H2].
Qed.

Section Geometry.
  Variables (src : str) (file : option N) (items : list lexitem).
  Hypothesis Hgood : items_good src file items.

  Lemma good_tok t : In (LTok t) items -> range_ok src (trange t) /\ tfile t = file /\ spelling_ok src t.
  Proof. intros H. destruct Hgood as [_ G]. exact (G _ H). Qed.

  (* a segment of tokens of [items]: its hull *)
  Lemma seg_hull pre tf u' post :
    items = pre ++ map LTok (tf :: u') ++ post ->
    let tl := last u' tf in
    In (LTok tf) items /\ In (LTok tl) items /\
    span_ok src (mkrange (rstart (trange tf)) (rend (trange tl))) /\
    (forall t, In t (tf :: u') ->
       In (LTok t) items /\ raw (rstart (trange tf)) <= raw (rstart (trange t)) /\
       raw (rend (trange t)) <= raw (rend (trange tl))).
  Proof.
    intros Hit tl.
    assert (Hinu : forall t, In t (tf :: u') -> In (LTok t) items).
    { intros t Ht. rewrite Hit. apply in_or_app. right. apply in_or_app. left. apply in_map. exact Ht. }
    destruct Hgood as [Hs _]. rewrite Hit in Hs.
    destruct (ssorted_app_inv before _ _ Hs) as [_ [Hs2 _]].
    destruct (ssorted_app_inv before _ _ Hs2) as [Hsu _]. clear Hs Hs2.
    assert (Hfirst : forall t, In t u' -> raw (rend (trange tf)) < raw (rstart (trange t))).
    { intros t Ht. cbn [map] in Hsu. inversion Hsu as [|? ? _ Hf]; subst. rewrite Forall_forall in Hf.
      apply (before_tok_lt tf t (LTok t)); [apply Hf; apply in_map; exact Ht|left; reflexivity]. }
    assert (Hlast : forall t, In t (tf :: u') -> t = tl \/ raw (rend (trange t)) < raw (rstart (trange tl))).
    { intros t Ht. assert (Etl : tl = last (tf :: u') tf) by (rewrite last_cons; reflexivity).
      destruct (in_last_or (tf :: u') tf t Ht) as [E|[l1 [l2 [E [H1 H2]]]]]; [left; rewrite Etl; exact E|right].
      rewrite E, map_app in Hsu. destruct (ssorted_app_inv before _ _ Hsu) as [_ [_ Hrel]].
      rewrite Etl. apply (before_tok_lt t _ (LTok (last (tf :: u') tf))); [|left; reflexivity].
      apply Hrel; apply in_map; assumption. }
    assert (Htl : In tl (tf :: u')).
    { unfold tl. destruct (last_in_or u' tf) as [[_ ->]|H]; [left; reflexivity|right; exact H]. }
    destruct (good_tok tf (Hinu tf (or_introl eq_refl))) as [[F1 [F2 [F3 [F4 F5]]]] _].
    destruct (good_tok tl (Hinu tl Htl)) as [[L1 [L2 [L3 [L4 L5]]]] _].
    assert (Hbounds : forall t, In t (tf :: u') ->
       raw (rstart (trange tf)) <= raw (rstart (trange t)) /\ raw (rend (trange t)) <= raw (rend (trange tl))).
    { intros t Ht. destruct (good_tok t (Hinu t Ht)) as [[_ [_ [T3 _]]] _]. split.
      - destruct Ht as [<-|Ht]; [lia|]. pose proof (Hfirst t Ht). lia.
      - destruct (Hlast t Ht) as [->|Hlt]; lia. }
    split; [apply Hinu; left; reflexivity|]. split; [apply Hinu; exact Htl|]. split.
    - unfold span_ok. cbn [rstart rend]. destruct (Hbounds tl Htl) as [B1 _].
      repeat split; try assumption. lia.
    - intros t Ht. split; [apply Hinu; exact Ht|apply Hbounds; exact Ht].
  Qed.

  (* a node of a segment *)
  Lemma seg_node pre u post n :
    items = pre ++ map LTok u ++ post -> stmt_node u n ->
    (exists tf tl, In (LTok tf) items /\ In (LTok tl) items /\ node_raw n = hull tf tl) /\
    span_ok src (rrange (node_raw n)) /\ rfile (node_raw n) = file /\
    forall t, In t (node_tokens n) ->
      In t u /\ In (LTok t) items /\ range_ok src (trange t) /\ spelling_ok src t /\ tfile t = file /\
      covers (node_raw n) t.
  Proof.
    intros Hit Hn. destruct u as [|tf u']; [contradiction|]. destruct Hn as [Hr Ht].
    destruct (seg_hull pre tf u' post Hit) as [H1 [H2 [H3 H4]]].
    destruct (good_tok tf H1) as [_ [Ff _]].
    split; [exists tf, (last u' tf); auto|]. rewrite Hr. cbn [hull rrange rfile].
    split; [exact H3|]. split; [exact Ff|].
    intros t Hin. rewrite Forall_forall in Ht. pose proof (Ht t Hin) as Hu.
    destruct (H4 t Hu) as [G1 [G2 G3]]. destruct (good_tok t G1) as [R [F S]].
    split; [exact Hu|]. split; [exact G1|]. split; [exact R|]. split; [exact S|]. split; [exact F|].
    unfold covers. cbn [hull rrange rfile rstart rend]. split; [congruence|]. split; assumption.
  Qed.
End Geometry.

Lemma segs_in : forall l ns, segs l ns -> forall n, In n ns ->
  exists pre u post, l = pre ++ map LTok u ++ post /\ stmt_node u n.
Proof.
  induction 1 as [l|d u rest n ns Hn Hs IH|d u rest n1 n2 ns Hn1 Hn2 Hx Hs IH]; intros m Hin.
  - destruct Hin.
  - destruct Hin as [<-|Hin]; [exists d, u, rest; split; [reflexivity|exact Hn]|].
    destruct (IH m Hin) as [pre [u' [post [E Hm]]]]. exists (d ++ map LTok u ++ pre), u', post.
    split; [rewrite E, <- !app_assoc; reflexivity|exact Hm].
  - destruct Hin as [<-|[<-|Hin]]; [exists d, u, rest; split; [reflexivity|exact Hn1]
                                    |exists d, u, rest; split; [reflexivity|exact Hn2]|].
    destruct (IH m Hin) as [pre [u' [post [E Hm]]]]. exists (d ++ map LTok u ++ pre), u', post.
    split; [rewrite E, <- !app_assoc; reflexivity|exact Hm].
Qed.

Definition raw_end (n : pnode) : N := raw (rend (rrange (node_raw n))).
Definition raw_start (n : pnode) : N := raw (rstart (rrange (node_raw n))).

(* the node of a front segment ends before every node of the rest starts *)
Lemma front_before d u rest a ns b :
  StronglySorted before (d ++ map LTok u ++ rest) -> stmt_node u a -> segs rest ns -> In b ns ->
  raw_end a < raw_start b.
Proof.
  intros Hs Ha Hseg Hb. destruct (ssorted_app_inv before _ _ Hs) as [_ [Hs2 _]].
  destruct (ssorted_app_inv before _ _ Hs2) as [_ [_ Hrel]].
  destruct (segs_in rest ns Hseg b Hb) as [pre [u2 [post [E Hb2]]]].
  destruct u as [|tf u']; [contradiction|]. destruct u2 as [|tf2 u2']; [contradiction|].
  destruct Ha as [Ra _]. destruct Hb2 as [Rb _].
  unfold raw_end, raw_start. rewrite Ra, Rb. cbn [hull rrange rstart rend].
  apply (before_tok_lt _ tf2 (LTok tf2)); [|left; reflexivity]. apply Hrel.
  - apply in_map. destruct (last_in_or u' tf) as [[_ ->]|H]; [left; reflexivity|right; exact H].
  - rewrite E. apply in_or_app. right. left. reflexivity.
Qed.

Lemma ssorted_suffix {A} (R : A -> A -> Prop) l1 l2 : StronglySorted R (l1 ++ l2) -> StronglySorted R l2.
Proof. intros H. destruct (ssorted_app_inv R _ _ H) as [_ [H2 _]]. exact H2. Qed.

(* nodes of different statements are disjoint and in source order; the two nodes of an expansion share
   their range *)
Theorem segs_ordered : forall l ns, segs l ns -> StronglySorted before l ->
  forall i j a b, (i < j)%nat -> nth_error ns i = Some a -> nth_error ns j = Some b ->
    raw_end a < raw_start b \/ (j = S i /\ expansion_pair a b /\ node_raw a = node_raw b).
Proof.
  induction 1 as [l|d u rest n ns Hn Hseg IH|d u rest n1 n2 ns Hn1 Hn2 Hx Hseg IH]; intros Hs i j a b Hij Ha Hb.
  - destruct i; discriminate Ha.
  - assert (Hs' : StronglySorted before rest).
    { apply (ssorted_suffix before (map LTok u)). apply (ssorted_suffix before d). exact Hs. }
    destruct j as [|j]; [lia|]. destruct i as [|i]; cbn [nth_error] in Ha, Hb.
    + inversion Ha; subst a. left. apply (front_before d u rest n ns b Hs Hn Hseg). apply (nth_error_In _ _ Hb).
    + destruct (IH Hs' i j a b ltac:(lia) Ha Hb) as [H|[-> H]]; [left; exact H|right; split; [reflexivity|exact H]].
  - assert (Hs' : StronglySorted before rest).
    { apply (ssorted_suffix before (map LTok u)). apply (ssorted_suffix before d). exact Hs. }
    destruct j as [|j]; [lia|]. destruct i as [|[|i]]; cbn [nth_error] in Ha, Hb.
    + inversion Ha; subst a. destruct j as [|j]; cbn [nth_error] in Hb.
      * inversion Hb; subst b. right. split; [reflexivity|]. split; [exact Hx|].
        destruct u as [|tf u']; [contradiction|]. destruct Hn1 as [-> _]. destruct Hn2 as [-> _]. reflexivity.
      * left. apply (front_before d u rest n1 ns b Hs Hn1 Hseg). apply (nth_error_In _ _ Hb).
    + inversion Ha; subst a. destruct j as [|j]; [lia|]. cbn [nth_error] in Hb.
      left. apply (front_before d u rest n2 ns b Hs Hn2 Hseg). apply (nth_error_In _ _ Hb).
    + destruct j as [|j]; [lia|]. cbn [nth_error] in Hb.
      destruct (IH Hs' i j a b ltac:(lia) Ha Hb) as [H|[-> H]]; [left; exact H|right; split; [reflexivity|exact H]].
Qed.

(* ================================================================================== *)
(* Part E: the single-file theorems.                                                     *)

Lemma node_raw_same n : Cfg.node_raw n = LineSpec.node_raw n.
Proof. reflexivity. Qed.

Section OneFile.
  Variables (chk : bool) (path text : str).
  Variables (nodes : list pnode) (errs : list parse_error) (rs : rstate) (items : list lexitem).
  Hypothesis Hparse : parse_from_file chk [(path, inl text)] path false = Ok (nodes, errs, rs).
  Hypothesis Hlex : lex_all chk (Some 0) (normalize_text text) = Ok items.
  Notation src := (normalize_text text).

  Lemma one_good : items_good src (Some 0) items.
  Proof. apply (lex_items_good chk); [apply normalize_Lb|exact Hlex]. Qed.

  Lemma one_segs : exists body, nodes = entry_node 0 :: body /\ segs items body /\ Forall (err_from items) errs.
  Proof. apply (parse_file_segs chk path text nodes errs rs items Hparse Hlex). Qed.

  (* every node but the entry is the statement of a segment of the items *)
  Lemma node_segment n : In n nodes -> n = entry_node 0 \/
    exists pre u post, items = pre ++ map LTok u ++ post /\ stmt_node u n.
  Proof.
    destruct one_segs as [body [-> [Hs _]]]. intros [<-|Hin]; [left; reflexivity|right].
    apply (segs_in items body Hs n Hin).
  Qed.

  (* (1) the tokens carried by nodes *)
  Theorem node_operands_exact n t : In n nodes -> In t (node_tokens n) ->
    In (LTok t) items /\ range_ok src (trange t) /\ spelling_ok src t /\ tfile t = Some 0 /\
    covers (node_raw n) t.
  Proof.
    intros Hn Ht. destruct (node_segment n Hn) as [->|[pre [u [post [E Hu]]]]]; [destruct Ht|].
    destruct (seg_node src (Some 0) items one_good pre u post n E Hu) as [_ [_ [_ H]]].
    destruct (H t Ht) as [_ H']. exact H'.
  Qed.

  (* (2) the raw range of a node *)
  Theorem node_range_exact : exists body, nodes = entry_node 0 :: body /\ segs items body /\
    (forall n, In n body ->
       (exists tf tl, In (LTok tf) items /\ In (LTok tl) items /\ node_raw n = hull tf tl) /\
       span_ok src (rrange (node_raw n)) /\ rfile (node_raw n) = Some 0) /\
    (forall i j a b, (i < j)%nat -> nth_error body i = Some a -> nth_error body j = Some b ->
       raw_end a < raw_start b \/ (j = S i /\ expansion_pair a b /\ node_raw a = node_raw b)).
  Proof.
    destruct one_segs as [body [E [Hs _]]]. exists body. split; [exact E|]. split; [exact Hs|]. split.
    - intros n Hin. destruct (segs_in items body Hs n Hin) as [pre [u [post [Ei Hu]]]].
      destruct (seg_node src (Some 0) items one_good pre u post n Ei Hu) as [H1 [H2 [H3 _]]]. auto.
    - apply (segs_ordered items body Hs). destruct one_good as [G _]. exact G.
  Qed.

  (* (3) the location of a parse error *)
  Theorem parse_error_exact e : In e errs ->
    exists it, In it items /\ err_item e it /\
      parse_error_loc e = mkloc (item_range it) (Some 0) /\ range_ok src (item_range it) /\
      match it with LTok t => spelling_ok src t | _ => True end.
  Proof.
    intros He. destruct one_segs as [_ [_ [_ Hf]]]. rewrite Forall_forall in Hf.
    destruct (Hf e He) as [it [Hin Hit]]. exists it. split; [exact Hin|]. split; [exact Hit|].
    destruct one_good as [_ G]. destruct (G it Hin) as [R [F S]]. split; [|split; assumption].
    assert (Hloc : parse_error_loc e = loc_of_tok (LineSpec.err_token e)) by (destruct e; reflexivity).
    assert (Htok : LineSpec.err_token e = item_token it).
    { destruct e; cbn [err_item] in Hit; try (rewrite Hit; reflexivity).
      destruct Hit as [->| ->]; reflexivity. }
    rewrite Hloc, Htok. unfold loc_of_tok. rewrite F. destruct it; reflexivity.
  Qed.
End OneFile.

(* ---- provenance of diagnostic locations --------------------------------------------------- *)
Lemma Forall2_diag {A} (R : A -> A -> Prop) : forall l, Forall2 R l l -> Forall (fun x => R x x) l.
Proof.
  induction l as [|x l IH]; intros H; [constructor|]. inversion H; subst. constructor; [assumption|apply IH; assumption].
Qed.

(* every location of every diagnostic is a selector location of an input node or the location of an
   input parse error (Param's [run_items_place] with both inputs equal) *)
Theorem run_items_provenance picks ns es ds :
  run_items picks ns es = Ok ds ->
  forall d, In d ds -> forall l, In l (dlocs d) ->
    (exists s n, In n ns /\ sel_loc s n = Some l) \/ (exists e, In e es /\ parse_error_loc e = l).
Proof.
  intros H d Hd l Hl.
  pose proof (run_items_place picks ns ns es es eq_refl eq_refl) as P. rewrite H in P. destruct P as [_ P].
  apply Forall2_diag in P. rewrite Forall_forall in P. specialize (P d Hd). cbv beta in P.
  apply Forall2_diag in P. rewrite Forall_forall in P. specialize (P l Hl). cbv beta in P.
  destruct P as [[i [s [n1 [n2 [H1 [_ [H3 _]]]]]]]|[i [e1 [e2 [H1 [_ [H3 _]]]]]]].
  - left. exists s, n1. split; [apply (nth_error_In _ _ H1)|exact H3].
  - right. exists e1. split; [apply (nth_error_In _ _ H1)|exact H3].
Qed.

(* a selector location is the node's range or one of the node's tokens *)
Lemma sel_loc_cases s n l : sel_loc s n = Some l ->
  (s = SelNode /\ l = loc_of_node n) \/ (s <> SelNode /\ exists t, In t (node_tokens n) /\ l = loc_of_tok t).
Proof.
  intros H. destruct s.
  1:{ left. cbn in H. inversion H. split; reflexivity. }
  all: right; (split; [discriminate|]).
  all: destruct n; cbn in H; try discriminate H.
  all: try (injection H as <-; eexists; split; [|reflexivity]; cbn [node_tokens In]; auto 10; fail).
  all: destruct dt; cbn in H; try discriminate H.
  all: try (injection H as <-; eexists; split; [|reflexivity]; cbn [node_tokens dir_tokens In]; auto 10; fail).
  destruct (nth_error vals k) as [w|] eqn:E; cbn [option_map] in H; [|discriminate H].
  injection H as <-. exists (wt w). split; [|reflexivity]. cbn [node_tokens dir_tokens].
  right. apply in_map. apply (nth_error_In _ _ E).
Qed.

(* (4) every location of every diagnostic of a single-file run *)
Theorem diag_locs_exact chk path text nodes errs rs items picks ds :
  parse_from_file chk [(path, inl text)] path false = Ok (nodes, errs, rs) ->
  lex_all chk (Some 0) (normalize_text text) = Ok items ->
  run_items picks nodes errs = Ok ds ->
  forall d, In d ds -> forall l, In l (dlocs d) ->
    lfile l = Some 0 /\
    (l = entry_loc 0 \/
     (exists it, In it items /\ lrange l = item_range it /\ range_ok (normalize_text text) (lrange l) /\
                 match it with LTok t => spelling_ok (normalize_text text) t | _ => True end) \/
     (exists n pre u post, In n nodes /\ items = pre ++ map LTok u ++ post /\ stmt_node u n /\
                 l = loc_of_node n /\ span_ok (normalize_text text) (lrange l))).
Proof.
  intros Hp Hl Hr d Hd l Hin.
  destruct (run_items_provenance picks nodes errs ds Hr d Hd l Hin) as [[s [n [Hn Hs]]]|[e [He Hloc]]].
  - destruct (sel_loc_cases s n l Hs) as [[_ ->]|[_ [t [Ht ->]]]].
    + destruct (node_segment chk path text nodes errs rs items Hp Hl n Hn) as [->|[pre [u [post [E Hu]]]]].
      * split; [reflexivity|]. left. reflexivity.
      * destruct (seg_node _ _ items (one_good chk text items Hl) pre u post n E Hu) as [_ [H2 [H3 _]]].
        unfold loc_of_node, loc_of_raw. rewrite node_raw_same. cbn [lfile lrange]. split; [exact H3|].
        right. right. exists n, pre, u, post.
        split; [exact Hn|]. split; [exact E|]. split; [exact Hu|]. split; [reflexivity|exact H2].
    + destruct (node_operands_exact chk path text nodes errs rs items Hp Hl n t Hn Ht) as [T1 [T2 [T3 [T4 _]]]].
      unfold loc_of_tok. cbn [lfile lrange]. split; [exact T4|].
      right. left. exists (LTok t). cbn [item_range]. auto.
  - destruct (parse_error_exact chk path text nodes errs rs items Hp Hl e He) as [it [H1 [_ [H3 [H4 H5]]]]].
    rewrite <- Hloc, H3. cbn [lfile lrange]. split; [reflexivity|]. right. left. exists it. auto.
Qed.

(* ================================================================================== *)
(* Part F: include trees.  Any store, any reader state, with or without imports.         *)

Notation item_file := ErrProofs.item_file.

Lemma stmt_node_file F u rest n :
  Forall (item_file F) (map LTok u ++ rest) -> stmt_node u n -> rfile (node_raw n) = F.
Proof.
  destruct u as [|tf u']; [contradiction|]. intros Hf [Hr _]. rewrite Hr. cbn [hull rfile].
  cbn [map app] in Hf. inversion Hf; subst. assumption.
Qed.

(* one step of the driver, any store *)
Lemma dstep_tree chk fs ign top rs tops rs1 dn de :
  dstep chk fs ign top rs [] [] = Ok (tops, rs1, dn, de) ->
  Forall (err_from top) de /\
  (forall F, Forall (item_file F) top -> Forall (fun n => rfile (node_raw n) = F) dn) /\
  ((tops = [] /\ dn = [] /\ rs1 = rs) \/
   (exists top', tops = [top'] /\ rs1 = rs /\ (exists d, top = d ++ top') /\
                 forall new', segs top' new' -> segs top (rev dn ++ new')) \/
   (exists pth text items rest, tops = [items; rest] /\ dn = [] /\ de = [] /\
        import_file fs pth rs = (inr (N.of_nat (length (imported rs)), text), rs1) /\
        lex_all chk (Some (N.of_nat (length (imported rs)))) (normalize_text text) = Ok items /\
        exists d, top = d ++ rest)).
Proof.
  unfold dstep. intros H.
  destruct (parse_one top) as [[x rest]| |] eqn:Ep; cbn [bind] in H; try discriminate H.
  destruct (parse_one_loc top x rest Ep) as [[d0 Hd0] Hx].
  assert (Hrec : exists d, top = d ++ recover rest).
  { destruct (recover_suffix rest) as [d2 Hd2]. exists (d0 ++ d2). rewrite <- app_assoc, <- Hd2. exact Hd0. }
  assert (Hplain : forall top', (exists d, top = d ++ top') ->
            forall new', segs top' new' -> segs top (rev [] ++ new')).
  { intros top' [d Hd] new' Hs. cbn [rev app]. rewrite Hd. apply segs_prefix. exact Hs. }
  destruct x as [e|n].
  - assert (He : Forall (err_from top) (match err_perr e with Some pe => [pe] | None => [] end)).
    { destruct (err_perr e) as [pe|] eqn:Epe; [|constructor]. constructor; [|constructor].
      destruct e; try discriminate Epe; cbn [stmt_res] in Hx;
        destruct Hx as [it [H1 H2]]; exists it; (split; [exact H1|]); apply (err_perr_item _ _ _ Epe H2). }
    assert (Hde : de = match err_perr e with Some pe => [pe] | None => [] end /\ rs1 = rs /\
                  tops = match stmt_next (inl e) rest with Some t => [t] | None => [] end /\
                  dn = err_nodes e).
    { inversion H; subst. rewrite app_nil_r. destruct (err_perr e); auto. }
    destruct Hde as [-> [-> [-> ->]]]. split; [exact He|]. split.
    { intros F HF. destruct e; cbn [err_nodes]; try solve [constructor].
      cbn [stmt_res] in Hx. destruct Hx as [u [A1 [A2 [A3 _]]]]. rewrite A1 in HF.
      constructor; [apply (stmt_node_file F u rest n2 HF A3)|].
      constructor; [apply (stmt_node_file F u rest n1 HF A2)|constructor]. }
    destruct e; cbn [stmt_next err_nodes].
    + right. left. eexists. split; [reflexivity|]. split; [reflexivity|].
      split; [destruct (is_newline_tok got); eauto|]. apply Hplain. destruct (is_newline_tok got); eauto.
    + right. left. eexists. split; [reflexivity|]. split; [reflexivity|]. split; [eauto|]. apply Hplain. eauto.
    + right. left. eexists. split; [reflexivity|]. split; [reflexivity|]. split; [eauto|]. apply Hplain. eauto.
    + right. left. eexists. split; [reflexivity|]. split; [reflexivity|]. split; [eauto|]. apply Hplain. eauto.
    + right. left. eexists. split; [reflexivity|]. split; [reflexivity|]. split; [eauto|]. apply Hplain. eauto.
    + left. repeat split; reflexivity.
    + right. left. eexists. split; [reflexivity|]. split; [reflexivity|]. split; [eauto|].
      cbn [stmt_res] in Hx. destruct Hx as [u [A1 [A2 [A3 A4]]]].
      intros new' Hs. cbn [rev app]. rewrite A1. apply (segs_two [] u rest n1 n2 new'); assumption.
    + right. left. eexists. split; [reflexivity|]. split; [reflexivity|]. split; [eauto|]. apply Hplain. eauto.
    + right. left. eexists. split; [reflexivity|]. split; [reflexivity|]. split; [eauto|]. apply Hplain. eauto.
    + right. left. eexists. split; [reflexivity|]. split; [reflexivity|]. split; [eauto|]. apply Hplain. eauto.
    + right. left. eexists. split; [reflexivity|]. split; [reflexivity|]. split; [eauto|]. apply Hplain. eauto.
  - cbn [stmt_res] in Hx. destruct Hx as [u [A1 A2]].
    destruct (if ign then None else include_path n) as [pth|] eqn:Einc.
    + assert (Einc' : include_path n = Some pth) by (destruct ign; [discriminate Einc|exact Einc]).
      destruct (import_file fs (wv pth) rs) as [[e|[id text]] rs2] eqn:Ei.
      * pose proof (import_file_fail _ _ _ _ _ Ei) as ->. inversion H; subst. split.
        { constructor; [|constructor]. exists (LTok (wt pth)). split; [|apply to_parse_error_item].
          rewrite A1. apply in_or_app. left. apply in_map. apply (include_path_token n pth u Einc' A2). }
        split; [intros F _; constructor|].
        right. left. eexists. split; [reflexivity|]. split; [reflexivity|]. split; [eauto|]. apply Hplain. eauto.
      * destruct (lex_all chk (Some id) (normalize_text text)) as [items| |] eqn:El; cbn [bind] in H; try discriminate H.
        inversion H; subst. split; [constructor|]. split; [intros F _; constructor|].
        right. right. destruct (import_file_ok _ _ _ _ _ _ Ei) as [_ [_ [Hid _]]]. subst id.
        exists (wv pth), text, items, rest. repeat split; try reflexivity; try assumption. eauto.
    + inversion H; subst. split; [constructor|]. split.
      { intros F HF. constructor; [|constructor]. rewrite A1 in HF. apply (stmt_node_file F u rest n HF A2). }
      right. left. eexists. split; [reflexivity|]. split; [reflexivity|]. split; [eauto|].
      intros new' Hs. cbn [rev app]. rewrite A1. apply (segs_one [] u rest n new'); assumption.
Qed.

Definition nimp (rs : rstate) : N := N.of_nat (length (imported rs)).
(* the node's raw token is in a file whose id satisfies P *)
Definition NF (P : N -> Prop) (n : pnode) : Prop := exists k, rfile (node_raw n) = Some k /\ P k.
(* the error is about an item of [top], or of the lexer output of a file whose id satisfies P *)
Definition EF (chk : bool) (fs : store) (imp : list str) (top : list lexitem) (P : N -> Prop) (e : parse_error) : Prop :=
  err_from top e \/ exists k text items, P k /\ file_items chk fs imp k text items /\ err_from items e.

Lemma in_file_of n j k : rfile (node_raw n) = Some j -> in_file k n = N.eqb j k.
Proof. intros H. unfold in_file. rewrite H. reflexivity. Qed.

Lemma filter_none k l : Forall (fun n => in_file k n = false) l -> filter (in_file k) l = [].
Proof. induction 1 as [|n l Hn _ IH]; [reflexivity|]. cbn [filter]. rewrite Hn. exact IH. Qed.

Lemma filter_all k l : Forall (fun n => in_file k n = true) l -> filter (in_file k) l = l.
Proof. induction 1 as [|n l Hn _ IH]; [reflexivity|]. cbn [filter]. rewrite Hn, IH. reflexivity. Qed.

Lemma filter_NF_none (P : N -> Prop) k l : Forall (NF P) l -> (forall j, P j -> j <> k) -> filter (in_file k) l = [].
Proof.
  intros H HP. apply filter_none. eapply Forall_impl; [|exact H]. intros n [j [R Hj]].
  rewrite (in_file_of n j k R). apply N.eqb_neq. apply HP. exact Hj.
Qed.

Lemma NF_weaken (P Q : N -> Prop) l : (forall k, P k -> Q k) -> Forall (NF P) l -> Forall (NF Q) l.
Proof. intros HPQ H. eapply Forall_impl; [|exact H]. intros n [k [R Hk]]. exists k. auto. Qed.

Lemma file_items_mono chk fs imp d k text items :
  file_items chk fs imp k text items -> file_items chk fs (imp ++ d) k text items.
Proof.
  intros [path [H1 [H2 H3]]]. exists path. split; [|split; assumption].
  rewrite nth_error_app1; [exact H1|]. apply nth_error_Some. rewrite H1. discriminate.
Qed.

(* the run of one file's items (and of everything it includes) *)
Lemma drive_tree chk fs ign : forall f top rs k0 ns es rs',
  drive f chk fs ign [top] rs [] [] = Ok (ns, es, rs') ->
  Forall (item_file (Some k0)) top -> k0 < nimp rs ->
  nimp rs <= nimp rs' /\
  Forall (NF (fun k => k = k0 \/ nimp rs <= k < nimp rs')) ns /\
  segs top (filter (in_file k0) ns) /\
  (forall k, nimp rs <= k < nimp rs' ->
     exists text items, file_items chk fs (imported rs') k text items /\ segs items (filter (in_file k) ns)) /\
  Forall (EF chk fs (imported rs') top (fun k => nimp rs <= k < nimp rs')) es.
Proof.
  induction f as [|f IH]; intros top rs k0 ns es rs' H Hfile Hk0; [discriminate H|].
  rewrite drive_S in H.
  destruct (dstep chk fs ign top rs [] []) as [[[[tops rs1] dn] de]| |] eqn:Ed; cbn [bind] in H; try discriminate H.
  destruct (dstep_tree _ _ _ _ _ _ _ _ _ Ed) as [Hde [Hdn Hcase]]. specialize (Hdn _ Hfile).
  destruct Hcase as [[-> [-> ->]]|[[top' [-> [-> [[d Hd] Hs]]]]|[pth [text [items [rest [-> [-> [-> [Hi [Hl [d Hd]]]]]]]]]]]].
  - (* end of the file *)
    cbn [app] in H. destruct f as [|f]; [discriminate H|]. rewrite drive_nil in H. inversion H; subst. cbn [rev].
    split; [lia|]. split; [constructor|]. split; [cbn [filter]; constructor|]. split; [intros k Hk; lia|].
    apply Forall_rev. eapply Forall_impl; [|exact Hde]. intros e He. left. exact He.
  - (* a statement of this file *)
    cbn [app] in H. rewrite drive_acc in H.
    destruct (drive f chk fs ign [top'] rs [] []) as [[[ns' es'] rs'']| |] eqn:E'; try discriminate H.
    inversion H; subst ns es rs''. clear H.
    assert (Hfile' : Forall (item_file (Some k0)) top') by (rewrite Hd in Hfile; apply Forall_app in Hfile; tauto).
    destruct (IH top' rs k0 ns' es' rs' E' Hfile' Hk0) as [I1 [I2 [I3 [I4 I5]]]].
    split; [exact I1|]. split.
    { apply Forall_app. split; [|exact I2]. apply Forall_rev. eapply Forall_impl; [|exact Hdn].
      intros n Hn. exists k0. split; [exact Hn|left; reflexivity]. }
    split.
    { rewrite filter_app, (filter_all k0 (rev dn)); [apply Hs; exact I3|].
      apply Forall_rev. eapply Forall_impl; [|exact Hdn]. intros n Hn.
      rewrite (in_file_of n k0 k0 Hn). apply N.eqb_refl. }
    split.
    { intros k Hk. destruct (I4 k Hk) as [tx [its [F1 F2]]]. exists tx, its. split; [exact F1|].
      rewrite filter_app, filter_none; [exact F2|].
      apply Forall_rev. eapply Forall_impl; [|exact Hdn]. intros n Hn.
      rewrite (in_file_of n k0 k Hn). apply N.eqb_neq. lia. }
    apply Forall_app. split.
    { apply Forall_rev. eapply Forall_impl; [|exact Hde]. intros e He. left. exact He. }
    eapply Forall_impl; [|exact I5]. intros e [He|He]; [left; rewrite Hd; apply err_from_prefix; exact He|right; exact He].
  - (* an include: the new file is driven to its end, then the rest of this one *)
    cbn [app] in H. change [items; rest] with ([items] ++ [rest]) in H.
    destruct (drive_app _ _ _ _ _ _ _ _ _ _ H) as [ns1 [es1 [rs2 [H1 H2]]]].
    rewrite drive_acc in H2.
    destruct (drive f chk fs ign [rest] rs2 [] []) as [[[ns2 es2] rs3]| |] eqn:E2; try discriminate H2.
    inversion H2; subst ns es rs3. clear H2 H. rewrite !rev_involutive.
    destruct (import_file_ok _ _ _ _ _ _ Hi) as [A1 [_ [_ A4]]].
    assert (Hb : nimp rs1 = nimp rs + 1).
    { subst rs1. unfold nimp. cbn [imported]. rewrite app_length. cbn [length]. lia. }
    assert (Hfile1 : Forall (item_file (Some (nimp rs))) items) by (apply (ErrProofs.lex_all_file _ _ _ _ Hl)).
    destruct (IH items rs1 (nimp rs) ns1 es1 rs2 H1 Hfile1 ltac:(lia)) as [J1 [J2 [J3 [J4 J5]]]].
    assert (Hfile2 : Forall (item_file (Some k0)) rest) by (rewrite Hd in Hfile; apply Forall_app in Hfile; tauto).
    destruct (IH rest rs2 k0 ns2 es2 rs' E2 Hfile2 ltac:(lia)) as [K1 [K2 [K3 [K4 K5]]]].
    destruct (drive_imported _ _ _ _ _ _ _ _ _ _ _ H1) as [di1 D1].
    destruct (drive_imported _ _ _ _ _ _ _ _ _ _ _ E2) as [di2 D2].
    assert (Hfa : file_items chk fs (imported rs') (nimp rs) text items).
    { exists pth. split; [|split; [exact A1|exact Hl]].
      rewrite D2, D1, A4. cbn [imported]. unfold nimp. rewrite Nat2N.id.
      rewrite <- !app_assoc. rewrite nth_error_app2, Nat.sub_diag; [reflexivity|lia]. }
    split; [lia|]. split.
    { apply Forall_app. split.
      - eapply NF_weaken; [|exact J2]. cbv beta. intros k Hk. lia.
      - eapply NF_weaken; [|exact K2]. cbv beta. intros k Hk. lia. }
    split.
    { rewrite filter_app, (filter_NF_none _ k0 ns1 J2) by (intros j Hj; lia).
      cbn [app]. rewrite Hd. apply segs_prefix. exact K3. }
    split.
    { intros k Hk.
      assert (Hc : k = nimp rs \/ nimp rs1 <= k < nimp rs2 \/ nimp rs2 <= k < nimp rs') by lia.
      destruct Hc as [->|[Hc|Hc]].
      - exists text, items. split; [exact Hfa|].
        rewrite filter_app, (filter_NF_none _ (nimp rs) ns2 K2) by (intros j Hj; lia).
        rewrite app_nil_r. exact J3.
      - destruct (J4 k Hc) as [tx [its [F1 F2]]]. exists tx, its.
        split; [rewrite D2; apply file_items_mono; exact F1|].
        rewrite filter_app, (filter_NF_none _ k ns2 K2) by (intros j Hj; lia).
        rewrite app_nil_r. exact F2.
      - destruct (K4 k Hc) as [tx [its [F1 F2]]]. exists tx, its. split; [exact F1|].
        rewrite filter_app, (filter_NF_none _ k ns1 J2) by (intros j Hj; lia). exact F2. }
    apply Forall_app. split.
    + eapply Forall_impl; [|exact J5]. intros e [He|[k [tx [its [Hk [F1 F2]]]]]]; right.
      * exists (nimp rs), text, items. split; [lia|]. split; [exact Hfa|exact He].
      * exists k, tx, its. split; [lia|]. split; [rewrite D2; apply file_items_mono; exact F1|exact F2].
    + eapply Forall_impl; [|exact K5]. intros e [He|[k [tx [its [Hk [F1 F2]]]]]].
      * left. rewrite Hd. apply err_from_prefix. exact He.
      * right. exists k, tx, its. split; [lia|]. split; assumption.
Qed.

(* ================================================================================== *)
(* Part G: the theorems for include trees.                                               *)

Lemma err_item_loc src file items e it :
  items_good src file items -> In it items -> err_item e it ->
  parse_error_loc e = mkloc (item_range it) file /\ range_ok src (item_range it) /\
  match it with LTok t => spelling_ok src t | _ => True end.
Proof.
  intros [_ G] Hin Hit. destruct (G it Hin) as [R [F S]]. split; [|split; assumption].
  assert (Hloc : parse_error_loc e = loc_of_tok (LineSpec.err_token e)) by (destruct e; reflexivity).
  assert (Htok : LineSpec.err_token e = item_token it).
  { destruct e; cbn [err_item] in Hit; try (rewrite Hit; reflexivity).
    destruct Hit as [->| ->]; reflexivity. }
  rewrite Hloc, Htok. unfold loc_of_tok. rewrite F. destruct it; reflexivity.
Qed.

Lemma file_items_good chk fs imp k text items :
  file_items chk fs imp k text items -> items_good (normalize_text text) (Some k) items.
Proof. intros [path [_ [_ Hl]]]. apply (lex_items_good chk); [apply normalize_Lb|exact Hl]. Qed.

Section Tree.
  Variables (chk : bool) (fs : store) (base : str) (ign : bool).
  Variables (nodes : list pnode) (errs : list parse_error) (rs : rstate).
  Hypothesis Hparse : parse_from_file chk fs base ign = Ok (nodes, errs, rs).

  (* the structure of the result: either the base file could not be read, or the nodes are the entry
     followed by [body], and for every imported file [k] the nodes of [body] located in file [k] are, in
     order, the statements of disjoint segments of that file's lexer output *)
  Theorem parse_tree_segs :
    (nodes = [] /\ exists e, errs = [to_parse_error e (mkw base tok_default)]) \/
    exists body, nodes = entry_node 0 :: body /\ 0 < nimp rs /\
      Forall (NF (fun k => k < nimp rs)) body /\
      (forall k, k < nimp rs -> exists text items,
         file_items chk fs (imported rs) k text items /\ segs items (filter (in_file k) body)) /\
      Forall (fun e => exists k text items, k < nimp rs /\ file_items chk fs (imported rs) k text items /\
                                           err_from items e) errs.
  Proof.
    unfold parse_from_file in Hparse.
    destruct (import_file fs base (mkrs [])) as [[e|[id text]] rs0] eqn:Ei.
    - left. inversion Hparse; subst. split; [reflexivity|]. exists e. reflexivity.
    - right. destruct (import_file_ok _ _ _ _ _ _ Ei) as [A1 [_ [A3 A4]]]. cbn [imported length app] in A3, A4.
      change (N.of_nat 0) with 0 in A3. subst id.
      destruct (lex_all chk (Some 0) (normalize_text text)) as [items| |] eqn:El; cbn [bind] in Hparse; try discriminate Hparse.
      rewrite drive_acc in Hparse.
      destruct (drive _ chk fs ign [items] rs0 [] []) as [[[ns es] rs']| |] eqn:Ed; try discriminate Hparse.
      inversion Hparse; subst nodes errs rs'. clear Hparse. cbn [rev app].
      assert (H0 : nimp rs0 = 1) by (subst rs0; reflexivity).
      destruct (drive_tree chk fs ign _ items rs0 0 ns es rs Ed (ErrProofs.lex_all_file _ _ _ _ El) ltac:(lia))
        as [T1 [T2 [T3 [T4 T5]]]].
      destruct (drive_imported _ _ _ _ _ _ _ _ _ _ _ Ed) as [di D].
      assert (Hf0 : file_items chk fs (imported rs) 0 text items).
      { exists base. split; [|split; assumption]. rewrite D, A4. reflexivity. }
      exists ns. split; [reflexivity|]. split; [lia|]. split.
      { eapply NF_weaken; [|exact T2]. cbv beta. intros k Hk. lia. }
      split.
      { intros k Hk. assert (Hc : k = 0 \/ nimp rs0 <= k < nimp rs) by lia. destruct Hc as [->|Hc].
        - exists text, items. split; [exact Hf0|exact T3].
        - apply T4. exact Hc. }
      eapply Forall_impl; [|exact T5]. intros e [He|[k [tx [its [Hk [F1 F2]]]]]].
      + exists 0, text, items. split; [lia|]. split; [exact Hf0|exact He].
      + exists k, tx, its. split; [lia|]. split; assumption.
  Qed.

  (* every node but the entry is the statement of a segment of the lexer output of its file *)
  Theorem tree_node n : In n nodes -> n = entry_node 0 \/
    exists k text items pre u post, k < nimp rs /\ file_items chk fs (imported rs) k text items /\
      items = pre ++ map LTok u ++ post /\ stmt_node u n /\ rfile (node_raw n) = Some k.
  Proof.
    intros Hin. destruct parse_tree_segs as [[-> _]|[body [-> [_ [B1 [B2 _]]]]]]; [destruct Hin|].
    destruct Hin as [<-|Hin]; [left; reflexivity|right].
    rewrite Forall_forall in B1. destruct (B1 n Hin) as [k [R Hk]].
    destruct (B2 k Hk) as [text [items [F S]]].
    assert (Hf : In n (filter (in_file k) body)).
    { apply filter_In. split; [exact Hin|]. rewrite (in_file_of n k k R). apply N.eqb_refl. }
    destruct (segs_in items _ S n Hf) as [pre [u [post [E Hu]]]].
    exists k, text, items, pre, u, post. auto.
  Qed.

  (* (1) for include trees *)
  Theorem tree_operands_exact n t : In n nodes -> In t (node_tokens n) ->
    exists k text items, k < nimp rs /\ file_items chk fs (imported rs) k text items /\
      In (LTok t) items /\ range_ok (normalize_text text) (trange t) /\ spelling_ok (normalize_text text) t /\
      tfile t = Some k /\ covers (node_raw n) t.
  Proof.
    intros Hn Ht. destruct (tree_node n Hn) as [->|[k [text [items [pre [u [post [Hk [F [E [Hu _]]]]]]]]]]]; [destruct Ht|].
    destruct (seg_node _ _ items (file_items_good _ _ _ _ _ _ F) pre u post n E Hu) as [_ [_ [_ H]]].
    destruct (H t Ht) as [_ H']. exists k, text, items. auto.
  Qed.

  (* (2) for include trees: per file *)
  Theorem tree_node_range_exact :
    (nodes = [] /\ exists e, errs = [to_parse_error e (mkw base tok_default)]) \/
    exists body, nodes = entry_node 0 :: body /\ Forall (NF (fun k => k < nimp rs)) body /\
      forall k, k < nimp rs -> exists text items,
        file_items chk fs (imported rs) k text items /\ segs items (filter (in_file k) body) /\
        (forall n, In n (filter (in_file k) body) ->
           (exists tf tl, In (LTok tf) items /\ In (LTok tl) items /\ node_raw n = hull tf tl) /\
           span_ok (normalize_text text) (rrange (node_raw n)) /\ rfile (node_raw n) = Some k) /\
        (forall i j a b, (i < j)%nat -> nth_error (filter (in_file k) body) i = Some a ->
           nth_error (filter (in_file k) body) j = Some b ->
           raw_end a < raw_start b \/ (j = S i /\ expansion_pair a b /\ node_raw a = node_raw b)).
  Proof.
    destruct parse_tree_segs as [H|[body [E [_ [B1 [B2 _]]]]]]; [left; exact H|right].
    exists body. split; [exact E|]. split; [exact B1|]. intros k Hk.
    destruct (B2 k Hk) as [text [items [F S]]]. exists text, items. split; [exact F|]. split; [exact S|].
    pose proof (file_items_good _ _ _ _ _ _ F) as G. split.
    - intros n Hin. destruct (segs_in items _ S n Hin) as [pre [u [post [Ei Hu]]]].
      destruct (seg_node _ _ items G pre u post n Ei Hu) as [H1 [H2 [H3 _]]]. auto.
    - apply (segs_ordered items _ S). destruct G as [G _]. exact G.
  Qed.

  (* (3) for include trees *)
  Theorem tree_parse_error_exact e : In e errs ->
    (nodes = [] /\ parse_error_loc e = no_loc) \/
    exists k text items it, k < nimp rs /\ file_items chk fs (imported rs) k text items /\
      In it items /\ err_item e it /\
      parse_error_loc e = mkloc (item_range it) (Some k) /\ range_ok (normalize_text text) (item_range it) /\
      match it with LTok t => spelling_ok (normalize_text text) t | _ => True end.
  Proof.
    intros He. destruct parse_tree_segs as [[Hn [re Hre]]|[body [_ [_ [_ [_ B3]]]]]].
    - left. split; [exact Hn|]. rewrite Hre in He. destruct He as [<-|[]]. destruct re; reflexivity.
    - right. rewrite Forall_forall in B3. destruct (B3 e He) as [k [text [items [Hk [F [it [H1 H2]]]]]]].
      exists k, text, items, it. split; [exact Hk|]. split; [exact F|]. split; [exact H1|]. split; [exact H2|].
      apply (err_item_loc _ _ items e it (file_items_good _ _ _ _ _ _ F) H1 H2).
  Qed.

  (* (4) for include trees *)
  Theorem tree_diag_locs_exact picks ds : run_items picks nodes errs = Ok ds ->
    forall d, In d ds -> forall l, In l (dlocs d) ->
      l = no_loc \/ l = entry_loc 0 \/
      exists k text items, k < nimp rs /\ file_items chk fs (imported rs) k text items /\ lfile l = Some k /\
        ((exists it, In it items /\ lrange l = item_range it /\ range_ok (normalize_text text) (lrange l) /\
                     match it with LTok t => spelling_ok (normalize_text text) t | _ => True end) \/
         (exists n pre u post, In n nodes /\ items = pre ++ map LTok u ++ post /\ stmt_node u n /\
                     l = loc_of_node n /\ span_ok (normalize_text text) (lrange l))).
  Proof.
    intros Hr d Hd l Hin.
    destruct (run_items_provenance picks nodes errs ds Hr d Hd l Hin) as [[s [n [Hn Hs]]]|[e [He Hloc]]].
    - destruct (sel_loc_cases s n l Hs) as [[_ ->]|[_ [t [Ht ->]]]].
      + destruct (tree_node n Hn) as [->|[k [text [items [pre [u [post [Hk [F [E [Hu Hf]]]]]]]]]]].
        * right. left. reflexivity.
        * destruct (seg_node _ _ items (file_items_good _ _ _ _ _ _ F) pre u post n E Hu) as [_ [H2 [H3 _]]].
          right. right. exists k, text, items. split; [exact Hk|]. split; [exact F|].
          unfold loc_of_node, loc_of_raw. rewrite node_raw_same. cbn [lfile lrange]. split; [exact H3|].
          right. exists n, pre, u, post.
          split; [exact Hn|]. split; [exact E|]. split; [exact Hu|]. split; [reflexivity|exact H2].
      + destruct (tree_operands_exact n t Hn Ht) as [k [text [items [Hk [F [T1 [T2 [T3 [T4 _]]]]]]]]].
        right. right. exists k, text, items. split; [exact Hk|]. split; [exact F|].
        unfold loc_of_tok. cbn [lfile lrange]. split; [exact T4|].
        left. exists (LTok t). cbn [item_range]. auto.
    - destruct (tree_parse_error_exact e He) as [[_ Hno]|[k [text [items [it [Hk [F [H1 [_ [H3 [H4 H5]]]]]]]]]]].
      + left. rewrite <- Hloc. exact Hno.
      + right. right. exists k, text, items. split; [exact Hk|]. split; [exact F|].
        rewrite <- Hloc, H3. cbn [lfile lrange]. split; [reflexivity|]. left. exists it. auto.
  Qed.
End Tree.
