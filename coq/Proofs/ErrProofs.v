(* C16 - proofs: every analysis failure is one of the specific kinds, is about an occurrence in
   the parsed program, and is located in one of the user's files.  Statements: Props/C16.v. *)
From RV.Model Require Import Base I32 Imm Lexer Isa Parser Reader Cfg Avail Live Lints.
From RV.Proofs Require Import LexProofs.
From Coq Require Import Lia ZifyN ZifyNat ZifyBool.

Definition uses_label (n : pnode) (l : wth str) : Prop :=
  calls_to n = Some l \/ jumps_to n = Some l \/ reads_address_of n = Some l.
Definition defines_label (n : pnode) (s : str) : Prop :=
  exists name rt, n = PLabel name rt /\ wv name = s.

Definition explained (nodes : list pnode) (handlers : list (wth str)) (e : cfgerr) : Prop :=
  match e with
  | CLabelsNotDefined ls =>
      ls <> [] /\
      forall l, In l ls ->
        (forall n, In n nodes -> ~ defines_label n (wv l)) /\
        ((exists n, In n nodes /\ uses_label n l) \/ In l handlers)
  | CDuplicateLabel l =>
      exists pre post rt, nodes = pre ++ PLabel l rt :: post /\ exists n, In n pre /\ defines_label n (wv l)
  | CLabelWithoutInstruction l => exists n, In n nodes /\ jumps_to n = Some l
  | CFunctionWithoutReturn en ls =>
      ls <> [] /\ exists n h, In n nodes /\ is_instruction n = true /\ en = PFuncEntry (rfile (node_raw n)) (node_raw n) h
  | CUnexpectedError => False
  end.

(* ================================================================================== *)
(* A. small list facts                                                                  *)

Lemma str_eqb_eq : forall a b, str_eqb a b = true <-> a = b.
Proof.
  induction a as [|x a IH]; intros [|y b]; cbn [str_eqb]; split; intros H;
    try reflexivity; try discriminate.
  - apply andb_prop in H. destruct H as [H1 H2]. apply N.eqb_eq in H1. apply IH in H2. congruence.
  - inversion H; subst. rewrite N.eqb_refl. cbn [andb]. apply IH. reflexivity.
Qed.

Lemma mem_name_true s l : mem_name s l = true <-> exists x, In x l /\ wv x = s.
Proof.
  induction l as [|y l IH]; cbn [mem_name In].
  - split; [discriminate|intros [x [[] _]]].
  - split.
    + intros H. apply orb_prop in H. destruct H as [H|H].
      * apply str_eqb_eq in H. exists y. split; [left; reflexivity|congruence].
      * apply IH in H. destruct H as [x [H1 H2]]. exists x. split; [right; exact H1|exact H2].
    + intros [x [[H1|H1] H2]].
      * subst y. apply orb_true_intro. left. apply str_eqb_eq. congruence.
      * apply orb_true_intro. right. apply IH. exists x. split; assumption.
Qed.

Lemma dedup_names_in x : forall l acc, In x (dedup_names l acc) -> In x l \/ In x acc.
Proof.
  induction l as [|y l IH]; intros acc H; cbn [dedup_names] in H.
  - right. apply in_rev. exact H.
  - destruct (mem_name (wv y) acc).
    + apply IH in H. destruct H as [H|H]; [left; right; exact H|right; exact H].
    + apply IH in H. destruct H as [H|[H|H]].
      * left; right; exact H.
      * left; left; exact H.
      * right; exact H.
Qed.

Lemma dedup_in x l : In x (dedup_names l []) -> In x l.
Proof. intros H. apply dedup_names_in in H. destruct H as [H|[]]. exact H. Qed.

Lemma filter_map_in {A B} (f : A -> option B) y : forall l,
  In y (filter_map f l) <-> exists x, In x l /\ f x = Some y.
Proof.
  induction l as [|a l IH]; cbn [filter_map].
  - split; [intros []|intros [x [[] _]]].
  - destruct (f a) eqn:E.
    + cbn [In]. split.
      * intros [H|H]; [subst b; exists a; split; [left; reflexivity|exact E]|].
        apply IH in H. destruct H as [x [H1 H2]]. exists x. split; [right; exact H1|exact H2].
      * intros [x [[H1|H1] H2]]; [subst a; left; congruence|].
        right. apply IH. exists x. split; assumption.
    + split.
      * intros H. apply IH in H. destruct H as [x [H1 H2]]. exists x. split; [right; exact H1|exact H2].
      * intros [x [[H1|H1] H2]]; [subst a; congruence|]. apply IH. exists x. split; assumption.
Qed.

Lemma any_in_nonempty a b : any_in a b = true -> a <> [].
Proof. destruct a; [discriminate|intros _; discriminate]. Qed.

Lemma min_name_in : forall l x, In (min_name l x) (x :: l).
Proof.
  induction l as [|y l IH]; intros x; cbn [min_name].
  - left. reflexivity.
  - specialize (IH (if str_ltb (wv y) (wv x) then y else x)).
    destruct (str_ltb (wv y) (wv x)); cbn [In] in *; tauto.
Qed.

Lemma getn_map {A B} (f : A -> B) : forall l i, nth_opt (map f l) i = option_map f (nth_opt l i).
Proof. induction l as [|x l IH]; intros [|i]; cbn; try reflexivity. apply IH. Qed.

Lemma nth_opt_In {A} : forall (l : list A) i x, nth_opt l i = Some x -> In x l.
Proof.
  induction l as [|y l IH]; intros [|i] x H; cbn in H; try discriminate.
  - inversion H. left. reflexivity.
  - right. eapply IH. exact H.
Qed.

Lemma In_nth_opt {A} : forall (l : list A) x, In x l -> exists i, nth_opt l i = Some x.
Proof.
  induction l as [|y l IH]; intros x []; [subst; exists O; reflexivity|].
  destruct (IH x H) as [i Hi]. exists (S i). exact Hi.
Qed.

Lemma upd_length {A} (f : A -> A) : forall l i, length (upd l i f) = length l.
Proof. induction l as [|x l IH]; intros [|i]; cbn; try reflexivity. rewrite IH. reflexivity. Qed.

Lemma map_upd {A B} (pr : A -> B) (f : A -> A) (Hf : forall x, pr (f x) = pr x) :
  forall l i, map pr (upd l i f) = map pr l.
Proof.
  induction l as [|x l IH]; intros [|i]; cbn [upd map]; try reflexivity.
  - rewrite Hf. reflexivity.
  - rewrite IH. reflexivity.
Qed.

Lemma Forall_upd {A} (P : A -> Prop) (f : A -> A) (Hf : forall x, P x -> P (f x)) :
  forall l i, Forall P l -> Forall P (upd l i f).
Proof.
  induction l as [|x l IH]; intros [|i] H; cbn [upd]; try exact H; inversion H; subst; constructor; auto.
Qed.

Lemma map_eq_In {A B} (pr : A -> B) : forall l l', map pr l' = map pr l ->
  forall c', In c' l' -> exists c, In c l /\ pr c = pr c'.
Proof.
  induction l as [|x l IH]; intros [|x' l'] H c' Hin; cbn [map] in H; try discriminate; [destruct Hin|].
  inversion H. destruct Hin as [Hin|Hin].
  - subst x'. exists x. split; [left; reflexivity|congruence].
  - destruct (IH l' H2 c' Hin) as [c [H3 H4]]. exists c. split; [right; exact H3|exact H4].
Qed.

Lemma map_eq_Forall {A B} (pr : A -> B) (P : A -> Prop)
  (HP : forall c c', pr c = pr c' -> P c -> P c') l l' :
  map pr l' = map pr l -> Forall P l -> Forall P l'.
Proof.
  intros H HF. apply Forall_forall. intros c' Hin.
  destruct (map_eq_In pr l l' H c' Hin) as [c [H1 H2]].
  rewrite Forall_forall in HF. exact (HP c c' H2 (HF c H1)).
Qed.

(* ================================================================================== *)
(* B. every lexer item carries the file it was lexed for                                *)

Definition item_file (file : option N) (it : lexitem) : Prop :=
  match it with LTok t => tfile t = file | LErrString t _ _ => tfile t = file | LErrUnexpected t => tfile t = file end.

Ltac dmh H :=
  repeat match type of H with
         | context [match ?x with _ => _ end] => destruct x eqn:?; try discriminate H
         end.

Lemma check_tok_id chk t t' : check_tok chk t = Ok t' -> t' = t.
Proof. unfold check_tok. intros H. dmh H; inversion H; reflexivity. Qed.

Lemma fin_file chk t s p it s' p' file :
  fin chk t s p = Ok (Some (it, s', p')) -> tfile t = file -> item_file file it.
Proof.
  unfold fin, bind. intros H Hf. destruct (check_tok chk t) eqn:E; try discriminate.
  apply check_tok_id in E. inversion H; subst. reflexivity.
Qed.

Lemma chr_cont_file file st cv s2 p2 it s' p' :
  chr_cont file st cv s2 p2 = Ok (Some (it, s', p')) -> item_file file it.
Proof.
  unfold chr_cont, invalid_string. intros H. dmh H; inversion H; subst; reflexivity.
Qed.

Lemma body_file rec chk file s p it s' p' :
  (forall s p it s' p', rec s p = Ok (Some (it, s', p')) -> item_file file it) ->
  body rec chk file s p = Ok (Some (it, s', p')) -> item_file file it.
Proof.
  intros Hrec H. unfold body in H.
  destruct s as [|c r]; [discriminate|].
  destruct (N.eqb c c_nl).
  { unfold b_one in H. destruct (consume (c :: r) p). eapply fin_file; [exact H|reflexivity]. }
  destruct (N.eqb c c_lparen).
  { unfold b_one in H. destruct (consume (c :: r) p). eapply fin_file; [exact H|reflexivity]. }
  destruct (N.eqb c c_rparen).
  { unfold b_one in H. destruct (consume (c :: r) p). eapply fin_file; [exact H|reflexivity]. }
  destruct (N.eqb c c_dot).
  { unfold b_dot in H. destruct (scan stop_directive (c :: r) p []) as [[acc s1] p1].
    destruct (consume s1 p1). destruct (str_eqb (rev acc) [c_dot]).
    - eapply Hrec. exact H.
    - eapply fin_file; [exact H|reflexivity]. }
  destruct (N.eqb c c_hash).
  { unfold b_hash in H. destruct (scan stop_comment (c :: r) p []) as [[acc s1] p1].
    destruct (consume s1 p1). eapply fin_file; [exact H|reflexivity]. }
  destruct (N.eqb c c_dquote).
  { unfold b_str, bind in H. destruct (consume (c :: r) p) as [s1 p1].
    destruct (acc_string (S (length s1)) s1 p1 []) as [[[[text s2] p2]|[[[epos k] s2] p2]]| |]; try discriminate.
    - destruct (consume s2 p2). eapply fin_file; [exact H|reflexivity].
    - destruct (skip_line s2 p2). inversion H; subst. reflexivity. }
  destruct (N.eqb c c_squote).
  { unfold b_chr, invalid_string in H. destruct (consume (c :: r) p) as [s1 p1].
    destruct s1 as [|c1 s1]; [inversion H; subst; reflexivity|].
    destruct (N.eqb c1 c_bslash).
    - destruct (escape_code (c1 :: s1) p1) as [[[ec s2] p2]|].
      + eapply chr_cont_file. exact H.
      + destruct (skip_line (c1 :: s1) p1). inversion H; subst. reflexivity.
    - destruct (N.eqb c1 c_nl); [inversion H; subst; reflexivity|].
      eapply chr_cont_file. exact H. }
  unfold b_sym in H.
  destruct (negb (is_symbol_item c)).
  { destruct (consume (c :: r) p). inversion H; subst. reflexivity. }
  destruct (scan stop_symbol (c :: r) p []) as [[acc s1] p1].
  assert (Hsym : forall en, (let '(s1', p1') := consume s1 p1 in
                  fin chk (mktok (TSymbol (rev acc)) (mkrange (get_pos p) en) file) s1' p1') = Ok (Some (it, s', p')) ->
                 item_file file it).
  { intros en H'. destruct (consume s1 p1). eapply fin_file; [exact H'|reflexivity]. }
  destruct s1 as [|a [|colon s1]]; try (eapply Hsym; exact H).
  destruct (N.eqb colon c_colon); [|eapply Hsym; exact H].
  destruct (consume (a :: colon :: s1) p1) as [s2 p2]. destruct (consume s2 p2).
  inversion H; subst. reflexivity.
Qed.

Lemma next_file : forall fuel chk file s p it s' p',
  next fuel chk file s p = Ok (Some (it, s', p')) -> item_file file it.
Proof.
  induction fuel as [|f IH]; intros chk file s p it s' p' H; [discriminate|].
  rewrite next_unfold in H. destruct (skip_ws s p) as [s1 p1].
  unfold bind in H. destruct (skip_dots (S (length s1)) s1 p1) as [[s2 p2]| |]; try discriminate.
  eapply body_file; [|exact H]. intros. eapply IH. eassumption.
Qed.

Lemma lex_loop_file chk file : forall fuel s p acc items,
  Forall (item_file file) acc -> lex_loop fuel chk file s p acc = Ok items -> Forall (item_file file) items.
Proof.
  induction fuel as [|f IH]; intros s p acc items Hacc H; [discriminate|].
  cbn [lex_loop] in H. unfold bind in H.
  destruct (next (S (length s)) chk file s p) as [[[[it s'] p']|]| |] eqn:E; try discriminate.
  - eapply IH; [|exact H]. constructor; [|exact Hacc]. eapply next_file. exact E.
  - inversion H; subst. apply Forall_rev. exact Hacc.
Qed.

Lemma lex_all_file chk file s items : lex_all chk file s = Ok items -> Forall (item_file file) items.
Proof. unfold lex_all. apply lex_loop_file. constructor. Qed.

(* ================================================================================== *)
(* C. every node the statement parser returns has a file on its name operand and on its
      raw token, and is a label, a directive or an instruction                          *)

Definition fok (o : option N) : Prop := exists id, o = Some id.
Definition tok_ok (t : token) : Prop := fok (tfile t).
Definition it_ok (it : lexitem) : Prop := match it with LTok t => tok_ok t | _ => True end.

Definition node_name (n : pnode) : option (wth str) :=
  match n with
  | PLabel name _ => Some name
  | PJumpLink _ _ name _ => Some name
  | PBranch _ _ _ name _ => Some name
  | PLoadAddr _ _ name _ => Some name
  | _ => None
  end.
Definition is_label (n : pnode) : bool := match n with PLabel _ _ => true | _ => false end.
Definition kind_ok (n : pnode) : bool := (is_instruction n || is_directive n || is_label n)%bool.
Definition pn_ok (n : pnode) : Prop :=
  kind_ok n = true /\ fok (rfile (node_raw n)) /\ (forall l, node_name n = Some l -> tok_ok (wt l)).
Definition err_ok (e : lexerr) : Prop :=
  match e with ENeedTwoNodes n1 n2 => pn_ok n1 /\ pn_ok n2 | _ => True end.
Definition st_ok (st : pstate) : Prop :=
  Forall it_ok (fst st) /\ exists r, snd st = Some r /\ fok (rfile r).

Definition P_ok {A} (Q : A -> Prop) (m : P A) : Prop :=
  forall st x st', st_ok st -> m st = Ok (x, st') ->
    st_ok st' /\ match x with inl e => err_ok e | inr a => Q a end.

Lemma item_file_ok id it : item_file (Some id) it -> it_ok it.
Proof. destruct it; cbn; intros H; try exact I. exists id. exact H. Qed.

Lemma ret_ok {A} (Q : A -> Prop) a : Q a -> P_ok Q (ret a).
Proof. intros H st x st' Hst E. unfold ret in E. inversion E; subst. split; assumption. Qed.

Lemma fail_ok {A} (Q : A -> Prop) e : err_ok e -> P_ok Q (@fail A e).
Proof. intros H st x st' Hst E. unfold fail in E. inversion E; subst. split; assumption. Qed.

Lemma bind_ok {A B} (Q : A -> Prop) (R : B -> Prop) (m : P A) (f : A -> P B) :
  P_ok Q m -> (forall a, Q a -> P_ok R (f a)) -> P_ok R (pbind m f).
Proof.
  intros Hm Hf st x st' Hst E. unfold pbind in E.
  destruct (m st) as [[[e|a] st1]| |] eqn:Em; try discriminate.
  - inversion E; subst. destruct (Hm _ _ _ Hst Em) as [H1 H2]. split; assumption.
  - destruct (Hm _ _ _ Hst Em) as [H1 H2]. exact (Hf a H2 _ _ _ H1 E).
Qed.

Lemma weaken_ok {A} (Q Q' : A -> Prop) (m : P A) : (forall a, Q a -> Q' a) -> P_ok Q m -> P_ok Q' m.
Proof.
  intros HQ Hm st x st' Hst E. destruct (Hm _ _ _ Hst E) as [H1 H2]. split; [exact H1|].
  destruct x; [exact H2|apply HQ; exact H2].
Qed.

Definition anyv {A} (_ : A) : Prop := True.

Lemma lift_res_ok {A} (r : res A) : P_ok anyv (lift_res r).
Proof.
  intros st x st' Hst E. unfold lift_res in E. destruct r; try discriminate.
  inversion E; subst. split; [exact Hst|exact I].
Qed.

Lemma get_raw_ok : P_ok (fun r => fok (rfile r)) get_raw.
Proof.
  intros st x st' [H1 [r [H2 H3]]] E. unfold get_raw in E. inversion E; subst.
  split; [split; [exact H1|exists r; split; assumption]|]. rewrite H2. exact H3.
Qed.

Lemma remaining_ok : P_ok anyv remaining.
Proof. intros st x st' Hst E. unfold remaining in E. inversion E; subst. split; [exact Hst|exact I]. Qed.

Lemma get_any_ok : P_ok tok_ok get_any.
Proof.
  intros [items raw] x st' [H1 [r [H2 H3]]] E. unfold get_any in E. cbn [fst snd] in *.
  destruct items as [|it l].
  - inversion E; subst. split; [|exact I]. split; [exact H1|exists r; split; [reflexivity|exact H3]].
  - inversion H1 as [|? ? Hit Hl]; subst. destruct it as [t|t p k|t]; cbn [item_result] in E; inversion E; subst.
    + split; [|exact Hit]. split; [exact Hl|]. cbn [snd]. eexists. split; [reflexivity|exact H3].
    + split; [|exact I]. split; [exact Hl|]. exists r. split; [reflexivity|assumption].
    + split; [|exact I]. split; [exact Hl|]. exists r. split; [reflexivity|assumption].
Qed.

Lemma peek_any_ok : P_ok tok_ok peek_any.
Proof.
  intros [items raw] x st' Hst E. unfold peek_any in E. cbn [fst snd] in *.
  destruct items as [|it l].
  - inversion E; subst. split; [exact Hst|exact I].
  - destruct Hst as [H1 H2]. cbn [fst] in H1. inversion H1 as [|? ? Hit Hl]; subst.
    destruct it as [t|t p k|t]; cbn [item_result] in E; inversion E; subst;
      (split; [split; [exact H1|exact H2]|]); try exact I. exact Hit.
Qed.

Lemma as_reg_ok t : P_ok anyv (as_reg t).
Proof. unfold as_reg. destruct (tok_reg t); [apply ret_ok|apply fail_ok]; exact I. Qed.
Lemma as_imm_ok t : P_ok anyv (as_imm t).
Proof.
  unfold as_imm. eapply bind_ok; [apply lift_res_ok|]. intros [a|] _; [apply ret_ok|apply fail_ok]; exact I.
Qed.
Lemma as_csrimm_ok t : P_ok anyv (as_csrimm t).
Proof.
  unfold as_csrimm. eapply bind_ok; [apply lift_res_ok|]. intros [a|] _; [apply ret_ok|apply fail_ok]; exact I.
Qed.
Lemma as_string_ok t : P_ok anyv (as_string t).
Proof. unfold as_string. destruct (tok_string t); [apply ret_ok|apply fail_ok]; exact I. Qed.

Lemma tok_label_wt t l : tok_label t = Some l -> wt l = t.
Proof.
  unfold tok_label. destruct (tt t); try discriminate. destruct (label_from_str s); try discriminate.
  cbn. intros H. inversion H. reflexivity.
Qed.

Definition wok {A} (x : wth A) : Prop := tok_ok (wt x).

Lemma as_label_ok t : tok_ok t -> P_ok wok (as_label t).
Proof.
  intros Ht. unfold as_label. destruct (tok_label t) eqn:E; [apply ret_ok|apply fail_ok; exact I].
  unfold wok. rewrite (tok_label_wt _ _ E). exact Ht.
Qed.

Lemma get_reg_ok : P_ok anyv get_reg.
Proof. unfold get_reg. eapply bind_ok; [apply get_any_ok|]. intros t _. apply as_reg_ok. Qed.
Lemma get_imm_ok : P_ok anyv get_imm.
Proof. unfold get_imm. eapply bind_ok; [apply get_any_ok|]. intros t _. apply as_imm_ok. Qed.
Lemma get_csrimm_ok : P_ok anyv get_csrimm.
Proof. unfold get_csrimm. eapply bind_ok; [apply get_any_ok|]. intros t _. apply as_csrimm_ok. Qed.
Lemma get_string_ok : P_ok anyv get_string.
Proof. unfold get_string. eapply bind_ok; [apply get_any_ok|]. intros t _. apply as_string_ok. Qed.
Lemma get_label_ok : P_ok wok get_label.
Proof. unfold get_label. eapply bind_ok; [apply get_any_ok|]. intros t Ht. apply as_label_ok. exact Ht. Qed.
Lemma expect_rparen_ok : P_ok anyv expect_rparen.
Proof.
  unfold expect_rparen. eapply bind_ok; [apply get_any_ok|]. intros t _.
  destruct (is_rparen t); [apply ret_ok|apply fail_ok]; exact I.
Qed.

Ltac pstep :=
  cbv beta;
  match goal with
  | |- P_ok _ (pbind get_reg _) => eapply bind_ok; [apply get_reg_ok|intros ? _]
  | |- P_ok _ (pbind get_imm _) => eapply bind_ok; [apply get_imm_ok|intros ? _]
  | |- P_ok _ (pbind get_csrimm _) => eapply bind_ok; [apply get_csrimm_ok|intros ? _]
  | |- P_ok _ (pbind get_string _) => eapply bind_ok; [apply get_string_ok|intros ? _]
  | |- P_ok _ (pbind expect_rparen _) => eapply bind_ok; [apply expect_rparen_ok|intros ? _]
  | |- P_ok _ (pbind remaining _) => eapply bind_ok; [apply remaining_ok|intros ? _]
  | |- P_ok _ (pbind (lift_res _) _) => eapply bind_ok; [apply lift_res_ok|intros ? _]
  | |- P_ok _ (pbind get_label _) => eapply bind_ok; [apply get_label_ok|intros ? ?]
  | |- P_ok _ (pbind get_any _) => eapply bind_ok; [apply get_any_ok|intros ? ?]
  | |- P_ok _ (pbind peek_any _) => eapply bind_ok; [apply peek_any_ok|intros ? ?]
  | |- P_ok _ (pbind get_raw _) => eapply bind_ok; [apply get_raw_ok|intros ? ?]
  | |- P_ok _ (ret _) => apply ret_ok
  | |- P_ok _ (fail _) => apply fail_ok
  | |- P_ok _ (match ?x with _ => _ end) => destruct x eqn:?
  end.

Ltac pn_fin :=
  repeat match goal with H : tok_label _ = Some _ |- _ => apply tok_label_wt in H end;
  unfold wok in *;
  match goal with
  | |- True => exact I
  | |- anyv _ => exact I
  | |- pn_ok _ =>
      split; [reflexivity|split; [cbn [node_raw]; assumption|
        cbn [node_name]; intros ? Hnm; inversion Hnm; subst; try assumption; congruence]]
  | |- pn_ok _ /\ pn_ok _ =>
      split; (split; [reflexivity|split; [cbn [node_raw]; assumption|
        cbn [node_name]; intros ? Hnm; inversion Hnm; subst; try assumption; congruence]])
  | |- err_ok _ => cbn [err_ok]; try exact I
  end.

Lemma parse_inst_ok i t0 : tok_ok t0 -> P_ok pn_ok (parse_inst i t0).
Proof.
  intros Ht. unfold parse_inst. cbv zeta.
  destruct (inst_kind i); solve [repeat pstep; repeat pn_fin].
Qed.

Lemma data_values_ok : forall fuel acc, P_ok anyv (data_values fuel acc).
Proof.
  induction fuel as [|f IH]; intros acc st x st' Hst E; [discriminate|].
  cbn [data_values] in E.
  destruct (fst st) as [|[t|t p k|t] l] eqn:Efst;
    try (unfold ret in E; inversion E; subst; split; [exact Hst|exact I]).
  revert E.
  match goal with |- ?m st = _ -> _ => assert (HP : P_ok (@anyv (list (wth Z))) m) end.
  { pstep. destruct (tt a); try solve [repeat pstep; try apply IH; exact I].
    all: pstep; (destruct a0; [pstep; apply IH|pstep; exact I]). }
  intros E. exact (HP _ _ _ Hst E).
Qed.

Lemma skip_macro_ok : forall fuel, P_ok anyv (skip_macro fuel).
Proof.
  induction fuel as [|f IH]; [intros st x st' Hst E; discriminate|].
  cbn [skip_macro]. pstep.
  destruct (tt a); try apply IH. destruct (dir_from_str s) as [[]|]; try apply IH. pstep. exact I.
Qed.

Lemma parse_directive_ok d t0 : tok_ok t0 -> P_ok pn_ok (parse_directive d t0).
Proof.
  intros Ht. unfold parse_directive. cbv zeta.
  destruct d; cbv beta;
    try solve [repeat pstep; repeat pn_fin];
    try solve [pstep; eapply bind_ok; [apply data_values_ok|intros ? _]; repeat pstep; repeat pn_fin].
  pstep. eapply bind_ok; [apply skip_macro_ok|intros ? _]. pstep. exact I.
Qed.

Lemma parse_stmt_split : exists k, parse_stmt = pbind get_any k /\ forall t0, tok_ok t0 -> P_ok pn_ok (k t0).
Proof.
  eexists. split; [reflexivity|]. intros t0 Ht. cbv beta.
  destruct (tt t0); try (apply fail_ok; exact I).
  - destruct (label_from_str s); [|apply fail_ok; exact I]. repeat pstep. repeat pn_fin.
  - destruct (inst_from_str s); [|apply fail_ok; exact I]. apply parse_inst_ok. exact Ht.
  - destruct (dir_from_str s); [|apply fail_ok; exact I]. apply parse_directive_ok. exact Ht.
Qed.

Lemma parse_one_ok items x rest :
  Forall it_ok items -> parse_one items = Ok (x, rest) ->
  Forall it_ok rest /\ match x with inl e => err_ok e | inr n => pn_ok n end.
Proof.
  intros Hit E. unfold parse_one, bind in E.
  destruct (parse_stmt (items, None)) as [[x' [rest' raw']]| |] eqn:Ep; try discriminate.
  inversion E; subst x' rest'. clear E.
  destruct parse_stmt_split as [k [Hk1 Hk2]]. rewrite Hk1 in Ep. unfold pbind in Ep.
  destruct items as [|it l].
  - cbn in Ep. inversion Ep; subst. split; [constructor|exact I].
  - inversion Hit as [|? ? Hi Hl]; subst.
    destruct it as [t|t p q|t]; cbn in Ep.
    + assert (Hst : st_ok (l, Some (raw_of_token t))).
      { split; [exact Hl|]. exists (raw_of_token t). split; [reflexivity|exact Hi]. }
      destruct (Hk2 t Hi _ _ _ Hst Ep) as [[H1 _] H2].
      split; [exact H1|exact H2].
    + inversion Ep; subst. split; [exact Hl|exact I].
    + inversion Ep; subst. split; [exact Hl|exact I].
Qed.

(* ================================================================================== *)
(* D. the file driver: the node list is the program entry followed by parsed nodes      *)

Definition wf (nodes : list pnode) : Prop :=
  nodes = [] \/ exists f rt rest, nodes = PProgramEntry f rt :: rest /\ Forall pn_ok rest.
Definition acc_ok (acc : list pnode) : Prop :=
  exists l f rt, acc = l ++ [PProgramEntry f rt] /\ Forall pn_ok l.

Lemma recover_ok : forall items, Forall it_ok items -> Forall it_ok (recover items).
Proof.
  induction items as [|it l IH]; intros H; cbn [recover]; [constructor|].
  inversion H; subst. destruct it; try (apply IH; assumption).
  destruct (tt t); try (apply IH; assumption). assumption.
Qed.

Lemma acc_ok_push n acc : pn_ok n -> acc_ok acc -> acc_ok (n :: acc).
Proof.
  intros Hn [l [f [rt [H1 H2]]]]. exists (n :: l), f, rt. split; [rewrite H1; reflexivity|].
  constructor; assumption.
Qed.

Lemma drive_ok chk fs ign : forall fuel stack rs nodes errs ns es rs',
  Forall (Forall it_ok) stack -> acc_ok nodes ->
  drive fuel chk fs ign stack rs nodes errs = Ok (ns, es, rs') -> wf ns.
Proof.
  induction fuel as [|f IH]; intros stack rs nodes errs ns es rs' Hst Hacc E; [discriminate|].
  cbn [drive] in E. destruct stack as [|top below].
  { inversion E; subst. destruct Hacc as [l [fl [rt [H1 H2]]]]. right.
    exists fl, rt, (rev l). split; [rewrite H1, rev_app_distr; reflexivity|apply Forall_rev; exact H2]. }
  inversion Hst as [|? ? Htop Hbelow]; subst.
  unfold bind in E. destruct (parse_one top) as [[x rest]| |] eqn:Ep; try discriminate.
  destruct (parse_one_ok _ _ _ Htop Ep) as [Hrest Hx].
  assert (Hrb : Forall (Forall it_ok) (rest :: below)) by (constructor; assumption).
  assert (Hrr : Forall (Forall it_ok) (recover rest :: below)) by (constructor; [apply recover_ok|]; assumption).
  destruct x as [e|n].
  - destruct e; try (eapply IH; [|exact Hacc|exact E]; assumption).
    + eapply IH; [|exact Hacc|exact E]. destruct (is_newline_tok got); assumption.
    + destruct Hx as [Hn1 Hn2]. eapply IH; [exact Hrb| |exact E].
      apply acc_ok_push; [exact Hn2|]. apply acc_ok_push; assumption.
  - destruct (if ign then None else include_path n) as [path|].
    + destruct (import_file fs (wv path) rs) as [[e|[id text]] rs1].
      * eapply IH; [exact Hrb|exact Hacc|exact E].
      * destruct (lex_all chk (Some id) (normalize_text text)) as [items| |] eqn:El; try discriminate.
        eapply IH; [|exact Hacc|exact E]. constructor; [|exact Hrb].
        apply lex_all_file in El. eapply Forall_impl; [|exact El]. intros a. apply item_file_ok.
    + eapply IH; [exact Hrb| |exact E]. apply acc_ok_push; assumption.
Qed.

Theorem parsed_wf chk fs base nodes errs rs :
  parse_from_file chk fs base false = Ok (nodes, errs, rs) -> wf nodes.
Proof.
  unfold parse_from_file. destruct (import_file fs base (mkrs [])) as [[e|[id text]] rs1].
  - intros H. inversion H. left. reflexivity.
  - unfold bind. destruct (lex_all chk (Some id) (normalize_text text)) as [items| |] eqn:El; try discriminate.
    intros H. eapply drive_ok; [| |exact H].
    + constructor; [|constructor]. apply lex_all_file in El. eapply Forall_impl; [|exact El].
      intros a. apply item_file_ok.
    + exists [], (Some id), (mkraw range0 (Some id)). split; [reflexivity|constructor].
Qed.

(* ================================================================================== *)
(* E. graph construction                                                                *)

Lemma label_of_some n x : label_of n = Some x -> exists rt, n = PLabel x rt.
Proof. destruct n; try discriminate. cbn. intros H. inversion H. eexists. reflexivity. Qed.

Lemma label_names_defines ns s :
  mem_name s (filter_map label_of ns) = true <-> exists n, In n ns /\ defines_label n s.
Proof.
  rewrite mem_name_true. split.
  - intros [x [H1 H2]]. apply filter_map_in in H1. destruct H1 as [n [H3 H4]].
    exists n. split; [exact H3|]. apply label_of_some in H4. destruct H4 as [rt H4].
    exists x, rt. split; assumption.
  - intros [n [H1 [x [rt [H2 H3]]]]]. exists x. split; [|exact H3].
    apply filter_map_in. exists n. split; [exact H1|]. subst n. reflexivity.
Qed.

Lemma build_nodes_dup : forall ns cnm pd cur all text acc e pre0,
  (forall s, mem_name s all = true -> exists n, In n pre0 /\ defines_label n s) ->
  build_nodes ns cnm pd cur all text acc = inl e ->
  exists l pre post rt, e = CDuplicateLabel l /\ ns = pre ++ PLabel l rt :: post /\
    exists n, In n (pre0 ++ pre) /\ defines_label n (wv l).
Proof.
  induction ns as [|n ns IH]; intros cnm pd cur all text acc e pre0 Hall E; cbn [build_nodes] in E; [discriminate|].
  assert (Hstep : forall cur' text' acc', build_nodes ns cnm pd cur' all text' acc' = inl e ->
            exists l pre post rt, e = CDuplicateLabel l /\ n :: ns = pre ++ PLabel l rt :: post /\
              exists n0, In n0 (pre0 ++ pre) /\ defines_label n0 (wv l)).
  { intros cur' text' acc' E'.
    destruct (IH cnm pd cur' all text' acc' e (pre0 ++ [n])) as [l [pre [post [rt [H1 [H2 [n0 [H3 H4]]]]]]]]; [|exact E'|].
    - intros s Hs. destruct (Hall s Hs) as [n0 [H1 H2]]. exists n0. split; [apply in_or_app; left; exact H1|exact H2].
    - exists l, (n :: pre), post, rt. split; [exact H1|]. split; [rewrite H2; reflexivity|].
      exists n0. split; [|exact H4]. rewrite <- app_assoc in H3. exact H3. }
  destruct (label_of n) as [name|] eqn:El.
  - apply label_of_some in El. destruct El as [rt El]. subst n.
    destruct (mem_name (wv name) all) eqn:Em.
    + inversion E; subst e. exists name, [], ns, rt. split; [reflexivity|]. split; [reflexivity|].
      rewrite app_nil_r. apply Hall. exact Em.
    + destruct (IH cnm pd (if mem_name (wv name) cur then cur else cur ++ [name]) (name :: all) text acc e (pre0 ++ [PLabel name rt])) as [l [pre [post [rt' [H1 [H2 [n0 [H3 H4]]]]]]]]; [|exact E|].
      * intros s Hs. cbn [mem_name] in Hs. apply orb_prop in Hs. destruct Hs as [Hs|Hs].
        -- apply str_eqb_eq in Hs. exists (PLabel name rt). split; [apply in_or_app; right; left; reflexivity|].
           exists name, rt. split; [reflexivity|congruence].
        -- destruct (Hall s Hs) as [n0 [H1 H2]]. exists n0. split; [apply in_or_app; left; exact H1|exact H2].
      * exists l, (PLabel name rt :: pre), post, rt'. split; [exact H1|]. split; [rewrite H2; reflexivity|].
        exists n0. split; [|exact H4]. rewrite <- app_assoc in H3. exact H3.
  - destruct (is_datasec n); [eapply Hstep; exact E|].
    destruct (is_textsec n); [eapply Hstep; exact E|].
    destruct (is_directive n); [eapply Hstep; exact E|].
    destruct (any_in cur cnm); eapply Hstep; exact E.
Qed.

Lemma cfg_new_err ns predef e : cfg_new ns predef = inl e ->
  (exists ls, e = CLabelsNotDefined ls /\ ls <> [] /\
     forall l, In l ls ->
       (forall n, In n ns -> ~ defines_label n (wv l)) /\
       ((exists n, In n ns /\ uses_label n l) \/ In l (match predef with Some p => p | None => [] end))) \/
  (exists l pre post rt, e = CDuplicateLabel l /\ ns = pre ++ PLabel l rt :: post /\
     exists n, In n pre /\ defines_label n (wv l)).
Proof.
  unfold cfg_new. intros E.
  match type of E with context [filter ?f ?u] => set (und := filter f u) in E; assert (Hund : und = filter f u) by reflexivity end.
  destruct und as [|u0 und].
  - right. destruct (build_nodes ns _ predef [] [] true []) as [e'|nodes] eqn:Eb; [|discriminate].
    inversion E; subst e'.
    assert (H0 : forall s, mem_name s [] = true -> exists n, In n (@nil pnode) /\ defines_label n s)
      by (intros s Hs; discriminate Hs).
    destruct (build_nodes_dup _ _ _ _ _ _ _ _ [] H0 Eb) as [l [pre [post [rt [H1 [H2 H3]]]]]].
    exists l, pre, post, rt. split; [exact H1|]. split; [exact H2|exact H3].
  - left. inversion E; subst e. eexists. split; [reflexivity|]. split; [discriminate|].
    intros l Hl. rewrite Hund in Hl. apply filter_In in Hl. destruct Hl as [Hl1 Hl2].
    split.
    + intros n Hn Hd. apply negb_true_iff in Hl2.
      assert (Ht : mem_name (wv l) (filter_map label_of ns) = true).
      { apply label_names_defines. exists n. split; assumption. }
      congruence.
    + assert (U : forall a b x, In x (union_names a b) -> In x a \/ In x b).
      { intros a b x Hx. unfold union_names in Hx.
        destruct (Nat.leb (length b) (length a)); apply dedup_in, in_app_or in Hx; tauto. }
      apply U in Hl1. destruct Hl1 as [Hl1|Hl1].
      * apply U in Hl1. destruct Hl1 as [Hl1|Hl1].
        -- apply dedup_in in Hl1. apply in_app_or in Hl1. destruct Hl1 as [Hl1|Hl1]; [|right; exact Hl1].
           apply filter_map_in in Hl1. destruct Hl1 as [n [H1 H2]]. left. exists n. split; [exact H1|left; exact H2].
        -- apply dedup_in, filter_map_in in Hl1. destruct Hl1 as [n [H1 H2]]. left. exists n. split; [exact H1|right; left; exact H2].
      * apply dedup_in, filter_map_in in Hl1. destruct Hl1 as [n [H1 H2]]. left. exists n. split; [exact H1|right; right; exact H2].
Qed.

Definition maps_empty (c : cnode) : Prop := rin c = [] /\ rout c = [] /\ min c = [] /\ mout c = [].
Definition prov (ns : list pnode) (c : cnode) : Prop :=
  In (cn c) ns \/
  exists n h, In n ns /\ label_of n = None /\ is_directive n = false /\
              cn c = PFuncEntry (rfile (node_raw n)) (node_raw n) h /\ clabels c <> [].

Lemma prov_cons n ns c : prov ns c -> prov (n :: ns) c.
Proof.
  intros [H|[n0 [h [H1 H2]]]]; [left; right; exact H|]. right. exists n0, h. split; [right; exact H1|exact H2].
Qed.

Lemma build_nodes_prov : forall ns cnm pd cur all text acc res,
  build_nodes ns cnm pd cur all text acc = inr res ->
  forall c, In c res -> In c acc \/ (maps_empty c /\ prov ns c).
Proof.
  induction ns as [|n ns IH]; intros cnm pd cur all text acc res E c Hc; cbn [build_nodes] in E.
  - inversion E; subst res. left. apply in_rev. exact Hc.
  - assert (Hstep : forall cur' all' text', build_nodes ns cnm pd cur' all' text' acc = inr res ->
              In c acc \/ (maps_empty c /\ prov (n :: ns) c)).
    { intros cur' all' text' E'. destruct (IH _ _ _ _ _ _ _ E' c Hc) as [H|[H1 H2]]; [left; exact H|].
      right. split; [exact H1|apply prov_cons; exact H2]. }
    destruct (label_of n) as [name|] eqn:El.
    + destruct (mem_name (wv name) all); [discriminate|]. eapply Hstep. exact E.
    + destruct (is_datasec n); [eapply Hstep; exact E|].
      destruct (is_textsec n); [eapply Hstep; exact E|].
      destruct (is_directive n) eqn:Ed; [eapply Hstep; exact E|].
      destruct (any_in cur cnm) eqn:Ea.
      * destruct (IH _ _ _ _ _ _ _ E c Hc) as [[H|[H|H]]|[H1 H2]].
        -- subst c. right. split; [repeat split|]. left. left. reflexivity.
        -- subst c. right. split; [repeat split|]. right. eexists n, _.
           split; [left; reflexivity|]. split; [exact El|]. split; [exact Ed|]. split; [reflexivity|].
           cbn [clabels new_cnode]. eapply any_in_nonempty. exact Ea.
        -- left. exact H.
        -- right. split; [exact H1|apply prov_cons; exact H2].
      * destruct (IH _ _ _ _ _ _ _ E c Hc) as [[H|H]|[H1 H2]].
        -- subst c. right. split; [repeat split|]. left. left. reflexivity.
        -- left. exact H.
        -- right. split; [exact H1|apply prov_cons; exact H2].
Qed.

Definition gprov (ns : list pnode) (c : cnode) : Prop :=
  In (cn c) ns \/
  exists n h, In n ns /\ is_instruction n = true /\
              cn c = PFuncEntry (rfile (node_raw n)) (node_raw n) h /\ clabels c <> [].

Lemma pn_ok_instr n : pn_ok n -> label_of n = None -> is_directive n = false -> is_instruction n = true.
Proof.
  intros [H _] H1 H2. unfold kind_ok in H. rewrite H2 in H.
  destruct n; try discriminate; reflexivity.
Qed.

Lemma cfg_new_prov ns predef g : wf ns -> cfg_new ns predef = inr g ->
  Forall (fun c => maps_empty c /\ gprov ns c) (gnodes g).
Proof.
  intros Hwf E. unfold cfg_new in E.
  match type of E with context [filter ?f ?u] => destruct (filter f u); [|discriminate] end.
  destruct (build_nodes ns _ predef [] [] true []) as [e'|nodes] eqn:Eb; [discriminate|].
  inversion E; subst g. cbn [gnodes]. clear E. apply Forall_forall. intros c Hc.
  destruct Hwf as [Hwf|[f [rt [rest [H1 H2]]]]].
  - subst ns. cbn in Eb. inversion Eb; subst nodes. destruct Hc.
  - subst ns. cbn [build_nodes label_of is_datasec is_textsec is_directive any_in] in Eb.
    destruct (build_nodes_prov _ _ _ _ _ _ _ _ Eb c Hc) as [[H|[]]|[H3 H4]].
    + subst c. split; [repeat split|]. left. left. reflexivity.
    + split; [exact H3|]. destruct H4 as [H4|[n [h [H4 [H5 [H6 [H7 H8]]]]]]].
      * left. right. exact H4.
      * right. exists n, h. split; [right; exact H4|]. split; [|split; assumption].
        rewrite Forall_forall in H2. apply pn_ok_instr; [apply H2; exact H4|exact H5|exact H6].
Qed.

(* ================================================================================== *)
(* F. the edge passes touch nothing but edges                                           *)

Lemma fold_pr {X I} (pr : cnode -> X) (fn : list cnode -> I -> list cnode) :
  (forall g i, map pr (fn g i) = map pr g) -> forall L g, map pr (fold_left fn L g) = map pr g.
Proof.
  intros H. induction L as [|i L IH]; intros g; cbn [fold_left]; [reflexivity|].
  rewrite IH. apply H.
Qed.

Section Frame.
  Context {X : Type} (pr : cnode -> X).
  Hypothesis pr_nexts : forall c v, pr (set_nexts c v) = pr c.
  Hypothesis pr_prevs : forall c v, pr (set_prevs c v) = pr c.

  Lemma add_edge_pr g a b : map pr (add_edge g a b) = map pr g.
  Proof.
    unfold add_edge. rewrite map_upd; [|intros; apply pr_prevs]. apply map_upd. intros; apply pr_nexts.
  Qed.

  Lemma directions_loop_pr : forall todo i prev g g',
    directions_loop todo i prev g = inr g' -> map pr g' = map pr g.
  Proof.
    induction todo as [|c todo IH]; intros i prev g g' E; cbn [directions_loop] in E.
    - inversion E. reflexivity.
    - assert (Hstep : forall g1, map pr g1 = map pr g ->
                directions_loop todo (S i) (if (is_return (cn c) || is_unconditional_jump (cn c))%bool then None else Some i)
                  (match prev with Some p => add_edge g1 p i | None => g1 end) = inr g' -> map pr g' = map pr g).
      { intros g1 H1 E1. apply IH in E1. rewrite E1. destruct prev; [rewrite add_edge_pr|]; exact H1. }
      destruct (jumps_to (cn c)) as [label|].
      + destruct (find_label (wv label) g 0) as [j|]; [|discriminate].
        eapply Hstep; [|exact E]. apply add_edge_pr.
      + eapply Hstep; [|exact E]. reflexivity.
  Qed.

  Lemma directions_pr g g' : directions g = inr g' -> map pr (gnodes g') = map pr (gnodes g).
  Proof.
    unfold directions. destruct (directions_loop (gnodes g) 0 None (gnodes g)) as [e|ns] eqn:E; [discriminate|].
    intros H. inversion H; subst g'. cbn [gnodes]. eapply directions_loop_pr. exact E.
  Qed.

  Lemma dead_step_pr g i : map pr (dead_step g i) = map pr g.
  Proof.
    unfold dead_step. destruct (getn g i) as [c|]; [|reflexivity].
    destruct (is_return (cn c) || is_any_entry (cn c) || might_terminate (cn c))%bool; [reflexivity|].
    match goal with |- map pr (match getn ?g1 i with _ => _ end) = _ => set (G1 := g1); assert (H1 : map pr G1 = map pr g) end.
    { subst G1. destruct (nexts c); [|reflexivity].
      rewrite map_upd; [|intros; apply pr_prevs]. apply fold_pr. intros g0 p. apply map_upd. intros; apply pr_nexts. }
    destruct (getn G1 i) as [c1|]; [|exact H1].
    destruct (prevs c1); [|exact H1].
    rewrite map_upd; [|intros; apply pr_nexts]. rewrite fold_pr; [exact H1|].
    intros g0 p. apply map_upd. intros; apply pr_prevs.
  Qed.

  Lemma dead_code_pr g : map pr (gnodes (dead_code g)) = map pr (gnodes g).
  Proof. unfold dead_code. cbn [gnodes]. apply fold_pr. apply dead_step_pr. Qed.

  Lemma ecall_term_step_pr g i : map pr (ecall_term_step g i) = map pr g.
  Proof.
    unfold ecall_term_step. destruct (getn g i) as [c|]; [|reflexivity].
    destruct (is_program_exit c); [|reflexivity].
    rewrite map_upd; [|intros; apply pr_nexts]. apply fold_pr.
    intros g0 p. apply map_upd. intros; apply pr_prevs.
  Qed.

  Lemma ecall_terminate_pr g : map pr (gnodes (ecall_terminate g)) = map pr (gnodes g).
  Proof. unfold ecall_terminate. cbn [gnodes]. apply fold_pr. apply ecall_term_step_pr. Qed.
End Frame.

Definition sk (c : cnode) : pnode * list (wth str) := (cn c, clabels c).
Definition core (c : cnode) := (cn c, clabels c, (rin c, rout c), (min c, mout c)).

Lemma directions_loop_err : forall todo i prev g e,
  directions_loop todo i prev g = inl e ->
  exists c l, In c todo /\ jumps_to (cn c) = Some l /\ e = CLabelWithoutInstruction l.
Proof.
  induction todo as [|c todo IH]; intros i prev g e E; cbn [directions_loop] in E; [discriminate|].
  destruct (jumps_to (cn c)) as [label|] eqn:Ej.
  - destruct (find_label (wv label) g 0) as [j|].
    + apply IH in E. destruct E as [c' [l [H1 H2]]]. exists c', l. split; [right; exact H1|exact H2].
    + inversion E. exists c, label. split; [left; reflexivity|]. split; [exact Ej|reflexivity].
  - apply IH in E. destruct E as [c' [l [H1 H2]]]. exists c', l. split; [right; exact H1|exact H2].
Qed.

Lemma directions_err g e : directions g = inl e ->
  exists c l, In c (gnodes g) /\ jumps_to (cn c) = Some l /\ e = CLabelWithoutInstruction l.
Proof.
  unfold directions. destruct (directions_loop (gnodes g) 0 None (gnodes g)) as [e'|ns] eqn:E; [|discriminate].
  intros H. inversion H; subst e'. eapply directions_loop_err. exact E.
Qed.

(* the value analysis keeps nodes and labels *)
Lemma avail_node_sk g v i : map sk (fst (avail_node g v i)) = map sk g.
Proof.
  unfold avail_node. destruct (getn g i) as [c|]; [|reflexivity].
  destruct (avail_transfer c _ _) as [ro mo]. cbn [fst]. apply map_upd. intros x. reflexivity.
Qed.

Lemma avail_sweep_sk : forall idx g v ch, map sk (fst (fst (avail_sweep idx g v ch))) = map sk g.
Proof.
  induction idx as [|i idx IH]; intros g v ch; cbn [avail_sweep]; [reflexivity|].
  pose proof (avail_node_sk g v i) as H. destruct (avail_node g v i) as [g' c]. cbn [fst] in H.
  rewrite IH. exact H.
Qed.

Lemma avail_loop_sk : forall fuel g v g', avail_loop fuel g v = Ok g' -> map sk g' = map sk g.
Proof.
  induction fuel as [|f IH]; intros g v g' E; [discriminate|]. cbn [avail_loop] in E.
  pose proof (avail_sweep_sk (seq 0 (length g)) g v false) as H.
  destruct (avail_sweep (seq 0 (length g)) g v false) as [[g1 v1] ch]. cbn [fst] in H.
  destruct ch.
  - apply IH in E. rewrite E. exact H.
  - inversion E; subst. exact H.
Qed.

Lemma avail_pass_sk g g' : avail_pass g = Ok g' -> map sk (gnodes g') = map sk (gnodes g).
Proof.
  unfold avail_pass, bind. destruct (avail_loop (avail_fuel g) (gnodes g) []) as [ns| |] eqn:E; try discriminate.
  intros H. inversion H; subst g'. cbn [gnodes]. eapply avail_loop_sk. exact E.
Qed.

(* ================================================================================== *)
(* G. function markup: function entries and all label sets are left alone               *)

Definition R (c c' : cnode) : Prop :=
  clabels c' = clabels c /\
  (cn c' = cn c \/ (is_function_entry (cn c) = false /\ is_function_entry (cn c') = false)).

Lemma R_refl c : R c c.
Proof. split; [reflexivity|left; reflexivity]. Qed.

Lemma F2_refl : forall G, Forall2 R G G.
Proof. induction G; constructor; [apply R_refl|assumption]. Qed.

Lemma F2_getn : forall G G' i x, Forall2 R G G' -> getn G i = Some x ->
  exists x', getn G' i = Some x' /\ R x x'.
Proof.
  intros G G' i x H. revert i. induction H as [|a b G G' Hab H IH]; intros [|i] E; cbn in E; try discriminate.
  - inversion E; subst. exists b. split; [reflexivity|exact Hab].
  - apply IH. exact E.
Qed.

Lemma F2_getn_r : forall G G' i x', Forall2 R G G' -> getn G' i = Some x' ->
  exists x, getn G i = Some x /\ R x x'.
Proof.
  intros G G' i x H. revert i. induction H as [|a b G G' Hab H IH]; intros [|i] E; cbn in E; try discriminate.
  - inversion E; subst. exists a. split; [reflexivity|exact Hab].
  - apply IH. exact E.
Qed.

Lemma F2_upd (f : cnode -> cnode) : forall G G' i, Forall2 R G G' ->
  (forall x x', getn G i = Some x -> getn G' i = Some x' -> R x x' -> R x (f x')) ->
  Forall2 R G (upd G' i f).
Proof.
  intros G G' i H. revert i. induction H as [|a b G G' Hab H IH]; intros [|i] Hf; cbn [upd]; constructor;
    try assumption.
  - apply Hf; [reflexivity|reflexivity|exact Hab].
  - apply IH. intros x x' H1 H2. apply Hf; assumption.
Qed.

Lemma F2_fold {I} (fn : list cnode -> I -> list cnode) G : forall L,
  (forall G' i, In i L -> Forall2 R G G' -> Forall2 R G (fn G' i)) ->
  forall G', Forall2 R G G' -> Forall2 R G (fold_left fn L G').
Proof.
  induction L as [|i L IH]; intros H G' HG; cbn [fold_left]; [exact HG|].
  apply IH; [intros G1 j Hj; apply H; right; exact Hj|]. apply H; [left; reflexivity|exact HG].
Qed.

Lemma is_return_not_fe n : is_return n = true -> is_function_entry n = false.
Proof. destruct n; try discriminate; reflexivity. Qed.

Lemma R_not_fe x c : R x c -> is_function_entry (cn c) = false -> is_function_entry (cn x) = false.
Proof. intros [_ [H|[H _]]] Hc; [rewrite <- H; exact Hc|exact H]. Qed.

Lemma mark_function_ok G0 g e p g' :
  Forall2 R G0 (gnodes g) -> mark_function g e p = inr g' -> Forall2 R G0 (gnodes g').
Proof.
  intros H0 E. unfold mark_function in E. cbv zeta in E.
  set (ns := gnodes g) in *. set (r := reachable ns e) in *.
  match type of E with context [match ?f with [] => _ | _ => _ end] => set (rets := f) in E; assert (Hrets : rets = f) by reflexivity end.
  destruct rets as [|first rets']; [discriminate|].
  destruct g' as [gn gf gl]. cbn [gnodes].
  assert (E' := f_equal (fun x => match x with inr (mkcfg a _ _) => a | inl _ => [] end) E).
  cbv beta iota in E'. rewrite <- E'. clear E E'.
  apply F2_fold.
  - intros G' i Hi HG. rewrite Hrets in Hi. apply filter_In in Hi. destruct Hi as [_ Hi].
    destruct (getn ns i) as [ci|] eqn:Eci; [|discriminate].
    destruct (F2_getn_r _ _ _ _ H0 Eci) as [x0 [Hx0 HR0]].
    assert (Hnf : is_function_entry (cn x0) = false).
    { eapply R_not_fe; [exact HR0|]. apply is_return_not_fe. exact Hi. }
    match goal with |- context [Nat.eqb i ?ex] => destruct (Nat.eqb i ex); [exact HG|] end.
    destruct (getn G' i) as [c|]; [|exact HG].
    match goal with |- context [getn G' ?ex] => destruct (getn G' ex) as [ee|]; [|exact HG] end.
    apply F2_upd.
    + apply F2_upd; [exact HG|]. intros x x' H1 H2 [H3 H4].
      rewrite Hx0 in H1. inversion H1; subst x. split; [exact H3|]. right. split; [exact Hnf|reflexivity].
    + intros x x' _ _ H3. exact H3.
  - apply F2_fold; [|exact H0]. intros G' i _ HG. apply F2_upd; [exact HG|]. intros x x' _ _ H3. exact H3.
Qed.

Lemma mark_function_err g e p err c :
  mark_function g e p = inl err -> getn (gnodes g) e = Some c ->
  err = CFunctionWithoutReturn (cn c) (clabels c).
Proof.
  unfold mark_function. intros E Hc.
  match type of E with context [match ?f with [] => _ | _ => _ end] => destruct f; [|discriminate] end.
  rewrite Hc in E. inversion E. reflexivity.
Qed.

Lemma markup_loop_err G0 : forall entries picks g err,
  Forall2 R G0 (gnodes g) ->
  (forall e, In e entries -> exists c0, getn G0 e = Some c0 /\ is_function_entry (cn c0) = true) ->
  markup_loop entries picks g = inl err ->
  exists c0, In c0 G0 /\ is_function_entry (cn c0) = true /\ err = CFunctionWithoutReturn (cn c0) (clabels c0).
Proof.
  induction entries as [|e es IH]; intros picks g err HG Hent E; cbn [markup_loop] in E; [discriminate|].
  destruct (mark_function g e (hd_opt picks)) as [err'|g'] eqn:Em.
  - inversion E; subst err'. destruct (Hent e (or_introl eq_refl)) as [c0 [H1 H2]].
    destruct (F2_getn _ _ _ _ HG H1) as [c [H3 [H4 H5]]].
    exists c0. split; [eapply nth_opt_In; exact H1|]. split; [exact H2|].
    rewrite (mark_function_err _ _ _ _ _ Em H3). rewrite H4.
    destruct H5 as [H5|[H5 _]]; [rewrite H5; reflexivity|congruence].
  - eapply IH; [|intros e' He'; apply Hent; right; exact He'|exact E].
    eapply mark_function_ok; [exact HG|exact Em].
Qed.

Lemma function_markup_err picks g err : function_markup picks g = inl err ->
  exists c0, In c0 (gnodes g) /\ is_function_entry (cn c0) = true /\
             err = CFunctionWithoutReturn (cn c0) (clabels c0).
Proof.
  unfold function_markup. intros E. eapply markup_loop_err; [apply F2_refl| |exact E].
  intros e He. unfold function_entries in He. apply filter_In in He. destruct He as [_ He].
  destruct (getn (gnodes g) e) as [c|]; [|discriminate]. exists c. split; [reflexivity|exact He].
Qed.

(* ================================================================================== *)
(* H. provenance of address values: every AAddr in a value map names a `la` of the graph *)

Section Prov.
  Variable S : wth str -> Prop.
  Definition aok (v : aval) : Prop := match v with AAddr l => S l | _ => True end.
  Definition vals_ok {K} (m : list (K * aval)) : Prop := Forall (fun kv => aok (snd kv)) m.

  Lemma vals_nil {K} : @vals_ok K [].
  Proof. constructor. Qed.

  Lemma rm_get_ok r v : forall m, vals_ok m -> rm_get r m = Some v -> aok v.
  Proof.
    induction m as [|[k w] m IH]; intros H E; cbn [rm_get] in E; [discriminate|].
    inversion H; subst. destruct (N.eqb k r); [inversion E; subst; assumption|apply IH; assumption].
  Qed.

  Lemma mm_get_ok l v : forall m, vals_ok m -> mm_get l m = Some v -> aok v.
  Proof.
    induction m as [|[k w] m IH]; intros H E; cbn [mm_get] in E; [discriminate|].
    inversion H; subst. destruct (memloc_eqb k l); [inversion E; subst; assumption|apply IH; assumption].
  Qed.

  Lemma rm_insert_ok r v : aok v -> forall m, vals_ok m -> vals_ok (rm_insert r v m).
  Proof.
    intros Hv. induction m as [|[k w] m IH]; intros H; cbn [rm_insert].
    - constructor; [exact Hv|constructor].
    - inversion H; subst. destruct (N.eqb k r); [constructor; assumption|].
      destruct (N.ltb r k); [constructor; assumption|]. constructor; [assumption|apply IH; assumption].
  Qed.

  Lemma mm_insert_ok l v : aok v -> forall m, vals_ok m -> vals_ok (mm_insert l v m).
  Proof.
    intros Hv. induction m as [|[k w] m IH]; intros H; cbn [mm_insert].
    - constructor; [exact Hv|constructor].
    - inversion H; subst. destruct (memloc_eqb k l); [constructor; assumption|].
      destruct (memloc_ltb l k); [constructor; assumption|]. constructor; [assumption|apply IH; assumption].
  Qed.

  Lemma filter_ok {K} (f : K * aval -> bool) m : vals_ok m -> vals_ok (filter f m).
  Proof.
    unfold vals_ok. rewrite !Forall_forall. intros H x Hx. apply filter_In in Hx. apply H. tauto.
  Qed.

  Lemma fold_ok {K I} (fn : list (K * aval) -> I -> list (K * aval)) :
    (forall o i, vals_ok o -> vals_ok (fn o i)) -> forall L o, vals_ok o -> vals_ok (fold_left fn L o).
  Proof.
    intros H. induction L as [|i L IH]; intros o Ho; cbn [fold_left]; [exact Ho|]. apply IH. apply H. exact Ho.
  Qed.

  Lemma rm_extend_originals_ok s m : vals_ok m -> vals_ok (rm_extend_originals s m).
  Proof. unfold rm_extend_originals. apply fold_ok. intros o r Ho. apply rm_insert_ok; [exact I|exact Ho]. Qed.

  Definition nok (n : pnode) : Prop := forall l, reads_address_of n = Some l -> S l.

  Lemma gen_reg_value_ok n r v : nok n -> gen_reg_value n = Some (r, v) -> aok v.
  Proof.
    intros Hn. unfold gen_reg_value.
    match goal with |- match ?it with _ => _ end = _ -> _ => set (item := it) end.
    assert (Hitem : forall r v, item = Some (r, v) -> aok v).
    { subst item. intros r0 v0 E. destruct n; try discriminate E.
      - destruct (N.eqb (wv rs1) 0 && N.eqb (wv rs2) 0)%bool; inversion E; exact I.
      - destruct (N.eqb (wv rs1) 0); [|discriminate E]. destruct (wv i); inversion E; exact I.
      - inversion E; exact I.
      - inversion E; subst. apply Hn. reflexivity.
      - inversion E; exact I.
      - inversion E; exact I. }
    destruct item as [[r0 v0]|]; [|discriminate]. destruct (N.eqb r0 0); [discriminate|].
    intros E. inversion E; subst. eapply Hitem. reflexivity.
  Qed.

  Lemma gen_memory_value_ok n l v : gen_memory_value n = Some (l, v) -> aok v.
  Proof.
    unfold gen_memory_value. destruct n; try discriminate.
    - destruct (N.eqb (wv rs1) 2 && inst_is i ISw)%bool; intros E; inversion E; exact I.
    - destruct (inst_is i ICsrrw); intros E; inversion E; exact I.
    - destruct (inst_is i ICsrrwi); intros E; inversion E; exact I.
  Qed.

  Lemma rule_expand_ok n out ri : vals_ok out -> vals_ok (rule_expand_address_for_load n out ri).
  Proof.
    intros H. unfold rule_expand_address_for_load. destruct (writes_to n); [|exact H].
    destruct n; try exact H. destruct (rm_get (wv rs1) ri) as [[]|]; try exact H;
      (apply rm_insert_ok; [exact I|exact H]).
  Qed.

  Lemma rule_value_from_stack_ok n out mi : vals_ok out -> vals_ok mi -> vals_ok (rule_value_from_stack n out mi).
  Proof.
    intros H Hm. unfold rule_value_from_stack. destruct (writes_to n) as [dst|]; [|exact H].
    match goal with |- vals_ok (match rm_get _ ?o1 with _ => _ end) => set (out1 := o1); assert (H1 : vals_ok out1) end.
    { subst out1. destruct (rm_get (wv dst) out) as [[]|]; try exact H.
      destruct (mm_get (MCsr c) mi) eqn:E; [|exact H]. apply rm_insert_ok; [|exact H]. eapply mm_get_ok; eassumption. }
    destruct (rm_get (wv dst) out1) as [[]|]; try exact H1.
    destruct (N.eqb r 2 && loads_word n)%bool; [|exact H1].
    destruct (mm_get (MStack off) mi) eqn:E; [|exact H1]. apply rm_insert_ok; [|exact H1]. eapply mm_get_ok; eassumption.
  Qed.

  Lemma rule_pull_ok n out mo : vals_ok out -> vals_ok mo -> vals_ok (rule_pull_value_from_csr_memory n out mo).
  Proof.
    intros H Hm. unfold rule_pull_value_from_csr_memory. destruct (reads_from_memory n) as [[[r off] dest]|]; [|exact H].
    destruct (rm_get r out) as [[]|]; try exact H.
    destruct (mm_get (MCsrOff c off) mo) eqn:E; [|exact H]. apply rm_insert_ok; [|exact H]. eapply mm_get_ok; eassumption.
  Qed.

  Lemma rule_zero_reg_ok out ri : vals_ok out -> vals_ok (rule_zero_to_const_reg out ri).
  Proof.
    unfold rule_zero_to_const_reg. apply fold_ok. intros o kv Ho. destruct (zero_based (snd kv)); [|exact Ho].
    destruct (opt_aval_eqb _ _); [|exact Ho]. apply rm_insert_ok; [exact I|exact Ho].
  Qed.

  Lemma rule_zero_mem_ok mo mi : vals_ok mo -> vals_ok (rule_zero_to_const_mem mo mi).
  Proof.
    unfold rule_zero_to_const_mem. apply fold_ok. intros o kv Ho. destruct (zero_based (snd kv)); [|exact Ho].
    destruct (opt_aval_eqb _ _); [|exact Ho]. apply mm_insert_ok; [exact I|exact Ho].
  Qed.

  Lemma math_result_ok (lhs rhs : option aval) (mo so : option mathop) v :
    match lhs, rhs with
    | Some (AConst x), Some (AConst y) => option_map (fun op => AConst (operate op x y)) mo
    | Some (AOrig r x), Some (AConst y) => option_map (fun op => AOrig r (operate op x y)) so
    | Some (AConst x), Some (AOrig r y) =>
        match so with Some MAdd => Some (AOrig r (operate MAdd x y)) | _ => None end
    | _, _ => None
    end = Some v -> aok v.
  Proof.
    intros H. destruct lhs as [[]|]; try discriminate H; destruct rhs as [[]|]; try discriminate H.
    - destruct mo; inversion H. exact I.
    - destruct so as [[]|]; inversion H. exact I.
    - destruct so; inversion H. exact I.
  Qed.

  Lemma rule_math_ok n out ri : vals_ok out -> vals_ok (rule_perform_math_ops n out ri).
  Proof.
    intros H. unfold rule_perform_math_ops. destruct (writes_to n) as [dst|]; [|exact H].
    match goal with |- vals_ok (match ?r with Some _ => _ | None => _ end) => destruct r as [v|] eqn:Er end; [|exact H].
    apply rm_insert_ok; [|exact H]. exact (math_result_ok _ _ _ _ _ Er).
  Qed.

  Lemma rule_push_ok n mo out : vals_ok mo -> vals_ok (rule_push_value_to_csr_memory n mo out).
  Proof.
    intros H. unfold rule_push_value_to_csr_memory. destruct (stores_to_memory n) as [[src [r off]]|]; [|exact H].
    destruct (rm_get r out) as [[]|]; try exact H. apply mm_insert_ok; [exact I|exact H].
  Qed.

  Lemma rule_known_ok mo ri : vals_ok mo -> vals_ok (rule_known_values_to_stack mo ri).
  Proof.
    intros H. unfold rule_known_values_to_stack. apply fold_ok; [|exact H]. intros o kv Ho.
    destruct (snd kv); try exact Ho. destruct (rm_get r ri) as [[]|]; try exact Ho;
      (apply mm_insert_ok; [exact I|exact Ho]).
  Qed.

  Lemma avail_transfer_ok c ri mi ro mo :
    nok (cn c) -> vals_ok ri -> vals_ok mi -> vals_ok (mout c) ->
    avail_transfer c ri mi = (ro, mo) -> vals_ok ro /\ vals_ok mo.
  Proof.
    intros Hn Hri Hmi Hmo E. unfold avail_transfer in E. cbv zeta in E. inversion E; subst ro mo. clear E. split.
    - unfold rm_remove_set. apply filter_ok.
      apply rule_math_ok. apply rule_zero_reg_ok. apply rule_pull_ok; [|exact Hmo].
      apply rule_value_from_stack_ok; [|exact Hmi]. apply rule_expand_ok.
      repeat match goal with
             | |- vals_ok (if ?b then _ else _) => destruct b
             | |- vals_ok (rm_extend_originals _ _) => apply rm_extend_originals_ok
             | |- vals_ok [] => apply vals_nil
             | |- vals_ok (match gen_reg_value ?n with _ => _ end) => destruct (gen_reg_value n) as [[? ?]|] eqn:?
             | |- vals_ok (rm_insert _ _ _) => apply rm_insert_ok; [eapply gen_reg_value_ok; eassumption|]
             | |- vals_ok (filter _ _) => apply filter_ok
             end; exact Hri.
    - apply rule_known_ok. apply rule_push_ok. apply rule_zero_mem_ok.
      repeat match goal with
             | |- vals_ok (if ?b then _ else _) => destruct b
             | |- vals_ok [] => apply vals_nil
             | |- vals_ok (match gen_memory_value ?n with _ => _ end) =>
                 destruct (gen_memory_value n) as [[[?|?|? ?] ?]|] eqn:?
             | |- vals_ok (match stack_offset ?r with _ => _ end) => destruct (stack_offset r)
             | |- vals_ok (mm_insert _ _ _) => apply mm_insert_ok; [eapply gen_memory_value_ok; eassumption|]
             | |- vals_ok (filter _ _) => apply filter_ok
             end; exact Hmi.
  Qed.

  Definition gok (c : cnode) : Prop :=
    nok (cn c) /\ vals_ok (rin c) /\ vals_ok (rout c) /\ vals_ok (min c) /\ vals_ok (mout c).

  Lemma getn_gok g i c : Forall gok g -> getn g i = Some c -> gok c.
  Proof. intros H E. rewrite Forall_forall in H. apply H. eapply nth_opt_In. exact E. Qed.

  Lemma meet_regs_ok g ps vis : Forall gok g -> vals_ok (meet_regs g ps vis).
  Proof.
    intros Hg. unfold meet_regs. destruct (filter (fun p => memn p vis) ps) as [|p ps']; [apply vals_nil|].
    apply fold_ok.
    - intros o q Ho. destruct (getn g q); [|exact Ho]. unfold rm_meet. apply filter_ok. exact Ho.
    - destruct (getn g p) as [c|] eqn:E; [|apply vals_nil]. apply (getn_gok _ _ _ Hg E).
  Qed.

  Lemma meet_mems_ok g ps vis : Forall gok g -> vals_ok (meet_mems g ps vis).
  Proof.
    intros Hg. unfold meet_mems. destruct (filter (fun p => memn p vis) ps) as [|p ps']; [apply vals_nil|].
    apply fold_ok.
    - intros o q Ho. destruct (getn g q); [|exact Ho]. unfold mm_meet. apply filter_ok. exact Ho.
    - destruct (getn g p) as [c|] eqn:E; [|apply vals_nil]. apply (getn_gok _ _ _ Hg E).
  Qed.

  Lemma avail_node_ok g vis i : Forall gok g -> Forall gok (fst (avail_node g vis i)).
  Proof.
    intros Hg. unfold avail_node. destruct (getn g i) as [c|] eqn:E; [|exact Hg].
    destruct (avail_transfer c (meet_regs g (prevs c) vis) (meet_mems g (prevs c) vis)) as [ro mo] eqn:Et.
    cbn [fst]. pose proof (getn_gok _ _ _ Hg E) as [Hn [_ [_ [_ Hmo]]]].
    destruct (avail_transfer_ok _ _ _ _ _ Hn (meet_regs_ok g (prevs c) vis Hg) (meet_mems_ok g (prevs c) vis Hg) Hmo Et)
      as [H1 H2].
    apply Forall_upd; [|exact Hg]. intros x [Hxn _]. split; [exact Hxn|].
    cbn [set_avail rin rout min mout]. split; [apply meet_regs_ok; exact Hg|]. split; [exact H1|].
    split; [apply meet_mems_ok; exact Hg|exact H2].
  Qed.

  Lemma avail_sweep_ok : forall idx g vis ch, Forall gok g -> Forall gok (fst (fst (avail_sweep idx g vis ch))).
  Proof.
    induction idx as [|i idx IH]; intros g vis ch Hg; cbn [avail_sweep]; [exact Hg|].
    pose proof (avail_node_ok g vis i Hg) as H. destruct (avail_node g vis i) as [g' c]. cbn [fst] in H.
    apply IH. exact H.
  Qed.

  Lemma avail_loop_ok : forall fuel g vis g', Forall gok g -> avail_loop fuel g vis = Ok g' -> Forall gok g'.
  Proof.
    induction fuel as [|f IH]; intros g vis g' Hg E; [discriminate|]. cbn [avail_loop] in E.
    pose proof (avail_sweep_ok (seq 0 (length g)) g vis false Hg) as H.
    destruct (avail_sweep (seq 0 (length g)) g vis false) as [[g1 v1] ch]. cbn [fst] in H.
    destruct ch; [eapply IH; [exact H|exact E]|]. inversion E; subst. exact H.
  Qed.

  Lemma avail_pass_ok g g' : Forall gok (gnodes g) -> avail_pass g = Ok g' -> Forall gok (gnodes g').
  Proof.
    unfold avail_pass, bind. intros Hg.
    destruct (avail_loop (avail_fuel g) (gnodes g) []) as [ns| |] eqn:E; try discriminate.
    intros H. inversion H; subst g'. cbn [gnodes]. eapply avail_loop_ok; [exact Hg|exact E].
  Qed.

  Lemma handler_names_ok g h : Forall gok (gnodes g) -> In h (interrupt_handler_names g) -> S h.
  Proof.
    intros Hg Hh. unfold interrupt_handler_names in Hh. apply dedup_in in Hh.
    apply filter_map_in in Hh. destruct Hh as [c [Hc E]].
    rewrite Forall_forall in Hg. destruct (Hg c Hc) as [_ [Hri _]].
    unfold sets_csr_to_value in E. destruct (cn c); try discriminate E.
    - destruct (inst_is i ICsrrw); [|discriminate E].
      destruct (rm_get (wv rs1) (rin c)) as [[]|] eqn:Eg; try discriminate E.
      destruct (Z.eqb (wv csr) 5); [|discriminate E]. inversion E; subst.
      exact (rm_get_ok _ _ _ Hri Eg).
    - destruct (inst_is i ICsrrwi); discriminate E.
  Qed.
End Prov.

(* ================================================================================== *)
(* I. the pipeline                                                                      *)

Definition Sla (ns : list pnode) (l : wth str) : Prop := exists n, In n ns /\ reads_address_of n = Some l.

Lemma wf_not_fe ns n : wf ns -> In n ns -> is_function_entry n = false.
Proof.
  intros [H|[f [rt [rest [H1 H2]]]]] Hn; subst ns; [destruct Hn|].
  destruct Hn as [Hn|Hn]; [subst n; reflexivity|].
  rewrite Forall_forall in H2. destruct (H2 n Hn) as [Hk _]. destruct n; try reflexivity. discriminate Hk.
Qed.

Lemma gprov_nok ns c : gprov ns c -> nok (Sla ns) (cn c).
Proof.
  intros [H|[n [h [_ [_ [H _]]]]]] l Hl.
  - exists (cn c). split; assumption.
  - rewrite H in Hl. discriminate Hl.
Qed.

Lemma cfg_new_gok ns predef g : wf ns -> cfg_new ns predef = inr g -> Forall (gok (Sla ns)) (gnodes g).
Proof.
  intros Hwf E. eapply Forall_impl; [|exact (cfg_new_prov _ _ _ Hwf E)].
  intros c [[H1 [H2 [H3 H4]]] Hp]. split; [apply gprov_nok; exact Hp|].
  rewrite H1, H2, H3, H4. repeat split; apply vals_nil.
Qed.

Lemma gok_core Sp c c' : core c = core c' -> gok Sp c -> gok Sp c'.
Proof.
  unfold core. intros H. injection H as H1 H2 H3 H4 H5 H6.
  unfold gok. rewrite H1, H3, H4, H5, H6. tauto.
Qed.

Lemma explained_cfg_new ns predef e : cfg_new ns predef = inl e ->
  explained ns (match predef with Some p => p | None => [] end) e.
Proof.
  intros E. apply cfg_new_err in E. destruct E as [[ls [H1 [H2 H3]]]|[l [pre [post [rt [H1 [H2 H3]]]]]]]; subst e.
  - split; assumption.
  - exists pre, post, rt. split; assumption.
Qed.

Lemma explained_directions ns predef g e handlers : wf ns -> cfg_new ns predef = inr g ->
  directions g = inl e -> explained ns handlers e.
Proof.
  intros Hwf E Ed. apply directions_err in Ed. destruct Ed as [c [l [H1 [H2 H3]]]]. subst e.
  pose proof (cfg_new_prov _ _ _ Hwf E) as Hp. rewrite Forall_forall in Hp.
  destruct (Hp c H1) as [_ [Hc|[n [h [_ [_ [Hc _]]]]]]].
  - exists (cn c). split; assumption.
  - rewrite Hc in H2. discriminate H2.
Qed.

Lemma sk_of_core l l' : map core l' = map core l -> map sk l' = map sk l.
Proof.
  intros H. assert (H' := f_equal (map (fun x : pnode * list (wth str) * (regmap * regmap) * (memmap * memmap) => fst (fst x))) H).
  rewrite !map_map in H'. exact H'.
Qed.

Theorem gen_full_cfg_explained picks ns e : wf ns -> gen_full_cfg picks ns = Ok (SErr e) ->
  exists handlers, explained ns handlers e /\ forall h, In h handlers -> Sla ns h.
Proof.
  intros Hwf E. unfold gen_full_cfg in E.
  destruct (cfg_new ns None) as [e0|g0] eqn:E0.
  { inversion E; subst e0. exists []. split; [exact (explained_cfg_new _ _ _ E0)|intros h []]. }
  destruct (directions g0) as [e1|g1] eqn:E1.
  { inversion E; subst e1. exists []. split; [exact (explained_directions _ _ _ _ _ Hwf E0 E1)|intros h []]. }
  unfold bind in E. destruct (avail_pass g1) as [g2| |] eqn:E2; try discriminate E.
  assert (Hg2 : Forall (gok (Sla ns)) (gnodes g2)).
  { eapply avail_pass_ok; [|exact E2].
    eapply (map_eq_Forall core); [apply gok_core| |exact (cfg_new_gok _ _ _ Hwf E0)].
    apply (directions_pr core); [reflexivity|reflexivity|exact E1]. }
  exists (interrupt_handler_names g2). split; [|intros h Hh; exact (handler_names_ok _ _ _ Hg2 Hh)].
  destruct (cfg_new ns (Some (interrupt_handler_names g2))) as [e3|h0] eqn:E3.
  { inversion E; subst e3. exact (explained_cfg_new _ _ _ E3). }
  destruct (directions h0) as [e4|h1] eqn:E4.
  { inversion E; subst e4. exact (explained_directions _ _ _ _ _ Hwf E3 E4). }
  destruct (avail_pass (dead_code h1)) as [h3| |] eqn:E5; try discriminate E.
  destruct (function_markup picks (ecall_terminate h3)) as [e6|h5] eqn:E6.
  - inversion E; subst e6. apply function_markup_err in E6. destruct E6 as [c0 [H1 [H2 H3]]]. subst e.
    assert (Hsk : map sk (gnodes (ecall_terminate h3)) = map sk (gnodes h0)).
    { rewrite (ecall_terminate_pr sk); [|reflexivity|reflexivity].
      rewrite (avail_pass_sk _ _ E5). rewrite (dead_code_pr sk); [|reflexivity|reflexivity].
      apply (directions_pr sk); [reflexivity|reflexivity|exact E4]. }
    destruct (map_eq_In sk _ _ Hsk c0 H1) as [c [Hc1 Hc2]]. unfold sk in Hc2. injection Hc2 as Hc2 Hc3.
    pose proof (cfg_new_prov _ _ _ Hwf E3) as Hp. rewrite Forall_forall in Hp.
    destruct (Hp c Hc1) as [_ [Hc|[n [h [Hn1 [Hn2 [Hn3 Hn4]]]]]]].
    + rewrite <- Hc2 in H2. rewrite (wf_not_fe _ _ Hwf Hc) in H2. discriminate H2.
    + cbn [explained]. rewrite <- Hc2, <- Hc3. split; [exact Hn4|]. exists n, h. split; [exact Hn1|]. split; assumption.
  - destruct (avail_pass h5) as [h6| |]; try discriminate E.
    destruct (liveness_pass (ecall_terminate h6)) as [h8| |]; discriminate E.
Qed.

(* ---- the location ---------------------------------------------------------------- *)

Lemma wf_names ns n l : wf ns -> In n ns -> node_name n = Some l -> tok_ok (wt l).
Proof.
  intros [H|[f [rt [rest [H1 H2]]]]] Hn E; subst ns; [destruct Hn|].
  destruct Hn as [Hn|Hn]; [subst n; discriminate E|].
  rewrite Forall_forall in H2. destruct (H2 n Hn) as [_ [_ H]]. apply H. exact E.
Qed.

Lemma wf_raw ns n : wf ns -> In n ns -> is_instruction n = true -> fok (rfile (node_raw n)).
Proof.
  intros [H|[f [rt [rest [H1 H2]]]]] Hn E; subst ns; [destruct Hn|].
  destruct Hn as [Hn|Hn]; [subst n; discriminate E|].
  rewrite Forall_forall in H2. destruct (H2 n Hn) as [_ [H _]]. exact H.
Qed.

Lemma reads_name n l : reads_address_of n = Some l -> node_name n = Some l.
Proof. destruct n; try discriminate. cbn. intros H; exact H. Qed.
Lemma jumps_name n l : jumps_to n = Some l -> node_name n = Some l.
Proof.
  destruct n; try discriminate; cbn; [|intros H; exact H].
  destruct (reg_is rd 1); [discriminate|intros H; exact H].
Qed.
Lemma calls_name n l : calls_to n = Some l -> node_name n = Some l.
Proof.
  destruct n; try discriminate; cbn. destruct (reg_is rd 1); [intros H; exact H|discriminate].
Qed.
Lemma uses_name n l : uses_label n l -> node_name n = Some l.
Proof. intros [H|[H|H]]; [apply calls_name|apply jumps_name|apply reads_name]; exact H. Qed.

Theorem explained_located ns handlers e : wf ns -> explained ns handlers e ->
  (forall h, In h handlers -> Sla ns h) -> exists id, lfile (cfg_error_loc e) = Some id.
Proof.
  intros Hwf He Hh. destruct e as [ls|l|l|en ls|]; cbn [explained] in He.
  - destruct He as [Hne Hall]. destruct ls as [|x ls]; [contradiction|].
    cbn [cfg_error_loc loc_of_tok lfile].
    destruct (Hall _ (min_name_in ls x)) as [_ [[n [H1 H2]]|H]].
    + exact (wf_names _ _ _ Hwf H1 (uses_name _ _ H2)).
    + destruct (Hh _ H) as [n [H1 H2]]. exact (wf_names _ _ _ Hwf H1 (reads_name _ _ H2)).
  - destruct He as [pre [post [rt [H1 _]]]]. cbn [cfg_error_loc loc_of_tok lfile].
    apply (wf_names ns (PLabel l rt) l Hwf); [|reflexivity]. rewrite H1. apply in_or_app. right. left. reflexivity.
  - destruct He as [n [H1 H2]]. cbn [cfg_error_loc loc_of_tok lfile].
    exact (wf_names _ _ _ Hwf H1 (jumps_name _ _ H2)).
  - destruct He as [_ [n [h [H1 [H2 H3]]]]]. subst en.
    cbn [cfg_error_loc loc_of_node loc_of_raw node_raw lfile]. exact (wf_raw _ _ Hwf H1 H2).
  - destruct He.
Qed.

Theorem cfg_error_specific_located :
  forall chk fs base nodes errs rs picks e,
    parse_from_file chk fs base false = Ok (nodes, errs, rs) ->
    gen_full_cfg picks nodes = Ok (SErr e) ->
    (exists handlers, explained nodes handlers e /\
                      forall h, In h handlers -> exists n, In n nodes /\ reads_address_of n = Some h) /\
    exists id, lfile (cfg_error_loc e) = Some id.
Proof.
  intros chk fs base nodes errs rs picks e Hp Hg.
  pose proof (parsed_wf _ _ _ _ _ _ Hp) as Hwf.
  destruct (gen_full_cfg_explained _ _ _ Hwf Hg) as [handlers [H1 H2]].
  split; [exists handlers; split; [exact H1|exact H2]|].
  exact (explained_located _ _ _ Hwf H1 H2).
Qed.

Theorem ok_runs_all_lints :
  forall picks nodes errs g, gen_full_cfg picks nodes = Ok (SOk g) ->
    exists items, run_items picks nodes errs = Ok items /\
      length items = (length errs + length (run_diagnostics g))%nat.
Proof.
  intros picks nodes errs g H. unfold run_items. rewrite H. cbn [bind].
  eexists. split; [reflexivity|]. rewrite app_length, !map_length. reflexivity.
Qed.
