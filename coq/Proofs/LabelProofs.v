(* Labels name the next instruction of the node stream: proofs for Spec/LabelSpec.v
   (statements in Props/C03lbl.v). *)
From Coq Require Import List Arith Lia ZifyNat ZifyBool.
From RV.Model Require Import Base I32 Imm Lexer Isa Parser Cfg Avail Live Lints.
From RV.Spec Require Import CfgSpec LabelSpec.
From RV.Proofs Require Import CfgProofs FnProofs.
From RV.Proofs Require ErrProofs.
Import ListNotations.
Local Open Scope nat_scope.

(* ---------------------------------------------------------------------------------------- *)
(* list helpers                                                                              *)
(* ---------------------------------------------------------------------------------------- *)
Lemma nth_opt_app_r {A} (l l' : list A) : forall i, nth_opt (l ++ l') (length l + i) = nth_opt l' i.
Proof. induction l as [|x l IH]; intros i; simpl; auto. Qed.

Lemma nth_opt_app_r0 {A} (l l' : list A) : nth_opt (l ++ l') (length l) = nth_opt l' 0.
Proof. rewrite <- (Nat.add_0_r (length l)). apply nth_opt_app_r. Qed.

Lemma nth_opt_split {A} (l : list A) : forall i x, nth_opt l i = Some x ->
  exists l1 l2, l = l1 ++ x :: l2 /\ length l1 = i.
Proof.
  induction l as [|y l IH]; intros i x H; destruct i; simpl in H; try discriminate.
  - inversion H; subst. exists [], l. auto.
  - destruct (IH _ _ H) as [l1 [l2 [-> <-]]]. exists (y :: l1), l2. auto.
Qed.

(* two different positions satisfying f give at least two elements in the filter *)
Lemma filter_two {A} (f : A -> bool) (l : list A) i j x y :
  nth_opt l i = Some x -> nth_opt l j = Some y -> f x = true -> f y = true ->
  length (filter f l) <= 1 -> i = j.
Proof.
  intros Hi Hj Hx Hy Hlen.
  destruct (Nat.eq_dec i j) as [|Hne]; auto. exfalso.
  assert (W : forall i j x y, i < j -> nth_opt l i = Some x -> nth_opt l j = Some y ->
                f x = true -> f y = true -> False).
  { clear - Hlen. intros i j x y Hlt Hi Hj Hx Hy.
    destruct (nth_opt_split _ _ _ Hi) as [l1 [l2 [-> Hl1]]].
    replace j with (length l1 + S (j - S i)) in Hj by lia.
    rewrite nth_opt_app_r in Hj. simpl in Hj.
    destruct (nth_opt_split _ _ _ Hj) as [l3 [l4 [-> Hl3]]].
    rewrite filter_app in Hlen. simpl in Hlen. rewrite Hx in Hlen. simpl in Hlen.
    rewrite filter_app in Hlen. simpl in Hlen. rewrite Hy in Hlen.
    rewrite !app_length in Hlen. simpl in Hlen. rewrite app_length in Hlen. simpl in Hlen. lia. }
  destruct (Nat.lt_ge_cases i j) as [Hlt|Hge].
  - eapply (W i j); eauto.
  - eapply (W j i); eauto. lia.
Qed.

(* ---------------------------------------------------------------------------------------- *)
(* the definitions of Spec/LabelSpec.v say what they should                                  *)
(* ---------------------------------------------------------------------------------------- *)
Lemma is_code_iff n : is_code n = true <-> label_of n = None /\ is_directive n = false.
Proof.
  unfold is_code. destruct (label_of n); [split; [discriminate|intros [H _]; discriminate]|].
  destruct (is_directive n); simpl; split; auto; intros [_ H]; auto.
Qed.

Lemma label_of_some n x : label_of n = Some x -> exists rt, n = PLabel x rt.
Proof. destruct n; simpl; intros H; inversion H; subst. eauto. Qed.

Lemma first_code_spec : forall ns q, first_code ns = Some q <->
  (exists n, nth_opt ns q = Some n /\ is_code n = true) /\
  (forall k m, k < q -> nth_opt ns k = Some m -> is_code m = false).
Proof.
  induction ns as [|n ns IH]; intros q; simpl.
  - split; [discriminate|]. intros [[m [H _]] _]. destruct q; discriminate.
  - destruct (is_code n) eqn:Hc.
    + split.
      * intros H; inversion H; subst. split. exists n; auto. intros k m Hk; lia.
      * intros [[m [Hm Hcm]] Hall]. destruct q as [|q]; auto.
        specialize (Hall 0 n (Nat.lt_0_succ _) eq_refl). congruence.
    + destruct (first_code ns) as [q0|] eqn:Hf; simpl.
      * split.
        -- intros H; inversion H; subst q. destruct (proj1 (IH q0) eq_refl) as [Hex Hall]. split.
           ++ exact Hex.
           ++ intros k m Hk Hm. destruct k as [|k]; simpl in Hm. inversion Hm; subst; auto.
              apply (Hall k m); auto. lia.
        -- intros [[m [Hm Hcm]] Hall]. destruct q as [|q]; simpl in Hm.
           { inversion Hm; subst. congruence. }
           f_equal. assert (Some q0 = Some q) as Hq; [|inversion Hq; auto].
           apply IH. split. eauto. intros k m' Hk Hm'. apply (Hall (S k) m'); auto. lia.
      * split; [discriminate|]. intros [[m [Hm Hcm]] Hall]. destruct q as [|q]; simpl in Hm.
        { inversion Hm; subst. congruence. }
        assert (None = Some q) as Hq; [|discriminate].
        apply IH. split. eauto. intros k m' Hk Hm'. apply (Hall (S k) m'); auto. lia.
Qed.

Lemma nth_opt_skipn {A} : forall (l : list A) k i, nth_opt (skipn k l) i = nth_opt l (k + i).
Proof.
  induction l as [|x l IH]; intros k i; destruct k; simpl; auto.
Qed.

(* next_instruction_after ns p = Some q  iff  q is the first position after p holding a node that is
   neither a label nor a directive *)
Lemma next_instruction_after_spec ns p q : next_instruction_after ns p = Some q <->
  p < q /\ (exists n, nth_opt ns q = Some n /\ is_code n = true) /\
  (forall k m, p < k < q -> nth_opt ns k = Some m -> is_code m = false).
Proof.
  unfold next_instruction_after.
  destruct (first_code (skipn (S p) ns)) as [q0|] eqn:Hf; simpl.
  - apply first_code_spec in Hf. destruct Hf as [[n [Hn Hc]] Hall]. rewrite nth_opt_skipn in Hn. split.
    + intros H; inversion H; subst q. split. lia. split. eauto.
      intros k m Hk Hm. apply (Hall (k - S p) m). lia. rewrite nth_opt_skipn.
      replace (S p + (k - S p)) with k by lia. exact Hm.
    + intros [Hlt [[n' [Hn' Hc']] Hall']]. f_equal.
      destruct (Nat.lt_trichotomy (S p + q0) q) as [Hl|[He|Hg]]; auto; exfalso.
      * specialize (Hall' (S p + q0) n). rewrite Hall' in Hc; auto. discriminate. lia.
      * specialize (Hall (q - S p) n'). rewrite Hall in Hc'. discriminate. lia.
        rewrite nth_opt_skipn. replace (S p + (q - S p)) with q by lia. exact Hn'.
  - split; [discriminate|]. intros [Hlt [[n [Hn Hc]] Hall]]. exfalso.
    assert (first_code (skipn (S p) ns) = Some (q - S p)) as Hq; [|congruence].
    apply first_code_spec. split.
    + exists n. rewrite nth_opt_skipn. replace (S p + (q - S p)) with q by lia. auto.
    + intros k m Hk Hm. rewrite nth_opt_skipn in Hm. apply (Hall (S p + k) m); auto. lia.
Qed.

Lemma label_position_spec : forall ns l p, label_position ns l = Some p ->
  (exists name rt, nth_opt ns p = Some (PLabel name rt) /\ wv name = l) /\
  (forall k name rt, k < p -> nth_opt ns k = Some (PLabel name rt) -> wv name <> l).
Proof.
  induction ns as [|n ns IH]; intros l p H; simpl in H; [discriminate|].
  assert (Hrec : option_map S (label_position ns l) = Some p ->
                 (forall x, label_of n = Some x -> wv x <> l) ->
                 (exists name rt, nth_opt (n :: ns) p = Some (PLabel name rt) /\ wv name = l) /\
                 (forall k name rt, k < p -> nth_opt (n :: ns) k = Some (PLabel name rt) -> wv name <> l)).
  { intros Hr Hn. destruct (label_position ns l) as [p0|] eqn:Hp0; simpl in Hr; inversion Hr; subst p.
    destruct (IH _ _ Hp0) as [Hex Hall]. split. exact Hex.
    intros k name rt Hk Hm. destruct k as [|k]; simpl in Hm.
    - inversion Hm; subst. apply Hn. reflexivity.
    - apply (Hall k name rt); auto. lia. }
  destruct (label_of n) as [x|] eqn:Hl.
  - destruct (str_eqb l (wv x)) eqn:He.
    + inversion H; subst p. apply ErrProofs.str_eqb_eq in He. destruct (label_of_some _ _ Hl) as [rt ->].
      split. exists x, rt. auto. intros k ? ? Hk; lia.
    + apply Hrec; auto. intros y Hy. inversion Hy; subst y. intros Hc. subst l.
      assert (str_eqb (wv x) (wv x) = true) by (apply ErrProofs.str_eqb_eq; auto). congruence.
  - apply Hrec; auto. intros y Hy; discriminate.
Qed.

(* ---------------------------------------------------------------------------------------- *)
(* build_nodes without its accumulator                                                       *)
(* ---------------------------------------------------------------------------------------- *)
Section Build.
Variable cns : list (wth str).
Variable pd : option (list (wth str)).

(* the graph nodes made for an instruction node in front of which the labels `cur` are pending *)
Definition emit (n : pnode) (cur : list (wth str)) (text : bool) : list cnode :=
  if any_in cur cns then
    [new_cnode (PFuncEntry (rfile (node_raw n)) (node_raw n)
                           (match pd with Some p => any_in cur p | None => false end)) cur text;
     new_cnode n [] text]
  else [new_cnode n cur text].

Lemma build_acc : forall ns cur all text acc,
  build_nodes ns cns pd cur all text acc =
  match build_nodes ns cns pd cur all text [] with
  | inl e => inl e
  | inr l => inr (rev acc ++ l)
  end.
Proof.
  induction ns as [|n ns IH]; intros cur all text acc; simpl.
  - now rewrite app_nil_r.
  - destruct (label_of n).
    { destruct (mem_name (wv w) all); auto. }
    destruct (is_datasec n); auto. destruct (is_textsec n); auto. destruct (is_directive n); auto.
    destruct (any_in cur cns).
    + rewrite IH. rewrite (IH _ _ _ [_; _]).
      destruct (build_nodes ns cns pd [] all text []); auto. simpl. now rewrite <- !app_assoc.
    + rewrite IH. rewrite (IH _ _ _ [_]).
      destruct (build_nodes ns cns pd [] all text []); auto. simpl. now rewrite <- !app_assoc.
Qed.

Lemma datasec_directive n : is_datasec n = true -> is_directive n = true.
Proof. destruct n; simpl; auto. Qed.
Lemma textsec_directive n : is_textsec n = true -> is_directive n = true.
Proof. destruct n; simpl; auto. Qed.

Lemma build_inv n ns cur all text l :
  build_nodes (n :: ns) cns pd cur all text [] = inr l ->
  match label_of n with
  | Some name => mem_name (wv name) all = false /\
                 build_nodes ns cns pd (if mem_name (wv name) cur then cur else cur ++ [name])
                             (name :: all) text [] = inr l
  | None => if is_directive n then exists text', build_nodes ns cns pd cur all text' [] = inr l
            else exists l', build_nodes ns cns pd [] all text [] = inr l' /\ l = emit n cur text ++ l'
  end.
Proof.
  simpl. destruct (label_of n) as [name|].
  { destruct (mem_name (wv name) all); [discriminate|auto]. }
  destruct (is_datasec n) eqn:Hd. { rewrite (datasec_directive _ Hd). eauto. }
  destruct (is_textsec n) eqn:Ht. { rewrite (textsec_directive _ Ht). eauto. }
  destruct (is_directive n). { eauto. }
  unfold emit. destruct (any_in cur cns); rewrite build_acc;
    destruct (build_nodes ns cns pd [] all text []) as [e|l']; intros H; inversion H; subst; eauto.
Qed.

(* every pending label is a label seen so far *)
Definition sub (cur all : list (wth str)) : Prop := forall s, mem_name s cur = true -> mem_name s all = true.

Lemma sub_step cur all name : sub cur all -> mem_name (wv name) all = false ->
  (if mem_name (wv name) cur then cur else cur ++ [name]) = cur ++ [name] /\
  sub (cur ++ [name]) (name :: all).
Proof.
  intros Hs Hn. split.
  - destruct (mem_name (wv name) cur) eqn:Hc; auto. apply Hs in Hc. congruence.
  - intros s. rewrite mem_name_app. simpl. rewrite Bool.orb_false_r.
    destruct (str_eqb s (wv name)); simpl. auto. rewrite Bool.orb_false_r. apply Hs.
Qed.

Lemma sub_nil all : sub [] all.
Proof. intros s H. discriminate. Qed.

(* ---- the labels pending at the first instruction are put on it ------------------------------ *)
Lemma build_first_code : forall ns cur all text l q,
  sub cur all ->
  build_nodes ns cns pd cur all text [] = inr l ->
  first_code ns = Some q ->
  exists n text' l',
    nth_opt ns q = Some n /\ is_code n = true /\
    filter is_code (firstn q ns) = [] /\
    l = emit n (cur ++ filter_map label_of (firstn q ns)) text' ++ l'.
Proof.
  induction ns as [|n ns IH]; intros cur all text l q Hsub Hb Hf; [discriminate|].
  apply build_inv in Hb. simpl in Hf.
  destruct (is_code n) eqn:Hc.
  - inversion Hf; subst q. apply is_code_iff in Hc as Hc'. destruct Hc' as [Hl Hd].
    rewrite Hl, Hd in Hb. destruct Hb as [l' [_ ->]].
    exists n, text, l'. simpl. rewrite app_nil_r. auto.
  - destruct (first_code ns) as [q0|] eqn:Hf0; simpl in Hf; inversion Hf; subst q. clear Hf.
    destruct (label_of n) as [name|] eqn:Hl.
    + destruct Hb as [Hm Hb]. destruct (sub_step _ _ _ Hsub Hm) as [Hcur Hsub']. rewrite Hcur in Hb.
      destruct (IH _ _ _ _ _ Hsub' Hb eq_refl) as [m [text' [l' [Hm' [Hcm [Hfil Hl']]]]]].
      exists m, text', l'. simpl. rewrite Hc, Hl. rewrite <- app_assoc in Hl'. auto.
    + assert (Hd : is_directive n = true).
      { unfold is_code in Hc. rewrite Hl in Hc. destruct (is_directive n); auto; discriminate. }
      rewrite Hd in Hb. destruct Hb as [text0 Hb].
      destruct (IH _ _ _ _ _ Hsub Hb eq_refl) as [m [text' [l' [Hm' [Hcm [Hfil Hl']]]]]].
      exists m, text', l'. simpl. rewrite Hc, Hl. auto.
Qed.

Lemma emit_rank n cur text : is_function_entry n = false ->
  length (filter not_fentry (emit n cur text)) = 1.
Proof.
  intros H. unfold emit, not_fentry. destruct (any_in cur cns); simpl; rewrite H; reflexivity.
Qed.

Lemma label_in_firstn : forall (ns : list pnode) k q m x,
  k < q -> nth_opt ns k = Some m -> label_of m = Some x -> In x (filter_map label_of (firstn q ns)).
Proof.
  induction ns as [|n ns IH]; intros k q m x Hk Hn Hl; destruct k; simpl in Hn; try discriminate;
    (destruct q as [|q]; [lia|]); simpl.
  - inversion Hn; subst. rewrite Hl. simpl; auto.
  - destruct (label_of n); [right|]; eapply IH; eauto; lia.
Qed.

(* ---- a label anywhere in the stream is put on the first instruction after it ---------------- *)
Lemma build_label : forall ns p cur all text l name rt q0,
  sub cur all ->
  build_nodes ns cns pd cur all text [] = inr l ->
  nth_opt ns p = Some (PLabel name rt) ->
  first_code (skipn (S p) ns) = Some q0 ->
  exists la n curq text' lb,
    l = la ++ emit n curq text' ++ lb /\
    nth_opt ns (S p + q0) = Some n /\ is_code n = true /\
    (forall p' name' rt', p <= p' < S p + q0 -> nth_opt ns p' = Some (PLabel name' rt') -> In name' curq) /\
    ((forall m, In m ns -> is_function_entry m = false) ->
     length (filter not_fentry la) = code_rank ns (S p + q0)).
Proof.
  induction ns as [|n0 ns IH]; intros p cur all text l name rt q0 Hsub Hb Hp Hf.
  { rewrite nth_opt_nil in Hp. discriminate. }
  apply build_inv in Hb. destruct p as [|p].
  - simpl in Hp. inversion Hp; subst n0. clear Hp. simpl in Hb, Hf.
    destruct Hb as [Hm Hb]. destruct (sub_step _ _ _ Hsub Hm) as [Hcur Hsub']. rewrite Hcur in Hb.
    destruct (build_first_code _ _ _ _ _ _ Hsub' Hb Hf) as [m [text' [l' [Hm' [Hcm [Hfil Hl']]]]]].
    exists [], m, ((cur ++ [name]) ++ filter_map label_of (firstn q0 ns)), text', l'.
    split; auto. split; auto. split; auto. split.
    { intros p' name' rt' Hp' Hn'. destruct p' as [|p']; simpl in Hn'.
      - inversion Hn'; subst. apply in_or_app. left. apply in_or_app. right. simpl; auto.
      - apply in_or_app. right. eapply label_in_firstn; [|exact Hn'|reflexivity]. lia. }
    intros _. unfold code_rank. simpl. rewrite Hfil. reflexivity.
  - simpl in Hp. change (skipn (S (S p)) (n0 :: ns)) with (skipn (S p) ns) in Hf.
    assert (Hlab : forall curq : list (wth str),
              (forall p' name' rt', p <= p' < S p + q0 -> nth_opt ns p' = Some (PLabel name' rt') -> In name' curq) ->
              forall p' name' rt', S p <= p' < S (S p) + q0 ->
                nth_opt (n0 :: ns) p' = Some (PLabel name' rt') -> In name' curq).
    { intros curq H p' name' rt' Hp' Hn'. destruct p' as [|p']; [lia|]. simpl in Hn'.
      apply (H p' name' rt'); auto. lia. }
    assert (Hrank : forall la, length (filter not_fentry la) = code_rank ns (S p + q0) ->
              is_code n0 = false -> length (filter not_fentry la) = code_rank (n0 :: ns) (S (S p) + q0)).
    { intros la Hla Hc. unfold code_rank in *. simpl. rewrite Hc. exact Hla. }
    destruct (label_of n0) as [x|] eqn:Hl.
    + destruct Hb as [Hm Hb]. destruct (sub_step _ _ _ Hsub Hm) as [Hcur Hsub']. rewrite Hcur in Hb.
      destruct (IH _ _ _ _ _ _ _ _ Hsub' Hb Hp Hf) as [la [n [curq [text' [lb [E1 [E2 [E3 [E4 E5]]]]]]]]].
      exists la, n, curq, text', lb. split; auto. split; auto. split; auto. split. { apply Hlab; auto. }
      intros Hfe. apply Hrank. apply E5. intros m Hm'. apply Hfe. simpl; auto.
      unfold is_code. rewrite Hl. reflexivity.
    + destruct (is_directive n0) eqn:Hd.
      * destruct Hb as [text0 Hb].
        destruct (IH _ _ _ _ _ _ _ _ Hsub Hb Hp Hf) as [la [n [curq [text' [lb [E1 [E2 [E3 [E4 E5]]]]]]]]].
        exists la, n, curq, text', lb. split; auto. split; auto. split; auto. split. { apply Hlab; auto. }
        intros Hfe. apply Hrank. apply E5. intros m Hm'. apply Hfe. simpl; auto.
        unfold is_code. rewrite Hl, Hd. reflexivity.
      * destruct Hb as [l' [Hb ->]].
        destruct (IH _ _ _ _ _ _ _ _ (sub_nil all) Hb Hp Hf) as [la [n [curq [text' [lb [E1 [E2 [E3 [E4 E5]]]]]]]]].
        exists (emit n0 cur text ++ la), n, curq, text', lb. split. { rewrite E1. now rewrite app_assoc. }
        split; auto. split; auto. split. { apply Hlab; auto. }
        intros Hfe. rewrite filter_app, app_length, emit_rank by (apply Hfe; simpl; auto).
        rewrite E5 by (intros m Hm'; apply Hfe; simpl; auto).
        unfold code_rank. simpl. unfold is_code at 2. rewrite Hl, Hd. reflexivity.
Qed.

(* ---- no two graph nodes carry the same name ------------------------------------------------- *)
Definition carries (s : str) (c : cnode) : bool := mem_name s (clabels c).

Lemma emit_count s n cur text :
  length (filter (carries s) (emit n cur text)) = if mem_name s cur then 1 else 0.
Proof.
  unfold emit, carries. destruct (any_in cur cns); simpl; destruct (mem_name s cur); reflexivity.
Qed.

Lemma build_count0 s : forall ns cur all text l,
  build_nodes ns cns pd cur all text [] = inr l ->
  mem_name s cur = false -> mem_name s all = true ->
  length (filter (carries s) l) = 0.
Proof.
  induction ns as [|n ns IH]; intros cur all text l Hb Hc Ha.
  { simpl in Hb. inversion Hb; reflexivity. }
  apply build_inv in Hb. destruct (label_of n) as [x|].
  - destruct Hb as [Hm Hb]. eapply IH; [exact Hb| |].
    + assert (Hne : str_eqb s (wv x) = false).
      { destruct (str_eqb s (wv x)) eqn:He; auto. apply ErrProofs.str_eqb_eq in He. subst s. congruence. }
      destruct (mem_name (wv x) cur); auto. rewrite mem_name_app, Hc. simpl. rewrite Hne. reflexivity.
    + simpl. rewrite Ha. apply Bool.orb_true_r.
  - destruct (is_directive n).
    + destruct Hb as [text0 Hb]. eapply IH; eauto.
    + destruct Hb as [l' [Hb ->]]. rewrite filter_app, app_length, emit_count, Hc.
      simpl. eapply IH; eauto.
Qed.

Lemma build_count1 s : forall ns cur all text l,
  sub cur all ->
  build_nodes ns cns pd cur all text [] = inr l ->
  length (filter (carries s) l) <= 1.
Proof.
  induction ns as [|n ns IH]; intros cur all text l Hsub Hb.
  { simpl in Hb. inversion Hb; simpl; lia. }
  apply build_inv in Hb. destruct (label_of n) as [x|].
  - destruct Hb as [Hm Hb]. destruct (sub_step _ _ _ Hsub Hm) as [Hcur Hsub']. rewrite Hcur in Hb.
    eapply IH; eauto.
  - destruct (is_directive n).
    + destruct Hb as [text0 Hb]. eapply IH; eauto.
    + destruct Hb as [l' [Hb ->]]. rewrite filter_app, app_length, emit_count.
      destruct (mem_name s cur) eqn:Hc.
      * rewrite (build_count0 s _ _ _ _ _ Hb eq_refl (Hsub _ Hc)). lia.
      * specialize (IH _ _ _ _ (sub_nil all) Hb). lia.
Qed.

(* ---- the graph nodes that are not function entries are the code nodes, in order -------------- *)
Lemma build_order : forall ns cur all text l,
  (forall m, In m ns -> is_function_entry m = false) ->
  build_nodes ns cns pd cur all text [] = inr l ->
  map cn (filter not_fentry l) = filter is_code ns.
Proof.
  induction ns as [|n ns IH]; intros cur all text l Hfe Hb.
  { simpl in Hb. inversion Hb; reflexivity. }
  assert (Hfe' : forall m, In m ns -> is_function_entry m = false) by (intros m Hm; apply Hfe; simpl; auto).
  apply build_inv in Hb. simpl. unfold is_code at 1. destruct (label_of n) as [x|].
  - destruct Hb as [_ Hb]. eapply IH; eauto.
  - destruct (is_directive n); simpl.
    + destruct Hb as [text0 Hb]. eapply IH; eauto.
    + destruct Hb as [l' [Hb ->]]. rewrite filter_app, map_app. rewrite (IH _ _ _ _ Hfe' Hb).
      assert (Hn : is_function_entry n = false) by (apply Hfe; simpl; auto).
      unfold emit, not_fentry. destruct (any_in cur cns); simpl; rewrite Hn; reflexivity.
Qed.

End Build.

(* ---------------------------------------------------------------------------------------- *)
(* (2) cfg_new: labels name the next instruction                                             *)
(* ---------------------------------------------------------------------------------------- *)
Lemma In_mem_name (x : wth str) l : In x l -> mem_name (wv x) l = true.
Proof.
  induction l as [|y l IH]; simpl; intros H; [destruct H|].
  destruct H as [->|H].
  - assert (str_eqb (wv x) (wv x) = true) as -> by (apply ErrProofs.str_eqb_eq; auto). reflexivity.
  - rewrite IH; auto. apply Bool.orb_true_r.
Qed.

Lemma any_in_mem s a b : mem_name s a = true -> mem_name s b = true -> any_in a b = true.
Proof.
  induction a as [|x a IH]; simpl; intros Ha Hb; [discriminate|].
  destruct (str_eqb s (wv x)) eqn:He; simpl in Ha.
  - apply ErrProofs.str_eqb_eq in He. subst s. rewrite Hb. reflexivity.
  - rewrite IH; auto. apply Bool.orb_true_r.
Qed.

Lemma cfg_new_build ns predef g : cfg_new ns predef = inr g ->
  exists cns, (forall a, any_in a cns = any_in a (called_names_of ns predef)) /\
              build_nodes ns cns predef [] [] true [] = inr (gnodes g).
Proof.
  unfold cfg_new. intros H. destruct (filter _ _); [|discriminate].
  destruct (build_nodes _ _ _ _ _ _ _) as [e|l] eqn:Hb; [discriminate|].
  inversion H; subst g; clear H. simpl. eexists. split; [|exact Hb].
  intros a. apply any_in_dedup.
Qed.

Theorem label_on_next_instruction ns predef g :
  cfg_new ns predef = inr g ->
  forall p name rt q, nth_opt ns p = Some (PLabel name rt) -> next_instruction_after ns p = Some q ->
    label_on_instruction ns predef g name q.
Proof.
  intros Hnew p name rt q Hp Hq.
  destruct (cfg_new_build _ _ _ Hnew) as [cns [Hcns Hb]].
  unfold next_instruction_after in Hq.
  destruct (first_code (skipn (S p) ns)) as [q0|] eqn:Hf; simpl in Hq; inversion Hq; subst q; clear Hq.
  destruct (build_label cns predef _ _ _ _ _ _ _ _ _ (sub_nil []) Hb Hp Hf)
    as [la [n [curq [text' [lb [E1 [E2 [E3 [E4' E5]]]]]]]]].
  assert (Huniq : forall k ck, nth_opt (gnodes g) k = Some ck -> In name (clabels ck) ->
            forall k' c', node_at g k' c' -> mem_name (wv name) (clabels c') = true -> k' = k).
  { intros k ck Hk Hin k' c' Hk' Hm'. unfold node_at in Hk'.
    eapply (filter_two (carries (wv name))); [exact Hk'|exact Hk|exact Hm'| |].
    - unfold carries. apply In_mem_name; auto.
    - eapply build_count1; [|exact Hb]. apply sub_nil. }
  assert (E4 : In name curq) by (apply (E4' p name rt); auto; lia).
  unfold label_on_instruction, node_of_source, label_home, node_at.
  unfold emit in E1. rewrite Hcns in E1. destruct (any_in curq (called_names_of ns predef)) eqn:Ha.
  - (* a function entry is created *)
    set (fe := new_cnode (PFuncEntry (rfile (node_raw n)) (node_raw n)
                 (match predef with Some p0 => any_in curq p0 | None => false end)) curq text') in *.
    set (nd := new_cnode n [] text') in *.
    assert (Hk : nth_opt (gnodes g) (length la) = Some fe).
    { rewrite E1, nth_opt_app_r0. reflexivity. }
    assert (Hj : nth_opt (gnodes g) (S (length la)) = Some nd).
    { rewrite E1. replace (S (length la)) with (length la + 1) by lia. rewrite nth_opt_app_r. reflexivity. }
    exists (S (length la)), nd, (length la), fe.
    split; [split; [exact Hj|split; [exact E2|]]|split; [split; [exact Hk|]|split]].
    + intros Hfe. split. { apply Hfe. eapply nth_opt_In; eauto. }
      unfold graph_rank. rewrite E1. replace (S (length la)) with (length la + 1) by lia.
      rewrite firstn_app_2, filter_app, app_length, (E5 Hfe).
      change (length (filter not_fentry (firstn 1 ([fe; nd] ++ lb)))) with 0. apply Nat.add_0_r.
    + right. simpl. auto.
    + exact E4.
    + apply (Huniq _ _ Hk E4).
  - set (nd := new_cnode n curq text') in *.
    assert (Hj : nth_opt (gnodes g) (length la) = Some nd).
    { rewrite E1, nth_opt_app_r0. reflexivity. }
    exists (length la), nd, (length la), nd.
    split; [split; [exact Hj|split; [exact E2|]]|split; [split; [exact Hj|]|split]].
    + intros Hfe. split. { apply Hfe. eapply nth_opt_In; eauto. }
      unfold graph_rank. rewrite E1. rewrite <- (Nat.add_0_r (length la)) at 1.
      rewrite firstn_app_2, filter_app, app_length, (E5 Hfe).
      change (firstn 0 ([nd] ++ lb)) with (@nil cnode). apply Nat.add_0_r.
    + left. simpl. auto.
    + exact E4.
    + apply (Huniq _ _ Hj E4).
Qed.

(* the same, the label given by its name *)
Theorem name_on_next_instruction ns predef g :
  cfg_new ns predef = inr g ->
  forall l p q, label_position ns l = Some p -> next_instruction_after ns p = Some q ->
    exists k, name_on_instruction ns predef g l q k.
Proof.
  intros Hnew l p q Hp Hq.
  destruct (proj1 (label_position_spec _ _ _ Hp)) as [name [rt [Hn <-]]].
  destruct (label_on_next_instruction _ _ _ Hnew _ _ _ _ Hn Hq) as [j [c [k [ck [H1 [H2 [H3 H4]]]]]]].
  exists k, j, c, ck. split; auto. split; auto. split; auto. apply In_mem_name; auto.
Qed.

(* the graph nodes that are not (created) function entries are the code nodes of the source, in order *)
Theorem graph_nodes_in_source_order ns predef g :
  (forall m, In m ns -> is_function_entry m = false) ->
  cfg_new ns predef = inr g ->
  map cn (filter not_fentry (gnodes g)) = filter is_code ns.
Proof.
  intros Hfe Hnew. destruct (cfg_new_build _ _ _ Hnew) as [cns [_ Hb]].
  eapply build_order; eauto.
Qed.

(* labels and directives between a label and its instruction do not matter: all labels with the same
   next instruction are carried by one graph node *)
Lemma labels_share_le ns predef g :
  cfg_new ns predef = inr g ->
  forall p1 p2 n1 r1 n2 r2 q, p1 <= p2 ->
    nth_opt ns p1 = Some (PLabel n1 r1) -> nth_opt ns p2 = Some (PLabel n2 r2) ->
    next_instruction_after ns p1 = Some q -> next_instruction_after ns p2 = Some q ->
    exists k ck, node_at g k ck /\ In n1 (clabels ck) /\ In n2 (clabels ck).
Proof.
  intros Hnew p1 p2 n1 r1 n2 r2 q Hle H1 H2 Hq1 Hq2.
  apply next_instruction_after_spec in Hq2 as Hlt. destruct Hlt as [Hlt _].
  destruct (cfg_new_build _ _ _ Hnew) as [cns [Hcns Hb]].
  unfold next_instruction_after in Hq1.
  destruct (first_code (skipn (S p1) ns)) as [q0|] eqn:Hf; simpl in Hq1; inversion Hq1; subst q; clear Hq1.
  destruct (build_label cns predef _ _ _ _ _ _ _ _ _ (sub_nil []) Hb H1 Hf)
    as [la [n [curq [text' [lb [E1 [E2 [E3 [E4 E5]]]]]]]]].
  assert (I1 : In n1 curq) by (apply (E4 p1 n1 r1); auto; lia).
  assert (I2 : In n2 curq) by (apply (E4 p2 n2 r2); auto; lia).
  unfold emit in E1. unfold node_at. destruct (any_in curq cns).
  - eexists (length la), _. split. { rewrite E1, nth_opt_app_r0. reflexivity. } simpl. auto.
  - eexists (length la), _. split. { rewrite E1, nth_opt_app_r0. reflexivity. } simpl. auto.
Qed.

Theorem labels_share_node ns predef g :
  cfg_new ns predef = inr g ->
  forall p1 p2 n1 r1 n2 r2 q,
    nth_opt ns p1 = Some (PLabel n1 r1) -> nth_opt ns p2 = Some (PLabel n2 r2) ->
    next_instruction_after ns p1 = Some q -> next_instruction_after ns p2 = Some q ->
    exists k ck, node_at g k ck /\ In n1 (clabels ck) /\ In n2 (clabels ck).
Proof.
  intros Hnew p1 p2 n1 r1 n2 r2 q H1 H2 Hq1 Hq2.
  destruct (Nat.le_ge_cases p1 p2) as [Hle|Hle].
  - eapply labels_share_le; eauto.
  - destruct (labels_share_le _ _ _ Hnew _ _ _ _ _ _ _ Hle H2 H1 Hq2 Hq1) as [k [ck [A [B C]]]].
    exists k, ck. auto.
Qed.

(* ---------------------------------------------------------------------------------------- *)
(* the statements only speak about the parser node and the labels of each graph node, so     *)
(* they hold for every later graph with the same nodes and labels                            *)
(* ---------------------------------------------------------------------------------------- *)
Definition cl (c : cnode) := (cn c, clabels c).

Lemma cl_fwd g g' : map cl g' = map cl g -> forall i c, nth_opt g i = Some c ->
  exists c', nth_opt g' i = Some c' /\ cn c' = cn c /\ clabels c' = clabels c.
Proof.
  intros H i c Hc. destruct (proj_nth cl g' g H i c Hc) as [c' [Hc' E]].
  inversion E. eauto.
Qed.

Lemma cl_bwd g g' : map cl g' = map cl g -> forall i c', nth_opt g' i = Some c' ->
  exists c, nth_opt g i = Some c /\ cn c' = cn c /\ clabels c' = clabels c.
Proof.
  intros H i c' Hc. destruct (proj_nth cl g g' (eq_sym H) i c' Hc) as [c [Hc0 E]].
  inversion E. eauto.
Qed.

Lemma graph_rank_cl g g' j : map cl g' = map cl g -> graph_rank g' j = graph_rank g j.
Proof.
  intros H. unfold graph_rank.
  assert (Hc : map cn g' = map cn g).
  { apply (f_equal (map fst)) in H. rewrite !map_map in H. exact H. }
  clear H. revert g' j Hc. induction g as [|c g IH]; intros g' j Hc; destruct g' as [|c' g']; try discriminate; auto.
  destruct j as [|j]; auto. simpl in Hc. inversion Hc as [[H0 H1]].
  assert (Hn : not_fentry c' = not_fentry c) by (unfold not_fentry; rewrite H0; reflexivity).
  simpl. rewrite Hn. destruct (not_fentry c); simpl; rewrite (IH g' j H1); reflexivity.
Qed.

Lemma name_on_instruction_cl ns predef G G' l q k :
  map cl (gnodes G') = map cl (gnodes G) ->
  name_on_instruction ns predef G l q k -> name_on_instruction ns predef G' l q k.
Proof.
  intros H [j [c [ck [[A1 [A2 A3]] [[B1 B2] [M U]]]]]]. unfold node_at in *.
  destruct (cl_fwd _ _ H _ _ A1) as [c' [A1' [Ec El]]].
  destruct (cl_fwd _ _ H _ _ B1) as [ck' [B1' [Eck Elk]]].
  exists j, c', ck'. unfold node_of_source, label_home, node_at.
  rewrite Ec, El, Eck, Elk, (graph_rank_cl _ _ _ H). repeat (split; auto).
  intros k' c0' Hk' Hm'. destruct (cl_bwd _ _ H _ _ Hk') as [c0 [Hk0 [_ El0]]].
  apply (U k' c0); auto. congruence.
Qed.

(* ---------------------------------------------------------------------------------------- *)
(* (3) directions: jumps and branches go to the node that carries the target                 *)
(* ---------------------------------------------------------------------------------------- *)
Lemma add_edge_E_mono g a b x y : E g x y -> E (add_edge g a b) x y.
Proof.
  intros [c [Hc Hy]]. apply (pwe_E _ _ _ _ (add_edge_pwe g a b)). exists c. split; auto.
  destruct (Nat.eqb a x); auto. apply in_ins; auto.
Qed.

Lemma add_edge_E_new g a b : a < length g -> E (add_edge g a b) a b.
Proof.
  intros Ha. destruct (nth_opt_some _ _ Ha) as [c Hc].
  apply (pwe_E _ _ _ _ (add_edge_pwe g a b)). exists c. split; auto.
  rewrite Nat.eqb_refl. apply in_ins; auto.
Qed.

Lemma add_edge_shape g a b : map clabels (add_edge g a b) = map clabels g /\ length (add_edge g a b) = length g.
Proof.
  split. eapply pwe_clabels. apply add_edge_pwe. eapply pwe_length. apply add_edge_pwe.
Qed.

Lemma directions_loop_edges : forall todo i prev g g',
  directions_loop todo i prev g = inr g' ->
  i + length todo <= length g ->
  (forall a b, E g a b -> E g' a b) /\
  (forall k c lab, nth_opt todo k = Some c -> jumps_to (cn c) = Some lab ->
     exists j, flab (wv lab) (map clabels g) 0 = Some j /\ E g' (i + k) j).
Proof.
  induction todo as [|c todo IH]; intros i prev g g' H Hlen; simpl in H.
  - inversion H; subst. split; auto. intros k c lab Hk. rewrite nth_opt_nil in Hk. discriminate.
  - simpl in Hlen.
    assert (Hstep : forall g1, map clabels g1 = map clabels g -> length g1 = length g ->
              (forall a b, E g a b -> E g1 a b) ->
              directions_loop todo (S i)
                (if (is_return (cn c) || is_unconditional_jump (cn c))%bool then None else Some i)
                (match prev with Some p => add_edge g1 p i | None => g1 end) = inr g' ->
              (forall a b, E g a b -> E g' a b) /\
              (forall a b, E g1 a b -> E g' a b) /\
              (forall k c0 lab, nth_opt todo k = Some c0 -> jumps_to (cn c0) = Some lab ->
                 exists j, flab (wv lab) (map clabels g) 0 = Some j /\ E g' (i + S k) j)).
    { intros g1 Hl1 Hn1 Hm1 Hd.
      set (g2 := match prev with Some p => add_edge g1 p i | None => g1 end) in *.
      assert (H2 : map clabels g2 = map clabels g /\ length g2 = length g /\ forall a b, E g1 a b -> E g2 a b).
      { subst g2. destruct prev as [p|]; auto.
        destruct (add_edge_shape g1 p i) as [A B]. split. congruence. split. congruence.
        intros a b. apply add_edge_E_mono. }
      destruct H2 as [Hl2 [Hn2 Hm2]].
      destruct (IH _ _ _ _ Hd) as [IH1 IH2]. { rewrite Hn2. lia. }
      split. { intros a b Hab. apply IH1, Hm2, Hm1, Hab. }
      split. { intros a b Hab. apply IH1, Hm2, Hab. }
      intros k c0 lab Hk Hj. destruct (IH2 k c0 lab Hk Hj) as [j [Hf He]].
      exists j. rewrite <- Hl2. split; auto. replace (i + S k) with (S i + k) by lia. exact He. }
    destruct (jumps_to (cn c)) as [label|] eqn:Hj.
    + rewrite find_label_flab in H. destruct (flab (wv label) (map clabels g) 0) as [j|] eqn:Hf; [|discriminate].
      destruct (add_edge_shape g i j) as [A B].
      destruct (Hstep (add_edge g i j) A B (fun a b => add_edge_E_mono g i j a b) H) as [S1 [S2 S3]].
      split; auto. intros k c0 lab Hk Hj0. destruct k as [|k]; simpl in Hk.
      * inversion Hk; subst c0. rewrite Hj in Hj0. inversion Hj0; subst lab.
        exists j. split; auto. rewrite Nat.add_0_r. apply S2. apply add_edge_E_new. lia.
      * apply (S3 k c0 lab); auto.
    + destruct (Hstep g eq_refl eq_refl (fun a b Hab => Hab) H) as [S1 [S2 S3]].
      split; auto. intros k c0 lab Hk Hj0. destruct k as [|k]; simpl in Hk.
      * inversion Hk; subst c0. congruence.
      * apply (S3 k c0 lab); auto.
Qed.

Lemma directions_cl g g' : directions g = inr g' -> map cl (gnodes g') = map cl (gnodes g).
Proof. apply (ErrProofs.directions_pr cl); reflexivity. Qed.

(* after `directions`, a jump or branch (not a call) has an edge to the node that carries its target *)
Lemma directions_target g g' : directions g = inr g' ->
  forall i ci lab, node_at g' i ci -> jumps_to (cn ci) = Some lab ->
    exists k, find_label (wv lab) (gnodes g') 0 = Some k /\ In k (nexts ci).
Proof.
  intros H i ci lab Hi Hj. pose proof (directions_cl _ _ H) as Hcl.
  unfold directions in H.
  destruct (directions_loop (gnodes g) 0 None (gnodes g)) as [e|l] eqn:Hd; inversion H; subst g'; clear H.
  simpl in *. unfold node_at in Hi. simpl in Hi.
  destruct (cl_bwd _ _ Hcl _ _ Hi) as [c0 [Hc0 [Ecn _]]].
  destruct (directions_loop_edges _ _ _ _ _ Hd) as [_ HT]. { simpl; lia. }
  rewrite Ecn in Hj. destruct (HT i c0 lab Hc0 Hj) as [k [Hf [c' [Hc' Hin]]]].
  simpl in Hc'. rewrite Hi in Hc'. inversion Hc'; subst c'.
  exists k. split; auto. rewrite find_label_flab.
  assert (Hlab : map clabels l = map clabels (gnodes g)).
  { apply (f_equal (map snd)) in Hcl. rewrite !map_map in Hcl. exact Hcl. }
  rewrite Hlab. exact Hf.
Qed.

Lemma find_label_carries s : forall g i k, find_label s g i = Some k ->
  exists c, nth_opt g (k - i) = Some c /\ mem_name s (clabels c) = true /\ i <= k.
Proof.
  induction g as [|c g IH]; intros i k H; simpl in H; [discriminate|].
  destruct (mem_name s (clabels c)) eqn:Hm.
  - inversion H; subst. rewrite Nat.sub_diag. exists c. auto.
  - destruct (IH _ _ H) as [c' [Hc' [Hm' Hle]]]. exists c'.
    replace (k - i) with (S (k - S i)) by lia. simpl. split; auto. split; auto. lia.
Qed.

(* (3a) jumps and branches go to the next instruction after the target label *)
Theorem jump_goes_to_next_instruction ns predef g0 g1 :
  cfg_new ns predef = inr g0 -> directions g0 = inr g1 ->
  forall i ci lab, node_at g1 i ci -> jumps_to (cn ci) = Some lab ->
  forall p q, label_position ns (wv lab) = Some p -> next_instruction_after ns p = Some q ->
    exists k, name_on_instruction ns predef g1 (wv lab) q k /\
              find_label (wv lab) (gnodes g1) 0 = Some k /\ In k (nexts ci).
Proof.
  intros Hnew Hdir i ci lab Hi Hj p q Hp Hq.
  destruct (name_on_next_instruction _ _ _ Hnew _ _ _ Hp Hq) as [k Hk].
  apply (name_on_instruction_cl _ _ _ _ _ _ _ (directions_cl _ _ Hdir)) in Hk.
  destruct (directions_target _ _ Hdir _ _ _ Hi Hj) as [k' [Hf Hin]].
  assert (k' = k).
  { destruct Hk as [j [c [ck [_ [_ [_ U]]]]]].
    destruct (find_label_carries _ _ _ _ Hf) as [c' [Hc' [Hm _]]]. rewrite Nat.sub_0_r in Hc'.
    apply (U k' c'); auto. }
  subst k'. exists k. auto.
Qed.

(* (3b) a call makes the label group of its target a function: the target's labels sit on a function
   entry created right before the next instruction after the label *)
Theorem call_target_is_function_entry ns predef g :
  cfg_new ns predef = inr g ->
  forall m lab, In m ns -> calls_to m = Some lab ->
  forall p q, label_position ns (wv lab) = Some p -> next_instruction_after ns p = Some q ->
    exists j c k ck,
      name_on_instruction ns predef g (wv lab) q k /\
      node_of_source ns g q j c /\ node_at g k ck /\ S k = j /\
      is_function_entry (cn ck) = true /\ mem_name (wv lab) (clabels ck) = true /\ clabels c = [].
Proof.
  intros Hnew m lab Hm Hc p q Hp Hq.
  destruct (name_on_next_instruction _ _ _ Hnew _ _ _ Hp Hq) as [k Hk].
  pose proof Hk as [j [c [ck [A [[B1 B2] [M U]]]]]].
  assert (Hcalled : mem_name (wv lab) (called_names_of ns predef) = true).
  { unfold called_names_of. rewrite mem_name_app. apply Bool.orb_true_iff. left.
    apply In_mem_name. apply filter_map_In. eauto. }
  pose proof (any_in_mem _ _ _ M Hcalled) as Ha.
  destruct B2 as [[_ B2]|[Hkj [_ [Hl Hfe]]]]; [congruence|].
  exists j, c, k, ck. repeat (split; auto). rewrite Hfe. reflexivity.
Qed.

(* ---------------------------------------------------------------------------------------- *)
(* the positions exist when the stages succeed                                               *)
(* ---------------------------------------------------------------------------------------- *)
Lemma mem_name_union s a b : mem_name s (union_names a b) = (mem_name s a || mem_name s b)%bool.
Proof.
  unfold union_names. destruct (Nat.leb (length b) (length a)); rewrite mem_name_dedup, mem_name_app; simpl;
    rewrite Bool.orb_false_r; auto. apply Bool.orb_comm.
Qed.

Lemma label_position_some : forall ns s, mem_name s (filter_map label_of ns) = true ->
  exists p, label_position ns s = Some p.
Proof.
  induction ns as [|n ns IH]; intros s H; simpl in H; [discriminate|]. simpl.
  destruct (label_of n) as [x|].
  - simpl in H. destruct (str_eqb s (wv x)); simpl in H. eauto.
    destruct (IH _ H) as [p ->]. simpl. eauto.
  - destruct (IH _ H) as [p ->]. simpl. eauto.
Qed.

(* every name used by a call, a jump/branch or a `la` is a label of the program *)
Lemma cfg_new_defined ns predef g : cfg_new ns predef = inr g ->
  forall m lab, In m ns -> (calls_to m = Some lab \/ jumps_to m = Some lab \/ reads_address_of m = Some lab) ->
    exists p, label_position ns (wv lab) = Some p.
Proof.
  unfold cfg_new. intros H m lab Hm Hu.
  set (calls := dedup_names (filter_map calls_to ns ++ match predef with Some p => p | None => [] end) []) in *.
  set (jumps := dedup_names (filter_map jumps_to ns) []) in *.
  set (loads := dedup_names (filter_map reads_address_of ns) []) in *.
  set (used := union_names (union_names calls jumps) loads) in *.
  destruct (filter (fun x => negb (mem_name (wv x) (filter_map label_of ns))) used) eqn:Hf; [|discriminate].
  clear H. apply label_position_some.
  assert (Hused : mem_name (wv lab) used = true).
  { subst used calls jumps loads. rewrite !mem_name_union, !mem_name_dedup, mem_name_app. simpl.
    rewrite !Bool.orb_false_r.
    destruct Hu as [Hu|[Hu|Hu]].
    - rewrite (In_mem_name lab (filter_map calls_to ns)). reflexivity. apply filter_map_In; eauto.
    - rewrite (In_mem_name lab (filter_map jumps_to ns)). rewrite Bool.orb_true_r. reflexivity.
      apply filter_map_In; eauto.
    - rewrite (In_mem_name lab (filter_map reads_address_of ns)). apply Bool.orb_true_r.
      apply filter_map_In; eauto. }
  apply ErrProofs.mem_name_true in Hused. destruct Hused as [x [Hx Hw]].
  destruct (mem_name (wv x) (filter_map label_of ns)) eqn:Hd. { rewrite <- Hw. exact Hd. }
  assert (In x []) as [].
  rewrite <- Hf. apply filter_In. split; auto. rewrite Hd. reflexivity.
Qed.

Section NoCode.
Variable cns : list (wth str).
Variable pd : option (list (wth str)).

Lemma build_nocode : forall ns cur all text l,
  build_nodes ns cns pd cur all text [] = inr l -> first_code ns = None -> l = [].
Proof.
  induction ns as [|n ns IH]; intros cur all text l Hb Hf.
  { simpl in Hb. inversion Hb; reflexivity. }
  apply build_inv in Hb. simpl in Hf. destruct (is_code n) eqn:Hc; [discriminate|].
  destruct (first_code ns) eqn:Hf0; [discriminate|].
  destruct (label_of n) as [x|] eqn:Hl.
  - destruct Hb as [_ Hb]. eapply IH; eauto.
  - assert (Hd : is_directive n = true).
    { unfold is_code in Hc. rewrite Hl in Hc. destruct (is_directive n); auto; discriminate. }
    rewrite Hd in Hb. destruct Hb as [text0 Hb]. eapply IH; eauto.
Qed.

(* a label of the stream is not among the labels seen before it *)
Lemma build_label_fresh : forall ns p cur all text l name rt,
  build_nodes ns cns pd cur all text [] = inr l ->
  nth_opt ns p = Some (PLabel name rt) -> mem_name (wv name) all = false.
Proof.
  induction ns as [|n ns IH]; intros p cur all text l name rt Hb Hp.
  { rewrite nth_opt_nil in Hp. discriminate. }
  apply build_inv in Hb. destruct p as [|p]; simpl in Hp.
  - inversion Hp; subst n. simpl in Hb. tauto.
  - destruct (label_of n) as [x|].
    + destruct Hb as [_ Hb]. specialize (IH _ _ _ _ _ _ _ Hb Hp). simpl in IH.
      apply Bool.orb_false_iff in IH. tauto.
    + destruct (is_directive n).
      * destruct Hb as [text0 Hb]. eapply IH; eauto.
      * destruct Hb as [l' [Hb _]]. eapply IH; eauto.
Qed.

(* a label no instruction follows is on no graph node *)
Lemma build_dangling : forall ns p cur all text l name rt,
  sub cur all ->
  build_nodes ns cns pd cur all text [] = inr l ->
  nth_opt ns p = Some (PLabel name rt) -> first_code (skipn (S p) ns) = None ->
  length (filter (carries (wv name)) l) = 0.
Proof.
  induction ns as [|n ns IH]; intros p cur all text l name rt Hsub Hb Hp Hf.
  { rewrite nth_opt_nil in Hp. discriminate. }
  pose proof (build_label_fresh _ _ _ _ _ _ _ _ Hb Hp) as Hfresh.
  apply build_inv in Hb. destruct p as [|p]; simpl in Hp.
  - inversion Hp; subst n. simpl in Hb, Hf. destruct Hb as [_ Hb].
    rewrite (build_nocode _ _ _ _ _ Hb Hf). reflexivity.
  - change (skipn (S (S p)) (n :: ns)) with (skipn (S p) ns) in Hf.
    destruct (label_of n) as [x|].
    + destruct Hb as [Hm Hb]. destruct (sub_step _ _ _ Hsub Hm) as [Hcur Hsub']. rewrite Hcur in Hb.
      eapply IH; eauto.
    + destruct (is_directive n).
      * destruct Hb as [text0 Hb]. eapply IH; eauto.
      * destruct Hb as [l' [Hb ->]]. rewrite filter_app, app_length, emit_count.
        destruct (mem_name (wv name) cur) eqn:Hc. { apply Hsub in Hc. congruence. }
        simpl. eapply IH; [apply sub_nil|exact Hb|exact Hp|exact Hf].
Qed.
End NoCode.

Lemma filter_nil_nth {A} (f : A -> bool) : forall l i x,
  length (filter f l) = 0 -> nth_opt l i = Some x -> f x = false.
Proof.
  induction l as [|y l IH]; intros i x Hl Hi; destruct i; simpl in Hi; try discriminate; simpl in Hl.
  - inversion Hi; subst. destruct (f x); auto. discriminate.
  - destruct (f y); [discriminate|]. eapply IH; eauto.
Qed.

(* (3a) with the positions derived from the success of the two stages *)
Theorem jump_target_exists ns predef g0 g1 :
  cfg_new ns predef = inr g0 -> directions g0 = inr g1 ->
  forall i ci lab, node_at g1 i ci -> jumps_to (cn ci) = Some lab ->
    exists p q k, label_position ns (wv lab) = Some p /\ next_instruction_after ns p = Some q /\
                  name_on_instruction ns predef g1 (wv lab) q k /\
                  find_label (wv lab) (gnodes g1) 0 = Some k /\ In k (nexts ci).
Proof.
  intros Hnew Hdir i ci lab Hi Hj.
  pose proof (directions_cl _ _ Hdir) as Hcl.
  (* the jump is a node of the source *)
  assert (Hsrc : In (cn ci) ns).
  { destruct (cl_bwd _ _ Hcl _ _ Hi) as [c0 [Hc0 [Ecn _]]].
    pose proof (cfg_new_fresh _ _ _ Hnew) as HF. rewrite Forall_forall in HF.
    destruct (HF c0 (nth_opt_In _ _ _ Hc0)) as [_ [_ [Hin|Hfe]]]. congruence.
    rewrite <- Ecn in Hfe. destruct (cn ci); simpl in Hfe, Hj; discriminate. }
  destruct (cfg_new_defined _ _ _ Hnew _ lab Hsrc) as [p Hp]; auto.
  destruct (directions_target _ _ Hdir _ _ _ Hi Hj) as [k [Hf Hin]].
  destruct (next_instruction_after ns p) as [q|] eqn:Hq.
  - destruct (jump_goes_to_next_instruction _ _ _ _ Hnew Hdir _ _ _ Hi Hj _ _ Hp Hq) as [k' [A [B C]]].
    exists p, q, k'. auto.
  - exfalso. destruct (proj1 (label_position_spec _ _ _ Hp)) as [name [rt [Hn Hw]]].
    destruct (cfg_new_build _ _ _ Hnew) as [cns [_ Hb]].
    unfold next_instruction_after in Hq.
    destruct (first_code (skipn (S p) ns)) eqn:Hfc; [discriminate|].
    pose proof (build_dangling cns predef _ _ _ _ _ _ _ _ (sub_nil []) Hb Hn Hfc) as Hz.
    destruct (find_label_carries _ _ _ _ Hf) as [c' [Hc' [Hm _]]]. rewrite Nat.sub_0_r in Hc'.
    destruct (cl_bwd _ _ Hcl _ _ Hc') as [c0 [Hc0 [_ El]]].
    pose proof (filter_nil_nth _ _ _ _ Hz Hc0) as Hno. unfold carries in Hno.
    rewrite Hw, <- El, Hm in Hno. discriminate.
Qed.

(* ---------------------------------------------------------------------------------------- *)
(* (3c) the finished graph: the call target owns a function                                  *)
(* ---------------------------------------------------------------------------------------- *)
Lemma cl_frameLF g g' : map cl g' = map cl g -> frameLF g g'.
Proof.
  intros H. split. { rewrite <- (map_length cl g'), H. apply map_length. }
  intros j c' Hc'. destruct (cl_bwd _ _ H _ _ Hc') as [c [Hc [E1 E2]]]. exists c. rewrite E1. auto.
Qed.

Lemma coreA_cl g g' : map coreA g' = map coreA g -> map cl g' = map cl g.
Proof.
  intros H. apply (f_equal (map (fun x : (pnode * list (wth str) * list nat * list nat) * list nat =>
                                   (fst (fst (fst (fst x))), snd (fst (fst (fst x))))))) in H.
  rewrite !map_map in H. exact H.
Qed.

Lemma full_frame picks ns g : gen_full_cfg picks ns = Ok (SOk g) ->
  exists hs h0, cfg_new ns (Some hs) = inr h0 /\ frameLF (gnodes h0) (gnodes g).
Proof.
  intros H. destruct (final_setup _ _ _ H) as [h5 [H8 [[PL PP] _]]].
  clear H. revert H8. unfold gen_cfg_upto.
  repeat match goal with
         | |- context[N.eqb ?a ?b] => let v := eval vm_compute in (N.eqb a b) in change (N.eqb a b) with v
         end. cbv iota.
  destruct (cfg_new ns None) as [e|g0]; [intros; discriminate|].
  destruct (directions g0) as [e|g1]; [intros; discriminate|].
  destruct (avail_pass g1) as [g2| |]; simpl bind; [|intros; discriminate..].
  destruct (cfg_new ns (Some (interrupt_handler_names g2))) as [e|h0] eqn:H3; [intros; discriminate|].
  destruct (directions h0) as [e|h1] eqn:H4; [intros; discriminate|].
  destruct (avail_pass (dead_code h1)) as [h3| |] eqn:H6; simpl bind; [|intros; discriminate..].
  destruct (function_markup picks (ecall_terminate h3)) as [e|h5'] eqn:H8; [intros; discriminate|].
  intros HH. inversion HH; subst h5'. clear HH.
  exists (interrupt_handler_names g2), h0. split; auto.
  assert (C4 : map cl (gnodes (ecall_terminate h3)) = map cl (gnodes h0)).
  { rewrite (ErrProofs.ecall_terminate_pr cl (fun _ _ => eq_refl) (fun _ _ => eq_refl)).
    rewrite (coreA_cl _ _ (proj1 (avail_pass_core _ _ H6))).
    rewrite (ErrProofs.dead_code_pr cl (fun _ _ => eq_refl) (fun _ _ => eq_refl)).
    apply directions_cl; auto. }
  eapply frameLF_trans. { apply cl_frameLF. exact C4. }
  eapply frameLF_trans. { unfold function_markup in H8. apply (markup_loop_labels _ _ _ _ H8). }
  split; auto. intros j c' Hc'. destruct (PP j c' Hc') as [c [Hc [E1 [E2 _]]]].
  exists c. rewrite E1. auto.
Qed.

Theorem call_target_owns_function picks ns g :
  gen_full_cfg picks ns = Ok (SOk g) ->
  forall m lab, In m ns -> calls_to m = Some lab ->
  forall p q, label_position ns (wv lab) = Some p -> next_instruction_after ns p = Some q ->
    exists hs h0 k ck fid,
      (* the graph built in the second round and the position of the label's node in it *)
      cfg_new ns (Some hs) = inr h0 /\ name_on_instruction ns (Some hs) h0 (wv lab) q k /\
      (* in the finished graph that index still is a function entry carrying the label ... *)
      node_at g k ck /\ is_function_entry (cn ck) = true /\ mem_name (wv lab) (clabels ck) = true /\
      (* ... and the label owns a function *)
      assoc_fn (wv lab) (glabelfn g) = Some fid.
Proof.
  intros H m lab Hm Hc p q Hp Hq.
  destruct (full_frame _ _ _ H) as [hs [h0 [Hnew HF]]].
  destruct (call_target_is_function_entry _ _ _ Hnew _ _ Hm Hc _ _ Hp Hq)
    as [j [c [k [ck [A [_ [B [_ [Fe [M _]]]]]]]]]].
  destruct (frameLF_fwd _ _ _ _ HF B) as [ck' [Hck' [El Ef]]].
  assert (Hex : exists i c0, node_at g i c0 /\ is_function_entry (cn c0) = true /\
                             mem_name (wv lab) (clabels c0) = true).
  { exists k, ck'. unfold node_at. rewrite El, Ef. auto. }
  apply (label_owns_function _ _ _ H) in Hex. destruct Hex as [fid Hfid].
  exists hs, h0, k, ck', fid. unfold node_at. rewrite El, Ef. auto 10.
Qed.
