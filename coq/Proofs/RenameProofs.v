(* C14: renaming labels or same-class registers only renames the diagnostics.
   Main results; the parts are in RenameBase (permutations, tables, node functions), RenameGraph (graph passes),
   RenameLive (liveness), RenameAvail (value analysis), RenameLints (the eleven lints).

   FINDINGS (proved below / in Props/C14.v by computed counterexamples):
   F1  The diagnostics of a register-permuted program are the original ones as a multiset, not as a list:
       three lints enumerate a register set in numeric order (`rs_elems`), so two findings of one node that
       belong to two different temporaries (or saved registers) can swap places.  `run_diagnostics_perm`
       (Permutation) is the exact truth; equality holds when the permutation keeps the enumeration order
       (`keeps_order`, true of the identity, i.e. for pure label renamings).
   F2  Label renaming must fix the reserved name "<return>": the function-markup pass replaces additional
       returns by `jal x0, <return>`, and liveness resolves that name through the label->function map, so
       a user function called (or renamed to) `<return>` changes the result.
   F3  For the CFG error `CLabelsNotDefined` the reported location is the one of the smallest name
       (`min_name`), and the title lists the names sorted: both follow the renaming only if rho keeps the
       string order on the undefined names (`monotone_on`); otherwise the location is the one of another
       undefined label (`cfg_error_loc_among`).
   No rule of the model treats a particular temporary or saved register specially (s0/fp is an ordinary saved
   register): only x0, ra, sp, a7 and the argument registers are singled out, all fixed by a class permutation. *)
From Coq Require Import Lia ZifyBool ZifyN Sorting.Sorted Permutation.
From RV.Model Require Import Base I32 Imm Lexer Isa Parser Reader Cfg Avail Live Lints.
From RV.Spec Require Import RenameSpec.
From RV.Proofs Require Export RenameBase RenameGraph RenameLive RenameAvail RenameLints.
Open Scope N_scope.

(* ---- every graph of the pipeline has sorted register maps --------------------------------------- *)
Definition keeps (f : cnode -> cnode) : Prop := forall x, rin (f x) = rin x /\ rout (f x) = rout x.

Lemma ms_upd g i f : keeps f -> maps_sorted g -> maps_sorted (upd g i f).
Proof.
  intros Hf Hg y Hy. apply in_upd in Hy. destruct Hy as [Hy|[x [Hx ->]]]; [apply Hg, Hy|].
  destruct (Hf x) as [-> ->]. apply Hg, Hx.
Qed.
Ltac kp := let x := fresh "x" in intros x; split; reflexivity.

Lemma ms_fold_upd (F : nat -> cnode -> cnode) l : (forall p, keeps (F p)) ->
  forall g, maps_sorted g -> maps_sorted (fold_left (fun g p => upd g p (F p)) l g).
Proof. intros HF. apply fold_left_inv'. intros a x Ha. apply ms_upd; [apply HF | exact Ha]. Qed.

Lemma ms_add_edge g a b : maps_sorted g -> maps_sorted (add_edge g a b).
Proof. intros H. unfold add_edge. apply ms_upd; [kp|]. apply ms_upd; [kp | exact H]. Qed.

Lemma ms_directions_loop todo : forall i prev g g',
  maps_sorted g -> directions_loop todo i prev g = inr g' -> maps_sorted g'.
Proof.
  induction todo as [|c todo IH]; intros i prev g g' Hg E; cbn [directions_loop] in E; [injection E as <-; exact Hg|].
  destruct (jumps_to (cn c)) as [label|].
  - destruct (find_label (wv label) g 0) as [j|]; [|discriminate].
    eapply IH; [|exact E]. destruct prev; [apply ms_add_edge|]; apply ms_add_edge, Hg.
  - eapply IH; [|exact E]. destruct prev; [apply ms_add_edge|]; exact Hg.
Qed.
Lemma ms_directions g g' : maps_sorted (gnodes g) -> directions g = inr g' -> maps_sorted (gnodes g').
Proof.
  intros Hg E. unfold directions in E.
  destruct (directions_loop (gnodes g) 0 None (gnodes g)) as [e|ns] eqn:D; [discriminate|].
  injection E as <-. cbn [gnodes]. eapply ms_directions_loop; eassumption.
Qed.

Lemma ms_dead_step g i : maps_sorted g -> maps_sorted (dead_step g i).
Proof.
  intros Hg. unfold dead_step. destruct (getn g i) as [c|]; [|exact Hg].
  destruct (is_return (cn c) || is_any_entry (cn c) || might_terminate (cn c))%bool; [exact Hg|].
  set (g1 := match nexts c with [] => _ | _ => g end).
  assert (H1 : maps_sorted g1).
  { unfold g1. destruct (nexts c); [|exact Hg]. apply ms_upd; [kp|].
    apply (ms_fold_upd (fun _ x => set_nexts x (del i (nexts x)))); [intros p; kp | exact Hg]. }
  destruct (getn g1 i) as [c1|]; [|exact H1]. destruct (prevs c1); [|exact H1].
  apply ms_upd; [kp|]. apply (ms_fold_upd (fun _ x => set_prevs x (del i (prevs x)))); [intros p; kp | exact H1].
Qed.
Lemma ms_dead_code g : maps_sorted (gnodes g) -> maps_sorted (gnodes (dead_code g)).
Proof. intros Hg. unfold dead_code. cbn [gnodes]. apply fold_left_inv'; [intros a x; apply ms_dead_step | exact Hg]. Qed.

Lemma ms_ecall_term_step g i : maps_sorted g -> maps_sorted (ecall_term_step g i).
Proof.
  intros Hg. unfold ecall_term_step. destruct (getn g i) as [c|]; [|exact Hg].
  destruct (is_program_exit c); [|exact Hg]. apply ms_upd; [kp|].
  apply (ms_fold_upd (fun _ x => set_prevs x (del i (prevs x)))); [intros p; kp | exact Hg].
Qed.
Lemma ms_ecall_terminate g : maps_sorted (gnodes g) -> maps_sorted (gnodes (ecall_terminate g)).
Proof. intros Hg. unfold ecall_terminate. cbn [gnodes]. apply fold_left_inv'; [intros a x; apply ms_ecall_term_step | exact Hg]. Qed.

Lemma ms_mark_function g e pick g' : maps_sorted (gnodes g) -> mark_function g e pick = inr g' -> maps_sorted (gnodes g').
Proof.
  intros Hg E. unfold mark_function in E.
  destruct (filter _ (reachable (gnodes g) e)) as [|first rets]; [discriminate|].
  remember (first :: rets) as rl eqn:Erl. clear Erl.
  injection E as <-. unfold gnodes at 1. apply fold_left_inv'.
  - intros a i Ha. destruct (Nat.eqb i _); [exact Ha|].
    destruct (getn a i) as [c|]; [|exact Ha]. destruct (getn a _) as [ex|]; [|exact Ha].
    apply ms_upd; [kp|]. apply ms_upd; [kp | exact Ha].
  - apply (ms_fold_upd (fun _ c => set_cfuncs c (ins (length (gfuncs g)) (cfuncs c)))); [intros p; kp | exact Hg].
Qed.
Lemma ms_markup_loop entries : forall picks g g', maps_sorted (gnodes g) -> markup_loop entries picks g = inr g' -> maps_sorted (gnodes g').
Proof.
  induction entries as [|e es IH]; intros picks g g' Hg E; cbn [markup_loop] in E; [injection E as <-; exact Hg|].
  destruct (mark_function g e (hd_opt picks)) as [err|g1] eqn:M; [discriminate|].
  eapply IH; [|exact E]. eapply ms_mark_function; eassumption.
Qed.
Lemma ms_function_markup picks g g' : maps_sorted (gnodes g) -> function_markup picks g = inr g' -> maps_sorted (gnodes g').
Proof. unfold function_markup. apply ms_markup_loop. Qed.

Lemma ms_live_node G ns v i : maps_sorted ns -> maps_sorted (fst (live_node G ns v i)).
Proof.
  intros Hg. unfold live_node. destruct (getn ns i) as [c|]; [|exact Hg].
  destruct (calls_to_from_cfg G c) as [fid|].
  - destruct (nth_opt (gfuncs G) fid) as [f|]; [|exact Hg]. cbv zeta. cbn [fst].
    apply ms_upd; [kp|]. apply ms_upd; [kp | exact Hg].
  - cbv zeta.
    match goal with |- maps_sorted (fst (let '(li, ud) := ?X in _)) => destruct X as [li ud] end.
    cbn [fst]. apply ms_upd; [kp | exact Hg].
Qed.
Lemma ms_live_sweep G idx : forall ns v ch, maps_sorted ns -> maps_sorted (fst (fst (live_sweep G idx ns v ch))).
Proof.
  induction idx as [|i idx IH]; intros ns v ch Hg; cbn [live_sweep]; [exact Hg|].
  pose proof (ms_live_node G ns v i Hg) as H1. destruct (live_node G ns v i) as [ns' c']. cbn [fst] in H1. apply IH, H1.
Qed.
Lemma ms_live_loop G fuel : forall ns v ns', maps_sorted ns -> live_loop fuel G ns v = Ok ns' -> maps_sorted ns'.
Proof.
  induction fuel as [|f IH]; intros ns v ns' Hg E; cbn [live_loop] in E; [discriminate|].
  pose proof (ms_live_sweep G (rev (seq 0 (length ns))) ns v false Hg) as H1.
  destruct (live_sweep G (rev (seq 0 (length ns))) ns v false) as [[ns1 v1] ch1]. cbn [fst] in H1.
  destruct ch1; [eapply IH; eassumption | injection E as <-; exact H1].
Qed.
Lemma ms_liveness_pass g g' : maps_sorted (gnodes g) -> liveness_pass g = Ok g' -> maps_sorted (gnodes g').
Proof.
  intros Hg E. unfold liveness_pass in E.
  destruct (live_loop (live_fuel g) g (gnodes g) []) as [ns| |] eqn:L; cbn [bind] in E; try discriminate.
  injection E as <-. cbn [gnodes]. eapply ms_live_loop; eassumption.
Qed.

Lemma ms_build_nodes ns : forall cns pd cur all text acc l,
  maps_sorted acc -> build_nodes ns cns pd cur all text acc = inr l -> maps_sorted l.
Proof.
  induction ns as [|n ns IH]; intros cns pd cur all text acc l Ha E; cbn [build_nodes] in E.
  - injection E as <-. intros c Hc. apply in_rev in Hc. apply Ha, Hc.
  - destruct (label_of n) as [name|].
    + destruct (mem_name (wv name) all); [discriminate|]. eapply IH; eassumption.
    + destruct (is_datasec n); [eapply IH; eassumption|]. destruct (is_textsec n); [eapply IH; eassumption|].
      destruct (is_directive n); [eapply IH; eassumption|].
      assert (N0 : forall m ls t, rsorted (rin (new_cnode m ls t)) /\ rsorted (rout (new_cnode m ls t)))
        by (intros; split; constructor).
      destruct (any_in cur cns); (eapply IH; [|exact E]); intros c [<-|Hc]; try apply N0.
      * destruct Hc as [<-|Hc]; [apply N0 | apply Ha, Hc].
      * apply Ha, Hc.
Qed.
Lemma ms_cfg_new ns pd g : cfg_new ns pd = inr g -> maps_sorted (gnodes g).
Proof.
  unfold cfg_new. destruct (filter _ _); [|discriminate].
  destruct (build_nodes ns _ pd [] [] true []) as [e|nodes] eqn:B; [discriminate|].
  intros [= <-]. cbn [gnodes]. eapply ms_build_nodes; [|exact B]. intros c [].
Qed.

Lemma bind_ok {A B} (r : res A) (k : A -> res B) b : bind r k = Ok b -> exists a, r = Ok a /\ k a = Ok b.
Proof. destruct r; cbn [bind]; intros E; try discriminate. eauto. Qed.

Theorem gen_full_cfg_sorted picks ns g : gen_full_cfg picks ns = Ok (SOk g) -> maps_sorted (gnodes g).
Proof.
  unfold gen_full_cfg. intros E.
  destruct (cfg_new ns None) as [e|g0] eqn:C0; [discriminate|].
  destruct (directions g0) as [e|g1] eqn:D0; [discriminate|].
  apply bind_ok in E. destruct E as [g2 [A0 E]].
  destruct (cfg_new ns (Some (interrupt_handler_names g2))) as [e|h0] eqn:C1; [discriminate|].
  destruct (directions h0) as [e|h1] eqn:D1; [discriminate|].
  apply bind_ok in E. destruct E as [h3 [A1 E]].
  destruct (function_markup picks (ecall_terminate h3)) as [e|h5] eqn:M; [discriminate|].
  apply bind_ok in E. destruct E as [h6 [A2 E]].
  apply bind_ok in E. destruct E as [h8 [L E]]. injection E as <-.
  eapply ms_liveness_pass; [|exact L]. apply ms_ecall_terminate.
  eapply avail_pass_sorted; [|exact A2]. eapply ms_function_markup; [|exact M].
  apply ms_ecall_terminate. eapply avail_pass_sorted; [|exact A1]. apply ms_dead_code.
  eapply ms_directions; [|exact D1]. eapply ms_cfg_new, C1.
Qed.

(* ---- the pipeline -------------------------------------------------------------------------------- *)
Section Pipeline.
Variable s : reg -> reg.
Variable rho : str -> str.
Hypothesis Hs : class_perm s.
Hypothesis Hr : label_renaming rho.
Notation rn := (rn_node s rho).
Notation rw := (map_w rho).
Notation rg := (rn_cfg s rho).

Theorem gen_full_cfg_rn picks ns :
  gen_full_cfg picks (map rn ns) = map_res (rn_stage s rho rg) (gen_full_cfg picks ns).
Proof.
  unfold gen_full_cfg.
  pose proof (cfg_new_rn s rho Hs Hr ns None) as E0. cbn [option_map] in E0. rewrite E0. clear E0.
  destruct (cfg_new ns None) as [e|g0] eqn:C0; cbn [rn_sum]; [reflexivity|].
  rewrite (directions_rn s rho Hs Hr). destruct (directions g0) as [e|g1] eqn:D0; cbn [rn_sum]; [reflexivity|].
  assert (S1 : maps_sorted (gnodes g1)) by (eapply ms_directions; [|exact D0]; eapply ms_cfg_new, C0).
  rewrite (avail_pass_rn s rho Hs Hr g1 S1).
  destruct (avail_pass g1) as [g2| |] eqn:A0; cbn [map_res bind]; try reflexivity.
  rewrite (interrupt_handler_names_rn s rho Hs Hr).
  pose proof (cfg_new_rn s rho Hs Hr ns (Some (interrupt_handler_names g2))) as E1. cbn [option_map] in E1. rewrite E1. clear E1.
  destruct (cfg_new ns (Some (interrupt_handler_names g2))) as [e|h0] eqn:C1; cbn [rn_sum]; [reflexivity|].
  rewrite (directions_rn s rho Hs Hr). destruct (directions h0) as [e|h1] eqn:D1; cbn [rn_sum]; [reflexivity|].
  assert (S2 : maps_sorted (gnodes (dead_code h1)))
    by (apply ms_dead_code; eapply ms_directions; [|exact D1]; eapply ms_cfg_new, C1).
  rewrite (dead_code_rn s rho Hs), (avail_pass_rn s rho Hs Hr _ S2).
  destruct (avail_pass (dead_code h1)) as [h3| |] eqn:A1; cbn [map_res bind]; try reflexivity.
  rewrite (ecall_terminate_rn s rho Hs), (function_markup_rn s rho Hs Hr).
  destruct (function_markup picks (ecall_terminate h3)) as [e|h5] eqn:M; cbn [rn_sum]; [reflexivity|].
  assert (S3 : maps_sorted (gnodes h5)).
  { eapply ms_function_markup; [|exact M]. apply ms_ecall_terminate. eapply avail_pass_sorted; [|exact A1]. exact S2. }
  rewrite (avail_pass_rn s rho Hs Hr _ S3).
  destruct (avail_pass h5) as [h6| |] eqn:A2; cbn [map_res bind]; try reflexivity.
  rewrite (ecall_terminate_rn s rho Hs), (liveness_pass_rn s rho Hs Hr).
  destruct (liveness_pass (ecall_terminate h6)) as [h8| |]; reflexivity.
Qed.

(* ---- CFG errors: location and title --------------------------------------------------------------- *)
Lemma min_name_rn l : forall best, monotone_on rho (best :: l) -> min_name (map rw l) (rw best) = rw (min_name l best).
Proof.
  induction l as [|x l IH]; intros best Hm; cbn [map min_name]; [reflexivity|].
  cbn [map_w wv]. rewrite (Hm x best) by (cbn [In]; tauto).
  destruct (str_ltb (wv x) (wv best)); apply IH; intros a b Ha Hb; apply Hm; cbn [In] in *; tauto.
Qed.

Lemma min_name_in l : forall best, In (min_name l best) (best :: l).
Proof.
  induction l as [|x l IH]; intros best; cbn [min_name]; [left; reflexivity|].
  destruct (str_ltb (wv x) (wv best)); [specialize (IH x) | specialize (IH best)]; cbn [In] in *; tauto.
Qed.

Theorem cfg_error_loc_rn e :
  (forall ls, e = CLabelsNotDefined ls -> monotone_on rho ls) ->
  cfg_error_loc (rn_cfgerr s rho e) = cfg_error_loc e.
Proof.
  intros Hm. destruct e as [ls|l|l|n ls|]; cbn [rn_cfgerr cfg_error_loc]; try reflexivity.
  - destruct ls as [|x l]; cbn [map]; [reflexivity|]. rewrite min_name_rn by (apply Hm; reflexivity). reflexivity.
  - apply (loc_of_node_rn s rho).
Qed.

(* without monotonicity: the location is that of one of the undefined labels *)
Theorem cfg_error_loc_among ls :
  ls <> [] -> In (cfg_error_loc (rn_cfgerr s rho (CLabelsNotDefined ls))) (map (fun l => loc_of_tok (wt l)) ls).
Proof.
  destruct ls as [|x l]; [congruence|]. intros _. cbn [rn_cfgerr cfg_error_loc map].
  pose proof (min_name_in (map rw l) (rw x)) as H. change (rw x :: map rw l) with (map rw (x :: l)) in H.
  apply in_map_iff in H. destruct H as [y [<- Hy]]. cbn [map_w wt].
  change (loc_of_tok (wt x) :: map (fun l0 => loc_of_tok (wt l0)) l) with (map (fun l0 => loc_of_tok (wt l0)) (x :: l)).
  apply (in_map (fun l0 => loc_of_tok (wt l0))), Hy.
Qed.

Lemma in_insert_name y x l : In y (insert_name x l) <-> y = x \/ In y l.
Proof.
  induction l as [|z l IH]; cbn [insert_name In]; [intuition congruence|].
  destruct (str_ltb z x); cbn [In]; [rewrite IH|]; intuition congruence.
Qed.
Definition mono_strs (l : list str) : Prop := forall a b, In a l -> In b l -> str_ltb (rho a) (rho b) = str_ltb a b.
Lemma insert_name_rn x l : mono_strs (x :: l) -> insert_name (rho x) (map rho l) = map rho (insert_name x l).
Proof.
  induction l as [|z l IH]; intros Hm; cbn [map insert_name]; [reflexivity|].
  rewrite (Hm z x) by (cbn [In]; tauto). destruct (str_ltb z x); [|reflexivity].
  cbn [map]. f_equal. apply IH. intros a b Ha Hb. apply Hm; cbn [In] in *; tauto.
Qed.
Lemma sort_fold_rn l : forall acc, mono_strs (l ++ acc) ->
  fold_left (fun acc x => insert_name x acc) (map rho l) (map rho acc)
  = map rho (fold_left (fun acc x => insert_name x acc) l acc).
Proof.
  induction l as [|x l IH]; intros acc Hm; cbn [map fold_left]; [reflexivity|].
  rewrite insert_name_rn by (intros a b Ha Hb; apply Hm; cbn [In app] in *; rewrite in_app_iff; tauto).
  apply IH. intros a b Ha Hb.
  assert (Q : forall y, In y (l ++ insert_name x acc) -> In y ((x :: l) ++ acc)).
  { intros y Hy. rewrite in_app_iff, in_insert_name in Hy. cbn [app In]. rewrite in_app_iff.
    destruct Hy as [Hy|[->|Hy]]; auto. }
  apply Hm; apply Q; assumption.
Qed.
Theorem sort_names_rn l : mono_strs l -> sort_names (map rho l) = map rho (sort_names l).
Proof. intros Hm. unfold sort_names. apply (sort_fold_rn l []). rewrite app_nil_r. exact Hm. Qed.

(* ---- the diagnostic items ------------------------------------------------------------------------ *)
Definition lint_item (l : lint) : ditem := mkd (DLint (lcode l)) (lcands l) (lopt l).
Definition parse_items (errs : list parse_error) : list ditem := map (fun e => mkd (DParse e) [parse_error_loc e] false) errs.

Lemma run_items_of picks ns errs :
  run_items picks ns errs =
  match gen_full_cfg picks ns with
  | Ok (SOk g) => Ok (parse_items errs ++ map lint_item (run_diagnostics g))
  | Ok (SErr e) => Ok (parse_items errs ++ [mkd (DCfg e) [cfg_error_loc e] false])
  | Panic k => Panic k
  | OutOfFuel => OutOfFuel
  end.
Proof. unfold run_items. destruct (gen_full_cfg picks ns) as [[g|e]| |]; reflexivity. Qed.

(* success: the same items, up to the order of the findings *)
Theorem run_items_ok_perm picks ns errs g : gen_full_cfg picks ns = Ok (SOk g) ->
  exists items items', run_items picks ns errs = Ok items /\ run_items picks (map rn ns) errs = Ok items'
                       /\ Permutation items' items.
Proof.
  intros E. rewrite !run_items_of, gen_full_cfg_rn, E. cbn [map_res rn_stage].
  eexists. eexists. split; [reflexivity|]. split; [reflexivity|].
  apply Permutation_app_head, Permutation_map, run_diagnostics_perm; try assumption.
  eapply gen_full_cfg_sorted, E.
Qed.

Theorem run_items_ok_eq picks ns errs g : keeps_order s -> gen_full_cfg picks ns = Ok (SOk g) ->
  exists items, run_items picks ns errs = Ok items /\ run_items picks (map rn ns) errs = Ok items.
Proof.
  intros Ho E. rewrite !run_items_of, gen_full_cfg_rn, E. cbn [map_res rn_stage].
  eexists. split; [reflexivity|].
  rewrite run_diagnostics_eq; try assumption; [reflexivity|]. eapply gen_full_cfg_sorted, E.
Qed.

(* a CFG error: the renamed error *)
Theorem run_items_err picks ns errs e : gen_full_cfg picks ns = Ok (SErr e) ->
  run_items picks ns errs = Ok (parse_items errs ++ [mkd (DCfg e) [cfg_error_loc e] false]) /\
  run_items picks (map rn ns) errs
  = Ok (parse_items errs ++ [mkd (DCfg (rn_cfgerr s rho e)) [cfg_error_loc (rn_cfgerr s rho e)] false]).
Proof. intros E. rewrite !run_items_of, gen_full_cfg_rn, E. split; reflexivity. Qed.

(* no result: the same failure *)
Theorem run_items_fail picks ns errs : (forall x, gen_full_cfg picks ns <> Ok x) ->
  run_items picks (map rn ns) errs = run_items picks ns errs.
Proof.
  intros H. rewrite !run_items_of, gen_full_cfg_rn.
  destruct (gen_full_cfg picks ns) as [x| |]; [exfalso; apply (H x); reflexivity | reflexivity | reflexivity].
Qed.

(* all cases in one statement *)
Theorem run_items_rn picks ns errs :
  (forall ls, gen_full_cfg picks ns = Ok (SErr (CLabelsNotDefined ls)) -> monotone_on rho ls) ->
  match run_items picks ns errs with
  | Ok items => exists items', run_items picks (map rn ns) errs = Ok items' /\
                               Permutation items' (map (rn_ditem s rho) items)
  | Panic k => run_items picks (map rn ns) errs = Panic k
  | OutOfFuel => run_items picks (map rn ns) errs = OutOfFuel
  end.
Proof.
  intros Hm. rewrite !run_items_of, gen_full_cfg_rn.
  destruct (gen_full_cfg picks ns) as [[g|e]| |] eqn:E; cbn [map_res rn_stage]; try reflexivity.
  - eexists. split; [reflexivity|]. rewrite map_app. apply Permutation_app.
    + unfold parse_items. rewrite map_map. apply Permutation_refl.
    + rewrite map_map. cbn [rn_ditem lint_item dk dlocs dopt rn_dkind].
      apply Permutation_map, run_diagnostics_perm; try assumption. eapply gen_full_cfg_sorted, E.
  - eexists. split; [reflexivity|]. rewrite map_app. unfold parse_items. rewrite map_map. cbn [map rn_ditem dk dlocs dopt rn_dkind].
    rewrite cfg_error_loc_rn; [apply Permutation_refl|]. intros ls ->. apply Hm. reflexivity.
Qed.

End Pipeline.

(* ---- the two special cases the property names ------------------------------------------------------- *)
Lemma map_rn_regs s ns : map (rn_node s (fun x => x)) ns = map (rename_regs s) ns.
Proof. apply map_ext. intros n. apply rn_node_regs. Qed.
Lemma map_rn_labels rho ns : map (rn_node (fun r => r) rho) ns = map (rename_labels rho) ns.
Proof. apply map_ext. intros n. apply rn_node_labels. Qed.

(* registers: for every valid list-based permutation *)
Theorem regs_diagnostics_perm p picks ns errs g : valid_perm p = true -> gen_full_cfg picks ns = Ok (SOk g) ->
  exists items items', run_items picks ns errs = Ok items
                       /\ run_items picks (map (rename_regs (sigma_of p)) ns) errs = Ok items'
                       /\ Permutation items' items.
Proof.
  intros Hp E. rewrite <- map_rn_regs.
  apply (run_items_ok_perm (sigma_of p) (fun x => x) (valid_perm_class p Hp) label_renaming_id picks ns errs g E).
Qed.

Theorem regs_graph p picks ns : valid_perm p = true ->
  gen_full_cfg picks (map (rename_regs (sigma_of p)) ns)
  = map_res (rn_stage (sigma_of p) (fun x => x) (rn_cfg (sigma_of p) (fun x => x))) (gen_full_cfg picks ns).
Proof. intros Hp. rewrite <- map_rn_regs. apply gen_full_cfg_rn; [apply valid_perm_class, Hp | apply label_renaming_id]. Qed.

(* labels: exactly the same items *)
Theorem labels_diagnostics_eq rho picks ns errs g : label_renaming rho -> gen_full_cfg picks ns = Ok (SOk g) ->
  exists items, run_items picks ns errs = Ok items /\ run_items picks (map (rename_labels rho) ns) errs = Ok items.
Proof.
  intros Hr E. rewrite <- map_rn_labels.
  apply (run_items_ok_eq (fun r => r) rho class_perm_id Hr picks ns errs g keeps_order_id E).
Qed.

Theorem labels_graph rho picks ns : label_renaming rho ->
  gen_full_cfg picks (map (rename_labels rho) ns)
  = map_res (rn_stage (fun r => r) rho (rn_cfg (fun r => r) rho)) (gen_full_cfg picks ns).
Proof. intros Hr. rewrite <- map_rn_labels. apply gen_full_cfg_rn; [apply class_perm_id | exact Hr]. Qed.

(* ---- (3) per-node functions, stated for the two renamings separately ---------------------------------- *)
Lemma option_map_w_id {A} (o : option (wth A)) : option_map (map_w (fun x => x)) o = o.
Proof. destruct o as [w|]; [cbn; rewrite map_w_id|]; reflexivity. Qed.

Definition node_preds (n : pnode) : list bool :=
  [is_return n; is_ureturn n; is_ecall n; might_terminate n; can_skip_save_checks n; is_any_entry n; is_function_entry n;
   is_handler_function_entry n; is_program_entry n; is_instruction n; is_unconditional_jump n; is_datasec n; is_textsec n;
   is_directive n; loads_word n].

Lemma rn_node_preds s rho (Hs : class_perm s) n : node_preds (rn_node s rho n) = node_preds n.
Proof.
  unfold node_preds.
  rewrite (rn_is_return s rho Hs), (rn_is_ureturn s rho), (rn_is_ecall s rho), (rn_might_terminate s rho), (rn_can_skip s rho),
    (rn_is_any_entry s rho), (rn_is_function_entry s rho), (rn_is_handler s rho), (rn_is_program_entry s rho),
    (rn_is_instruction s rho), (rn_is_unconditional_jump s rho Hs), (rn_is_datasec s rho), (rn_is_textsec s rho),
    (rn_is_directive s rho), (rn_loads_word s rho). reflexivity.
Qed.

Theorem regs_node_facts s n : class_perm s ->
  let n' := rename_regs s n in
  kill_reg n' = perm_set s (kill_reg n) /\ gen_reg n' = perm_set s (gen_reg n) /\
  writes_to n' = option_map (map_w s) (writes_to n) /\ reads_from n' = map (map_w s) (reads_from n) /\
  stores_to_memory n' = option_map (pair3 s) (stores_to_memory n) /\
  reads_from_memory n' = option_map (pairm s) (reads_from_memory n) /\
  uses_memory_location n' = option_map (pairu s) (uses_memory_location n) /\
  gen_reg_value n' = option_map (rn_kv s (fun x => x)) (gen_reg_value n) /\
  gen_memory_value n' = option_map (rn_mkv s (fun x => x)) (gen_memory_value n) /\
  calls_to n' = calls_to n /\ jumps_to n' = jumps_to n /\ reads_address_of n' = reads_address_of n /\
  is_some_jump_to_label n' = is_some_jump_to_label n /\ label_of n' = label_of n /\
  node_raw n' = node_raw n /\ node_inst n' = node_inst n /\ node_preds n' = node_preds n.
Proof.
  intros Hs n'. unfold n'. rewrite <- (rn_node_regs s n).
  pose proof label_renaming_id as Hr.
  rewrite (rn_kill_reg s _ Hs), (rn_gen_reg s _ Hs), (rn_writes_to s), (rn_reads_from s _ Hs), (rn_stores_to_memory s _ Hs),
    (rn_reads_from_memory s), (rn_uses_memory_location s), (rn_gen_reg_value s _ Hs), (rn_gen_memory_value s _ Hs),
    (rn_calls_to s _ Hs), (rn_jumps_to s _ Hs), (rn_reads_address_of s), (rn_is_some_jump s _ Hs), (rn_label_of s),
    (rn_node_raw s), (rn_node_inst s), (rn_node_preds s _ Hs), !option_map_w_id.
  repeat split; reflexivity.
Qed.

Theorem labels_node_facts rho n :
  let n' := rename_labels rho n in
  kill_reg n' = kill_reg n /\ gen_reg n' = gen_reg n /\ writes_to n' = writes_to n /\ reads_from n' = reads_from n /\
  stores_to_memory n' = stores_to_memory n /\ reads_from_memory n' = reads_from_memory n /\
  uses_memory_location n' = uses_memory_location n /\
  calls_to n' = option_map (map_w rho) (calls_to n) /\ jumps_to n' = option_map (map_w rho) (jumps_to n) /\
  reads_address_of n' = option_map (map_w rho) (reads_address_of n) /\
  is_some_jump_to_label n' = option_map (map_w rho) (is_some_jump_to_label n) /\
  label_of n' = option_map (map_w rho) (label_of n) /\
  node_raw n' = node_raw n /\ node_inst n' = node_inst n /\ node_preds n' = node_preds n.
Proof.
  intros n'. unfold n'. destruct n; cbn [rename_labels]; repeat split; try reflexivity;
    cbn [calls_to jumps_to is_some_jump_to_label]; try (destruct (reg_is rd 1); reflexivity); try (destruct (reg_is rd 0); reflexivity).
  unfold kill_reg. cbn [calls_to is_function_entry writes_to]. destruct (reg_is rd 1); reflexivity.
Qed.

(* ---- exchanging two names is a label renaming ------------------------------------------------------ *)
Lemma str_eqb_false a b : str_eqb a b = false <-> a <> b.
Proof. rewrite <- str_eqb_eq. destruct (str_eqb a b); split; congruence. Qed.

Lemma str_eqb_dec a b : {a = b /\ str_eqb a b = true} + {a <> b /\ str_eqb a b = false}.
Proof.
  destruct (str_eqb a b) eqn:E; [left | right]; split; try reflexivity.
  - apply str_eqb_eq, E.
  - apply str_eqb_false, E.
Qed.

Lemma swap_str_inj a b : injective (swap_str a b).
Proof.
  intros x y E. unfold swap_str in E.
  destruct (str_eqb_dec x a) as [[Xa Xa']|[Xa Xa']]; destruct (str_eqb_dec y a) as [[Ya Ya']|[Ya Ya']];
  destruct (str_eqb_dec x b) as [[Xb Xb']|[Xb Xb']]; destruct (str_eqb_dec y b) as [[Yb Yb']|[Yb Yb']];
  rewrite ?Xa', ?Ya', ?Xb', ?Yb' in E; congruence.
Qed.

Lemma swap_str_renaming a b : a <> return_name -> b <> return_name -> label_renaming (swap_str a b).
Proof.
  intros Ha Hb. constructor; [apply swap_str_inj|]. unfold swap_str.
  replace (str_eqb return_name a) with false by (symmetry; apply str_eqb_false; congruence).
  replace (str_eqb return_name b) with false by (symmetry; apply str_eqb_false; congruence). reflexivity.
Qed.

(* ---- the node of a `CFunctionWithoutReturn` error is a function entry, which no renaming touches --------- *)
Lemma nth_opt_upd' {A} (l : list A) : forall i f j,
  nth_opt (upd l i f) j = if Nat.eqb i j then option_map f (nth_opt l j) else nth_opt l j.
Proof.
  induction l as [|y l IH]; intros i f j.
  - cbn. destruct (Nat.eqb i j); reflexivity.
  - destruct i, j; cbn; auto.
Qed.

Definition entries_ok (entries : list nat) (g : list cnode) : Prop :=
  forall j c, In j entries -> getn g j = Some c -> is_function_entry (cn c) = true.

Lemma eo_upd_cn entries g i F : (forall x, cn (F x) = cn x) -> entries_ok entries g -> entries_ok entries (upd g i F).
Proof.
  intros HF H j c Hj E. unfold getn in E. rewrite nth_opt_upd' in E. destruct (Nat.eqb i j).
  - destruct (nth_opt g j) as [x|] eqn:Ex; cbn [option_map] in E; [|discriminate]. injection E as <-.
    rewrite HF. apply (H j x Hj Ex).
  - apply (H j c Hj E).
Qed.
Lemma eo_upd_other entries g i F : ~ In i entries -> entries_ok entries g -> entries_ok entries (upd g i F).
Proof.
  intros Hi H j c Hj E. unfold getn in E. rewrite nth_opt_upd' in E. destruct (Nat.eqb_spec i j) as [->|Hn].
  - contradiction.
  - apply (H j c Hj E).
Qed.

Lemma is_fe_not_return n : is_function_entry n = true -> is_return n = false.
Proof. destruct n; cbn; try discriminate. reflexivity. Qed.

Lemma eo_mark_function entries g e pick g' :
  entries_ok entries (gnodes g) -> mark_function g e pick = inr g' -> entries_ok entries (gnodes g').
Proof.
  intros H E. unfold mark_function in E.
  destruct (filter _ (reachable (gnodes g) e)) as [|first rets] eqn:F; [discriminate|].
  assert (NR : forall i, In i (first :: rets) -> ~ In i entries).
  { intros i Hi Hin. rewrite <- F in Hi. apply filter_In in Hi. destruct Hi as [_ Hi].
    destruct (getn (gnodes g) i) as [c|] eqn:Ec; [|discriminate].
    rewrite (is_fe_not_return _ (H i c Hin Ec)) in Hi. discriminate. }
  remember (first :: rets) as rl eqn:Erl. clear Erl F.
  injection E as <-. unfold gnodes at 1.
  assert (G : forall l a, (forall i, In i l -> ~ In i entries) -> entries_ok entries a ->
              entries_ok entries (fold_left (fun g0 i =>
                 if Nat.eqb i (match pick with Some p => if memn p rl then p else first | None => first end) then g0
                 else match getn g0 i, getn g0 (match pick with Some p => if memn p rl then p else first | None => first end) with
                      | Some c, Some ex =>
                          upd (upd g0 i (fun x => set_cn (set_nexts x [match pick with Some p => if memn p rl then p else first | None => first end])
                                                         (rewritten_return c ex)))
                              (match pick with Some p => if memn p rl then p else first | None => first end)
                              (fun x => set_prevs x (ins i (prevs x)))
                      | _, _ => g0 end) l a)).
  { induction l as [|i l IH]; intros a Hl Ha; cbn [fold_left]; [exact Ha|].
    apply IH; [intros k Hk; apply Hl; right; exact Hk|].
    destruct (Nat.eqb i _); [exact Ha|]. destruct (getn a i); [|exact Ha]. destruct (getn a _); [|exact Ha].
    apply eo_upd_cn; [reflexivity|]. apply eo_upd_other; [apply Hl; left; reflexivity | exact Ha]. }
  apply G; [exact NR|].
  apply fold_left_inv'; [|exact H]. intros a x Ha. apply eo_upd_cn; [reflexivity | exact Ha].
Qed.

Lemma markup_loop_error_entry entries : forall picks g n ls,
  entries_ok entries (gnodes g) -> markup_loop entries picks g = inl (CFunctionWithoutReturn n ls) ->
  is_function_entry n = true.
Proof.
  induction entries as [|e es IH]; intros picks g n ls H E; cbn [markup_loop] in E; [discriminate|].
  destruct (mark_function g e (hd_opt picks)) as [err|g1] eqn:M.
  - injection E as ->. unfold mark_function in M.
    destruct (filter _ (reachable (gnodes g) e)); [|discriminate].
    destruct (getn (gnodes g) e) as [c|] eqn:Ec; [|discriminate]. injection M as <- _.
    apply (H e c); [left; reflexivity | exact Ec].
  - apply (IH (tl picks) g1 n ls); [|exact E].
    intros j c Hj Ec. apply (eo_mark_function (e :: es) g e (hd_opt picks) g1 H M j c); [right; exact Hj | exact Ec].
Qed.

Lemma function_markup_error_entry picks g n ls :
  function_markup picks g = inl (CFunctionWithoutReturn n ls) -> is_function_entry n = true.
Proof.
  unfold function_markup. apply markup_loop_error_entry.
  intros j c Hj Ec. unfold function_entries in Hj. apply filter_In in Hj. destruct Hj as [_ Hj].
  rewrite Ec in Hj. exact Hj.
Qed.

Lemma cfg_new_error_kind ns pd e : cfg_new ns pd = inl e -> forall n ls, e <> CFunctionWithoutReturn n ls.
Proof.
  unfold cfg_new. destruct (filter _ _); [|intros [= <-] n ls; discriminate].
  intros E n0 ls0.
  assert (B : forall ns cns pd cur all text acc e, build_nodes ns cns pd cur all text acc = inl e -> e <> CFunctionWithoutReturn n0 ls0).
  { clear. induction ns as [|n ns IH]; intros cns pd cur all text acc e E; cbn [build_nodes] in E; [discriminate|].
    destruct (label_of n) as [name|].
    - destruct (mem_name (wv name) all); [injection E as <-; discriminate | eapply IH, E].
    - destruct (is_datasec n); [eapply IH, E|]. destruct (is_textsec n); [eapply IH, E|].
      destruct (is_directive n); [eapply IH, E|]. destruct (any_in cur cns); eapply IH, E. }
  destruct (build_nodes ns _ pd [] [] true []) as [e'|nodes] eqn:Bn; [|discriminate].
  injection E as <-. eapply B, Bn.
Qed.
Lemma directions_error_kind g e : directions g = inl e -> forall n ls, e <> CFunctionWithoutReturn n ls.
Proof.
  unfold directions. intros E n0 ls0.
  assert (D : forall todo i prev g e, directions_loop todo i prev g = inl e -> e <> CFunctionWithoutReturn n0 ls0).
  { clear. induction todo as [|c todo IH]; intros i prev g e E; cbn [directions_loop] in E; [discriminate|].
    destruct (jumps_to (cn c)) as [label|].
    - destruct (find_label (wv label) g 0); [eapply IH, E | injection E as <-; discriminate].
    - eapply IH, E. }
  destruct (directions_loop (gnodes g) 0 None (gnodes g)) as [e'|nsx] eqn:Dn; [|discriminate].
  injection E as <-. eapply D, Dn.
Qed.

Theorem pipeline_error_entry picks ns n ls :
  gen_full_cfg picks ns = Ok (SErr (CFunctionWithoutReturn n ls)) -> is_function_entry n = true.
Proof.
  unfold gen_full_cfg. intros E.
  destruct (cfg_new ns None) as [e|g0] eqn:C0.
  { injection E as E. exfalso. apply (cfg_new_error_kind _ _ _ C0 n ls), E. }
  destruct (directions g0) as [e|g1] eqn:D0.
  { injection E as E. exfalso. apply (directions_error_kind _ _ D0 n ls), E. }
  apply bind_ok in E. destruct E as [g2 [A0 E]].
  destruct (cfg_new ns (Some (interrupt_handler_names g2))) as [e|h0] eqn:C1.
  { injection E as E. exfalso. apply (cfg_new_error_kind _ _ _ C1 n ls), E. }
  destruct (directions h0) as [e|h1] eqn:D1.
  { injection E as E. exfalso. apply (directions_error_kind _ _ D1 n ls), E. }
  apply bind_ok in E. destruct E as [h3 [A1 E]].
  destruct (function_markup picks (ecall_terminate h3)) as [e|h5] eqn:M.
  { injection E as ->. eapply function_markup_error_entry, M. }
  apply bind_ok in E. destruct E as [h6 [A2 E]].
  apply bind_ok in E. destruct E as [h8 [L E]]. discriminate.
Qed.

Lemma rn_node_entry s rho n : is_function_entry n = true -> rn_node s rho n = n.
Proof. destruct n; cbn; try discriminate. reflexivity. Qed.

Lemma map_map_w_id {A} (l : list (wth A)) : map (map_w (fun x => x)) l = l.
Proof. induction l as [|w l IH]; cbn [map]; [reflexivity|]. rewrite map_w_id, IH. reflexivity. Qed.

(* a pure register renaming does not change a CFG error of the pipeline *)
Lemma rn_cfgerr_regs s picks ns e : gen_full_cfg picks ns = Ok (SErr e) -> rn_cfgerr s (fun x => x) e = e.
Proof.
  intros E. destruct e as [ls|l|l|n ls|]; cbn [rn_cfgerr]; rewrite ?map_map_w_id, ?map_w_id; try reflexivity.
  rewrite (rn_node_entry s _ n (pipeline_error_entry picks ns n ls E)). reflexivity.
Qed.

(* registers, every case: the diagnostics of the permuted program are the original ones up to order *)
Theorem regs_items p picks ns errs : valid_perm p = true ->
  match run_items picks ns errs with
  | Ok items => exists items', run_items picks (map (rename_regs (sigma_of p)) ns) errs = Ok items' /\ Permutation items' items
  | Panic k => run_items picks (map (rename_regs (sigma_of p)) ns) errs = Panic k
  | OutOfFuel => run_items picks (map (rename_regs (sigma_of p)) ns) errs = OutOfFuel
  end.
Proof.
  intros Hp. pose proof (valid_perm_class p Hp) as Hs. rewrite <- map_rn_regs.
  rewrite !run_items_of, (gen_full_cfg_rn _ _ Hs label_renaming_id).
  destruct (gen_full_cfg picks ns) as [[g|e]| |] eqn:E; cbn [map_res rn_stage]; try reflexivity.
  - eexists. split; [reflexivity|]. apply Permutation_app_head, Permutation_map.
    apply run_diagnostics_perm; [exact Hs | apply label_renaming_id | eapply gen_full_cfg_sorted, E].
  - eexists. split; [reflexivity|]. rewrite (rn_cfgerr_regs _ picks ns e E). apply Permutation_refl.
Qed.

(* labels, every case: the same list, the CFG error renamed *)
Theorem labels_items rho picks ns errs : label_renaming rho ->
  (forall ls, gen_full_cfg picks ns = Ok (SErr (CLabelsNotDefined ls)) -> monotone_on rho ls) ->
  run_items picks (map (rename_labels rho) ns) errs
  = map_res (map (rn_ditem (fun r => r) rho)) (run_items picks ns errs).
Proof.
  intros Hr Hm. rewrite <- map_rn_labels.
  rewrite !run_items_of, (gen_full_cfg_rn _ _ class_perm_id Hr).
  destruct (gen_full_cfg picks ns) as [[g|e]| |] eqn:E; cbn [map_res rn_stage]; try reflexivity.
  - rewrite (run_diagnostics_eq _ _ g class_perm_id Hr keeps_order_id) by (eapply gen_full_cfg_sorted, E).
    f_equal. rewrite map_app. unfold parse_items. rewrite !map_map. reflexivity.
  - f_equal. rewrite map_app. unfold parse_items. rewrite map_map. cbn [map rn_ditem dk dlocs dopt rn_dkind].
    rewrite cfg_error_loc_rn; [reflexivity|]. intros ls ->. apply Hm. reflexivity.
Qed.
