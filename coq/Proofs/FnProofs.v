(* C11: functions are exactly the call targets and their bodies are what they reach.
   Proofs of the statements of Props/C11.v about `cfg_new`, `function_markup`
   (`mark_function`, `markup_loop`, `reachable`) and `lint_overlapping`. *)
From Coq Require Import List Arith Lia ZifyNat ZifyBool Sorted.
From RV.Model Require Import Base I32 Imm Lexer Isa Parser Cfg Avail Live Lints.
From RV.Spec Require Import CfgSpec.
From RV.Proofs Require Import CfgProofs.
From RV.Proofs Require ErrProofs.
Import ListNotations.
Local Open Scope nat_scope.

(* local copies of the helper definitions of Props/C11.v *)
Definition called_names (ns : list pnode) (handlers : list (wth str)) : list (wth str) :=
  filter_map calls_to ns ++ handlers.

Definition shared_entry (g : cfg) (i : nat) (c : cnode) : Prop :=
  (2 <= length (cfuncs c))%nat /\
  exists fid f, In fid (cfuncs c) /\ nth_opt (gfuncs g) fid = Some f /\ fentry f = i.

(* ---------------------------------------------------------------------------------------- *)
(* small list facts                                                                          *)
(* ---------------------------------------------------------------------------------------- *)
Lemma nth_opt_none {A} (l : list A) i : length l <= i -> nth_opt l i = None.
Proof.
  intros H. destruct (nth_opt l i) eqn:E; auto. apply nth_opt_lt in E. lia.
Qed.

Lemma nth_opt_snoc {A} (l : list A) x k y : nth_opt (l ++ [x]) k = Some y ->
  (k < length l /\ nth_opt l k = Some y) \/ (k = length l /\ y = x).
Proof.
  intros H. destruct (Nat.lt_ge_cases k (length l)) as [Hk|Hk].
  - left. split; auto. rewrite nth_opt_app_l in H; auto.
  - pose proof (nth_opt_lt _ _ _ H) as Hl. rewrite app_length in Hl. simpl in Hl.
    assert (k = length l) by lia. subst k. rewrite nth_opt_app_len in H. inversion H. auto.
Qed.

Lemma filter_map_In {A B} (f : A -> option B) y : forall l,
  In y (filter_map f l) <-> exists x, In x l /\ f x = Some y.
Proof.
  induction l as [|a l IH]; simpl.
  - split. intros []. intros [x [[] _]].
  - destruct (f a) eqn:Ha; simpl; rewrite IH; split.
    + intros [->|[x [Hx Hf]]]; eauto.
    + intros [x [[->|Hx] Hf]]; [left; congruence|right; eauto].
    + intros [x [Hx Hf]]; eauto.
    + intros [x [[->|Hx] Hf]]; [congruence|eauto].
Qed.

Lemma map_pointwise {B} (p : cnode -> B) (g g' : list cnode) :
  length g' = length g ->
  (forall j c', nth_opt g' j = Some c' -> exists c, nth_opt g j = Some c /\ p c' = p c) ->
  map p g' = map p g.
Proof.
  intros Hl H. apply nth_opt_ext. intros j. rewrite !nth_opt_map.
  destruct (nth_opt g' j) as [c'|] eqn:E.
  - destruct (H _ _ E) as [c [Hc Hp]]. rewrite Hc. simpl. now rewrite Hp.
  - destruct (nth_opt g j) as [c|] eqn:E2; auto. apply nth_opt_lt in E2.
    rewrite <- Hl in E2. destruct (nth_opt_some _ _ E2). congruence.
Qed.

(* ---------------------------------------------------------------------------------------- *)
(* (a) cfg_new: function entries are the called labels                                       *)
(* ---------------------------------------------------------------------------------------- *)
Lemma mem_name_app s a b : mem_name s (a ++ b) = (mem_name s a || mem_name s b)%bool.
Proof. induction a as [|x a IH]; simpl; auto. rewrite IH. now rewrite Bool.orb_assoc. Qed.

Lemma mem_name_rev s a : mem_name s (rev a) = mem_name s a.
Proof.
  induction a as [|x a IH]; simpl; auto. rewrite mem_name_app, IH. simpl.
  rewrite Bool.orb_false_r. apply Bool.orb_comm.
Qed.

Lemma mem_name_dedup s : forall l acc,
  mem_name s (dedup_names l acc) = (mem_name s l || mem_name s acc)%bool.
Proof.
  induction l as [|x l IH]; intros acc; simpl.
  - apply mem_name_rev.
  - destruct (mem_name (wv x) acc) eqn:Hm; rewrite IH; simpl.
    + destruct (str_eqb s (wv x)) eqn:He; simpl; auto.
      apply ErrProofs.str_eqb_eq in He. subst s. rewrite Hm. now rewrite Bool.orb_true_r.
    + destruct (str_eqb s (wv x)), (mem_name s l), (mem_name s acc); reflexivity.
Qed.

Lemma any_in_ext a b b' : (forall s, mem_name s b = mem_name s b') -> any_in a b = any_in a b'.
Proof. intros H. induction a as [|x a IH]; simpl; auto. now rewrite H, IH. Qed.

Lemma any_in_dedup a l : any_in a (dedup_names l []) = any_in a l.
Proof. apply any_in_ext. intros s. rewrite mem_name_dedup. simpl. apply Bool.orb_false_r. Qed.

Definition entry_ok (cns : list (wth str)) (c : cnode) : Prop :=
  (is_function_entry (cn c) = true -> any_in (clabels c) cns = true) /\
  (is_function_entry (cn c) = false -> any_in (clabels c) cns = false).

Lemma build_nodes_entries cns pd : forall ns cur all text acc l,
  (forall n, In n ns -> is_function_entry n = false) ->
  Forall (entry_ok cns) acc ->
  build_nodes ns cns pd cur all text acc = inr l -> Forall (entry_ok cns) l.
Proof.
  induction ns as [|n ns IH]; intros cur all text acc l Hns Hacc H; simpl in H.
  - inversion H; subst. apply Forall_rev; auto.
  - assert (Hi : forall m, In m ns -> is_function_entry m = false) by (intros m Hm; apply Hns; simpl; auto).
    assert (Hn : is_function_entry n = false) by (apply Hns; simpl; auto).
    destruct (label_of n).
    { destruct (mem_name (wv w) all); [discriminate|]. eapply IH; eauto. }
    destruct (is_datasec n); [eapply IH; eauto|].
    destruct (is_textsec n); [eapply IH; eauto|].
    destruct (is_directive n); [eapply IH; eauto|].
    destruct (any_in cur cns) eqn:Ha.
    + eapply IH; [exact Hi| |exact H].
      constructor. { split; simpl; intros; auto; congruence. }
      constructor. { split; simpl; intros; auto; congruence. }
      auto.
    + eapply IH; [exact Hi| |exact H].
      constructor. { split; simpl; intros; auto; congruence. }
      auto.
Qed.

(* NOTE: the hypothesis on `ns` is necessary: `ns = [PFuncEntry None raw_default false]` refutes
   the statement without it (the node is kept as it is, with no labels). *)
Theorem fn_iff_called :
  forall ns handlers g,
    (forall n, In n ns -> is_function_entry n = false) ->
    cfg_new ns (Some handlers) = inr g ->
    forall i c, node_at g i c ->
      (is_function_entry (cn c) = true -> any_in (clabels c) (called_names ns handlers) = true) /\
      (is_function_entry (cn c) = false -> any_in (clabels c) (called_names ns handlers) = false).
Proof.
  intros ns handlers g Hns H i c Hc. unfold cfg_new in H.
  destruct (filter _ _); [|discriminate].
  destruct (build_nodes _ _ _ _ _ _ _) as [e|l] eqn:Hb; [discriminate|].
  inversion H; subst g; clear H. unfold node_at in Hc. simpl in Hc.
  apply build_nodes_entries in Hb; auto.
  rewrite Forall_forall in Hb. apply nth_opt_In in Hc. specialize (Hb _ Hc).
  unfold entry_ok in Hb. rewrite any_in_dedup in Hb. exact Hb.
Qed.

(* ---------------------------------------------------------------------------------------- *)
(* (d) the overlap lint                                                                      *)
(* ---------------------------------------------------------------------------------------- *)
Lemma entry_with_func_some g i c :
  (exists f, is_function_entry_with_func g i c = Some f) <->
  exists fid f, In fid (cfuncs c) /\ nth_opt (gfuncs g) fid = Some f /\ fentry f = i.
Proof.
  unfold is_function_entry_with_func.
  set (F := fun fid => match nth_opt (gfuncs g) fid with
                       | Some f => if Nat.eqb (fentry f) i then Some f else None
                       | None => None end).
  split.
  - intros [f Hf]. destruct (filter_map F (cfuncs c)) as [|f0 l] eqn:E; [discriminate|].
    assert (Hin : In f0 (filter_map F (cfuncs c))) by (rewrite E; simpl; auto).
    apply filter_map_In in Hin. destruct Hin as [fid [Hfid HF]]. subst F. cbv beta in HF.
    destruct (nth_opt (gfuncs g) fid) as [f1|] eqn:E1; [|discriminate].
    destruct (Nat.eqb (fentry f1) i) eqn:E2; [|discriminate]. inversion HF; subst f1.
    apply Nat.eqb_eq in E2. exists fid, f0. auto.
  - intros [fid [f [Hin [Hf He]]]].
    assert (Hy : In f (filter_map F (cfuncs c))).
    { apply filter_map_In. exists fid. split; auto. subst F. cbv beta. rewrite Hf.
      apply Nat.eqb_eq in He. now rewrite He. }
    destruct (filter_map F (cfuncs c)) as [|f0 l]; [destruct Hy|]. eauto.
Qed.

Theorem overlap_reported_iff :
  forall g,
    (forall l, In l (lint_overlapping g) ->
       lcode l = LNodeInManyFunctions /\
       exists i c, node_at g i c /\ shared_entry g i c /\ lcands l = map (fun x => loc_of_tok (wt x)) (clabels c)) /\
    (forall i c, node_at g i c -> shared_entry g i c -> clabels c <> [] ->
       exists l, In l (lint_overlapping g) /\ lcands l = map (fun x => loc_of_tok (wt x)) (clabels c)).
Proof.
  intros g. split.
  - intros l Hin. unfold lint_overlapping, for_nodes in Hin.
    apply in_flat_map in Hin. destruct Hin as [i [_ Hin]]. unfold getn in Hin.
    destruct (nth_opt (gnodes g) i) as [c|] eqn:Hc; [|destruct Hin].
    destruct (Nat.ltb 1 (length (cfuncs c)) &&
              match is_function_entry_with_func g i c with Some _ => true | None => false end)%bool eqn:Hb;
      [|destruct Hin].
    apply Bool.andb_true_iff in Hb. destruct Hb as [Hb1 Hb2]. apply Nat.ltb_lt in Hb1.
    destruct (clabels c) as [|x ls] eqn:Hl; [destruct Hin|].
    destruct Hin as [<-|[]]. simpl. split; auto.
    exists i, c. split; auto. split.
    + split. lia. apply entry_with_func_some.
      destruct (is_function_entry_with_func g i c) as [f|]; [eauto|discriminate].
    + rewrite Hl. reflexivity.
  - intros i c Hc [Hlen Hex] Hl.
    apply entry_with_func_some in Hex. destruct Hex as [f Hf].
    destruct (clabels c) as [|x ls] eqn:Hlab; [congruence|].
    exists (mklint LNodeInManyFunctions (map (fun l => loc_of_tok (wt l)) (x :: ls)) false).
    split; [|reflexivity].
    unfold lint_overlapping, for_nodes. apply in_flat_map. exists i. split.
    + unfold indices. apply in_seq. apply nth_opt_lt in Hc. lia.
    + unfold getn. unfold node_at in Hc. rewrite Hc, Hf, Hlab.
      assert (Hlt : Nat.ltb 1 (length (cfuncs c)) = true) by (apply Nat.ltb_lt; lia).
      rewrite Hlt. simpl. auto.
Qed.

(* ---------------------------------------------------------------------------------------- *)
(* the label -> function map                                                                 *)
(* ---------------------------------------------------------------------------------------- *)
Definition has_key (l : str) (L : list (str * nat)) : Prop := exists fid, assoc_fn l L = Some fid.

Lemma has_key_In l L : has_key l L <-> exists p, In p L /\ fst p = l.
Proof.
  unfold has_key. induction L as [|[k v] L IH]; simpl.
  - split. intros [fid H]; discriminate. intros [p [[] _]].
  - destruct (str_eqb l k) eqn:E.
    + apply ErrProofs.str_eqb_eq in E. subst k. split; [|eauto]. intros _. exists (l, v). auto.
    + rewrite IH. split.
      * intros [p [Hp Hf]]. eauto.
      * intros [p [[<-|Hp] Hf]]; [|eauto]. simpl in Hf. subst k.
        assert (str_eqb l l = true) by (apply ErrProofs.str_eqb_eq; auto). congruence.
Qed.

Lemma has_key_app l a b : has_key l (a ++ b) <-> has_key l a \/ has_key l b.
Proof.
  rewrite !has_key_In. split.
  - intros [p [Hp Hf]]. apply in_app_iff in Hp. destruct Hp; [left|right]; eauto.
  - intros [[p [Hp Hf]]|[p [Hp Hf]]]; exists p; split; auto; apply in_app_iff; auto.
Qed.

Lemma has_key_labels l fid labels :
  has_key l (map (fun x : wth str => (wv x, fid)) labels) <-> mem_name l labels = true.
Proof.
  rewrite has_key_In, ErrProofs.mem_name_true. split.
  - intros [p [Hp Hf]]. apply in_map_iff in Hp. destruct Hp as [x [<- Hx]]. simpl in Hf. eauto.
  - intros [x [Hx Hw]]. exists (wv x, fid). split; auto. apply in_map_iff. eauto.
Qed.

(* ---------------------------------------------------------------------------------------- *)
(* reachability on node lists                                                                *)
(* ---------------------------------------------------------------------------------------- *)
Inductive rch (g : list cnode) : nat -> nat -> Prop :=
| rch_refl : forall a c, nth_opt g a = Some c -> rch g a a
| rch_step : forall a b c d, rch g a b -> nth_opt g b = Some c -> In d (nexts c) -> rch g a d.

Lemma reaches_rch G a b : reaches G a b <-> rch (gnodes G) a b.
Proof.
  split; induction 1.
  - eapply rch_refl; eauto.
  - eapply rch_step; eauto.
  - eapply reaches_refl; eauto.
  - eapply reaches_step; eauto.
Qed.

(* reachability along paths that stay inside a set *)
Inductive rchI (S : nat -> Prop) (g : list cnode) : nat -> nat -> Prop :=
| rchI_refl : forall a c, nth_opt g a = Some c -> S a -> rchI S g a a
| rchI_step : forall a b c d, rchI S g a b -> nth_opt g b = Some c -> In d (nexts c) -> S d -> rchI S g a d.

Lemma rchI_rch S g a b : rchI S g a b -> rch g a b.
Proof. induction 1. eapply rch_refl; eauto. eapply rch_step; eauto. Qed.

Lemma rchI_in S g a b : rchI S g a b -> S b.
Proof. induction 1; auto. Qed.

Lemma rch_rchI (S : nat -> Prop) g a : (forall x, rch g a x -> S x) -> forall b, rch g a b -> rchI S g a b.
Proof.
  intros HS b H. induction H.
  - eapply rchI_refl; eauto. apply HS. eapply rch_refl; eauto.
  - eapply rchI_step; eauto. apply HS. eapply rch_step; eauto.
Qed.

Lemma rchI_mono (S : nat -> Prop) g g' a b :
  (forall x c, S x -> nth_opt g x = Some c -> exists c', nth_opt g' x = Some c' /\ incl (nexts c) (nexts c')) ->
  rchI S g a b -> rchI S g' a b.
Proof.
  intros Hm H. induction H.
  - destruct (Hm _ _ H0 H) as [c' [Hc' _]]. eapply rchI_refl; eauto.
  - destruct (Hm _ _ (rchI_in _ _ _ _ H) H0) as [c' [Hc' Hi]]. eapply rchI_step; eauto.
Qed.

Lemma rch_closed (S : nat -> Prop) g a :
  S a -> (forall x c y, S x -> nth_opt g x = Some c -> In y (nexts c) -> S y) ->
  forall b, rch g a b -> S b.
Proof. intros Ha Hc b H. induction H; eauto. Qed.

Lemma rch_sub g g' a b :
  (forall x c' y, nth_opt g' x = Some c' -> In y (nexts c') -> exists c, nth_opt g x = Some c /\ In y (nexts c)) ->
  (forall x c', nth_opt g' x = Some c' -> exists c, nth_opt g x = Some c) ->
  rch g' a b -> rch g a b.
Proof.
  intros He Hv H. induction H.
  - destruct (Hv _ _ H) as [c0 Hc0]. eapply rch_refl; eauto.
  - destruct (He _ _ _ H0 H1) as [c0 [Hc0 Hin]]. eapply rch_step; eauto.
Qed.

(* ---- `reach` returns only reachable nodes ------------------------------------------------ *)
Lemma reach_mono : forall fuel g st seen x, In x seen -> In x (reach fuel g st seen).
Proof.
  induction fuel as [|f IH]; intros g st seen x H; simpl; auto.
  destruct st as [|y st]; auto. destruct (memn y seen); auto.
  destruct (getn g y); auto. apply IH. apply in_ins; auto.
Qed.

Lemma reach_valid : forall fuel g st seen,
  (forall x, In x seen -> exists c, nth_opt g x = Some c) ->
  forall x, In x (reach fuel g st seen) -> exists c, nth_opt g x = Some c.
Proof.
  induction fuel as [|f IH]; intros g st seen Hs x H; simpl in H; auto.
  destruct st as [|y st]; auto. destruct (memn y seen); [eapply IH; eauto|].
  destruct (getn g y) as [c|] eqn:Hy; [|eapply IH; eauto].
  eapply IH; [|exact H]. intros z Hz. apply in_ins in Hz. destruct Hz as [->|Hz]; eauto.
Qed.

Lemma reach_sound g s : forall fuel st seen,
  (forall x, In x seen -> rch g s x) ->
  (forall x c, In x st -> nth_opt g x = Some c -> rch g s x) ->
  forall y, In y (reach fuel g st seen) -> rch g s y.
Proof.
  induction fuel as [|f IH]; intros st seen Hs Hst y H; simpl in H; auto.
  destruct st as [|x st]; auto.
  destruct (memn x seen).
  { eapply IH; [exact Hs| |exact H]. intros z c Hz. apply Hst. simpl; auto. }
  destruct (getn g x) as [c|] eqn:Hx.
  - assert (Hrx : rch g s x) by (eapply Hst; simpl; eauto).
    eapply IH; [| |exact H].
    + intros z Hz. apply in_ins in Hz. destruct Hz as [->|Hz]; auto.
    + intros z cz Hz Hcz. apply in_app_iff in Hz. destruct Hz as [Hz|Hz].
      * eapply rch_step; eauto.
      * eapply Hst; simpl; eauto.
  - eapply IH; [exact Hs| |exact H]. intros z cz Hz. apply Hst. simpl; auto.
Qed.

Lemma reachable_sound g s y : In y (reachable g s) -> rch g s y.
Proof.
  unfold reachable. apply reach_sound.
  - intros x [].
  - intros x c [<-|[]] Hc. eapply rch_refl; eauto.
Qed.

Lemma reachable_valid g s x : In x (reachable g s) -> exists c, nth_opt g x = Some c.
Proof. unfold reachable. apply reach_valid. intros y []. Qed.

Lemma reachable_start g s c : nth_opt g s = Some c -> In s (reachable g s).
Proof.
  intros H. unfold reachable.
  destruct (S (length g) * S (length g)) as [|f] eqn:E; [lia|].
  simpl. unfold getn. rewrite H. apply reach_mono. simpl. auto.
Qed.

(* ---- ... and all of them, when the fuel suffices ----------------------------------------- *)
Definition deg (g : list cnode) (x : nat) : nat :=
  match nth_opt g x with Some c => length (nexts c) | None => 0 end.
Definition wsum (g : list cnode) (L seen : list nat) : nat :=
  list_sum (map (fun x => if memn x seen then 0 else deg g x) L).

Lemma memn_ins y x l : memn y (ins x l) = (Nat.eqb y x || memn y l)%bool.
Proof.
  apply Bool.eq_true_iff_eq. rewrite Bool.orb_true_iff, !memn_In, in_ins, Nat.eqb_eq. tauto.
Qed.

Lemma wsum_notin g x seen : forall L, ~ In x L -> wsum g L (ins x seen) = wsum g L seen.
Proof.
  unfold wsum. induction L as [|y L IH]; intros H; simpl; auto.
  rewrite IH by (intros Hx; apply H; simpl; auto).
  rewrite memn_ins. assert (Nat.eqb y x = false) by (apply Nat.eqb_neq; intros ->; apply H; simpl; auto).
  rewrite H0. reflexivity.
Qed.

Lemma wsum_ins g x seen : forall L, NoDup L -> In x L -> memn x seen = false ->
  wsum g L seen = wsum g L (ins x seen) + deg g x.
Proof.
  induction L as [|y L IH]; intros Hnd Hin Hm. destruct Hin.
  inversion Hnd as [|? ? Hy Hnd']; subst.
  destruct (Nat.eq_dec x y) as [->|Hne].
  - pose proof (wsum_notin g y seen L Hy) as Hn. unfold wsum in *. simpl.
    rewrite Hn, Hm, memn_ins, Nat.eqb_refl. simpl. lia.
  - destruct Hin as [->|Hin]; [congruence|].
    pose proof (IH Hnd' Hin Hm) as IH'. unfold wsum in *. simpl.
    rewrite memn_ins. assert (Nat.eqb y x = false) by (apply Nat.eqb_neq; congruence).
    rewrite H. simpl. lia.
Qed.

Lemma reach_complete g : forall fuel st seen,
  length st + wsum g (seq 0 (length g)) seen <= fuel ->
  (forall x c y cy, In x seen -> nth_opt g x = Some c -> In y (nexts c) -> nth_opt g y = Some cy ->
                    In y seen \/ In y st) ->
  (forall x c y cy, In x (reach fuel g st seen) -> nth_opt g x = Some c -> In y (nexts c) ->
                    nth_opt g y = Some cy -> In y (reach fuel g st seen)) /\
  (forall x c, In x st -> nth_opt g x = Some c -> In x (reach fuel g st seen)).
Proof.
  induction fuel as [|f IH]; intros st seen Hb Hinv.
  - destruct st as [|x st]; [|simpl in Hb; lia]. simpl. split.
    + intros x c y cy Hx Hc Hy Hcy. destruct (Hinv x c y cy) as [?|[]]; auto.
    + intros x c [].
  - destruct st as [|x st].
    + simpl. split.
      * intros x c y cy Hx Hc Hy Hcy. destruct (Hinv x c y cy) as [?|[]]; auto.
      * intros x c [].
    + simpl. destruct (memn x seen) eqn:Hm.
      * destruct (IH st seen) as [H1 H2].
        { simpl in Hb. lia. }
        { intros x0 c y cy Hx Hc Hy Hcy. destruct (Hinv x0 c y cy) as [?|[<-|?]]; auto.
          left. apply memn_In; auto. }
        split; auto. intros x0 c [<-|Hx0] Hc; [|eauto].
        apply reach_mono. apply memn_In; auto.
      * destruct (getn g x) as [c|] eqn:Hx; unfold getn in Hx.
        -- assert (Hxl : In x (seq 0 (length g))) by (apply in_seq; apply nth_opt_lt in Hx; lia).
           pose proof (wsum_ins g x seen _ (seq_NoDup _ _) Hxl Hm) as Hw.
           assert (Hd : deg g x = length (nexts c)) by (unfold deg; now rewrite Hx).
           destruct (IH (nexts c ++ st) (ins x seen)) as [H1 H2].
           { rewrite app_length. simpl in Hb. lia. }
           { intros x0 c0 y cy Hx0 Hc0 Hy Hcy. apply in_ins in Hx0. destruct Hx0 as [->|Hx0].
             - rewrite Hx in Hc0. inversion Hc0; subst c0. right. apply in_app_iff; auto.
             - destruct (Hinv x0 c0 y cy) as [?|[<-|?]]; auto.
               + left. apply in_ins; auto.
               + left. apply in_ins; auto.
               + right. apply in_app_iff; auto. }
           split; auto. intros x0 c0 [<-|Hx0] Hc0.
           ++ apply reach_mono. apply in_ins; auto.
           ++ eapply H2; eauto. apply in_app_iff; auto.
        -- destruct (IH st seen) as [H1 H2].
           { simpl in Hb. lia. }
           { intros x0 c y cy Hx0 Hc Hy Hcy. destruct (Hinv x0 c y cy) as [?|[<-|?]]; auto. congruence. }
           split; auto. intros x0 c [<-|Hx0] Hc; [congruence|eauto].
Qed.

Lemma list_sum_bound (f : nat -> nat) n : forall L, (forall x, f x <= n) -> list_sum (map f L) <= length L * n.
Proof. induction L as [|y L IH]; intros H; simpl. lia. specialize (IH H). specialize (H y). lia. Qed.

Lemma SS_succ_valid g a c b : SS g -> nth_opt g a = Some c -> In b (nexts c) -> exists cb, nth_opt g b = Some cb.
Proof.
  intros [Hsym _] Hc Hb. destruct (proj1 (Hsym a b)) as [cb [Hcb _]]. exists c; auto. eauto.
Qed.

Lemma deg_bound g x : SS g -> deg g x <= length g.
Proof.
  intros HS. unfold deg. destruct (nth_opt g x) as [c|] eqn:Hc; [|lia].
  rewrite <- (seq_length (length g) 0). apply NoDup_incl_length.
  - apply srt_NoDup. apply (proj2 HS _ _ Hc).
  - intros y Hy. destruct (SS_succ_valid _ _ _ _ HS Hc Hy) as [cy Hcy].
    apply in_seq. apply nth_opt_lt in Hcy. lia.
Qed.

Lemma reachable_closed g s x c y : SS g ->
  In x (reachable g s) -> nth_opt g x = Some c -> In y (nexts c) -> In y (reachable g s).
Proof.
  intros HS Hx Hc Hy. destruct (SS_succ_valid _ _ _ _ HS Hc Hy) as [cy Hcy].
  unfold reachable in *.
  destruct (reach_complete g (S (length g) * S (length g)) [s] []) as [H1 _].
  - unfold wsum. change (length [s]) with 1.
    pose proof (list_sum_bound (fun x => if memn x [] then 0 else deg g x) (length g) (seq 0 (length g))) as Hb.
    rewrite seq_length in Hb.
    assert (Hd : forall x, (if memn x [] then 0 else deg g x) <= length g) by (intros z; simpl; apply deg_bound; auto).
    specialize (Hb Hd).
    set (T := list_sum _) in *. nia.
  - intros x0 c0 y0 cy0 [].
  - eapply H1; eauto.
Qed.

Lemma reachable_complete g s y : SS g -> rch g s y -> In y (reachable g s).
Proof.
  intros HS H. induction H.
  - eapply reachable_start; eauto.
  - eapply reachable_closed; eauto.
Qed.

(* ---------------------------------------------------------------------------------------- *)
(* what one `mark_function` step does to the graph                                           *)
(* ---------------------------------------------------------------------------------------- *)
Lemma merge_not_return n : is_return_merge n = true -> is_return n = false.
Proof. destruct n; simpl; intros H; try discriminate; reflexivity. Qed.
Lemma merge_not_fe n : is_return_merge n = true -> is_function_entry n = false.
Proof. destruct n; simpl; intros H; try discriminate; reflexivity. Qed.
Lemma return_not_fe n : is_return n = true -> is_function_entry n = false.
Proof. destruct n; simpl; intros H; try discriminate; reflexivity. Qed.
Lemma ecall_not_merge n : is_ecall n = true -> is_return_merge n = false.
Proof. destruct n; simpl; intros H; try discriminate; reflexivity. Qed.

(* `g` is `g0` with the nodes of `D` other than `ex` turned into merge jumps to `ex` *)
Definition nrel (ex : nat) (D : nat -> Prop) (g0 g : list cnode) : Prop :=
  length g = length g0 /\
  forall j c', nth_opt g j = Some c' -> exists c, nth_opt g0 j = Some c /\
    clabels c' = clabels c /\ cfuncs c' = cfuncs c /\
    ((D j /\ j <> ex /\ is_return_merge (cn c') = true /\ nexts c' = [ex]) \/
     (~ (D j /\ j <> ex) /\ cn c' = cn c /\ nexts c' = nexts c)).

Lemma nrel_refl ex g : nrel ex (fun _ => False) g g.
Proof. split; auto. intros j c' H. exists c'. repeat split; auto. right. tauto. Qed.

Lemma nrel_ext ex (D D' : nat -> Prop) g0 g : (forall j, D j <-> D' j) -> nrel ex D g0 g -> nrel ex D' g0 g.
Proof.
  intros HD [Hl H]. split; auto. intros j c' Hc'.
  destruct (H j c' Hc') as [c [Hc [H1 [H2 H3]]]]. exists c. repeat split; auto.
  destruct H3 as [[Ha Hb]|[Ha Hb]]; [left|right].
  - split; auto. apply HD; auto.
  - split; auto. intros [Hd Hne]. apply Ha. split; auto. apply HD; auto.
Qed.

Lemma stepR_nrel ex D g0 g i : ex < length g0 ->
  nrel ex D g0 g -> nrel ex (fun j => D j \/ j = i) g0 (stepR ex g i).
Proof.
  intros Hex [Hl H].
  assert (Hsame : (i = ex \/ nth_opt g i = None) -> nrel ex (fun j => D j \/ j = i) g0 g).
  { intros Hi. split; auto. intros j c' Hc'.
    destruct (H j c' Hc') as [c [Hc [H1 [H2 H3]]]]. exists c. repeat split; auto.
    destruct H3 as [[Ha Hb]|[Ha Hb]]; [left; tauto|right].
    split; auto. intros [[Hd| ->] Hne]; [tauto|]. destruct Hi; congruence. }
  unfold stepR, getn. destruct (Nat.eqb i ex) eqn:Hiex.
  { apply Nat.eqb_eq in Hiex. auto. }
  apply Nat.eqb_neq in Hiex.
  destruct (nth_opt g i) as [ci|] eqn:Hci; [|auto].
  destruct (nth_opt g ex) as [e|] eqn:He.
  2:{ rewrite <- Hl in Hex. destruct (nth_opt_some _ _ Hex). congruence. }
  split. { now rewrite !length_upd. }
  intros j c' Hc'. rewrite !nth_opt_upd in Hc'.
  destruct (Nat.eq_dec j i) as [->|Hji].
  - assert (Nat.eqb ex i = false) by (apply Nat.eqb_neq; congruence).
    rewrite H0, Nat.eqb_refl, Hci in Hc'. simpl in Hc'. inversion Hc'; subst c'; clear Hc'.
    destruct (H i ci Hci) as [c [Hc [H1 [H2 _]]]]. exists c. simpl. repeat split; auto.
  - assert (Nat.eqb i j = false) by (apply Nat.eqb_neq; congruence). rewrite H0 in Hc'.
    assert (Hcj : exists cj, nth_opt g j = Some cj /\ cn c' = cn cj /\ nexts c' = nexts cj /\
                             clabels c' = clabels cj /\ cfuncs c' = cfuncs cj).
    { destruct (Nat.eqb ex j).
      - destruct (nth_opt g j) as [cj|]; simpl in Hc'; inversion Hc'; subst c'. exists cj. simpl. auto.
      - exists c'. auto. }
    destruct Hcj as [cj [Hcj [E1 [E2 [E3 E4]]]]].
    destruct (H j cj Hcj) as [c [Hc [H1 [H2 H3]]]]. exists c. rewrite E1, E2, E3, E4.
    repeat split; auto.
    destruct H3 as [[Ha Hb]|[Ha Hb]]; [left; tauto|right]. split; auto. tauto.
Qed.

Lemma stepR_fold_nrel ex g0 : ex < length g0 -> forall rets D g,
  nrel ex D g0 g -> nrel ex (fun j => D j \/ In j rets) g0 (fold_left (stepR ex) rets g).
Proof.
  intros Hex. induction rets as [|i rets IH]; intros D g H; simpl.
  - eapply nrel_ext; [|exact H]. intros j. tauto.
  - eapply nrel_ext; [|apply IH; apply stepR_nrel; eauto]. intros j. simpl. intuition.
Qed.

Lemma length_ins_ge x l : length l <= length (ins x l).
Proof.
  induction l as [|y l IH]; simpl. lia.
  destruct (Nat.eqb x y); simpl. lia. destruct (Nat.ltb x y); simpl; lia.
Qed.

Lemma length_ins_new x l : ~ In x l -> length (ins x l) = S (length l).
Proof.
  induction l as [|y l IH]; intros H; simpl; auto.
  destruct (Nat.eqb x y) eqn:E. { apply Nat.eqb_eq in E. subst. exfalso. apply H. simpl; auto. }
  destruct (Nat.ltb x y); simpl; auto. rewrite IH; auto. intros Hx. apply H. simpl; auto.
Qed.

Lemma mark_function_spec G entry pick G' :
  mark_function G entry pick = inr G' ->
  exists ex defs,
    gfuncs G' = gfuncs G ++ [mkfn entry ex (reachable (gnodes G) entry) defs] /\
    glabelfn G' = glabelfn G ++ map (fun l : wth str => (wv l, length (gfuncs G)))
                                    (match nth_opt (gnodes G) entry with Some c => clabels c | None => [] end) /\
    In ex (reachable (gnodes G) entry) /\
    (exists c, nth_opt (gnodes G) ex = Some c /\ is_return (cn c) = true) /\
    length (gnodes G') = length (gnodes G) /\
    forall j c', nth_opt (gnodes G') j = Some c' -> exists c, nth_opt (gnodes G) j = Some c /\
      clabels c' = clabels c /\
      cfuncs c' = (if memn j (reachable (gnodes G) entry) then ins (length (gfuncs G)) (cfuncs c) else cfuncs c) /\
      ((In j (reachable (gnodes G) entry) /\ is_return (cn c) = true /\ j <> ex /\
        is_return_merge (cn c') = true /\ nexts c' = [ex]) \/
       (~ (In j (reachable (gnodes G) entry) /\ is_return (cn c) = true /\ j <> ex) /\
        cn c' = cn c /\ nexts c' = nexts c)).
Proof.
  unfold mark_function. intros H.
  set (ns := gnodes G) in *. set (fid := length (gfuncs G)) in *.
  set (r := reachable ns entry) in *.
  remember (filter (fun i => match getn ns i with Some c => is_return (cn c) | None => false end) r)
    as rets eqn:Hrets.
  assert (Hr : NoDup r) by (apply srt_NoDup, reachable_srt).
  assert (Hin : forall k, In k rets <-> In k r /\ exists c, nth_opt ns k = Some c /\ is_return (cn c) = true).
  { intros k. subst rets. rewrite filter_In. unfold getn. split.
    - intros [Hk1 Hk2]. split; auto. destruct (nth_opt ns k) as [c|]; [eauto|discriminate].
    - intros [Hk1 [c [Hc Hk2]]]. split; auto. now rewrite Hc. }
  clear Hrets.
  destruct rets as [|first rest]; [discriminate|].
  set (ex := match pick with Some p => if memn p (first :: rest) then p else first | None => first end) in *.
  assert (Hexin : In ex (first :: rest)).
  { subst ex. destruct pick as [p|]; [|simpl; auto].
    destruct (memn p (first :: rest)) eqn:Hm; [apply memn_In; auto|simpl; auto]. }
  set (defs := fold_left _ r rs_empty) in *.
  set (ns1 := fold_left _ r ns) in *.
  inversion H; subst G'; clear H. simpl.
  destruct (proj1 (Hin ex) Hexin) as [Hexr [cex [Hcex Hrex]]].
  exists ex, defs. split; [reflexivity|]. split; [reflexivity|]. split; [exact Hexr|].
  split; [eauto|].
  assert (Hn1 : forall j, nth_opt ns1 j = if memn j r then option_map (fun c => set_cfuncs c (ins fid (cfuncs c))) (nth_opt ns j)
                                          else nth_opt ns j).
  { intros j. subst ns1. apply fold_upd_nth; auto. }
  assert (Hl1 : length ns1 = length ns).
  { subst ns1. apply fold_left_inv; auto. intros a b _ Ha. now rewrite length_upd. }
  assert (Hexl : ex < length ns1) by (rewrite Hl1; eapply nth_opt_lt; eauto).
  pose proof (stepR_fold_nrel ex ns1 Hexl (first :: rest) _ ns1 (nrel_refl ex ns1)) as [Hl2 H2].
  split. { etransitivity; [exact Hl2|exact Hl1]. }
  intros j c' Hc'. destruct (H2 j c' Hc') as [c1 [Hc1 [E1 [E2 E3]]]].
  rewrite Hn1 in Hc1.
  assert (Hc : exists c, nth_opt ns j = Some c /\ cn c1 = cn c /\ nexts c1 = nexts c /\ clabels c1 = clabels c /\
                         cfuncs c1 = if memn j r then ins fid (cfuncs c) else cfuncs c).
  { destruct (memn j r).
    - destruct (nth_opt ns j) as [c|]; simpl in Hc1; inversion Hc1; subst c1. exists c. simpl. auto.
    - exists c1. auto. }
  destruct Hc as [c [Hc [F1 [F2 [F3 F4]]]]]. exists c. split; auto.
  split. congruence. split. congruence.
  destruct E3 as [[[[]|Ha] [Hb [Hm Hn]]]|[Ha [Hb Hn]]].
  - left. apply Hin in Ha. destruct Ha as [Ha [c0 [Hc0 Hr0]]]. rewrite Hc in Hc0. inversion Hc0; subst c0. auto.
  - right. split; [|split; congruence]. intros [Hj [Hrj Hne]]. apply Ha. split; auto.
    right. apply Hin. split; auto. eauto.
Qed.

(* ---------------------------------------------------------------------------------------- *)
(* the invariant of the markup loop                                                          *)
(* ---------------------------------------------------------------------------------------- *)
Definition no_sharingN (g : list cnode) : Prop :=
  forall i c, nth_opt g i = Some c -> length (cfuncs c) <= 1.
Definition fe_at (g : list cnode) (e : nat) : Prop :=
  exists c, nth_opt g e = Some c /\ is_function_entry (cn c) = true.
Definition inb (f : func) (i : nat) : Prop := In i (fnodes f).

Lemma ins_not_nil x l : ins x l <> [].
Proof. intros H. assert (Hx : In x (ins x l)) by (apply in_ins; auto). rewrite H in Hx. destruct Hx. Qed.

Section Markup.
(* X: the parsed program contains no `jal x0, <return>` of its own *)
Variable X : Prop.

Record MI (G : cfg) : Prop := {
  mi_ss : SS (gnodes G);
  mi_ret : retN (gnodes G);
  mi_lt : forall i c fid, nth_opt (gnodes G) i = Some c -> In fid (cfuncs c) -> fid < length (gfuncs G);
  mi_srt : forall i c, nth_opt (gnodes G) i = Some c -> srt (cfuncs c);
  mi_mem : forall fid f i c, nth_opt (gfuncs G) fid = Some f -> nth_opt (gnodes G) i = Some c ->
             (In fid (cfuncs c) <-> In i (fnodes f));
  mi_valid : forall fid f i, nth_opt (gfuncs G) fid = Some f -> In i (fnodes f) ->
             exists c, nth_opt (gnodes G) i = Some c;
  mi_reach : forall fid f i, nth_opt (gfuncs G) fid = Some f -> In i (fnodes f) ->
             rchI (inb f) (gnodes G) (fentry f) i;
  mi_entry : forall fid f, nth_opt (gfuncs G) fid = Some f ->
             In (fentry f) (fnodes f) /\ In (fexit f) (fnodes f) /\ fe_at (gnodes G) (fentry f);
  mi_exit1 : forall fid f i c, nth_opt (gfuncs G) fid = Some f -> In i (fnodes f) ->
             nth_opt (gnodes G) i = Some c -> is_return (cn c) = true -> i = fexit f;
  mi_merge : X -> forall i c, nth_opt (gnodes G) i = Some c -> is_return_merge (cn c) = true -> cfuncs c <> [];
  mi_ns : no_sharingN (gnodes G) -> forall fid f, nth_opt (gfuncs G) fid = Some f ->
            (forall i, rch (gnodes G) (fentry f) i -> In i (fnodes f)) /\
            (exists c, nth_opt (gnodes G) (fexit f) = Some c /\ is_return (cn c) = true) /\
            (X -> forall i c, In i (fnodes f) -> nth_opt (gnodes G) i = Some c ->
                  is_return_merge (cn c) = true -> nexts c = [fexit f]) }.

Lemma mark_function_MI G e pick G' :
  mark_function G e pick = inr G' -> MI G -> fe_at (gnodes G) e -> MI G'.
Proof.
  intros Hm HI [ce [Hce Hfe]].
  destruct (mark_function_ok (fun _ => True) _ _ _ _ Hm (mi_ss _ HI) (mi_ret _ HI)) as [HS' [HR' _]].
  destruct (mark_function_spec _ _ _ _ Hm) as [ex [defs [Hgf [_ [Hexr [[cex [Hcex Hrex]] [Hlen Hpt0]]]]]]].
  set (ns := gnodes G) in *. set (fid := length (gfuncs G)) in *. set (r := reachable ns e) in *.
  set (fnew := mkfn e ex r defs) in *.
  assert (Hfun : forall k f, nth_opt (gfuncs G') k = Some f ->
            (k < fid /\ nth_opt (gfuncs G) k = Some f) \/ (k = fid /\ f = fnew)).
  { intros k f Hf. rewrite Hgf in Hf. apply nth_opt_snoc in Hf. exact Hf. }
  assert (Hfwd : forall j c, nth_opt ns j = Some c -> exists c', nth_opt (gnodes G') j = Some c').
  { intros j c Hc. apply nth_opt_some. rewrite Hlen. eapply nth_opt_lt; eauto. }
  assert (Hpt : forall j c c', nth_opt ns j = Some c -> nth_opt (gnodes G') j = Some c' ->
            clabels c' = clabels c /\
            cfuncs c' = (if memn j r then ins fid (cfuncs c) else cfuncs c) /\
            ((In j r /\ is_return (cn c) = true /\ j <> ex /\ is_return_merge (cn c') = true /\ nexts c' = [ex]) \/
             (~ (In j r /\ is_return (cn c) = true /\ j <> ex) /\ cn c' = cn c /\ nexts c' = nexts c))).
  { intros j c c' Hc Hc'. destruct (Hpt0 j c' Hc') as [c0 [Hc0 Hrest]]. rewrite Hc in Hc0.
    inversion Hc0; subst c0. exact Hrest. }
  assert (Hbwd : forall j c', nth_opt (gnodes G') j = Some c' -> exists c, nth_opt ns j = Some c).
  { intros j c' Hc'. destruct (Hpt0 j c' Hc') as [c0 [Hc0 _]]. eauto. }
  assert (Hedge : forall j c c', nth_opt ns j = Some c -> nth_opt (gnodes G') j = Some c' -> incl (nexts c) (nexts c')).
  { intros j c c' Hc Hc'. destruct (Hpt j c c' Hc Hc') as [_ [_ [[_ [Hr _]]|[_ [_ Hn]]]]].
    - rewrite (mi_ret _ HI j c Hc Hr). intros y [].
    - rewrite Hn. apply incl_refl. }
  assert (Hunch : forall j c c', nth_opt ns j = Some c -> nth_opt (gnodes G') j = Some c' -> ~ In j r ->
            cn c' = cn c /\ nexts c' = nexts c /\ cfuncs c' = cfuncs c).
  { intros j c c' Hc Hc' Hj. destruct (Hpt j c c' Hc Hc') as [_ [Hcf Hd]].
    apply memn_false in Hj. rewrite Hj in Hcf.
    destruct Hd as [[Hjr _]|[_ [H1 H2]]]; auto. apply memn_false in Hj. tauto. }
  assert (Hfe' : forall j c c', nth_opt ns j = Some c -> nth_opt (gnodes G') j = Some c' ->
            is_function_entry (cn c') = is_function_entry (cn c)).
  { intros j c c' Hc Hc'. destruct (Hpt j c c' Hc Hc') as [_ [_ [[_ [Hr [_ [Hmg _]]]]|[_ [H1 _]]]]].
    - rewrite (merge_not_fe _ Hmg), (return_not_fe _ Hr). reflexivity.
    - now rewrite H1. }
  assert (Hcl : forall x c y, In x r -> nth_opt ns x = Some c -> In y (nexts c) -> In y r).
  { intros x c y. apply reachable_closed. apply (mi_ss _ HI). }
  assert (Her : In e r) by (eapply reachable_start; eauto).
  assert (Hcfsub : forall j c c', nth_opt ns j = Some c -> nth_opt (gnodes G') j = Some c' ->
            forall k, In k (cfuncs c') <-> (k = fid /\ In j r) \/ In k (cfuncs c)).
  { intros j c c' Hc Hc' k. destruct (Hpt j c c' Hc Hc') as [_ [Hcf _]]. rewrite Hcf.
    destruct (memn j r) eqn:Hmj.
    - apply memn_In in Hmj. rewrite in_ins. tauto.
    - apply memn_false in Hmj. tauto. }
  constructor.
  - exact HS'.
  - exact HR'.
  - (* mi_lt *)
    intros i c' k Hc' Hk. destruct (Hbwd _ _ Hc') as [c Hc].
    apply (Hcfsub i c c' Hc Hc') in Hk. rewrite Hgf, app_length. simpl.
    destruct Hk as [[-> _]|Hk]. fold fid. lia.
    pose proof (mi_lt _ HI i c k Hc Hk). fold fid in H. lia.
  - (* mi_srt *)
    intros i c' Hc'. destruct (Hbwd _ _ Hc') as [c Hc].
    destruct (Hpt i c c' Hc Hc') as [_ [Hcf _]]. rewrite Hcf.
    pose proof (mi_srt _ HI i c Hc). destruct (memn i r); auto using srt_ins.
  - (* mi_mem *)
    intros k f i c' Hf Hc'. destruct (Hbwd _ _ Hc') as [c Hc].
    rewrite (Hcfsub i c c' Hc Hc').
    destruct (Hfun k f Hf) as [[Hk Hf0]|[-> ->]].
    + rewrite <- (mi_mem _ HI k f i c Hf0 Hc). split; [intros [[? _]|?]; [lia|auto]|auto].
    + simpl. split; [intros [[_ ?]|Hk]; auto|auto].
      pose proof (mi_lt _ HI i c fid Hc Hk). fold fid in H. lia.
  - (* mi_valid *)
    intros k f i Hf Hi. destruct (Hfun k f Hf) as [[Hk Hf0]|[-> ->]].
    + destruct (mi_valid _ HI k f i Hf0 Hi) as [c Hc]. eapply Hfwd; eauto.
    + simpl in Hi. destruct (reachable_valid _ _ _ Hi) as [c Hc]. eapply Hfwd; eauto.
  - (* mi_reach *)
    intros k f i Hf Hi.
    assert (Hmono : forall S a b, rchI S ns a b -> rchI S (gnodes G') a b).
    { intros S a b. apply rchI_mono. intros x c _ Hc. destruct (Hfwd _ _ Hc) as [c' Hc'].
      exists c'. split; auto. eapply Hedge; eauto. }
    apply Hmono. destruct (Hfun k f Hf) as [[Hk Hf0]|[-> ->]].
    + apply (mi_reach _ HI k f i Hf0 Hi).
    + simpl in *. apply rch_rchI.
      * intros x Hx. unfold inb; simpl. apply reachable_complete; auto. apply (mi_ss _ HI).
      * apply reachable_sound; auto.
  - (* mi_entry *)
    intros k f Hf. destruct (Hfun k f Hf) as [[Hk Hf0]|[-> ->]].
    + destruct (mi_entry _ HI k f Hf0) as [H1 [H2 [c [Hc Hfc]]]]. split; auto. split; auto.
      destruct (Hfwd _ _ Hc) as [c' Hc']. exists c'. split; auto. rewrite (Hfe' _ _ _ Hc Hc'). auto.
    + simpl. split; auto. split; auto.
      destruct (Hfwd _ _ Hce) as [c' Hc']. exists c'. split; auto. rewrite (Hfe' _ _ _ Hce Hc'). auto.
  - (* mi_exit1 *)
    intros k f i c' Hf Hi Hc' Hret. destruct (Hbwd _ _ Hc') as [c Hc].
    destruct (Hpt i c c' Hc Hc') as [_ [_ [[_ [_ [_ [Hmg _]]]]|[Hn [Hcn _]]]]].
    { rewrite (merge_not_return _ Hmg) in Hret. discriminate. }
    rewrite Hcn in Hret.
    destruct (Hfun k f Hf) as [[Hk Hf0]|[-> ->]].
    + apply (mi_exit1 _ HI k f i c Hf0 Hi Hc Hret).
    + simpl in *. destruct (Nat.eq_dec i ex); auto. exfalso. apply Hn. auto.
  - (* mi_merge *)
    intros HX i c' Hc' Hmg. destruct (Hbwd _ _ Hc') as [c Hc].
    destruct (Hpt i c c' Hc Hc') as [_ [Hcf [[Hir _]|[_ [Hcn _]]]]]; rewrite Hcf.
    + apply memn_In in Hir. rewrite Hir. apply ins_not_nil.
    + rewrite Hcn in Hmg. pose proof (mi_merge _ HI HX i c Hc Hmg). destruct (memn i r); auto using ins_not_nil.
  - (* mi_ns *)
    intros Hns'.
    assert (Hns : no_sharingN ns).
    { intros i c Hc. destruct (Hfwd _ _ Hc) as [c' Hc']. specialize (Hns' i c' Hc').
      destruct (Hpt i c c' Hc Hc') as [_ [Hcf _]]. rewrite Hcf in Hns'.
      destruct (memn i r); auto. pose proof (length_ins_ge fid (cfuncs c)). lia. }
    pose proof (mi_ns _ HI Hns) as IH.
    assert (Hdisj : forall k f i, nth_opt (gfuncs G) k = Some f -> In i (fnodes f) -> In i r -> False).
    { intros k f i Hf Hi Hir. destruct (mi_valid _ HI k f i Hf Hi) as [c Hc].
      destruct (Hfwd _ _ Hc) as [c' Hc']. specialize (Hns' i c' Hc').
      destruct (Hpt i c c' Hc Hc') as [_ [Hcf _]]. apply memn_In in Hir. rewrite Hir in Hcf.
      assert (Hk : In k (cfuncs c)) by (apply (mi_mem _ HI k f i c Hf Hc); auto).
      assert (Hnf : ~ In fid (cfuncs c)).
      { intros Hin. pose proof (mi_lt _ HI i c fid Hc Hin). fold fid in H. lia. }
      rewrite Hcf, (length_ins_new _ _ Hnf) in Hns'. destruct (cfuncs c); [destruct Hk|simpl in Hns'; lia]. }
    intros k f Hf. destruct (Hfun k f Hf) as [[Hk Hf0]|[-> ->]].
    + destruct (IH k f Hf0) as [Ia [[cx [Hcx Hrx]] Ic]].
      destruct (mi_entry _ HI k f Hf0) as [Hen [Hexf _]].
      split; [|split].
      * intros i Hri. apply (rch_closed (inb f) (gnodes G') (fentry f)); auto.
        intros x c' y Hx Hc' Hy. destruct (Hbwd _ _ Hc') as [c Hc].
        assert (Hxr : ~ In x r) by (intros Hxr; eapply Hdisj; eauto).
        destruct (Hunch x c c' Hc Hc' Hxr) as [_ [Hn _]]. rewrite Hn in Hy.
        apply Ia. eapply rch_step; eauto. eapply rchI_rch. apply (mi_reach _ HI k f x Hf0 Hx).
      * destruct (Hfwd _ _ Hcx) as [c' Hc']. exists c'. split; auto.
        assert (Hxr : ~ In (fexit f) r) by (intros Hxr; eapply Hdisj; eauto).
        destruct (Hunch _ cx c' Hcx Hc' Hxr) as [Hcn _]. now rewrite Hcn.
      * intros HX i c' Hi Hc' Hmg. destruct (Hbwd _ _ Hc') as [c Hc].
        assert (Hxr : ~ In i r) by (intros Hxr; eapply Hdisj; eauto).
        destruct (Hunch i c c' Hc Hc' Hxr) as [Hcn [Hn _]]. rewrite Hn.
        apply (Ic HX i c Hi Hc). now rewrite <- Hcn.
    + simpl. split; [|split].
      * intros i Hri. apply (rch_closed (fun x => In x r) (gnodes G') e); auto.
        intros x c' y Hx Hc' Hy. destruct (Hbwd _ _ Hc') as [c Hc].
        destruct (Hpt x c c' Hc Hc') as [_ [_ [[_ [_ [_ [_ Hn]]]]|[_ [_ Hn]]]]]; rewrite Hn in Hy.
        -- destruct Hy as [<-|[]]. auto.
        -- eapply Hcl; eauto.
      * destruct (Hfwd _ _ Hcex) as [c' Hc']. exists c'. split; auto.
        destruct (Hpt ex cex c' Hcex Hc') as [_ [_ [[_ [_ [Hne _]]]|[_ [Hcn _]]]]]; [congruence|].
        now rewrite Hcn.
      * intros HX i c' Hi Hc' Hmg. destruct (Hbwd _ _ Hc') as [c Hc].
        destruct (Hpt i c c' Hc Hc') as [_ [_ [[_ [_ [_ [_ Hn]]]]|[_ [Hcn _]]]]]; auto.
        exfalso. rewrite Hcn in Hmg. pose proof (mi_merge _ HI HX i c Hc Hmg) as Hne.
        destruct (cfuncs c) as [|k0 l] eqn:Hcfc; [congruence|].
        assert (Hk0 : In k0 (cfuncs c)) by (rewrite Hcfc; simpl; auto).
        pose proof (mi_lt _ HI i c k0 Hc Hk0) as Hlt.
        destruct (nth_opt_some _ _ Hlt) as [f0 Hf0].
        eapply (Hdisj k0 f0 i); eauto. apply (mi_mem _ HI k0 f0 i c Hf0 Hc); auto.
Qed.

(* labels and the kind of entry nodes are never changed *)
Definition frameLF (g g' : list cnode) : Prop :=
  length g' = length g /\
  forall j c', nth_opt g' j = Some c' -> exists c, nth_opt g j = Some c /\
    clabels c' = clabels c /\ is_function_entry (cn c') = is_function_entry (cn c).

Lemma frameLF_refl g : frameLF g g.
Proof. split; auto. intros j c' H. eauto. Qed.

Lemma frameLF_trans g1 g2 g3 : frameLF g1 g2 -> frameLF g2 g3 -> frameLF g1 g3.
Proof.
  intros [L1 H1] [L2 H2]. split. congruence.
  intros j c3 Hc3. destruct (H2 j c3 Hc3) as [c2 [Hc2 [A2 B2]]].
  destruct (H1 j c2 Hc2) as [c1 [Hc1 [A1 B1]]]. exists c1. split; auto. split; congruence.
Qed.

Lemma frameLF_fwd g g' j c : frameLF g g' -> nth_opt g j = Some c ->
  exists c', nth_opt g' j = Some c' /\ clabels c' = clabels c /\ is_function_entry (cn c') = is_function_entry (cn c).
Proof.
  intros [L H] Hc. assert (Hj : j < length g') by (rewrite L; eapply nth_opt_lt; eauto).
  destruct (nth_opt_some _ _ Hj) as [c' Hc']. exists c'. split; auto.
  destruct (H j c' Hc') as [c0 [Hc0 HH]]. rewrite Hc in Hc0. inversion Hc0; subst. auto.
Qed.

Lemma frameLF_fe g g' e : frameLF g g' -> fe_at g e -> fe_at g' e.
Proof.
  intros HF [c [Hc Hfe]]. destruct (frameLF_fwd _ _ _ _ HF Hc) as [c' [Hc' [_ Hf]]].
  exists c'. split; auto. congruence.
Qed.

Lemma mark_function_frame G e pick G' :
  mark_function G e pick = inr G' -> frameLF (gnodes G) (gnodes G').
Proof.
  intros Hm. destruct (mark_function_spec _ _ _ _ Hm) as [ex [defs [_ [_ [_ [_ [Hlen Hpt]]]]]]].
  split; auto. intros j c' Hc'. destruct (Hpt j c' Hc') as [c [Hc [Hl [_ Hd]]]].
  exists c. split; auto. split; auto.
  destruct Hd as [[_ [Hr [_ [Hmg _]]]]|[_ [Hcn _]]].
  - rewrite (merge_not_fe _ Hmg), (return_not_fe _ Hr). reflexivity.
  - now rewrite Hcn.
Qed.

Lemma markup_loop_MI : forall es picks G G',
  markup_loop es picks G = inr G' -> MI G -> (forall e, In e es -> fe_at (gnodes G) e) -> MI G'.
Proof.
  induction es as [|e es IH]; intros picks G G' H HI Hes; simpl in H.
  - inversion H; subst; auto.
  - destruct (mark_function G e (hd_opt picks)) as [err|G1] eqn:Hm; [discriminate|].
    eapply IH; [exact H| |].
    + eapply mark_function_MI; eauto. apply Hes; simpl; auto.
    + intros e' He'. eapply frameLF_fe. eapply mark_function_frame; eauto. apply Hes; simpl; auto.
Qed.

Lemma markup_loop_labels : forall es picks G G',
  markup_loop es picks G = inr G' ->
  frameLF (gnodes G) (gnodes G') /\
  (forall l, has_key l (glabelfn G') <->
             has_key l (glabelfn G) \/
             exists e c, In e es /\ nth_opt (gnodes G) e = Some c /\ mem_name l (clabels c) = true).
Proof.
  induction es as [|e es IH]; intros picks G G' H; simpl in H.
  - inversion H; subst. split. apply frameLF_refl.
    intros l. split; auto. intros [?|[e [c [[] _]]]]; auto.
  - destruct (mark_function G e (hd_opt picks)) as [err|G1] eqn:Hm; [discriminate|].
    destruct (IH _ _ _ H) as [HF2 HL2]. pose proof (mark_function_frame _ _ _ _ Hm) as HF1.
    split. eapply frameLF_trans; eauto.
    intros l. rewrite HL2.
    destruct (mark_function_spec _ _ _ _ Hm) as [ex [defs [_ [Hlf _]]]].
    rewrite Hlf, has_key_app, has_key_labels. split.
    + intros [[Hk|Hk]|[e' [c1 [He' [Hc1 Hmn]]]]]; auto.
      * right. destruct (nth_opt (gnodes G) e) as [c|] eqn:Hc; [|discriminate].
        exists e, c. simpl; auto.
      * right. destruct (proj2 HF1 e' c1 Hc1) as [c [Hc [Hl _]]]. exists e', c. rewrite <- Hl. simpl; auto.
    + intros [Hk|[e' [c [[<-|He'] [Hc Hmn]]]]]; auto.
      * left. right. now rewrite Hc.
      * right. destruct (frameLF_fwd _ _ _ _ HF1 Hc) as [c1 [Hc1 [Hl _]]]. exists e', c1. rewrite Hl. auto.
Qed.

End Markup.

(* ---------------------------------------------------------------------------------------- *)
(* the stages before the markup                                                              *)
(* ---------------------------------------------------------------------------------------- *)
Lemma build_nodes_all (Pn : cnode -> Prop) : (forall n l t, Pn (new_cnode n l t)) ->
  forall ns cns pd cur all text acc l, Forall Pn acc ->
  build_nodes ns cns pd cur all text acc = inr l -> Forall Pn l.
Proof.
  intros Hnew. induction ns as [|n ns IH]; intros cns pd cur all text acc l Hacc H; simpl in H.
  - inversion H; subst. apply Forall_rev; auto.
  - destruct (label_of n).
    { destruct (mem_name (wv w) all); [discriminate|]. eapply IH; eauto. }
    destruct (is_datasec n); [eapply IH; eauto|].
    destruct (is_textsec n); [eapply IH; eauto|].
    destruct (is_directive n); [eapply IH; eauto|].
    destruct (any_in cur cns); (eapply IH; [|exact H]); repeat constructor; auto.
Qed.

Lemma cfg_new_fl ns pd g : cfg_new ns pd = inr g ->
  gfuncs g = [] /\ glabelfn g = [] /\ Forall (fun c => cfuncs c = []) (gnodes g).
Proof.
  unfold cfg_new. intros H. destruct (filter _ _); [|discriminate].
  destruct (build_nodes _ _ _ _ _ _ _) as [e|l] eqn:Hb; [discriminate|].
  inversion H; subst; simpl. split; auto. split; auto.
  eapply build_nodes_all; [|constructor|exact Hb]. reflexivity.
Qed.

Lemma directions_fl g g' : directions g = inr g' -> gfuncs g' = gfuncs g /\ glabelfn g' = glabelfn g.
Proof. unfold directions. destruct (directions_loop _ _ _ _); intros H; inversion H; auto. Qed.

Lemma avail_pass_fl g g' : avail_pass g = Ok g' -> gfuncs g' = gfuncs g /\ glabelfn g' = glabelfn g.
Proof. unfold avail_pass. destruct (avail_loop _ _ _); simpl; intros H; inversion H; auto. Qed.

Lemma liveness_pass_fl g g' : liveness_pass g = Ok g' -> gfuncs g' = gfuncs g /\ glabelfn g' = glabelfn g.
Proof. unfold liveness_pass. destruct (live_loop _ _ _ _); simpl; intros H; inversion H; auto. Qed.

Lemma coreA_cfuncs g g' : map coreA g = map coreA g' -> map cfuncs g = map cfuncs g'.
Proof. intros H. apply (f_equal (map snd)) in H. rewrite !map_map in H. exact H. Qed.

Ltac eqb_consts :=
  repeat match goal with
         | |- context[N.eqb ?a ?b] => let v := eval vm_compute in (N.eqb a b) in change (N.eqb a b) with v
         end.

Lemma upto8_stages picks ns h5 : gen_cfg_upto 8 picks ns = Ok (SOk h5) ->
  exists hs h0 h4,
    cfg_new ns (Some hs) = inr h0 /\
    WF (gnodes h4) /\ map cn (gnodes h4) = map cn (gnodes h0) /\
    map cfuncs (gnodes h4) = map cfuncs (gnodes h0) /\
    gfuncs h4 = [] /\ glabelfn h4 = [] /\
    function_markup picks h4 = inr h5.
Proof.
  unfold gen_cfg_upto. eqb_consts. cbv iota. intros H.
  destruct (cfg_new ns None) as [e|g0] eqn:H0; [discriminate|].
  destruct (directions g0) as [e|g1] eqn:H1; [discriminate|].
  apply bind_Ok_inv in H. destruct H as [g2 [H2 H]].
  destruct (cfg_new ns (Some (interrupt_handler_names g2))) as [e|h0] eqn:H3; [discriminate|].
  destruct (directions h0) as [e|h1] eqn:H4; [discriminate|].
  apply bind_Ok_inv in H. destruct H as [h3 [H6 H]].
  destruct (function_markup picks (ecall_terminate h3)) as [e|h5'] eqn:H8; [discriminate|].
  inversion H; subst h5'; clear H.
  exists (interrupt_handler_names g2), h0, (ecall_terminate h3).
  pose proof (cfg_new_fresh _ _ _ H3) as F3.
  assert (W3 : WF (gnodes h0)) by (eapply fresh_WF; eauto).
  destruct (directions_pres _ _ H4 W3) as [W4 [Cn4 _]].
  destruct (dead_code_pres h1 W4) as [W5 [Cn5 _]].
  destruct (avail_pass_core _ _ H6) as [C6 _].
  pose proof (coreA_coreB _ _ (eq_sym C6)) as B6.
  destruct (core_pres _ _ B6 W5) as [W6 [Cn6 _]].
  destruct (ecall_terminate_pres h3 W6) as [W7 [Cn7 _]].
  destruct (cfg_new_fl _ _ _ H3) as [Gf0 [Gl0 _]].
  destruct (directions_fl _ _ H4) as [Gf1 Gl1].
  destruct (avail_pass_fl _ _ H6) as [Gf3 Gl3].
  split; auto. split; auto. split. { congruence. }
  split.
  { rewrite (ErrProofs.ecall_terminate_pr cfuncs (fun _ _ => eq_refl) (fun _ _ => eq_refl)).
    rewrite (coreA_cfuncs _ _ C6).
    rewrite (ErrProofs.dead_code_pr cfuncs (fun _ _ => eq_refl) (fun _ _ => eq_refl)).
    apply (ErrProofs.directions_pr cfuncs (fun _ _ => eq_refl) (fun _ _ => eq_refl)). auto. }
  simpl. split. { rewrite Gf3. simpl. congruence. }
  split. { rewrite Gl3. simpl. congruence. }
  auto.
Qed.

Lemma full_stages picks ns g : gen_full_cfg picks ns = Ok (SOk g) ->
  exists h5 h6, gen_cfg_upto 8 picks ns = Ok (SOk h5) /\ avail_pass h5 = Ok h6 /\
                liveness_pass (ecall_terminate h6) = Ok g.
Proof.
  rewrite full_is_upto. unfold gen_cfg_upto. eqb_consts. cbv iota.
  destruct (cfg_new ns None) as [e|g0]; [intros; discriminate|].
  destruct (directions g0) as [e|g1]; [intros; discriminate|].
  destruct (avail_pass g1) as [g2| |]; simpl bind; [|intros; discriminate..].
  destruct (cfg_new ns (Some (interrupt_handler_names g2))) as [e|h0]; [intros; discriminate|].
  destruct (directions h0) as [e|h1]; [intros; discriminate|].
  destruct (avail_pass (dead_code h1)) as [h3| |]; simpl bind; [|intros; discriminate..].
  destruct (function_markup picks (ecall_terminate h3)) as [e|h5]; [intros; discriminate|].
  intros H. apply bind_Ok_inv in H. destruct H as [h6 [H9 H]].
  apply bind_Ok_inv in H. destruct H as [h8 [H11 H]]. inversion H; subst h8.
  exists h5, h6. auto.
Qed.

Lemma fe_not_merge n : is_function_entry n = true -> is_return_merge n = false.
Proof. destruct n; simpl; intros H; try discriminate; reflexivity. Qed.

Lemma MI_init (X : Prop) G : WF (gnodes G) -> gfuncs G = [] -> Forall (fun c => cfuncs c = []) (gnodes G) ->
  (X -> forall c, In c (gnodes G) -> is_return_merge (cn c) = false) -> MI X G.
Proof.
  intros HW Hf Hc HX. rewrite Forall_forall in Hc.
  constructor; try (intros; rewrite Hf in *; rewrite nth_opt_nil in *; discriminate).
  - apply HW.
  - apply WF_retN; auto.
  - intros i c fid Hi Hin. apply nth_opt_In in Hi. rewrite (Hc _ Hi) in Hin. destruct Hin.
  - intros i c Hi. apply nth_opt_In in Hi. rewrite (Hc _ Hi). apply srt_nil.
  - intros Hx i c Hi Hm. apply nth_opt_In in Hi. rewrite (HX Hx _ Hi) in Hm. discriminate.
Qed.

Lemma function_entries_fe G e : In e (function_entries G) <-> fe_at (gnodes G) e.
Proof.
  unfold function_entries, fe_at, getn. rewrite filter_In, in_seq. split.
  - intros [_ H]. destruct (nth_opt (gnodes G) e) as [c|]; [eauto|discriminate].
  - intros [c [Hc Hf]]. rewrite Hc. split; auto. apply nth_opt_lt in Hc. lia.
Qed.

Definition no_merge (ns : list pnode) : Prop := forall n, In n ns -> is_return_merge n = false.

(* everything known about the graph right after the markup (stage 8) *)
Lemma markup8 picks ns h5 : gen_cfg_upto 8 picks ns = Ok (SOk h5) ->
  MI (no_merge ns) h5 /\
  (forall l, has_key l (glabelfn h5) <->
             exists i c, nth_opt (gnodes h5) i = Some c /\ is_function_entry (cn c) = true /\
                         mem_name l (clabels c) = true).
Proof.
  intros H. destruct (upto8_stages _ _ _ H) as [hs [h0 [h4 [H3 [W4 [Cn4 [Cf4 [Gf4 [Gl4 Hm]]]]]]]]].
  destruct (cfg_new_fl _ _ _ H3) as [_ [_ Hc0]]. pose proof (cfg_new_fresh _ _ _ H3) as F0.
  rewrite Forall_forall in Hc0, F0.
  assert (HI4 : MI (no_merge ns) h4).
  { apply MI_init; auto.
    - rewrite Forall_forall. intros c Hc. apply (in_map cfuncs) in Hc. rewrite Cf4 in Hc.
      apply in_map_iff in Hc. destruct Hc as [c0 [<- Hc0']]. auto.
    - intros HX c Hc. apply (in_map cn) in Hc. rewrite Cn4 in Hc.
      apply in_map_iff in Hc. destruct Hc as [c0 [<- Hc0']].
      destruct (F0 _ Hc0') as [_ [_ [Hin|Hfe]]]. apply HX; auto. apply fe_not_merge; auto. }
  unfold function_markup in Hm. split.
  - eapply markup_loop_MI; eauto. intros e He. apply function_entries_fe; auto.
  - destruct (markup_loop_labels _ _ _ _ Hm) as [HF HL]. intros l. rewrite HL, Gl4. split.
    + intros [[fid Hk]|[e [c [He [Hc Hmn]]]]]; [discriminate|].
      apply function_entries_fe in He. destruct He as [c0 [Hc0' Hfe]]. rewrite Hc in Hc0'. inversion Hc0'; subst c0.
      destruct (frameLF_fwd _ _ _ _ HF Hc) as [c' [Hc' [Hl Hf]]]. exists e, c'. rewrite Hl, Hf. auto.
    + intros [i [c' [Hc' [Hfe Hmn]]]]. right. destruct (proj2 HF i c' Hc') as [c [Hc [Hl Hf]]].
      exists i, c. rewrite <- Hl. split; auto. apply function_entries_fe. exists c. split; auto. congruence.
Qed.

(* ---------------------------------------------------------------------------------------- *)
(* the stages after the markup                                                               *)
(* ---------------------------------------------------------------------------------------- *)
Definition tstep (g g' : list cnode) : Prop :=
  length g' = length g /\
  forall j c', nth_opt g' j = Some c' -> exists c, nth_opt g j = Some c /\
    cn c' = cn c /\ rin c' = rin c /\ clabels c' = clabels c /\ cfuncs c' = cfuncs c /\
    (nexts c' = nexts c \/ (nexts c' = [] /\ is_program_exit c = true)).

Lemma tstep_refl g : tstep g g.
Proof. split; auto. intros j c' H. exists c'. auto 8. Qed.

Lemma tstep_trans g1 g2 g3 : tstep g1 g2 -> tstep g2 g3 -> tstep g1 g3.
Proof.
  intros [L1 H1] [L2 H2]. split. congruence.
  intros j c3 Hc3. destruct (H2 j c3 Hc3) as [c2 [Hc2 [A2 [B2 [C2 [D2 E2]]]]]].
  destruct (H1 j c2 Hc2) as [c1 [Hc1 [A1 [B1 [C1 [D1 E1]]]]]].
  exists c1. split; auto. split. congruence. split. congruence. split. congruence. split. congruence.
  destruct E2 as [E2|[E2 X2]].
  - destruct E1 as [E1|[E1 X1]]; [left; congruence|right; split; [congruence|auto]].
  - right. split; auto. rewrite <- X2. symmetry. apply is_program_exit_ext; auto.
Qed.

Definition np (c : cnode) := (cn c, rin c, clabels c, cfuncs c, nexts c).

Lemma ecall_term_step_tstep g i : tstep g (ecall_term_step g i).
Proof.
  unfold ecall_term_step, getn. destruct (nth_opt g i) as [c|] eqn:Hc; [|apply tstep_refl].
  destruct (is_program_exit c) eqn:Hx; [|apply tstep_refl].
  set (F := fold_left _ (nexts c) g).
  assert (HF : map np F = map np g).
  { subst F. apply fold_left_inv; auto. intros a b _ Ha. rewrite <- Ha. apply map_upd. reflexivity. }
  assert (HL : length F = length g).
  { rewrite <- (map_length np F), HF. apply map_length. }
  split. { now rewrite length_upd. }
  intros j c' Hc'. rewrite nth_opt_upd in Hc'.
  destruct (Nat.eqb i j) eqn:Hij.
  - apply Nat.eqb_eq in Hij. subst j.
    destruct (nth_opt F i) as [cF|] eqn:HcF; simpl in Hc'; inversion Hc'; subst c'; clear Hc'.
    destruct (proj_nth np g F (eq_sym HF) i cF HcF) as [c0 [Hc0 Heq]]. rewrite Hc in Hc0. inversion Hc0; subst c0.
    unfold np in Heq. inversion Heq. exists c. simpl. repeat split; auto.
  - destruct (proj_nth np g F (eq_sym HF) j c' Hc') as [c0 [Hc0 Heq]].
    unfold np in Heq. inversion Heq. exists c0. repeat split; auto.
Qed.

Lemma ecall_terminate_tstep G : tstep (gnodes G) (gnodes (ecall_terminate G)).
Proof.
  unfold ecall_terminate; simpl. apply fold_left_inv. apply tstep_refl.
  intros a b _ Ha. eapply tstep_trans; eauto. apply ecall_term_step_tstep.
Qed.

Definition post (g g' : list cnode) : Prop :=
  length g' = length g /\
  forall j c', nth_opt g' j = Some c' -> exists c, nth_opt g j = Some c /\
    cn c' = cn c /\ clabels c' = clabels c /\ cfuncs c' = cfuncs c /\
    (nexts c' = nexts c \/ (nexts c' = [] /\ is_program_exit c' = true)).

Lemma post_fwd g g' j c : post g g' -> nth_opt g j = Some c ->
  exists c', nth_opt g' j = Some c' /\ cn c' = cn c /\ clabels c' = clabels c /\ cfuncs c' = cfuncs c /\
             (nexts c' = nexts c \/ (nexts c' = [] /\ is_program_exit c' = true)).
Proof.
  intros [L H] Hc. assert (Hj : j < length g') by (rewrite L; eapply nth_opt_lt; eauto).
  destruct (nth_opt_some _ _ Hj) as [c' Hc']. exists c'. split; auto.
  destruct (H j c' Hc') as [c0 [Hc0 HH]]. rewrite Hc in Hc0. inversion Hc0; subst. auto.
Qed.

Lemma map_eq_length {B} (p : cnode -> B) g g' : map p g = map p g' -> length g = length g'.
Proof. intros H. rewrite <- (map_length p g), H. apply map_length. Qed.

Lemma final_setup picks ns g : gen_full_cfg picks ns = Ok (SOk g) ->
  exists h5, gen_cfg_upto 8 picks ns = Ok (SOk h5) /\ post (gnodes h5) (gnodes g) /\
             gfuncs g = gfuncs h5 /\ glabelfn g = glabelfn h5.
Proof.
  intros H. destruct (full_stages _ _ _ H) as [h5 [h6 [H8 [H9 H11]]]].
  exists h5. split; auto.
  destruct (avail_pass_core _ _ H9) as [C9 _]. destruct (avail_pass_fl _ _ H9) as [Gf9 Gl9].
  destruct (liveness_pass_core _ _ H11) as [C11 _]. destruct (liveness_pass_fl _ _ H11) as [Gf11 Gl11].
  pose proof (ecall_terminate_tstep h6) as [L10 T10].
  split; [|simpl in *; split; congruence].
  split.
  { rewrite (map_eq_length _ _ _ C11), L10. apply (map_eq_length _ _ _ C9). }
  intros j c' Hc'.
  destruct (proj_nth coreL _ _ (eq_sym C11) j c' Hc') as [c7 [Hc7 E7]].
  destruct (T10 j c7 Hc7) as [c6 [Hc6 [A6 [B6 [D6 [F6 N6]]]]]].
  destruct (proj_nth coreA _ _ (eq_sym C9) j c6 Hc6) as [c5 [Hc5 E5]].
  unfold coreL, coreA, coreB in E7, E5. inversion E7. inversion E5.
  exists c5. split; auto. split. congruence. split. congruence. split. congruence.
  destruct N6 as [N6|[N6 X6]]; [left; congruence|right]. split. congruence.
  rewrite <- X6. apply is_program_exit_ext; congruence.
Qed.

Lemma exit_is_ecall c : is_program_exit c = true -> is_ecall (cn c) = true.
Proof. unfold is_program_exit, known_ecall. destruct (is_ecall (cn c)); auto. Qed.

(* ---------------------------------------------------------------------------------------- *)
(* the theorems of Props/C11.v                                                               *)
(* ---------------------------------------------------------------------------------------- *)
Theorem label_owns_function :
  forall picks ns g, gen_full_cfg picks ns = Ok (SOk g) ->
    forall l, (exists fid, assoc_fn l (glabelfn g) = Some fid) <->
              (exists i c, node_at g i c /\ is_function_entry (cn c) = true /\ mem_name l (clabels c) = true).
Proof.
  intros picks ns g H l. destruct (final_setup _ _ _ H) as [h5 [H8 [HP [Gf Gl]]]].
  destruct (markup8 _ _ _ H8) as [_ HL].
  change (has_key l (glabelfn g) <->
          (exists i c, node_at g i c /\ is_function_entry (cn c) = true /\ mem_name l (clabels c) = true)).
  rewrite Gl, HL. unfold node_at. split.
  - intros [i [c [Hc [Hfe Hmn]]]]. destruct (post_fwd _ _ _ _ HP Hc) as [c' [Hc' [A [B _]]]].
    exists i, c'. rewrite A, B. auto.
  - intros [i [c' [Hc' [Hfe Hmn]]]]. destruct (proj2 HP i c' Hc') as [c [Hc [A [B _]]]].
    exists i, c. rewrite <- A, <- B. auto.
Qed.

(* the graph right after the markup (stage 8): the body statement as written *)
Theorem fn_body_markup :
  forall picks ns g, gen_cfg_upto 8 picks ns = Ok (SOk g) ->
    forall fid f, nth_opt (gfuncs g) fid = Some f ->
      (forall i c, node_at g i c -> (In fid (cfuncs c) <-> In i (fnodes f))) /\
      (forall i, In i (fnodes f) -> reaches g (fentry f) i) /\
      In (fentry f) (fnodes f) /\ In (fexit f) (fnodes f) /\
      (exists c, node_at g (fentry f) c /\ is_function_entry (cn c) = true) /\
      (no_sharing g -> forall i, reaches g (fentry f) i -> In i (fnodes f)).
Proof.
  intros picks ns g H fid f Hf. destruct (markup8 _ _ _ H) as [HI _].
  destruct (mi_entry _ _ HI fid f Hf) as [He [Hx Hfe]].
  split; [|split; [|split; [|split; [|split]]]]; auto.
  - intros i c Hc. apply (mi_mem _ _ HI fid f i c Hf Hc).
  - intros i Hi. apply reaches_rch. eapply rchI_rch. apply (mi_reach _ _ HI fid f i Hf Hi).
  - intros Hns i Hr. apply reaches_rch in Hr.
    destruct (mi_ns _ _ HI Hns fid f Hf) as [Ha _]. auto.
Qed.

(* the finished graph.  NOTE the guard of the second conjunct: the second `ecall_terminate`
   may cut the successors of an exit ecall inside the body that only the second value analysis
   recognises; the nodes behind it stay listed in `fnodes`.  Counterexample to the unguarded
   conjunct (picks = []):
     main: jal f / li a7,10 / ecall
     f: csrrw t0,64,x0 / li t2,10 / sw t2,0(t0) / li a7,10
     L: lw t1,0(t0) / beqz a0,skip / addi a7,t1,0
     skip: ecall / addi a0,a0,-1 / bnez a0,L / ret
   stage 7: the ecall (node 12) has an unknown a7; stage 9: a7 = 10 there; final graph:
   fnodes = [4..15] but only [4..12] are reachable from the entry 4. *)
Theorem fn_body :
  forall picks ns g, gen_full_cfg picks ns = Ok (SOk g) ->
    forall fid f, nth_opt (gfuncs g) fid = Some f ->
      (forall i c, node_at g i c -> (In fid (cfuncs c) <-> In i (fnodes f))) /\
      ((forall i c, In i (fnodes f) -> node_at g i c -> is_program_exit c = false) ->
       forall i, In i (fnodes f) -> reaches g (fentry f) i) /\
      In (fentry f) (fnodes f) /\ In (fexit f) (fnodes f) /\
      (exists c, node_at g (fentry f) c /\ is_function_entry (cn c) = true) /\
      (no_sharing g -> forall i, reaches g (fentry f) i -> In i (fnodes f)).
Proof.
  intros picks ns g H fid f Hf. destruct (final_setup _ _ _ H) as [h5 [H8 [HP [Gf Gl]]]].
  destruct (markup8 _ _ _ H8) as [HI _]. rewrite Gf in Hf.
  destruct (mi_entry _ _ HI fid f Hf) as [He [Hx [ce [Hce Hfe]]]].
  unfold node_at.
  split; [|split; [|split; [|split; [|split]]]]; auto.
  - intros i c' Hc'. destruct (proj2 HP i c' Hc') as [c [Hc [_ [_ [Hcf _]]]]]. rewrite Hcf.
    apply (mi_mem _ _ HI fid f i c Hf Hc).
  - intros Hg i Hi. apply reaches_rch. eapply rchI_rch.
    eapply rchI_mono; [|apply (mi_reach _ _ HI fid f i Hf Hi)].
    intros x c Hx' Hc. destruct (post_fwd _ _ _ _ HP Hc) as [c' [Hc' [_ [_ [_ Hn]]]]].
    exists c'. split; auto. destruct Hn as [Hn|[_ Hn]].
    + rewrite Hn. apply incl_refl.
    + rewrite (Hg x c' Hx' Hc') in Hn. discriminate.
  - destruct (post_fwd _ _ _ _ HP Hce) as [c' [Hc' [A _]]]. exists c'. rewrite A. auto.
  - intros Hns i Hr. apply reaches_rch in Hr.
    assert (Hns5 : no_sharingN (gnodes h5)).
    { intros j c Hc. destruct (post_fwd _ _ _ _ HP Hc) as [c' [Hc' [_ [_ [Hcf _]]]]].
      rewrite <- Hcf. apply (Hns j c' Hc'). }
    destruct (mi_ns _ _ HI Hns5 fid f Hf) as [Ha _]. apply Ha.
    eapply rch_sub; [| |exact Hr].
    + intros x c' y Hc' Hy. destruct (proj2 HP x c' Hc') as [c [Hc [_ [_ [_ Hn]]]]].
      exists c. split; auto. destruct Hn as [Hn|[Hn _]]; rewrite Hn in Hy; auto. destruct Hy.
    + intros x c' Hc'. destruct (proj2 HP x c' Hc') as [c [Hc _]]. eauto.
Qed.

(* NOTE the guard of the third conjunct: a `jal x0, <return>` written in the program is a
   merge jump syntactically, and its successor is wherever the label `<return>` is.
   Counterexample to the unguarded conjunct (picks = [], no sharing):
     main: jal f / li a7,10 / ecall
     f: beqz a0,z / j <return> / z: ret / <return>: addi a0,a0,1 / j z
   node 6 (`j <return>`) is in fnodes, is a merge jump, nexts = [8], fexit = 7. *)
Theorem fn_exit_strong :
  forall picks ns g, gen_full_cfg picks ns = Ok (SOk g) ->
    forall fid f, nth_opt (gfuncs g) fid = Some f ->
      (forall i c, In i (fnodes f) -> node_at g i c -> is_return (cn c) = true -> i = fexit f) /\
      (no_sharing g -> exists c, node_at g (fexit f) c /\ is_return (cn c) = true) /\
      (no_sharing g -> (forall n, In n ns -> is_return_merge n = false) ->
       forall i c, In i (fnodes f) -> node_at g i c -> is_return_merge (cn c) = true ->
                   nexts c = [fexit f]).
Proof.
  intros picks ns g H fid f Hf. destruct (final_setup _ _ _ H) as [h5 [H8 [HP [Gf Gl]]]].
  destruct (markup8 _ _ _ H8) as [HI _]. rewrite Gf in Hf. unfold node_at.
  assert (Hns5 : no_sharing g -> no_sharingN (gnodes h5)).
  { intros Hns j c Hc. destruct (post_fwd _ _ _ _ HP Hc) as [c' [Hc' [_ [_ [Hcf _]]]]].
    rewrite <- Hcf. apply (Hns j c' Hc'). }
  split; [|split].
  - intros i c' Hi Hc' Hr. destruct (proj2 HP i c' Hc') as [c [Hc [A _]]]. rewrite A in Hr.
    apply (mi_exit1 _ _ HI fid f i c Hf Hi Hc Hr).
  - intros Hns. destruct (mi_ns _ _ HI (Hns5 Hns) fid f Hf) as [_ [[c [Hc Hr]] _]].
    destruct (post_fwd _ _ _ _ HP Hc) as [c' [Hc' [A _]]]. exists c'. rewrite A. auto.
  - intros Hns HX i c' Hi Hc' Hm. destruct (mi_ns _ _ HI (Hns5 Hns) fid f Hf) as [_ [_ Hc3]].
    destruct (proj2 HP i c' Hc') as [c [Hc [A [_ [_ Hn]]]]]. rewrite A in Hm.
    destruct Hn as [Hn|[_ Hn]].
    + rewrite Hn. apply (Hc3 HX i c Hi Hc Hm).
    + apply exit_is_ecall, ecall_not_merge in Hn. rewrite A in Hn. congruence.
Qed.

Theorem fn_exit :
  forall picks ns g,
    (forall n, In n ns -> is_return_merge n = false) ->
    gen_full_cfg picks ns = Ok (SOk g) ->
    forall fid f, nth_opt (gfuncs g) fid = Some f ->
      (forall i c, In i (fnodes f) -> node_at g i c -> is_return (cn c) = true -> i = fexit f) /\
      (no_sharing g -> exists c, node_at g (fexit f) c /\ is_return (cn c) = true) /\
      (no_sharing g -> forall i c, In i (fnodes f) -> node_at g i c -> is_return_merge (cn c) = true ->
                       nexts c = [fexit f]).
Proof.
  intros picks ns g HX H fid f Hf. destruct (fn_exit_strong picks ns g H fid f Hf) as [H1 [H2 H3]].
  split; [exact H1|split; [exact H2|]]. intros Hns. apply H3; auto.
Qed.
