(* C12/C01: the data-flow equations of the value analysis on the graphs `gen_full_cfg` returns.

   `avail_fix_full` (FixProofs.v) gives `AvailEqns` for the result of every `avail_pass`.  The pipeline
   runs `ecall_terminate` once more after the last `avail_pass` (and then liveness).  This file proves:
     ecallterm_vf / ecallterm_prevs   the step changes edges only; a predecessor list only shrinks, and it
                                      changes only at a successor of an exit ecall (`lost_pred`)
     ecallterm_keeps_eqn              a node whose predecessor list is unchanged keeps its equation
     liveness_keeps_eqn               liveness changes neither value facts nor edges
     pipeline_eqns                    on the final graph every node satisfies its equation or lost a
                                      predecessor in the last `ecall_terminate`
     pipeline_eqns_cut / _clean       no exit left to cut after the last value analysis => `AvailEqns`
     pipeline_claims(_clean)          the soundness theorem of C01 for pipeline outputs, without assuming
                                      the equations. *)
From Coq Require Import List Arith Lia ZifyNat ZifyBool.
From RV.Model Require Import Base I32 Imm Lexer Isa Parser Cfg Avail Live Lints.
From RV.Spec Require Import Rv32 AvailSpec CfgSpec LiveSpec FixSpec PipeEqSpec.
From RV.Proofs Require Import CfgProofs.
From RV.Proofs Require ErrProofs FixProofs FnProofs SoundProofs.
Import ListNotations.
Local Open Scope nat_scope.

(* ===== 1. the per-node form ================================================================ *)

Lemma AvailEqns_at g : AvailEqns g <-> forall i, AvailEqnAt g i.
Proof. unfold AvailEqns, AvailEqnAt. split; intros H i c; apply H. Qed.

Lemma AvailEqns_at_lt g : AvailEqns g <-> forall i, i < length (gnodes g) -> AvailEqnAt g i.
Proof.
  split.
  - intros H i _. apply (proj1 (AvailEqns_at g) H).
  - intros H i c Hc. apply (H i); [eapply nth_opt_lt; exact Hc | exact Hc].
Qed.

(* ===== 2. what an equation reads ============================================================ *)

(* the instruction and the value facts of a node *)
Definition vf (c : cnode) := (cn c, (rin c, rout c), (min c, mout c)).

Lemma vf_fields c d : vf c = vf d ->
  cn c = cn d /\ rin c = rin d /\ rout c = rout d /\ min c = min d /\ mout c = mout d.
Proof. unfold vf. intros H. inversion H. repeat split; assumption. Qed.

Lemma vf_same g h : map vf (gnodes g) = map vf (gnodes h) -> same_values g h.
Proof.
  intros H. split. { rewrite <- (map_length vf (gnodes g)), H. apply map_length. }
  intros i c d Hc Hd. destruct (proj_nth vf _ _ H i d Hd) as [c' [Hc' E]].
  rewrite Hc in Hc'. inversion Hc'; subst c'. apply vf_fields; exact E.
Qed.

Lemma rout_at g h q : map vf g = map vf h -> forall {X} (k : regmap -> X) (d : X),
  match getn g q with Some c => k (rout c) | None => d end =
  match getn h q with Some c => k (rout c) | None => d end.
Proof.
  intros H X k d. apply (f_equal (fun l => nth_opt l q)) in H. rewrite !nth_opt_map in H. unfold getn.
  destruct (nth_opt g q) as [c|], (nth_opt h q) as [c'|]; cbn [option_map] in H; try discriminate H; [|reflexivity].
  assert (E : vf c = vf c') by congruence. apply vf_fields in E. destruct E as [_ [_ [E _]]]. rewrite E. reflexivity.
Qed.

Lemma mout_at g h q : map vf g = map vf h -> forall {X} (k : memmap -> X) (d : X),
  match getn g q with Some c => k (mout c) | None => d end =
  match getn h q with Some c => k (mout c) | None => d end.
Proof.
  intros H X k d. apply (f_equal (fun l => nth_opt l q)) in H. rewrite !nth_opt_map in H. unfold getn.
  destruct (nth_opt g q) as [c|], (nth_opt h q) as [c'|]; cbn [option_map] in H; try discriminate H; [|reflexivity].
  assert (E : vf c = vf c') by congruence. apply vf_fields in E. destruct E as [_ [_ [_ [_ E]]]]. rewrite E. reflexivity.
Qed.

Lemma meet_regs_vf g h ps vis : map vf g = map vf h -> meet_regs g ps vis = meet_regs h ps vis.
Proof.
  intros H. unfold meet_regs. destruct (filter (fun p => memn p vis) ps) as [|p ps']; [reflexivity|].
  rewrite (FixProofs.fold_left_ext _
             (fun acc q => match getn h q with Some c => rm_meet acc (rout c) | None => acc end)).
  - f_equal. apply (rout_at g h p H (fun x => x) []).
  - intros a x. apply (rout_at g h x H (fun r => rm_meet a r) a).
Qed.

Lemma meet_mems_vf g h ps vis : map vf g = map vf h -> meet_mems g ps vis = meet_mems h ps vis.
Proof.
  intros H. unfold meet_mems. destruct (filter (fun p => memn p vis) ps) as [|p ps']; [reflexivity|].
  rewrite (FixProofs.fold_left_ext _
             (fun acc q => match getn h q with Some c => mm_meet acc (mout c) | None => acc end)).
  - f_equal. apply (mout_at g h p H (fun x => x) []).
  - intros a x. apply (mout_at g h x H (fun r => mm_meet a r) a).
Qed.

Lemma transfer_vf c d : cn c = cn d -> mout c = mout d ->
  forall ri mi, avail_transfer c ri mi = avail_transfer d ri mi.
Proof.
  intros E M ri mi. destruct (FixProofs.avail_transfer_shape (cn c) ri mi) as [r2 [m2 S]].
  rewrite (S c eq_refl), (S d (eq_sym E)), M. reflexivity.
Qed.

(* the equation of node i reads: the instruction and the facts of i, its predecessor list, the outs of
   all nodes, and the number of nodes *)
Lemma eqn_transport g h i :
  map vf (gnodes g) = map vf (gnodes h) ->
  (forall c d, nth_opt (gnodes g) i = Some c -> nth_opt (gnodes h) i = Some d -> prevs d = prevs c) ->
  AvailEqnAt g i -> AvailEqnAt h i.
Proof.
  intros V P H d Hd.
  destruct (proj_nth vf _ _ V i d Hd) as [c [Hc E]].
  apply vf_fields in E. destruct E as [E1 [E2 [E3 [E4 E5]]]].
  specialize (H c Hc). rewrite (P c d Hc Hd).
  assert (L : all_idx (gnodes h) = all_idx (gnodes g)).
  { unfold all_idx. f_equal. rewrite <- (map_length vf (gnodes h)), <- V. apply map_length. }
  rewrite L, <- (meet_regs_vf _ _ _ _ V), <- (meet_mems_vf _ _ _ _ V).
  rewrite <- (transfer_vf c d E1 E5), <- E2, <- E3, <- E4, <- E5. exact H.
Qed.

(* ===== 3. liveness touches neither value facts nor edges ===================================== *)

Section LiveFrame.
  Context {X : Type} (pr : cnode -> X).
  Hypothesis pr_live : forall c a b u, pr (set_live c a b u) = pr c.

  Lemma live_node_pr G ns v i : map pr (fst (live_node G ns v i)) = map pr ns.
  Proof.
    unfold live_node. destruct (getn ns i) as [c|]; [|reflexivity].
    destruct (calls_to_from_cfg G c) as [fid|].
    - destruct (nth_opt (gfuncs G) fid) as [f|]; [|reflexivity]. cbn [fst].
      rewrite map_upd; [|intros x; apply pr_live]. apply map_upd. intros x. apply pr_live.
    - destruct (if is_ecall (cn c) then _ else _) as [li ud]. cbn [fst]. apply map_upd. intros x. apply pr_live.
  Qed.

  Lemma live_sweep_pr G : forall idx ns v ch ns' v' ch',
    live_sweep G idx ns v ch = (ns', v', ch') -> map pr ns' = map pr ns.
  Proof.
    induction idx as [|i idx IH]; intros ns v ch ns' v' ch' H; simpl in H.
    - inversion H; reflexivity.
    - destruct (live_node G ns v i) as [g1 c1] eqn:Hn. apply IH in H. rewrite H.
      pose proof (live_node_pr G ns v i) as Hc. rewrite Hn in Hc. exact Hc.
  Qed.

  Lemma live_loop_pr G : forall fuel ns v ns', live_loop fuel G ns v = Ok ns' -> map pr ns' = map pr ns.
  Proof.
    induction fuel as [|f IH]; intros ns v ns' H; simpl in H; [discriminate|].
    destruct (live_sweep _ _ _ _ _) as [[g1 v1] ch] eqn:Hs. apply live_sweep_pr in Hs.
    destruct ch.
    - apply IH in H. congruence.
    - inversion H; subst. exact Hs.
  Qed.

  Lemma liveness_pass_pr g g' : liveness_pass g = Ok g' -> map pr (gnodes g') = map pr (gnodes g).
  Proof.
    unfold liveness_pass. intros H.
    destruct (live_loop _ _ _ _) as [ns| |] eqn:Hl; simpl in H; inversion H; subst.
    cbn [gnodes]. eapply live_loop_pr; exact Hl.
  Qed.
End LiveFrame.

Lemma proj_same {B} (p : cnode -> B) g h i c d :
  map p g = map p h -> nth_opt g i = Some c -> nth_opt h i = Some d -> p c = p d.
Proof.
  intros H Hc Hd. destruct (proj_nth p _ _ H i d Hd) as [c' [Hc' E]].
  rewrite Hc in Hc'. inversion Hc'; subst c'. exact E.
Qed.

Theorem liveness_keeps_eqn g g' i : liveness_pass g = Ok g' -> AvailEqnAt g i -> AvailEqnAt g' i.
Proof.
  intros H. apply eqn_transport.
  - symmetry. apply (liveness_pass_pr vf); [reflexivity|exact H].
  - intros c d Hc Hd. symmetry.
    apply (proj_same prevs _ _ i c d (eq_sym (liveness_pass_pr prevs (fun _ _ _ _ => eq_refl) _ _ H)) Hc Hd).
Qed.

(* ===== 4. the ecall-termination step ======================================================== *)

Theorem ecallterm_vf g : map vf (gnodes (ecall_terminate g)) = map vf (gnodes g).
Proof. apply (ErrProofs.ecall_terminate_pr vf); reflexivity. Qed.

Theorem ecallterm_same_values g : same_values g (ecall_terminate g).
Proof. apply vf_same. symmetry. apply ecallterm_vf. Qed.

(* cutting the edges out of node i: the predecessor list of j shrinks, and changes only if j is one of
   the successors and i was among its predecessors *)
Lemma cut_prevs_fold i L g j d : nth_opt g j = Some d ->
  exists dF, nth_opt (fold_left (fun g n => upd g n (fun x => set_prevs x (del i (prevs x)))) L g) j = Some dF /\
     incl (prevs dF) (prevs d) /\ (prevs dF = prevs d \/ (In j L /\ In i (prevs d))).
Proof.
  intros Hd.
  apply (fold_left_inv (fun F => exists dF, nth_opt F j = Some dF /\ incl (prevs dF) (prevs d) /\
            (prevs dF = prevs d \/ (In j L /\ In i (prevs d))))).
  - exists d. split; [exact Hd|]. split; [apply incl_refl|left; reflexivity].
  - intros F n Hn [dF [HF [HI HD]]]. rewrite nth_opt_upd.
    destruct (Nat.eqb n j) eqn:E.
    + apply Nat.eqb_eq in E. subst n. rewrite HF. cbn [option_map].
      eexists. split; [reflexivity|]. cbn [set_prevs prevs].
      split. { intros a Ha. apply HI. eapply in_del_weak; exact Ha. }
      destruct (in_dec Nat.eq_dec i (prevs dF)) as [Hi|Hi].
      * right. split; [exact Hn|apply HI; exact Hi].
      * rewrite (del_not_in _ _ Hi). exact HD.
    + exists dF. split; [exact HF|]. split; [exact HI|exact HD].
Qed.

Definition lostp (g0 : list cnode) (j : nat) (c : cnode) : Prop :=
  exists p cp, nth_opt g0 p = Some cp /\ is_program_exit cp = true /\ In j (nexts cp) /\ In p (prevs c).

Definition cutJ (g0 g : list cnode) : Prop :=
  Forall2 FixProofs.termR g0 g /\
  forall j c d, nth_opt g0 j = Some c -> nth_opt g j = Some d ->
    incl (prevs d) (prevs c) /\ (prevs d = prevs c \/ lostp g0 j c).

Lemma cutJ_refl g : cutJ g g.
Proof.
  split; [apply FixProofs.Forall2_refl, FixProofs.termR_refl|].
  intros j c d Hc Hd. rewrite Hc in Hd. inversion Hd; subst d.
  split; [apply incl_refl|left; reflexivity].
Qed.

Lemma cutJ_step g0 g i : cutJ g0 g -> cutJ g0 (ecall_term_step g i).
Proof.
  intros [T J]. split.
  { eapply FixProofs.Forall2_trans; [exact FixProofs.termR_trans|exact T|apply FixProofs.ecall_step_termR]. }
  intros j c d' Hc Hd'.
  unfold ecall_term_step, getn in Hd'.
  destruct (nth_opt g i) as [ci|] eqn:Hi; [|exact (J j c d' Hc Hd')].
  destruct (is_program_exit ci) eqn:Hx; [|exact (J j c d' Hc Hd')].
  destruct (FixProofs.Forall2_nth_l _ _ _ _ _ T Hc) as [d [Hd _]].
  destruct (cut_prevs_fold i (nexts ci) g j d Hd) as [dF [HF [HI HD]]].
  destruct (J j c d Hc Hd) as [JI JD].
  assert (Hp : prevs d' = prevs dF).
  { rewrite nth_opt_upd, HF in Hd'. destruct (Nat.eqb i j); cbn [option_map] in Hd'; inversion Hd'; reflexivity. }
  rewrite Hp. split. { eapply incl_tran; [exact HI|exact JI]. }
  destruct HD as [HD|[Hj Hip]].
  - rewrite HD. exact JD.
  - right. destruct (FixProofs.Forall2_nth_r _ _ _ _ _ T Hi) as [c0 [Hc0 [R1 [R2 R3]]]].
    exists i, c0. split; [exact Hc0|].
    split. { rewrite (FixProofs.is_program_exit_R c0 ci R1 R2). exact Hx. }
    split. { destruct R3 as [R3|R3]; rewrite R3 in Hj; [exact Hj|destruct Hj]. }
    apply JI. exact Hip.
Qed.

Lemma ecallterm_cutJ g : cutJ (gnodes g) (gnodes (ecall_terminate g)).
Proof.
  unfold ecall_terminate; cbn [gnodes]. apply fold_left_inv; [apply cutJ_refl|].
  intros a b _ Ha. apply cutJ_step; exact Ha.
Qed.

(* the predecessor list of a node only shrinks, and changes only at a node that had an exit ecall among
   its predecessors *)
Theorem ecallterm_prevs g j c d :
  nth_opt (gnodes g) j = Some c -> nth_opt (gnodes (ecall_terminate g)) j = Some d ->
  incl (prevs d) (prevs c) /\ (prevs d = prevs c \/ lost_pred g j).
Proof.
  intros Hc Hd.
  destruct (proj2 (ecallterm_cutJ g) j c d Hc Hd) as [I [E|[p [cp [Hp [Hx [Hn Hi]]]]]]]; (split; [exact I|]).
  - left; exact E.
  - right. exists p, cp, c. repeat split; assumption.
Qed.

(* nodes whose predecessor list is unchanged keep their equation *)
Theorem ecallterm_keeps_eqn g i : AvailEqnAt g i ->
  (forall c d, nth_opt (gnodes g) i = Some c -> nth_opt (gnodes (ecall_terminate g)) i = Some d ->
     prevs d = prevs c) ->
  AvailEqnAt (ecall_terminate g) i.
Proof.
  intros H P. eapply eqn_transport; [symmetry; apply ecallterm_vf|exact P|exact H].
Qed.

Theorem ecallterm_eqn_or_lost g i : AvailEqnAt g i -> AvailEqnAt (ecall_terminate g) i \/ lost_pred g i.
Proof.
  intros H.
  destruct (nth_opt (gnodes (ecall_terminate g)) i) as [d|] eqn:Hd; [|left; intros d' Hd'; congruence].
  destruct (proj_nth vf _ _ (eq_sym (ecallterm_vf g)) i d Hd) as [c [Hc _]].
  destruct (ecallterm_prevs g i c d Hc Hd) as [_ [E|L]]; [left|right; exact L].
  apply ecallterm_keeps_eqn; [exact H|].
  intros c' d' Hc' Hd'. rewrite Hc in Hc'. rewrite Hd in Hd'. inversion Hc'; inversion Hd'; subst. exact E.
Qed.

(* a graph the step leaves alone has no exit left to cut, and conversely *)
Lemma fixed_exits_cut h : ecall_terminate h = h -> exits_cut h.
Proof.
  intros E p c Hc Hx. pose proof (nth_opt_lt _ _ _ Hc) as Lp.
  rewrite <- E in Hc. unfold ecall_terminate in Hc; cbn [gnodes] in Hc.
  pose proof (FixProofs.ecall_fold_done (length (gnodes h)) 0 (gnodes h)) as D.
  assert (D0 : FixProofs.exits_done 0 (gnodes h)) by (intros i0 c0 Hi0; lia).
  apply (D D0 p c); [lia|exact Hc|exact Hx].
Qed.

Lemma exits_cut_fixed h : exits_cut h -> ecall_terminate h = h.
Proof.
  intros H. destruct h as [ns fs lf]. unfold ecall_terminate; cbn [gnodes gfuncs glabelfn]. f_equal.
  apply FixProofs.ecall_fold_id. intros i c _ Hc Hx. exact (H i c Hc Hx).
Qed.

Theorem ecallterm_fixed_iff h : ecall_terminate h = h <-> exits_cut h.
Proof. split; [apply fixed_exits_cut|apply exits_cut_fixed]. Qed.

(* the step changes edges only: instructions and value facts stay; a predecessor list only shrinks, and
   changes only at a successor of an exit ecall *)
Theorem ecallterm_frame : forall g,
  same_values g (ecall_terminate g) /\
  forall i c d, nth_opt (gnodes g) i = Some c -> nth_opt (gnodes (ecall_terminate g)) i = Some d ->
    incl (prevs d) (prevs c) /\ (prevs d = prevs c \/ lost_pred g i).
Proof. intros g. split; [apply ecallterm_same_values|apply ecallterm_prevs]. Qed.

(* ===== 5. the pipeline ====================================================================== *)

Lemma full_stages9 picks ns g : gen_full_cfg picks ns = Ok (SOk g) ->
  exists h5 h6, gen_cfg_upto 9 picks ns = Ok (SOk h6) /\ avail_pass h5 = Ok h6 /\
                liveness_pass (ecall_terminate h6) = Ok g.
Proof.
  rewrite full_is_upto. unfold gen_cfg_upto. FnProofs.eqb_consts. cbv iota.
  destruct (cfg_new ns None) as [e|g0]; [intros; discriminate|].
  destruct (directions g0) as [e|g1]; [intros; discriminate|].
  destruct (avail_pass g1) as [g2| |]; simpl bind; [|intros; discriminate..].
  destruct (cfg_new ns (Some (interrupt_handler_names g2))) as [e|h0]; [intros; discriminate|].
  destruct (directions h0) as [e|h1]; [intros; discriminate|].
  destruct (avail_pass (dead_code h1)) as [h3| |]; simpl bind; [|intros; discriminate..].
  destruct (function_markup picks (ecall_terminate h3)) as [e|h5]; [intros; discriminate|].
  destruct (avail_pass h5) as [h6| |] eqn:H9; simpl bind; [|intros; discriminate..].
  intros H. apply bind_Ok_inv in H. destruct H as [h8 [H11 H]]. inversion H; subst h8.
  exists h5, h6. split; [reflexivity|]. split; [exact H9|exact H11].
Qed.

(* On the graph `gen_full_cfg` returns, with h6 the graph after the last value analysis (stage 9):
   h6 satisfies all equations; the final graph has the instructions and value facts of h6 and predecessor
   lists included in those of h6; a node whose predecessor list is that of h6 satisfies its equation; and
   every node satisfies its equation or lost a predecessor - an exit ecall of h6 - in the last
   ecall-termination step. *)
Theorem pipeline_eqns : forall picks ns g, gen_full_cfg picks ns = Ok (SOk g) ->
  exists h6, gen_cfg_upto 9 picks ns = Ok (SOk h6) /\ AvailEqns h6 /\ same_values h6 g /\
    (forall i c6 c, nth_opt (gnodes h6) i = Some c6 -> nth_opt (gnodes g) i = Some c ->
       incl (prevs c) (prevs c6) /\ (prevs c = prevs c6 -> AvailEqnAt g i)) /\
    (forall i, AvailEqnAt g i \/ lost_pred h6 i).
Proof.
  intros picks ns g H. destruct (full_stages9 _ _ _ H) as [h5 [h6 [H9 [HA HL]]]].
  exists h6. split; [exact H9|].
  pose proof (FixProofs.avail_fix_full h5 h6 HA) as EQ6.
  pose proof (proj1 (AvailEqns_at h6) EQ6) as EQ6'.
  split; [exact EQ6|].
  pose proof (liveness_pass_pr vf (fun _ _ _ _ => eq_refl) _ _ HL) as V11.
  pose proof (liveness_pass_pr prevs (fun _ _ _ _ => eq_refl) _ _ HL) as P11.
  split. { apply vf_same. rewrite V11. symmetry. apply ecallterm_vf. }
  split.
  - intros i c6 c Hc6 Hc.
    destruct (proj_nth prevs _ _ (eq_sym P11) i c Hc) as [d [Hd Ed]].
    destruct (ecallterm_prevs h6 i c6 d Hc6 Hd) as [I _]. rewrite <- Ed.
    split; [exact I|]. intros Ep.
    apply (liveness_keeps_eqn _ _ i HL). apply ecallterm_keeps_eqn; [apply EQ6'|].
    intros c' d' Hc' Hd'. rewrite Hc6 in Hc'. rewrite Hd in Hd'. inversion Hc'; inversion Hd'; subst. exact Ep.
  - intros i. destruct (ecallterm_eqn_or_lost h6 i (EQ6' i)) as [E|L]; [left|right; exact L].
    exact (liveness_keeps_eqn _ _ i HL E).
Qed.

Theorem pipeline_eqns_cut : forall picks ns g h6, gen_full_cfg picks ns = Ok (SOk g) ->
  gen_cfg_upto 9 picks ns = Ok (SOk h6) -> exits_cut h6 -> AvailEqns g.
Proof.
  intros picks ns g h6 H H9 X. destruct (pipeline_eqns _ _ _ H) as [h6' [H9' [_ [_ [_ HD]]]]].
  rewrite H9 in H9'. inversion H9'; subst h6'. apply AvailEqns_at. intros i.
  destruct (HD i) as [E|[p [cp [ci [Hp [_ [Hx [Hn _]]]]]]]]; [exact E|].
  rewrite (X p cp Hp Hx) in Hn. destruct Hn.
Qed.

Theorem pipeline_eqns_clean : forall picks ns g h6, gen_full_cfg picks ns = Ok (SOk g) ->
  gen_cfg_upto 9 picks ns = Ok (SOk h6) -> ecall_terminate h6 = h6 -> AvailEqns g.
Proof.
  intros picks ns g h6 H H9 E. eapply pipeline_eqns_cut; [exact H|exact H9|apply fixed_exits_cut; exact E].
Qed.

(* the successor lists of the final graph: those of h6, or empty *)
Theorem pipeline_nexts : forall picks ns g h6, gen_full_cfg picks ns = Ok (SOk g) ->
  gen_cfg_upto 9 picks ns = Ok (SOk h6) ->
  forall i c6 c, nth_opt (gnodes h6) i = Some c6 -> nth_opt (gnodes g) i = Some c ->
    nexts c = nexts c6 \/ nexts c = [].
Proof.
  intros picks ns g h6 H H9 i c6 c Hc6 Hc. destruct (full_stages9 _ _ _ H) as [h5 [h6' [H9' [_ HL]]]].
  rewrite H9 in H9'. inversion H9'; subst h6'.
  pose proof (liveness_pass_pr nexts (fun _ _ _ _ => eq_refl) _ _ HL) as N11.
  destruct (proj_nth nexts _ _ (eq_sym N11) i c Hc) as [d [Hd Ed]].
  destruct (FixProofs.Forall2_nth _ _ _ _ _ _ (proj1 (ecallterm_cutJ h6)) Hc6 Hd) as [_ [_ R]].
  rewrite <- Ed. exact R.
Qed.

(* ===== 6. C01 for pipeline outputs ========================================================== *)

(* when the last value analysis found no exit that was not cut already, the soundness theorem applies to
   the final graph as it stands *)
Theorem pipeline_claims_clean :
  forall picks ns g h6 (addr_of : str -> Z) (s0 : mstate),
    gen_full_cfg picks ns = Ok (SOk g) -> gen_cfg_upto 9 picks ns = Ok (SOk h6) ->
    ecall_terminate h6 = h6 ->
    SoundProofs.all_supported g -> SoundProofs.no_reentry g -> SoundProofs.all_wf g -> regs_in32 s0 ->
    forall i s, SoundProofs.srun addr_of g s0 i s ->
      forall c, nth_opt (gnodes g) i = Some c ->
        (is_any_entry (cn c) = false ->
           reg_claims addr_of s0 s (rin c) /\ mem_claims addr_of s0 s (min c)) /\
        (forall j s', SoundProofs.supported_at s0 s c -> step addr_of g i s j s' ->
           reg_claims addr_of s0 s' (rout c) /\ mem_claims addr_of s0 s' (mout c)).
Proof.
  intros picks ns g h6 a s0 H H9 E SUP NR WF HI.
  apply SoundProofs.claims_hold_on_executions; auto.
  - eapply pipeline_eqns_clean; eauto.
  - apply (cfg_sym 11 picks ns). rewrite <- full_is_upto. exact H.
Qed.

(* In general: the facts of the final graph are those of h6, and every execution of the final graph is an
   execution of h6 (which has the same nodes and more edges).  So the claims of the final graph hold on
   all its executions, whether or not its own equations do; the premise about edges into entry nodes is
   needed for h6. *)
Lemma supported_at_vf s0 s c d : cn c = cn d -> rin c = rin d ->
  SoundProofs.supported_at s0 s c -> SoundProofs.supported_at s0 s d.
Proof. unfold SoundProofs.supported_at. intros E1 E2. rewrite <- E1, <- E2. auto. Qed.

Section ViaH6.
  Variables (picks : list nat) (ns : list pnode) (g h6 : cfg).
  Hypothesis H : gen_full_cfg picks ns = Ok (SOk g).
  Hypothesis H9 : gen_cfg_upto 9 picks ns = Ok (SOk h6).

  Lemma final_in_h6 i c : nth_opt (gnodes g) i = Some c ->
    exists c6, nth_opt (gnodes h6) i = Some c6 /\ cn c6 = cn c /\ rin c6 = rin c /\ rout c6 = rout c /\
               min c6 = min c /\ mout c6 = mout c /\ incl (nexts c) (nexts c6).
  Proof.
    intros Hc. destruct (pipeline_eqns _ _ _ H) as [h6' [H9' [_ [[L SV] _]]]].
    rewrite H9 in H9'. inversion H9'; subst h6'.
    assert (Li : i < length (gnodes h6)) by (rewrite L; eapply nth_opt_lt; exact Hc).
    destruct (nth_opt_some _ _ Li) as [c6 Hc6]. exists c6. split; [exact Hc6|].
    destruct (SV i c6 c Hc6 Hc) as [E1 [E2 [E3 [E4 E5]]]].
    repeat (split; [assumption|]).
    destruct (pipeline_nexts _ _ _ _ H H9 i c6 c Hc6 Hc) as [R|R]; rewrite R; [apply incl_refl|intros x []].
  Qed.

  Lemma srun_in_h6 a s0 i s : SoundProofs.srun a g s0 i s -> SoundProofs.srun a h6 s0 i s.
  Proof.
    induction 1 as [e c He Hc | i s c j s' Hrun IH Hi SA St].
    - destruct (final_in_h6 e c He) as [c6 [Hc6 [E1 _]]].
      eapply SoundProofs.srun_start; [exact Hc6|rewrite E1; exact Hc].
    - destruct (final_in_h6 i c Hi) as [c6 [Hc6 [E1 [E2 [_ [_ [_ I]]]]]]].
      eapply SoundProofs.srun_step; [exact IH|exact Hc6| |].
      + eapply supported_at_vf; [symmetry; exact E1|symmetry; exact E2|exact SA].
      + destruct St as [c' [Hc' [Hn Ef]]]. rewrite Hi in Hc'. inversion Hc'; subst c'.
        exists c6. split; [exact Hc6|]. split; [apply I; exact Hn|rewrite E1; exact Ef].
  Qed.

  Lemma no_reentry_final : SoundProofs.no_reentry h6 -> SoundProofs.no_reentry g.
  Proof.
    intros NR i c j cj Hi Hn Hj.
    destruct (final_in_h6 i c Hi) as [c6 [Hc6 [_ [_ [_ [_ [_ I]]]]]]].
    destruct (final_in_h6 j cj Hj) as [cj6 [Hcj6 [E _]]].
    rewrite <- E. exact (NR i c6 j cj6 Hc6 (I j Hn) Hcj6).
  Qed.

  Theorem pipeline_claims :
    forall (addr_of : str -> Z) (s0 : mstate),
      SoundProofs.all_supported g -> SoundProofs.no_reentry h6 -> SoundProofs.all_wf g -> regs_in32 s0 ->
      forall i s, SoundProofs.srun addr_of g s0 i s ->
        forall c, nth_opt (gnodes g) i = Some c ->
          (is_any_entry (cn c) = false ->
             reg_claims addr_of s0 s (rin c) /\ mem_claims addr_of s0 s (min c)) /\
          (forall j s', SoundProofs.supported_at s0 s c -> step addr_of g i s j s' ->
             reg_claims addr_of s0 s' (rout c) /\ mem_claims addr_of s0 s' (mout c)).
  Proof.
    intros a s0 SUP NR WF HI i s Hrun c Hc.
    destruct (pipeline_eqns _ _ _ H) as [h6' [H9' [EQ6 [[L SV] _]]]].
    rewrite H9 in H9'. inversion H9'; subst h6'.
    assert (Back : forall k c6, nth_opt (gnodes h6) k = Some c6 ->
              exists ck, nth_opt (gnodes g) k = Some ck /\ cn c6 = cn ck).
    { intros k c6 Hc6. assert (Lk : k < length (gnodes g)) by (rewrite <- L; eapply nth_opt_lt; exact Hc6).
      destruct (nth_opt_some _ _ Lk) as [ck Hck]. exists ck. split; [exact Hck|].
      apply (SV k c6 ck Hc6 Hck). }
    assert (SUP6 : SoundProofs.all_supported h6).
    { intros k c6 Hc6. destruct (Back k c6 Hc6) as [ck [Hck E]]. rewrite E. exact (SUP k ck Hck). }
    assert (WF6 : SoundProofs.all_wf h6).
    { intros k c6 Hc6. destruct (Back k c6 Hc6) as [ck [Hck E]]. rewrite E. exact (WF k ck Hck). }
    pose proof (cfg_sym 9 picks ns h6 H9) as SY6.
    destruct (final_in_h6 i c Hc) as [c6 [Hc6 [E1 [E2 [E3 [E4 [E5 I]]]]]]].
    destruct (SoundProofs.claims_hold_on_executions a h6 s0 EQ6 SY6 SUP6 NR WF6 HI i s (srun_in_h6 a s0 i s Hrun) c6 Hc6)
      as [A B].
    rewrite <- E1, <- E2, <- E3, <- E4, <- E5. split; [exact A|].
    intros j s' SA St. apply (B j s').
    - eapply supported_at_vf; [symmetry; exact E1|symmetry; exact E2|exact SA].
    - destruct St as [c' [Hc' [Hn Ef]]]. rewrite Hc in Hc'. inversion Hc'; subst c'.
      exists c6. split; [exact Hc6|]. split; [apply I; exact Hn|rewrite E1; exact Ef].
  Qed.
End ViaH6.

(* ===== 7. decision procedures for the Examples of Props/C12.v and Props/C01pipe.v ============ *)

Definition avail_eqn_atb (g : cfg) (i : nat) : bool :=
  match nth_opt (gnodes g) i with
  | None => true
  | Some c =>
      (rm_eqb (rin c) (meet_regs (gnodes g) (prevs c) (all_idx (gnodes g))) &&
       mm_eqb (min c) (meet_mems (gnodes g) (prevs c) (all_idx (gnodes g))) &&
       (let '(ro, mo) := avail_transfer c (rin c) (min c) in rm_eqb (rout c) ro && mm_eqb (mout c) mo))%bool
  end.

Lemma avail_eqn_atb_spec g i : avail_eqn_atb g i = true <-> AvailEqnAt g i.
Proof.
  unfold avail_eqn_atb, AvailEqnAt. destruct (nth_opt (gnodes g) i) as [c|].
  - split.
    + intros H c' Hc'. inversion Hc'; subst c'. destruct (avail_transfer c (rin c) (min c)) as [ro mo].
      rewrite !andb_true_iff in H. tauto.
    + intros H. specialize (H c eq_refl). destruct (avail_transfer c (rin c) (min c)) as [ro mo].
      rewrite !andb_true_iff. tauto.
  - split; [intros _ c Hc; discriminate Hc|reflexivity].
Qed.

Lemma eqns_except g bad :
  forallb (fun i => (memn i bad || avail_eqn_atb g i)%bool) (seq 0 (length (gnodes g))) = true ->
  forall i, ~ In i bad -> AvailEqnAt g i.
Proof.
  intros H i Hn. destruct (Nat.lt_ge_cases i (length (gnodes g))) as [L|L].
  - rewrite forallb_forall in H.
    assert (Hin : In i (seq 0 (length (gnodes g)))) by (apply in_seq; lia).
    apply H in Hin. apply orb_true_iff in Hin. destruct Hin as [M|E].
    + apply memn_In in M. contradiction.
    + apply avail_eqn_atb_spec; exact E.
  - intros c Hc. apply nth_opt_lt in Hc. lia.
Qed.

Lemma lost_pred_check h i p :
  match nth_opt (gnodes h) p, nth_opt (gnodes h) i with
  | Some cp, Some ci => (is_program_exit cp && memn i (nexts cp) && memn p (prevs ci))%bool
  | _, _ => false
  end = true -> lost_pred h i.
Proof.
  destruct (nth_opt (gnodes h) p) as [cp|] eqn:Hp; [|discriminate].
  destruct (nth_opt (gnodes h) i) as [ci|] eqn:Hi; [|discriminate].
  rewrite !andb_true_iff, !memn_In. intros [[Hx Hn] Hq].
  exists p, cp, ci. repeat split; assumption.
Qed.

Definition supported_nodeb (n : pnode) : bool :=
  match n with
  | PCsr _ _ _ _ _ | PCsrI _ _ _ _ _ => false
  | PArith i _ _ _ _ | PIArith i _ _ _ _ | PLoad i _ _ _ _ => negb (SoundProofs.rv64_only (wv i))
  | PJumpLinkR _ _ _ _ _ => is_return n
  | PBasic i _ => negb (inst_eqb (wv i) IUret)
  | _ => true
  end.

Lemma supported_nodeb_ok n : supported_nodeb n = true -> SoundProofs.supported_node n.
Proof.
  destruct n; cbn [supported_nodeb SoundProofs.supported_node]; intros H;
    try exact I; try discriminate H; try (apply negb_true_iff in H; exact H); exact H.
Qed.

Definition node_wfb (n : pnode) : bool :=
  (match writes_to n with Some w => N.ltb (wv w) 32 | None => true end &&
   match n with
   | PArith i _ _ _ _ => match inst_kind (wv i) with KArith => true | _ => false end
   | PIArith _ _ _ imm _ => in32b (wv imm)
   | PStore _ _ rs2 _ _ => N.ltb (wv rs2) 32
   | _ => true
   end)%bool.

Lemma node_wfb_ok n : node_wfb n = true -> SoundProofs.node_wf n.
Proof.
  unfold node_wfb, SoundProofs.node_wf. rewrite andb_true_iff. intros [H1 H2]. split.
  - intros w Hw. rewrite Hw in H1. apply N.ltb_lt. exact H1.
  - destruct n; try exact I.
    + match type of H2 with context [inst_kind ?x] => destruct (inst_kind x) end; try discriminate H2. reflexivity.
    + unfold in32b in H2. unfold in32. apply andb_true_iff in H2. destruct H2 as [A B].
      apply Z.leb_le in A. apply Z.leb_le in B. split; assumption.
    + apply N.ltb_lt. exact H2.
Qed.

Definition all_supportedb (g : cfg) : bool := forallb (fun c => supported_nodeb (cn c)) (gnodes g).
Definition all_wfb (g : cfg) : bool := forallb (fun c => node_wfb (cn c)) (gnodes g).
Definition no_reentryb (g : cfg) : bool :=
  forallb (fun c => forallb (fun j => match nth_opt (gnodes g) j with
                                      | Some cj => negb (is_any_entry (cn cj))
                                      | None => true end) (nexts c)) (gnodes g).

Lemma all_supportedb_ok g : all_supportedb g = true -> SoundProofs.all_supported g.
Proof.
  unfold all_supportedb. rewrite forallb_forall. intros H i c Hc.
  apply supported_nodeb_ok. apply H. eapply nth_opt_In; exact Hc.
Qed.

Lemma all_wfb_ok g : all_wfb g = true -> SoundProofs.all_wf g.
Proof.
  unfold all_wfb. rewrite forallb_forall. intros H i c Hc.
  apply node_wfb_ok. apply H. eapply nth_opt_In; exact Hc.
Qed.

Lemma no_reentryb_ok g : no_reentryb g = true -> SoundProofs.no_reentry g.
Proof.
  unfold no_reentryb. rewrite forallb_forall. intros H i c j cj Hc Hn Hj.
  specialize (H c (nth_opt_In _ _ _ Hc)). rewrite forallb_forall in H. specialize (H j Hn).
  rewrite Hj in H. apply negb_true_iff in H. exact H.
Qed.
