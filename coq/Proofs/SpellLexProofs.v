(* C13, layout at the lexer.
   Part A: the debug assertions (chk) never change an Ok result.
   Part B: one call of [next] computes exactly [knext] (Spec/SpellSpec.v) on the text, whatever the
           cursor, the file identity and the fuel.
   Part C: the keys of [lex_all] are [klex].
   Part D: cutting a text: [klex (u ++ Y)] = [klex u ++ klex Y] when the cut is at a token boundary.
   Part E: the layout theorems (separator runs, comments, blank lines). *)
From RV.Model Require Import Base Lexer.
From RV.Spec Require Import PosSpec LineSpec SpellSpec.
From RV.Proofs Require Import LexProofs LineProofs.
From Coq Require Import Lia ZifyN ZifyNat ZifyBool.
Open Scope N_scope.

(* ================================================================================== *)
(* Part A: chk                                                                          *)

Lemma check_tok_inv chk t t' : check_tok chk t = Ok t' -> t' = t.
Proof.
  unfold check_tok. destruct chk; [|intros H; inversion H; reflexivity].
  destruct (negb _); [discriminate|]. destruct (negb _); [discriminate|].
  intros H; inversion H; reflexivity.
Qed.

Lemma fin_nochk chk t s p r : fin chk t s p = Ok r -> fin false t s p = Ok r.
Proof.
  unfold fin. destruct (check_tok chk t) as [t'| |] eqn:E; cbn [bind]; try discriminate.
  apply check_tok_inv in E. subst t'. intros H. exact H.
Qed.

Lemma body_nochk rec rec' chk file s p r :
  (forall s p r, rec s p = Ok r -> rec' s p = Ok r) ->
  body rec chk file s p = Ok r -> body rec' false file s p = Ok r.
Proof.
  intros Hrec. unfold body. destruct s as [|c t]; [intros H; exact H|].
  destruct (N.eqb c c_nl).
  { unfold b_one. destruct (consume _ _). apply fin_nochk. }
  destruct (N.eqb c c_lparen).
  { unfold b_one. destruct (consume _ _). apply fin_nochk. }
  destruct (N.eqb c c_rparen).
  { unfold b_one. destruct (consume _ _). apply fin_nochk. }
  destruct (N.eqb c c_dot).
  { unfold b_dot. destruct (scan _ _ _ _) as [[acc s'] p']. destruct (consume _ _).
    destruct (str_eqb _ _); [apply Hrec|apply fin_nochk]. }
  destruct (N.eqb c c_hash).
  { unfold b_hash. destruct (scan _ _ _ _) as [[acc s'] p']. destruct (consume _ _). apply fin_nochk. }
  destruct (N.eqb c c_dquote).
  { unfold b_str. destruct (consume _ _) as [s1 p1].
    destruct (acc_string _ _ _ _) as [[[[text s2] p2]|[[[epos k] s2] p2]]| |]; cbn [bind]; try (intros H; exact H).
    destruct (consume _ _). apply fin_nochk. }
  destruct (N.eqb c c_squote); [intros H; exact H|].
  unfold b_sym. destruct (negb _); [intros H; exact H|].
  destruct (scan _ _ _ _) as [[acc s'] p'].
  destruct s' as [|x [|colon rest]].
  - destruct (consume _ _). apply fin_nochk.
  - destruct (consume _ _). apply fin_nochk.
  - destruct (N.eqb colon c_colon); [intros H; exact H|].
    destruct (consume _ _). apply fin_nochk.
Qed.

Lemma next_nochk : forall f chk file s p r,
  next f chk file s p = Ok r -> next f false file s p = Ok r.
Proof.
  induction f as [|f IH]; intros chk file s p r H; [discriminate|].
  rewrite next_unfold in H |- *. destruct (skip_ws s p) as [s1 p1].
  destruct (skip_dots _ s1 p1) as [[s2 p2]| |]; cbn [bind] in H |- *; try discriminate.
  eapply body_nochk; [|exact H]. intros s' p' r'. apply IH.
Qed.

Lemma lex_loop_nochk : forall f chk file s p acc r,
  lex_loop f chk file s p acc = Ok r -> lex_loop f false file s p acc = Ok r.
Proof.
  induction f as [|f IH]; intros chk file s p acc r H; [discriminate|].
  cbn [lex_loop] in H |- *.
  destruct (next (S (length s)) chk file s p) as [o| |] eqn:E; cbn [bind] in H; try discriminate.
  rewrite (next_nochk _ _ _ _ _ _ E). cbn [bind].
  destruct o as [[[it s'] p']|]; [apply (IH _ _ _ _ _ _ H)|exact H].
Qed.

Lemma lex_all_nochk chk file s r : lex_all chk file s = Ok r -> lex_all false file s = Ok r.
Proof. apply lex_loop_nochk. Qed.

(* ================================================================================== *)
(* Part B: the helpers, without cursor                                                  *)

Lemma skip_ws_k : forall s p, fst (skip_ws s p) = kskip_ws s.
Proof.
  induction s as [|c r IH]; intros p; cbn [skip_ws kskip_ws]; [reflexivity|].
  destruct (is_ws c); [apply IH|reflexivity].
Qed.

Lemma skip_line_k : forall s p, fst (skip_line s p) = kskip_line s.
Proof.
  induction s as [|c r IH]; intros p; cbn [skip_line kskip_line]; [reflexivity|].
  destruct (N.eqb c c_nl); [reflexivity|apply IH].
Qed.

Lemma scan_k stop : forall s p acc, fst (scan stop s p acc) = kscan stop s acc.
Proof.
  induction s as [|c r IH]; intros p acc; cbn [scan kscan]; [reflexivity|].
  destruct (stop (hd_opt r)); [reflexivity|apply IH].
Qed.

Definition nows (s : str) : Prop := match s with c :: _ => is_ws c = false | [] => True end.

Lemma kskip_ws_nows : forall s, nows (kskip_ws s).
Proof.
  induction s as [|c r IH]; cbn [kskip_ws]; [exact I|].
  destruct (is_ws c) eqn:E; [exact IH|exact E].
Qed.

Lemma kskip_ws_len : forall s, (length (kskip_ws s) <= length s)%nat.
Proof.
  induction s as [|c r IH]; cbn [kskip_ws length]; [lia|].
  destruct (is_ws c); cbn [length]; lia.
Qed.

Lemma kskip_kskip_ws : forall s, kskip (kskip_ws s) = kskip s.
Proof.
  induction s as [|c r IH]; [reflexivity|].
  cbn [kskip_ws]. destruct (is_ws c) eqn:E.
  - rewrite IH. cbn [kskip]. rewrite E. reflexivity.
  - reflexivity.
Qed.

Lemma lone_dot_not_ws c r : lone_dot (c :: r) = true -> is_ws c = false.
Proof.
  cbn [lone_dot]. intros H. apply andb_prop in H. destruct H as [H _].
  apply N.eqb_eq in H. subst c. reflexivity.
Qed.

Lemma kskip_head : forall s, nows (kskip s) /\ lone_dot (kskip s) = false.
Proof.
  induction s as [|c r IH]; [split; [exact I|reflexivity]|].
  cbn [kskip]. destruct (is_ws c) eqn:E; [exact IH|].
  destruct (lone_dot (c :: r)) eqn:L; [exact IH|].
  split; [exact E|exact L].
Qed.

Lemma skip_dots_k : forall n s p, nows s -> (length s < n)%nat ->
  exists p', skip_dots n s p = Ok (kskip s, p').
Proof.
  induction n as [|n IH]; intros s p Hw Hn; [lia|].
  cbn [skip_dots]. destruct (lone_dot s) eqn:L.
  - destruct s as [|c r]; [discriminate|]. cbn [consume].
    destruct (skip_ws r (adv c p)) as [s2 p2] eqn:Ews.
    pose proof (skip_ws_k r (adv c p)) as K. rewrite Ews in K. cbn [fst] in K. subst s2.
    destruct (IH (kskip_ws r) p2 (kskip_ws_nows r)) as [p' Hp'].
    { pose proof (kskip_ws_len r). cbn [length] in Hn. lia. }
    exists p'. rewrite Hp', kskip_kskip_ws. cbn [kskip].
    rewrite (lone_dot_not_ws _ _ L), L. reflexivity.
  - exists p. destruct s as [|c r]; [reflexivity|].
    cbn [nows] in Hw. cbn [kskip]. rewrite Hw, L. reflexivity.
Qed.

(* escapes *)
Lemma escape_code_k b t p :
  match kescape t with
  | Some (ec, rest) => exists x p1, escape_code (b :: t) p = Some (ec, x :: rest, p1)
  | None => escape_code (b :: t) p = None
  end.
Proof.
  destruct t as [|e t']; [reflexivity|].
  unfold kescape, simple_escape, escape_code. cbn [consume].
  destruct (N.eqb e c_bslash); [eexists _, _; reflexivity|].
  destruct (N.eqb e c_squote); [eexists _, _; reflexivity|].
  destruct (N.eqb e c_dquote); [eexists _, _; reflexivity|].
  destruct (N.eqb e 110); [eexists _, _; reflexivity|].
  destruct (N.eqb e 116); [eexists _, _; reflexivity|].
  destruct (N.eqb e 114); [eexists _, _; reflexivity|].
  destruct (N.eqb e 98); [eexists _, _; reflexivity|].
  destruct (N.eqb e 102); [eexists _, _; reflexivity|].
  destruct (N.eqb e 48); [eexists _, _; reflexivity|].
  destruct (N.eqb e 117); [|reflexivity].
  destruct t' as [|a1 [|a2 [|a3 [|a4 t'']]]]; try reflexivity.
  unfold unicode_code, hex4.
  destruct (hexval a1); [|reflexivity]. destruct (hexval a2); [|reflexivity].
  destruct (hexval a3); [|reflexivity]. destruct (hexval a4); [|reflexivity].
  destruct (in_range 55296 57343 _); [reflexivity|].
  cbn [consume option_map]. eexists _, _. reflexivity.
Qed.

Lemma kescape_len t ec t' : kescape t = Some (ec, t') -> (length t' < length t)%nat.
Proof.
  destruct t as [|e t0]; [discriminate|]. unfold kescape.
  destruct (simple_escape e).
  - intros H. inversion H; subst. cbn [length]. lia.
  - destruct (N.eqb e 117); [|discriminate].
    destruct t0 as [|a1 [|a2 [|a3 [|a4 t'']]]]; try discriminate.
    destruct (hex4 a1 a2 a3 a4); cbn [option_map]; [|discriminate].
    intros H. inversion H; subst. cbn [length]. lia.
Qed.

Lemma acc_string_k : forall f s p acc, (length s < f)%nat ->
  match kacc f s acc with
  | Some (inl (text, s2)) => exists p2, acc_string f s p acc = Ok (inl (text, s2, p2))
  | Some (inr (k, s2)) => exists e p2, acc_string f s p acc = Ok (inr (e, k, s2, p2))
  | None => False
  end.
Proof.
  induction f as [|f IH]; intros s p acc Hf; [lia|].
  cbn [kacc acc_string]. destruct s as [|c t]; [eexists _, _; reflexivity|].
  destruct (N.eqb c c_dquote); [eexists; reflexivity|].
  destruct (N.eqb c c_nl); [eexists _, _; reflexivity|].
  destruct (N.eqb c c_bslash).
  - pose proof (escape_code_k c t p) as E.
    destruct (kescape t) as [[ec rest]|] eqn:K.
    + destruct E as [x [p1 E]]. rewrite E. cbn [consume].
      apply IH. apply kescape_len in K. cbn [length] in Hf. lia.
    + rewrite E. eexists _, _. reflexivity.
  - cbn [consume]. apply IH. cbn [length] in Hf. lia.
Qed.

Lemma kscan_grow stop : forall s acc acc' s', s <> [] ->
  kscan stop s acc = (acc', s') -> (length acc < length acc')%nat.
Proof.
  induction s as [|c r IH]; intros acc acc' s' Hs H; [contradiction|].
  cbn [kscan] in H. destruct (stop (hd_opt r)).
  - inversion H; subst. cbn [length]. lia.
  - destruct r as [|c2 r2].
    + cbn [kscan] in H. inversion H; subst. cbn [length]. lia.
    + apply IH in H; [|discriminate]. cbn [length] in H. lia.
Qed.

Lemma kscan_mono stop : forall s acc acc' s',
  kscan stop s acc = (acc', s') -> (length acc <= length acc')%nat.
Proof.
  intros s acc acc' s' H. destruct s as [|c r].
  - cbn [kscan] in H. inversion H; subst. lia.
  - apply kscan_grow in H; [lia|discriminate].
Qed.

Lemma fin_false t s p : fin false t s p = Ok (Some (LTok t, s, p)).
Proof. reflexivity. Qed.

(* one token *)
Lemma body_k rec file s p : lone_dot s = false ->
  match kbody s with
  | None => body rec false file s p = Ok None
  | Some (k, s') => exists it p', body rec false file s p = Ok (Some (it, s', p')) /\ item_key it = k
  end.
Proof.
  intros L. destruct s as [|c r]; [reflexivity|].
  unfold kbody, body.
  destruct (N.eqb c c_nl). { eexists _, _. split; reflexivity. }
  destruct (N.eqb c c_lparen). { eexists _, _. split; reflexivity. }
  destruct (N.eqb c c_rparen). { eexists _, _. split; reflexivity. }
  destruct (N.eqb c c_dot) eqn:Ed.
  { apply N.eqb_eq in Ed. subst c. unfold b_dot.
    pose proof (scan_k stop_directive (c_dot :: r) p []) as K.
    destruct (scan stop_directive (c_dot :: r) p []) as [[acc s'] p'].
    cbn [fst] in K. rewrite <- K.
    assert (Hlen : (2 <= length (rev acc))%nat).
    { rewrite rev_length. symmetry in K.
      cbn [lone_dot] in L. rewrite N.eqb_refl in L. cbn [andb] in L.
      destruct r as [|n r']; [discriminate|]. cbn [hd_opt] in L.
      change (kscan stop_directive (c_dot :: n :: r') []) with
        (if stop_directive (Some n) then ([c_dot], c_dot :: n :: r') else kscan stop_directive (n :: r') [c_dot]) in K.
      cbn [stop_directive] in K. destruct (is_symbol_char n); [|discriminate]. cbn [negb] in K.
      apply kscan_grow in K; [|discriminate]. cbn [length] in K. lia. }
    rewrite (str_eqb_long _ Hlen).
    destruct (consume s' p') as [s'' p''] eqn:Ec.
    assert (s'' = tl s') by (destruct s'; cbn [consume] in Ec; inversion Ec; reflexivity). subst s''.
    eexists _, _. split; reflexivity. }
  destruct (N.eqb c c_hash).
  { unfold b_hash.
    pose proof (scan_k stop_comment (c :: r) p []) as K.
    destruct (scan stop_comment (c :: r) p []) as [[acc s'] p'].
    cbn [fst] in K. rewrite <- K.
    destruct (consume s' p') as [s'' p''] eqn:Ec.
    assert (s'' = tl s') by (destruct s'; cbn [consume] in Ec; inversion Ec; reflexivity). subst s''.
    eexists _, _. split; [reflexivity|]. cbn [item_key tt]. destruct (rev acc); reflexivity. }
  destruct (N.eqb c c_dquote).
  { unfold b_str. cbn [consume].
    pose proof (acc_string_k (S (length r)) r (adv c p) [] ltac:(lia)) as K.
    destruct (kacc (S (length r)) r []) as [[[text s2]|[k s2]]|]; [| |contradiction].
    - destruct K as [p2 K]. rewrite K. cbn [bind].
      destruct (consume s2 p2) as [s3 p3] eqn:Ec.
      assert (s3 = tl s2) by (destruct s2; cbn [consume] in Ec; inversion Ec; reflexivity). subst s3.
      eexists _, _. split; reflexivity.
    - destruct K as [e [p2 K]]. rewrite K. cbn [bind].
      pose proof (skip_line_k s2 p2) as K2. destruct (skip_line s2 p2) as [s3 p3]. cbn [fst] in K2. subst s3.
      eexists _, _. split; reflexivity. }
  destruct (N.eqb c c_squote).
  { unfold b_chr, kchr. cbn [consume].
    assert (Hcont : forall cv s2 q s3, fst (consume s2 q) = s3 ->
      exists it p', chr_cont file (get_pos p) cv s2 q = Ok (Some (it, snd (kchr_cont cv s3), p')) /\
                    item_key it = fst (kchr_cont cv s3)).
    { intros cv s2 q s3 Hs3. unfold chr_cont, kchr_cont.
      destruct (consume s2 q) as [s3' p3]. cbn [fst] in Hs3. subst s3'.
      destruct s3 as [|qq rr]; [eexists _, _; split; reflexivity|].
      destruct (N.eqb qq c_squote); cbn [consume]; eexists _, _; split; reflexivity. }
    destruct r as [|c1 t]; [eexists _, _; split; reflexivity|].
    destruct (N.eqb c1 c_bslash).
    - pose proof (escape_code_k c1 t (adv c p)) as E.
      destruct (kescape t) as [[ec rest]|].
      + destruct E as [x [p1 E]]. rewrite E.
        destruct (Hcont ec (x :: rest) p1 rest eq_refl) as [it [p' [H1 H2]]].
        destruct (kchr_cont ec rest) as [kk ss]. cbn [fst snd] in H1, H2.
        exists it, p'. split; assumption.
      + rewrite E.
        pose proof (skip_line_k (c1 :: t) (adv c p)) as K2.
        destruct (skip_line (c1 :: t) (adv c p)) as [s3 p3]. cbn [fst] in K2. subst s3.
        eexists _, _. split; reflexivity.
    - destruct (N.eqb c1 c_nl); [eexists _, _; split; reflexivity|].
      destruct (Hcont c1 (c1 :: t) (adv c p) t eq_refl) as [it [p' [H1 H2]]].
      destruct (kchr_cont c1 t) as [kk ss]. cbn [fst snd] in H1, H2.
      exists it, p'. split; assumption. }
  unfold b_sym, ksym. destruct (negb (is_symbol_item c)).
  { cbn [consume tl]. eexists _, _. split; reflexivity. }
  pose proof (scan_k stop_symbol (c :: r) p []) as K.
  destruct (scan stop_symbol (c :: r) p []) as [[acc s'] p'].
  cbn [fst] in K. rewrite <- K.
  destruct s' as [|x [|colon rest]]; try (cbn [consume tl]; eexists _, _; split; reflexivity).
  destruct (N.eqb colon c_colon); cbn [consume tl]; eexists _, _; split; reflexivity.
Qed.

Theorem next_k f file s p :
  match knext s with
  | None => next (S f) false file s p = Ok None
  | Some (k, s') => exists it p', next (S f) false file s p = Ok (Some (it, s', p')) /\ item_key it = k
  end.
Proof.
  rewrite next_unfold. unfold knext.
  pose proof (skip_ws_k s p) as K. destruct (skip_ws s p) as [s1 p1]. cbn [fst] in K. subst s1.
  destruct (skip_dots_k (S (length (kskip_ws s))) (kskip_ws s) p1 (kskip_ws_nows s) ltac:(lia)) as [p2 H2].
  rewrite H2. cbn [bind]. rewrite kskip_kskip_ws.
  apply body_k. apply kskip_head.
Qed.

(* ================================================================================== *)
(* Part C: the whole run                                                                *)

Lemma knext_shrink s k s' : knext s = Some (k, s') -> exists m, s = m ++ s' /\ m <> [].
Proof.
  intros H. pose proof (next_k 0 None s cur0) as K. rewrite H in K.
  destruct K as [it [p' [K1 K2]]].
  destruct (next_spec 0 false s None [] s eq_refl) as [N|N].
  - change (advs [] cur0) with cur0 in N. rewrite K1 in N. discriminate.
  - destruct N as [it' [m [s'' [p'' [N1 [N2 [N3 [N4 _]]]]]]]].
    change (advs [] cur0) with cur0 in N1. rewrite K1 in N1. inversion N1; subst.
    exists m. split; [reflexivity|assumption].
Qed.

Lemma knext_len s k s' : knext s = Some (k, s') -> (length s' < length s)%nat.
Proof.
  intros H. apply knext_shrink in H. destruct H as [m [H1 H2]]. subst s.
  rewrite app_length. destruct m; [contradiction|cbn [length]; lia].
Qed.

Lemma klex_f_enough : forall n m s, (length s < n)%nat -> (length s < m)%nat -> klex_f n s = klex_f m s.
Proof.
  induction n as [|n IH]; intros m s Hn Hm; [lia|]. destruct m as [|m]; [lia|].
  cbn [klex_f]. destruct (knext s) as [[k s']|] eqn:E; [|reflexivity].
  apply knext_len in E. f_equal. apply IH; lia.
Qed.

Lemma klex_fuel n s : (length s < n)%nat -> klex_f n s = klex s.
Proof. intros H. apply klex_f_enough; [exact H|lia]. Qed.

Lemma klex_unfold s : klex s = match knext s with None => [] | Some (k, s') => k :: klex s' end.
Proof.
  unfold klex at 1. cbn [klex_f]. destruct (knext s) as [[k s']|] eqn:E; [|reflexivity].
  f_equal. apply klex_fuel. apply knext_len in E. lia.
Qed.

Lemma lex_loop_k : forall f file s p acc items,
  lex_loop f false file s p acc = Ok items -> keys items = rev (keys acc) ++ klex_f f s.
Proof.
  induction f as [|f IH]; intros file s p acc items H; [discriminate|].
  cbn [lex_loop klex_f] in H |- *.
  pose proof (next_k (length s) file s p) as K.
  destruct (knext s) as [[k s']|].
  - destruct K as [it [p' [K1 K2]]]. rewrite K1 in H. cbn [bind] in H.
    apply IH in H. rewrite H. unfold keys. cbn [map rev]. rewrite <- app_assoc. subst k. reflexivity.
  - rewrite K in H. cbn [bind] in H. inversion H; subst.
    unfold keys. rewrite map_rev, app_nil_r. reflexivity.
Qed.

(* the keys of the token stream of a text are [klex] of the text: no dependence on chk or file *)
Theorem lex_keys chk file s items : lex_all chk file s = Ok items -> keys items = klex s.
Proof.
  intros H. apply lex_all_nochk in H. unfold lex_all in H.
  apply lex_loop_k in H. rewrite H. cbn [keys map rev app]. apply klex_fuel. lia.
Qed.

(* ================================================================================== *)
(* Part D: appending text after a token boundary                                        *)

Lemma hd_opt_app_ne (r Y : str) : r <> [] -> hd_opt (r ++ Y) = hd_opt r.
Proof. destruct r; [contradiction|reflexivity]. Qed.

Lemma delim_not_item y : delim y = true -> is_symbol_item y = false.
Proof. unfold delim. destruct (is_symbol_item y); [discriminate|reflexivity]. Qed.

Lemma delim_not_char y : delim y = true -> is_symbol_char y = false.
Proof.
  intros H. apply delim_not_item in H. unfold is_symbol_item in H.
  destruct (is_symbol_char y); [discriminate|reflexivity].
Qed.

Lemma delim_not_colon y : delim y = true -> N.eqb y c_colon = false.
Proof. unfold delim. destruct (N.eqb y c_colon); [rewrite andb_false_r; discriminate|reflexivity]. Qed.

Lemma is_ws_delim c : is_ws c = true -> delim c = true.
Proof.
  unfold is_ws. intros H.
  repeat (apply orb_prop in H; destruct H as [H|H]); apply N.eqb_eq in H; subst c; reflexivity.
Qed.

(* -- kskip -- *)
Lemma lone_dot_app c r Y : r <> [] -> lone_dot (c :: r ++ Y) = lone_dot (c :: r).
Proof. intros H. cbn [lone_dot]. rewrite (hd_opt_app_ne r Y H). reflexivity. Qed.

Lemma kskip_app_ne : forall a Y, kskip a <> [] -> kskip (a ++ Y) = kskip a ++ Y.
Proof.
  induction a as [|c r IH]; intros Y H; [exfalso; apply H; reflexivity|].
  cbn [kskip app] in H |- *. destruct (is_ws c); [apply IH; exact H|].
  destruct r as [|c2 r2].
  - cbn [app]. cbn [lone_dot hd_opt] in H |- *.
    destruct (N.eqb c c_dot); cbn [andb negb] in H |- *; [exfalso; apply H; reflexivity|reflexivity].
  - rewrite (lone_dot_app c (c2 :: r2) Y ltac:(discriminate)).
    destruct (lone_dot (c :: c2 :: r2)); [apply IH; exact H|reflexivity].
Qed.

Definition nfd (a : str) : Prop := forall a', a <> a' ++ [c_dot].

Lemma no_final_dot_nfd u : no_final_dot u <-> nfd u.
Proof.
  unfold no_final_dot, nfd. split.
  - intros H a' E. subst u. rewrite rev_app_distr in H. cbn in H. apply H. reflexivity.
  - intros H. destruct (rev u) as [|c r] eqn:E; [exact I|].
    intros Hc. subst c. apply (H (rev r)).
    rewrite <- (rev_involutive u), E. reflexivity.
Qed.

Lemma nfd_tail c r : nfd (c :: r) -> r <> [] -> nfd r.
Proof. intros H _ a' E. apply (H (c :: a')). rewrite E. reflexivity. Qed.

Lemma nfd_app_r m u : nfd (m ++ u) -> u <> [] -> nfd u.
Proof. intros H _ a' E. apply (H (m ++ a')). rewrite E, app_assoc. reflexivity. Qed.

Lemma kskip_app_nil : forall a Y, kskip a = [] -> (dstart Y \/ nfd a) -> kskip (a ++ Y) = kskip Y.
Proof.
  induction a as [|c r IH]; intros Y H HY; [reflexivity|].
  cbn [kskip app] in H |- *. destruct (is_ws c) eqn:Ews.
  { apply IH; [exact H|]. destruct HY as [HY|HY]; [left; exact HY|].
    destruct r as [|c2 r2]; [right; intros a' E; destruct a'; discriminate|].
    right. apply (nfd_tail c); [exact HY|discriminate]. }
  destruct (lone_dot (c :: r)) eqn:L; [|discriminate].
  destruct r as [|c2 r2].
  - cbn [app]. cbn [lone_dot hd_opt] in L. rewrite andb_true_r in L. apply N.eqb_eq in L. subst c.
    destruct HY as [HY|HY]; [|exfalso; apply (HY []); reflexivity].
    assert (L2 : lone_dot (c_dot :: Y) = true).
    { cbn [lone_dot]. rewrite N.eqb_refl. cbn [andb]. destruct Y as [|y Y']; [reflexivity|].
      cbn [hd_opt dstart] in *. rewrite (delim_not_char y HY). reflexivity. }
    rewrite L2. reflexivity.
  - rewrite (lone_dot_app c (c2 :: r2) Y ltac:(discriminate)), L.
    apply IH; [exact H|]. destruct HY as [HY|HY]; [left; exact HY|].
    right. apply (nfd_tail c); [exact HY|discriminate].
Qed.

(* -- kscan -- *)
Lemma kscan_stopped stop : forall s acc acc' l rest,
  kscan stop s acc = (acc', l :: rest) -> stop (hd_opt rest) = true.
Proof.
  induction s as [|c r IH]; intros acc acc' l rest H; cbn [kscan] in H; [discriminate|].
  destruct (stop (hd_opt r)) eqn:E.
  - inversion H; subst. exact E.
  - apply (IH _ _ _ _ H).
Qed.

Lemma kscan_app stop : forall s acc acc' l rest Y,
  kscan stop s acc = (acc', l :: rest) -> stop (hd_opt (rest ++ Y)) = true ->
  kscan stop (s ++ Y) acc = (acc', l :: rest ++ Y).
Proof.
  induction s as [|c r IH]; intros acc acc' l rest Y H HY; cbn [kscan] in H; [discriminate|].
  cbn [app kscan]. destruct (stop (hd_opt r)) eqn:E.
  - inversion H; subst. rewrite HY. reflexivity.
  - destruct r as [|c2 r2]; [cbn [kscan] in H; discriminate|].
    rewrite (hd_opt_app_ne (c2 :: r2) Y ltac:(discriminate)), E.
    apply IH; assumption.
Qed.

Lemma kscan_app_ne stop s acc acc' l rest Y :
  kscan stop s acc = (acc', l :: rest) -> rest <> [] ->
  kscan stop (s ++ Y) acc = (acc', l :: rest ++ Y).
Proof.
  intros H Hr. apply kscan_app; [exact H|].
  rewrite (hd_opt_app_ne rest Y Hr). apply (kscan_stopped _ _ _ _ _ _ H).
Qed.

Lemma kscan_nil stop : forall s acc acc', s <> [] -> kscan stop s acc = (acc', []) -> stop None = false.
Proof.
  induction s as [|c r IH]; intros acc acc' Hs H; [contradiction|].
  cbn [kscan] in H. destruct (stop (hd_opt r)) eqn:E; [discriminate|].
  destruct r as [|c2 r2]; [exact E|]. apply (IH _ _ ltac:(discriminate) H).
Qed.

Lemma kscan_app_end stop : forall s acc acc' y Y, s <> [] ->
  kscan stop s acc = (acc', []) -> stop (Some y) = true ->
  exists l, kscan stop (s ++ y :: Y) acc = (acc', l :: y :: Y).
Proof.
  induction s as [|c r IH]; intros acc acc' y Y Hs H Hy; [contradiction|].
  cbn [kscan] in H. cbn [app kscan]. destruct (stop (hd_opt r)) eqn:E; [discriminate|].
  destruct r as [|c2 r2].
  - cbn [kscan] in H. inversion H; subst. cbn [app hd_opt]. rewrite Hy. exists c. reflexivity.
  - rewrite (hd_opt_app_ne (c2 :: r2) (y :: Y) ltac:(discriminate)), E.
    apply IH; [discriminate|exact H|exact Hy].
Qed.

(* -- escapes -- *)
Lemma hexval_nl : hexval c_nl = None.
Proof. reflexivity. Qed.

Lemma hex4_nl a1 a2 a3 a4 :
  a1 = c_nl \/ a2 = c_nl \/ a3 = c_nl \/ a4 = c_nl -> hex4 a1 a2 a3 a4 = None.
Proof.
  unfold hex4. intros [-> | [-> | [-> | ->]]].
  - reflexivity.
  - destruct (hexval a1); reflexivity.
  - destruct (hexval a1); [|reflexivity]. destruct (hexval a2); reflexivity.
  - destruct (hexval a1); [|reflexivity]. destruct (hexval a2); [|reflexivity]. destruct (hexval a3); reflexivity.
Qed.

Lemma kescape_app_some t ec t' Y : kescape t = Some (ec, t') -> kescape (t ++ Y) = Some (ec, t' ++ Y).
Proof.
  destruct t as [|e t0]; [discriminate|]. unfold kescape. cbn [app].
  destruct (simple_escape e).
  - intros H. inversion H; subst. reflexivity.
  - destruct (N.eqb e 117); [|discriminate].
    destruct t0 as [|a1 [|a2 [|a3 [|a4 t'']]]]; try discriminate.
    cbn [app]. destruct (hex4 a1 a2 a3 a4); cbn [option_map]; [|discriminate].
    intros H. inversion H; subst. reflexivity.
Qed.

Lemma kescape_app_none t Y : kescape t = None -> In c_nl t -> kescape (t ++ Y) = None.
Proof.
  destruct t as [|e t0]; [intros _ Hn; destruct Hn|]. unfold kescape. cbn [app].
  destruct (simple_escape e); [discriminate|].
  destruct (N.eqb e 117) eqn:Eu; [|reflexivity].
  apply N.eqb_eq in Eu. subst e. intros H Hin.
  destruct Hin as [Hin|Hin]; [discriminate|].
  destruct t0 as [|a1 [|a2 [|a3 [|a4 t'']]]].
  - destruct Hin.
  - cbn [app]. destruct Hin as [-> | Hin]; [|destruct Hin].
    destruct Y as [|y1 [|y2 [|y3 Y']]]; try reflexivity; (rewrite hex4_nl; [reflexivity|auto]).
  - cbn [app]. destruct Hin as [-> | [-> | Hin]]; [| |destruct Hin];
      destruct Y as [|y1 [|y2 Y']]; try reflexivity; (rewrite hex4_nl; [reflexivity|auto]).
  - cbn [app]. destruct Hin as [-> | [-> | [-> | Hin]]]; [| | |destruct Hin];
      destruct Y as [|y1 Y']; try reflexivity; (rewrite hex4_nl; [reflexivity|auto]).
  - cbn [app]. destruct (hex4 a1 a2 a3 a4); [discriminate|reflexivity].
Qed.

(* -- strings -- *)
Lemma kskip_line_In : forall s, kskip_line s <> [] -> In c_nl s.
Proof.
  induction s as [|c r IH]; intros H; [exfalso; apply H; reflexivity|].
  cbn [kskip_line] in H. destruct (N.eqb c c_nl) eqn:E.
  - apply N.eqb_eq in E. left. exact E.
  - right. apply IH. exact H.
Qed.

Lemma kskip_line_app : forall s Y, kskip_line s <> [] -> kskip_line (s ++ Y) = kskip_line s ++ Y.
Proof.
  induction s as [|c r IH]; intros Y H; [exfalso; apply H; reflexivity|].
  cbn [kskip_line app] in H |- *. destruct (N.eqb c c_nl); [reflexivity|apply IH; exact H].
Qed.

Lemma kacc_app_inl : forall f s acc text s2, kacc f s acc = Some (inl (text, s2)) ->
  forall Y f', (length (s ++ Y) < f')%nat -> kacc f' (s ++ Y) acc = Some (inl (text, s2 ++ Y)) /\ s2 <> [].
Proof.
  induction f as [|f IH]; intros s acc text s2 H Y f' Hf'; [discriminate|].
  destruct f' as [|f']; [lia|].
  cbn [kacc] in H. destruct s as [|c t]; [discriminate|].
  cbn [app kacc]. cbn [app length] in Hf'.
  destruct (N.eqb c c_dquote). { inversion H; subst. split; [reflexivity|discriminate]. }
  destruct (N.eqb c c_nl); [discriminate|].
  destruct (N.eqb c c_bslash).
  - destruct (kescape t) as [[ec t1]|] eqn:K; [|discriminate].
    rewrite (kescape_app_some _ _ _ Y K).
    apply (IH _ _ _ _ H). apply kescape_len in K. rewrite app_length in *. lia.
  - apply (IH _ _ _ _ H). lia.
Qed.

Lemma kacc_app_inr : forall f s acc k s2, kacc f s acc = Some (inr (k, s2)) -> kskip_line s2 <> [] ->
  forall Y f', (length (s ++ Y) < f')%nat -> kacc f' (s ++ Y) acc = Some (inr (k, s2 ++ Y)).
Proof.
  induction f as [|f IH]; intros s acc k s2 H Hl Y f' Hf'; [discriminate|].
  destruct f' as [|f']; [lia|].
  cbn [kacc] in H. destruct s as [|c t].
  { inversion H; subst. exfalso. apply Hl. reflexivity. }
  cbn [app kacc]. cbn [app length] in Hf'.
  destruct (N.eqb c c_dquote); [discriminate|].
  destruct (N.eqb c c_nl). { inversion H; subst. reflexivity. }
  destruct (N.eqb c c_bslash) eqn:Eb.
  - destruct (kescape t) as [[ec t1]|] eqn:K.
    + rewrite (kescape_app_some _ _ _ Y K).
      apply (IH _ _ _ _ H Hl). apply kescape_len in K. rewrite app_length in *. lia.
    + inversion H; subst. apply kskip_line_In in Hl.
      destruct Hl as [Hl|Hl]; [apply N.eqb_eq in Eb; subst c; discriminate|].
      rewrite (kescape_app_none _ Y K Hl). reflexivity.
  - apply (IH _ _ _ _ H Hl). lia.
Qed.

Lemma kacc_total f s acc : (length s < f)%nat -> kacc f s acc <> None.
Proof.
  intros H E. pose proof (acc_string_k f s cur0 acc H) as K. rewrite E in K. exact K.
Qed.

(* -- character literals -- *)
Definition is_tchar (k : key) : Prop := match k with KTok (TChar _) => True | _ => False end.
Definition is_errstring (k : key) : Prop := match k with KErrString _ _ => True | _ => False end.

Lemma kchr_cont_kind cv s3 : is_tchar (fst (kchr_cont cv s3)) \/ is_errstring (fst (kchr_cont cv s3)).
Proof.
  unfold kchr_cont. destruct s3 as [|q r]; [right; exact I|].
  destruct (N.eqb q c_squote); [left|right]; exact I.
Qed.

Lemma kchr_kind r : is_tchar (fst (kchr r)) \/ is_errstring (fst (kchr r)).
Proof.
  unfold kchr. destruct r as [|c1 t]; [right; exact I|].
  destruct (N.eqb c1 c_bslash).
  - destruct (kescape t) as [[ec t']|]; [apply kchr_cont_kind|right; exact I].
  - destruct (N.eqb c1 c_nl); [right; exact I|apply kchr_cont_kind].
Qed.

Lemma kchr_cont_app cv s3 k a' Y : kchr_cont cv s3 = (k, a') -> (a' <> [] \/ is_tchar k) ->
  kchr_cont cv (s3 ++ Y) = (k, a' ++ Y).
Proof.
  unfold kchr_cont. destruct s3 as [|q r].
  - intros H. inversion H; subst. intros [C|C]; [exfalso; apply C; reflexivity|destruct C].
  - cbn [app]. destruct (N.eqb q c_squote); intros H _; inversion H; subst; reflexivity.
Qed.

Lemma kchr_app r k a' Y : kchr r = (k, a') -> (a' <> [] \/ is_tchar k) -> kchr (r ++ Y) = (k, a' ++ Y).
Proof.
  unfold kchr. destruct r as [|c1 t].
  - intros H. inversion H; subst. intros [C|C]; [exfalso; apply C; reflexivity|destruct C].
  - cbn [app]. destruct (N.eqb c1 c_bslash) eqn:Eb.
    + destruct (kescape t) as [[ec t']|] eqn:K.
      * rewrite (kescape_app_some _ _ _ Y K). apply kchr_cont_app.
      * intros H C. injection H as <- <-. destruct C as [C|C]; [|destruct C].
        assert (C' : kskip_line (c1 :: t) <> []) by exact C. clear C.
        pose proof (kskip_line_In _ C') as Hin.
        destruct Hin as [Hin|Hin]; [apply N.eqb_eq in Eb; subst c1; discriminate|].
        rewrite (kescape_app_none _ Y K Hin).
        change (c1 :: t ++ Y) with ((c1 :: t) ++ Y). rewrite (kskip_line_app _ Y C'). reflexivity.
    + destruct (N.eqb c1 c_nl).
      * intros H _. inversion H; subst. reflexivity.
      * apply kchr_cont_app.
Qed.

(* -- symbols -- *)
Definition is_tsymbol (k : key) : Prop := match k with KTok (TSymbol _) => True | _ => False end.

Lemma ksym_app c r k a' Y : ksym c (c :: r) = (k, a') ->
  (a' <> [] \/ ~ is_tsymbol k \/ dstart Y) -> ksym c ((c :: r) ++ Y) = (k, a' ++ Y).
Proof.
  unfold ksym. destruct (negb (is_symbol_item c)).
  { intros H _. inversion H; subst. reflexivity. }
  destruct (kscan stop_symbol (c :: r) []) as [acc s'] eqn:Ks.
  destruct s' as [|l rest].
  - (* the symbol reaches the end of the text *)
    cbn [tl]. intros H C. inversion H; subst.
    destruct C as [C|[C|C]]; [exfalso; apply C; reflexivity|exfalso; apply C; exact I|].
    destruct Y as [|y Y']; [rewrite app_nil_r, Ks; reflexivity|].
    cbn [dstart] in C.
    destruct (kscan_app_end stop_symbol (c :: r) [] acc y Y' ltac:(discriminate) Ks) as [l Hl].
    { cbn [stop_symbol]. rewrite (delim_not_item y C). reflexivity. }
    rewrite Hl. rewrite (delim_not_colon y C). reflexivity.
  - pose proof (kscan_stopped _ _ _ _ _ _ Ks) as Hst.
    destruct rest as [|colon r'].
    { cbn [hd_opt stop_symbol] in Hst. discriminate. }
    rewrite (kscan_app_ne _ _ _ _ _ _ Y Ks ltac:(discriminate)).
    cbn [app]. destruct (N.eqb colon c_colon); intros H _; inversion H; subst; reflexivity.
Qed.

(* -- one token -- *)
Definition cut_ok (Y : str) (k : key) (a' : str) : Prop :=
  a' <> [] \/ selfdelim_key k \/ (dstart Y /\ complete_key (hd_opt Y) k).

Lemma kbody_app s k a' Y : kbody s = Some (k, a') -> cut_ok Y k a' -> kbody (s ++ Y) = Some (k, a' ++ Y).
Proof.
  destruct s as [|c r]; [discriminate|]. unfold kbody. cbn [app].
  destruct (N.eqb c c_nl). { intros H _. inversion H; subst. reflexivity. }
  destruct (N.eqb c c_lparen). { intros H _. inversion H; subst. reflexivity. }
  destruct (N.eqb c c_rparen). { intros H _. inversion H; subst. reflexivity. }
  destruct (N.eqb c c_dot).
  { destruct (kscan stop_directive (c :: r) []) as [acc s'] eqn:Ks.
    intros H C. inversion H; subst. clear H.
    change (c :: r ++ Y) with ((c :: r) ++ Y).
    destruct s' as [|l rest].
    - cbn [tl] in C. destruct C as [C|[C|[C1 C2]]]; [exfalso; apply C; reflexivity|destruct C|].
      destruct Y as [|y Y']; [rewrite app_nil_r, Ks; reflexivity|]. cbn [dstart] in C1.
      destruct (kscan_app_end stop_directive (c :: r) [] acc y Y' ltac:(discriminate) Ks) as [l Hl].
      { cbn [stop_directive]. rewrite (delim_not_char y C1). reflexivity. }
      rewrite Hl. reflexivity.
    - cbn [tl] in C |- *. destruct rest as [|x rest'].
      { apply kscan_stopped in Ks. discriminate. }
      rewrite (kscan_app_ne _ _ _ _ _ _ Y Ks ltac:(discriminate)). reflexivity. }
  destruct (N.eqb c c_hash).
  { destruct (kscan stop_comment (c :: r) []) as [acc s'] eqn:Ks.
    intros H C. inversion H; subst. clear H.
    change (c :: r ++ Y) with ((c :: r) ++ Y).
    destruct s' as [|l rest].
    { apply kscan_nil in Ks; [discriminate|discriminate]. }
    cbn [tl] in C |- *.
    rewrite (kscan_app _ _ _ _ _ _ Y Ks); [reflexivity|].
    destruct rest as [|x rest']; [|apply (kscan_stopped _ _ _ _ _ _ Ks)].
    destruct C as [C|[C|[C1 C2]]]; [exfalso; apply C; reflexivity|destruct C|].
    cbn [complete_key] in C2. cbn [app]. rewrite C2. reflexivity. }
  destruct (N.eqb c c_dquote).
  { destruct (kacc (S (length r)) r []) as [[[text s2]|[kk s2]]|] eqn:Ka; [| |discriminate].
    - intros H _. inversion H; subst. clear H.
      destruct (kacc_app_inl _ _ _ _ _ Ka Y (S (length (r ++ Y))) ltac:(lia)) as [Ka' Hne].
      rewrite Ka'. destruct s2; [contradiction|reflexivity].
    - intros H C. inversion H; subst. clear H.
      destruct C as [C|[C|[_ C]]]; [|destruct C|destruct C].
      rewrite (kacc_app_inr _ _ _ _ _ Ka C Y (S (length (r ++ Y))) ltac:(lia)).
      rewrite (kskip_line_app _ Y C). reflexivity. }
  destruct (N.eqb c c_squote).
  { intros H C. inversion H as [Hk]. clear H.
    rewrite (kchr_app r k a' Y); [reflexivity|exact Hk|].
    destruct C as [C|[C|[_ C]]]; [left; exact C| |].
    - right. pose proof (kchr_kind r) as Kd. rewrite Hk in Kd. cbn [fst] in Kd.
      destruct Kd as [Kd|Kd]; [exact Kd|]. destruct k; try destruct Kd. destruct C.
    - right. pose proof (kchr_kind r) as Kd. rewrite Hk in Kd. cbn [fst] in Kd.
      destruct Kd as [Kd|Kd]; [exact Kd|]. destruct k; try destruct Kd. destruct C. }
  intros H C. inversion H as [Hk]. clear H.
  change (c :: r ++ Y) with ((c :: r) ++ Y).
  rewrite (ksym_app c r k a' Y Hk); [reflexivity|].
  destruct C as [C|[C|[C _]]]; [left; exact C| |right; right; exact C].
  right. left. intros Hs. destruct k as [[]| |]; try destruct Hs. destruct C.
Qed.

Lemma kbody_none s : kbody s = None -> s = [].
Proof.
  destruct s as [|c r]; [reflexivity|]. unfold kbody.
  destruct (N.eqb c c_nl); [discriminate|].
  destruct (N.eqb c c_lparen); [discriminate|].
  destruct (N.eqb c c_rparen); [discriminate|].
  destruct (N.eqb c c_dot). { destruct (kscan _ _ _). discriminate. }
  destruct (N.eqb c c_hash). { destruct (kscan _ _ _). discriminate. }
  destruct (N.eqb c c_dquote).
  { pose proof (kacc_total (S (length r)) r [] ltac:(lia)) as T.
    destruct (kacc (S (length r)) r []) as [[[text s2]|[kk s2]]|]; try discriminate. contradiction. }
  destruct (N.eqb c c_squote); discriminate.
Qed.

Theorem knext_app a k a' Y : knext a = Some (k, a') -> cut_ok Y k a' -> knext (a ++ Y) = Some (k, a' ++ Y).
Proof.
  unfold knext. intros H C.
  assert (Hne : kskip a <> []) by (intros E; rewrite E in H; discriminate).
  rewrite (kskip_app_ne a Y Hne). apply kbody_app; assumption.
Qed.

Theorem knext_app_none a Y : knext a = None -> (dstart Y \/ nfd a) -> knext (a ++ Y) = knext Y.
Proof.
  unfold knext. intros H C. apply kbody_none in H.
  rewrite (kskip_app_nil a Y H C). reflexivity.
Qed.

(* -- the whole text -- *)
Lemma last_opt_cons {A} (x : A) l :
  last_opt (x :: l) = match last_opt l with Some y => Some y | None => Some x end.
Proof.
  unfold last_opt. cbn [rev]. destruct (rev l) as [|y r] eqn:E; reflexivity.
Qed.

Lemma last_opt_nil_inv {A} (l : list A) : last_opt l = None -> l = [].
Proof.
  unfold last_opt. destruct (rev l) eqn:E; [|discriminate]. intros _.
  rewrite <- (rev_involutive l), E. reflexivity.
Qed.

Lemma klex_nil : klex [] = [].
Proof. reflexivity. Qed.

Lemma klex_app_gen Y : forall n u, (length u <= n)%nat ->
  (forall k, last_opt (klex u) = Some k -> selfdelim_key k \/ (dstart Y /\ complete_key (hd_opt Y) k)) ->
  (dstart Y \/ nfd u) ->
  klex (u ++ Y) = klex u ++ klex Y.
Proof.
  induction n as [|n IH]; intros u Hn Hlast Hskip.
  { destruct u; [reflexivity|cbn [length] in Hn; lia]. }
  rewrite (klex_unfold (u ++ Y)), (klex_unfold u).
  destruct (knext u) as [[k u']|] eqn:E.
  - destruct u' as [|x u''].
    + rewrite (knext_app u k [] Y E).
      * rewrite klex_nil. reflexivity.
      * right. apply Hlast. rewrite klex_unfold, E, klex_nil. reflexivity.
    + rewrite (knext_app u k (x :: u'') Y E); [|left; discriminate].
      cbn [app]. f_equal. apply (IH (x :: u'')).
      * apply knext_len in E. lia.
      * intros k' Hk'. apply Hlast. rewrite klex_unfold, E, last_opt_cons, Hk'. reflexivity.
      * destruct Hskip as [Hs|Hs]; [left; exact Hs|right].
        apply knext_shrink in E. destruct E as [m [E _]]. rewrite E in Hs.
        apply (nfd_app_r m); [exact Hs|discriminate].
  - rewrite (knext_app_none u Y E Hskip), <- klex_unfold. reflexivity.
Qed.

Lemma complete_key_mono nx k : complete_key None k -> complete_key nx k.
Proof. destruct k as [[]| |]; cbn [complete_key]; try tauto. discriminate. Qed.

(* cut before a delimiter: the last token of [u] must be complete *)
Theorem klex_app_delim u Y :
  dstart Y -> ends_complete (hd_opt Y) (klex u) -> klex (u ++ Y) = klex u ++ klex Y.
Proof.
  intros HY Hc. apply (klex_app_gen Y (length u) u (le_n _)); [|left; exact HY].
  intros k Hk. right. split; [exact HY|]. unfold ends_complete in Hc. rewrite Hk in Hc. exact Hc.
Qed.

(* cut after a self-delimiting token: anything may follow *)
Theorem klex_app_self u Y :
  no_final_dot u -> ends_selfdelim (klex u) -> klex (u ++ Y) = klex u ++ klex Y.
Proof.
  intros Hd Hc. apply (klex_app_gen Y (length u) u (le_n _)); [|right; apply no_final_dot_nfd; exact Hd].
  intros k Hk. left. unfold ends_selfdelim in Hc. rewrite Hk in Hc. exact Hc.
Qed.

(* ================================================================================== *)
(* Part E: layout                                                                       *)

Lemma sep_run_cons c w : sep_run (c :: w) <-> is_ws c = true /\ sep_run w.
Proof. unfold sep_run. cbn [forallb]. rewrite andb_true_iff. tauto. Qed.

Lemma kskip_sep : forall w v, sep_run w -> kskip (w ++ v) = kskip v.
Proof.
  induction w as [|c w IH]; intros v H; [reflexivity|].
  apply sep_run_cons in H. destruct H as [Hc Hw]. cbn [app kskip]. rewrite Hc. apply IH. exact Hw.
Qed.

(* leading separators are invisible *)
Theorem klex_sep w v : sep_run w -> klex (w ++ v) = klex v.
Proof.
  intros H. rewrite (klex_unfold (w ++ v)), (klex_unfold v). unfold knext. rewrite (kskip_sep w v H). reflexivity.
Qed.

Lemma sep_run_dstart w v : sep_run w -> w <> [] -> dstart (w ++ v).
Proof.
  destruct w as [|c w]; [contradiction|]. intros H _. apply sep_run_cons in H.
  cbn [app dstart]. apply is_ws_delim. tauto.
Qed.

Lemma ends_complete_mono nx ks : ends_complete None ks -> ends_complete nx ks.
Proof.
  unfold ends_complete. destruct (last_opt ks); [apply complete_key_mono|tauto].
Qed.

(* (a) a non-empty separator run after a complete token splits the text *)
Theorem klex_sep_split u w v :
  sep_run w -> w <> [] -> ends_complete None (klex u) -> klex (u ++ w ++ v) = klex u ++ klex v.
Proof.
  intros Hw Hne Hc. rewrite (klex_app_delim u (w ++ v)).
  - rewrite (klex_sep w v Hw). reflexivity.
  - apply sep_run_dstart; assumption.
  - apply ends_complete_mono. exact Hc.
Qed.

Theorem klex_sep_runs u v w1 w2 :
  sep_run w1 -> sep_run w2 -> w1 <> [] -> w2 <> [] -> ends_complete None (klex u) ->
  klex (u ++ w1 ++ v) = klex (u ++ w2 ++ v).
Proof.
  intros H1 H2 N1 N2 Hc. rewrite !klex_sep_split by assumption. reflexivity.
Qed.

(* (b) separators next to a delimiter or a self-delimiting token change nothing *)
Theorem klex_sep_before_delim u w Y :
  sep_run w -> dstart Y -> ends_complete None (klex u) -> klex (u ++ w ++ Y) = klex (u ++ Y).
Proof.
  intros Hw HY Hc. destruct w as [|c w]; [reflexivity|].
  rewrite (klex_sep_split u (c :: w) Y Hw ltac:(discriminate) Hc).
  rewrite (klex_app_delim u Y HY (ends_complete_mono _ _ Hc)). reflexivity.
Qed.

Theorem klex_sep_after_selfdelim u w Y :
  sep_run w -> no_final_dot u -> ends_selfdelim (klex u) -> klex (u ++ w ++ Y) = klex (u ++ Y).
Proof.
  intros Hw Hd Hc. rewrite (klex_app_self u (w ++ Y) Hd Hc), (klex_app_self u Y Hd Hc).
  rewrite (klex_sep w Y Hw). reflexivity.
Qed.

(* (c) comments and blank lines *)
Lemma knext_newline v : knext (c_nl :: v) = Some (KTok TNewline, v).
Proof. reflexivity. Qed.

Lemma klex_newline v : klex (c_nl :: v) = KTok TNewline :: klex v.
Proof. rewrite klex_unfold, knext_newline. reflexivity. Qed.

Lemma kscan_comment_run v : forall body c acc, nonl body ->
  exists l, kscan stop_comment (c :: body ++ c_nl :: v) acc = (rev (c :: body) ++ acc, l :: c_nl :: v).
Proof.
  induction body as [|b body IH]; intros c acc Hn.
  - exists c. reflexivity.
  - inversion Hn as [|? ? Hb Hbody]; subst.
    destruct (IH b (c :: acc) Hbody) as [l Hl]. exists l.
    change (kscan stop_comment (c :: (b :: body) ++ c_nl :: v) acc) with
      (if stop_comment (Some b) then (c :: acc, c :: (b :: body) ++ c_nl :: v)
       else kscan stop_comment (b :: body ++ c_nl :: v) (c :: acc)).
    cbn [stop_comment]. apply N.eqb_neq in Hb. rewrite Hb, Hl.
    cbn [rev]. rewrite <- !app_assoc. reflexivity.
Qed.

Lemma knext_comment body v : nonl body ->
  knext (c_hash :: body ++ c_nl :: v) = Some (KTok (TComment body), c_nl :: v).
Proof.
  intros Hn. destruct (kscan_comment_run v body c_hash [] Hn) as [l Hl].
  change (knext (c_hash :: body ++ c_nl :: v)) with
    (let '(acc, s') := kscan stop_comment (c_hash :: body ++ c_nl :: v) [] in
     Some (KTok (TComment (tl (rev acc))), tl s')).
  rewrite Hl. rewrite app_nil_r, rev_involutive. reflexivity.
Qed.

Lemma klex_comment body v : nonl body ->
  klex (c_hash :: body ++ c_nl :: v) = KTok (TComment body) :: KTok TNewline :: klex v.
Proof.
  intros Hn. rewrite klex_unfold, (knext_comment body v Hn), klex_newline. reflexivity.
Qed.

Theorem klex_before_newline u v :
  ends_complete (Some c_nl) (klex u) -> klex (u ++ c_nl :: v) = klex u ++ KTok TNewline :: klex v.
Proof.
  intros Hc. rewrite (klex_app_delim u (c_nl :: v)); [rewrite klex_newline; reflexivity|reflexivity|exact Hc].
Qed.

(* a comment written before the end of a line adds exactly one Comment item *)
Theorem klex_add_comment u w body v :
  sep_run w -> nonl body -> ends_complete None (klex u) ->
  klex (u ++ w ++ c_hash :: body ++ c_nl :: v) = klex u ++ KTok (TComment body) :: KTok TNewline :: klex v /\
  klex (u ++ c_nl :: v) = klex u ++ KTok TNewline :: klex v.
Proof.
  intros Hw Hn Hc. split.
  - rewrite (klex_sep_before_delim u w _ Hw); [|reflexivity|exact Hc].
    rewrite (klex_app_delim u (c_hash :: body ++ c_nl :: v)); [|reflexivity|apply ends_complete_mono; exact Hc].
    rewrite (klex_comment body v Hn). reflexivity.
  - apply klex_before_newline. apply ends_complete_mono. exact Hc.
Qed.

(* the last item of a text that ends with a newline is that newline *)
Lemma klex_ends_newline pre : last_opt (klex (pre ++ [c_nl])) = Some (KTok TNewline).
Proof.
  destruct (lex_all_spec false (pre ++ [c_nl]) None) as [ia [Hia _]].
  destruct (lex_all_E false None (pre ++ [c_nl]) ia) as [_ [_ [_ He]]]; [right; exists pre; reflexivity|exact Hia|].
  destruct He as [pre' [t [E1 E2]]]; [destruct pre; discriminate|].
  rewrite <- (lex_keys _ _ _ _ Hia), E1. unfold keys, last_opt. rewrite map_app, rev_app_distr.
  cbn [map rev app item_key]. rewrite E2. reflexivity.
Qed.

(* whole lines are lexed independently of what follows *)
Theorem klex_lines L1 L2 : lines_block L1 -> klex (L1 ++ L2) = klex L1 ++ klex L2.
Proof.
  intros [->|[pre ->]]; [reflexivity|]. apply klex_app_self.
  - unfold no_final_dot. rewrite rev_app_distr. cbn [rev app]. discriminate.
  - unfold ends_selfdelim. rewrite klex_ends_newline. exact I.
Qed.

(* a blank line (possibly with separators) adds exactly one Newline item *)
Theorem klex_blank_line L1 w L2 :
  lines_block L1 -> sep_run w ->
  klex (L1 ++ (w ++ [c_nl]) ++ L2) = klex L1 ++ KTok TNewline :: klex L2.
Proof.
  intros HL Hw. rewrite (klex_lines L1 _ HL). rewrite <- app_assoc.
  rewrite (klex_sep w _ Hw). cbn [app]. rewrite klex_newline. reflexivity.
Qed.

(* ================================================================================== *)
(* Part F: the same, on the lexer of the model                                          *)

Lemma lex_klex chk file s : exists items, lex_all chk file s = Ok items /\ keys items = klex s.
Proof.
  destruct (lex_all_spec chk s file) as [items [H _]]. exists items. split; [exact H|apply (lex_keys _ _ _ _ H)].
Qed.

(* the token stream does not depend on the build profile nor on the file identity, up to positions *)
Theorem lex_keys_indep chk1 file1 chk2 file2 s i1 i2 :
  lex_all chk1 file1 s = Ok i1 -> lex_all chk2 file2 s = Ok i2 -> keys i1 = keys i2.
Proof. intros H1 H2. rewrite (lex_keys _ _ _ _ H1), (lex_keys _ _ _ _ H2). reflexivity. Qed.

Theorem layout_separators chk file u v w1 w2 iu :
  sep_run w1 -> sep_run w2 -> w1 <> [] -> w2 <> [] ->
  lex_all chk file u = Ok iu -> ends_complete None (keys iu) ->
  exists i1 i2 iv, lex_all chk file (u ++ w1 ++ v) = Ok i1 /\ lex_all chk file (u ++ w2 ++ v) = Ok i2 /\
    lex_all chk file v = Ok iv /\ keys i1 = keys i2 /\ keys i1 = keys iu ++ keys iv.
Proof.
  intros H1 H2 N1 N2 Hu Hc. rewrite (lex_keys _ _ _ _ Hu) in *.
  destruct (lex_klex chk file (u ++ w1 ++ v)) as [i1 [L1 K1]].
  destruct (lex_klex chk file (u ++ w2 ++ v)) as [i2 [L2 K2]].
  destruct (lex_klex chk file v) as [iv [Lv Kv]].
  exists i1, i2, iv. rewrite K1, K2, Kv. repeat split; try assumption.
  - apply klex_sep_runs; assumption.
  - apply klex_sep_split; assumption.
Qed.

Theorem layout_optional_separators chk file u w Y iu :
  sep_run w -> lex_all chk file u = Ok iu ->
  (dstart Y /\ ends_complete None (keys iu)) \/ (no_final_dot u /\ ends_selfdelim (keys iu)) ->
  exists i1 i2, lex_all chk file (u ++ w ++ Y) = Ok i1 /\ lex_all chk file (u ++ Y) = Ok i2 /\ keys i1 = keys i2.
Proof.
  intros Hw Hu Hc. rewrite (lex_keys _ _ _ _ Hu) in *.
  destruct (lex_klex chk file (u ++ w ++ Y)) as [i1 [L1 K1]].
  destruct (lex_klex chk file (u ++ Y)) as [i2 [L2 K2]].
  exists i1, i2. rewrite K1, K2. repeat split; try assumption.
  destruct Hc as [[A B]|[A B]]; [apply klex_sep_before_delim|apply klex_sep_after_selfdelim]; assumption.
Qed.

Theorem layout_comment chk file u w body v iu :
  sep_run w -> nonl body -> lex_all chk file u = Ok iu -> ends_complete None (keys iu) ->
  exists i1 i2 iv, lex_all chk file (u ++ w ++ c_hash :: body ++ c_nl :: v) = Ok i1 /\
    lex_all chk file (u ++ c_nl :: v) = Ok i2 /\ lex_all chk file v = Ok iv /\
    keys i1 = keys iu ++ KTok (TComment body) :: KTok TNewline :: keys iv /\
    keys i2 = keys iu ++ KTok TNewline :: keys iv.
Proof.
  intros Hw Hn Hu Hc. rewrite (lex_keys _ _ _ _ Hu) in *.
  destruct (lex_klex chk file (u ++ w ++ c_hash :: body ++ c_nl :: v)) as [i1 [L1 K1]].
  destruct (lex_klex chk file (u ++ c_nl :: v)) as [i2 [L2 K2]].
  destruct (lex_klex chk file v) as [iv [Lv Kv]].
  exists i1, i2, iv. rewrite K1, K2, Kv. repeat split; try assumption;
    apply (klex_add_comment u w body v Hw Hn Hc).
Qed.

Theorem layout_blank_line chk file L1 w L2 :
  lines_block L1 -> sep_run w ->
  exists i1 i2 ia ib, lex_all chk file (L1 ++ (w ++ [c_nl]) ++ L2) = Ok i1 /\ lex_all chk file (L1 ++ L2) = Ok i2 /\
    lex_all chk file L1 = Ok ia /\ lex_all chk file L2 = Ok ib /\
    keys i1 = keys ia ++ KTok TNewline :: keys ib /\ keys i2 = keys ia ++ keys ib.
Proof.
  intros HL Hw.
  destruct (lex_klex chk file (L1 ++ (w ++ [c_nl]) ++ L2)) as [i1 [A1 K1]].
  destruct (lex_klex chk file (L1 ++ L2)) as [i2 [A2 K2]].
  destruct (lex_klex chk file L1) as [ia [Aa Ka]].
  destruct (lex_klex chk file L2) as [ib [Ab Kb]].
  exists i1, i2, ia, ib. rewrite K1, K2, Ka, Kb. repeat split; try assumption.
  - apply klex_blank_line; assumption.
  - apply klex_lines; assumption.
Qed.

(* ================================================================================== *)
(* Part G: a syntactic sufficient condition for [ends_complete None]                    *)

Lemma kskip_suffix : forall a, exists m, a = m ++ kskip a.
Proof.
  induction a as [|c r [m IH]]; [exists []; reflexivity|].
  cbn [kskip]. destruct (is_ws c); [exists (c :: m); cbn [app]; rewrite <- IH; reflexivity|].
  destruct (lone_dot (c :: r)); [exists (c :: m); cbn [app]; rewrite <- IH; reflexivity|].
  exists []. reflexivity.
Qed.

Lemma ksym_kind c s : match fst (ksym c s) with
                      | KErrUnexpected _ | KTok (TLabel _) | KTok (TSymbol _) => True | _ => False end.
Proof.
  unfold ksym. destruct (negb (is_symbol_item c)); [exact I|].
  destruct (kscan stop_symbol s []) as [acc s'].
  destruct s' as [|x [|colon r]]; try exact I. destruct (N.eqb colon c_colon); exact I.
Qed.

Lemma kbody_origin c r k a' : kbody (c :: r) = Some (k, a') -> plain_char c = true -> complete_key None k.
Proof.
  unfold kbody, plain_char.
  destruct (N.eqb c c_nl). { intros H _. inversion H; subst. exact I. }
  destruct (N.eqb c c_lparen). { intros H _. inversion H; subst. exact I. }
  destruct (N.eqb c c_rparen). { intros H _. inversion H; subst. exact I. }
  destruct (N.eqb c c_dot). { destruct (kscan _ _ _). intros H _. inversion H; subst. exact I. }
  destruct (N.eqb c c_hash). { intros _ H. rewrite !orb_true_r in H. discriminate. }
  destruct (N.eqb c c_dquote). { intros _ H. discriminate. }
  destruct (N.eqb c c_squote). { intros _ H. discriminate. }
  intros H _. inversion H as [Hk]. pose proof (ksym_kind c (c :: r)) as K. rewrite Hk in K. cbn [fst] in K.
  destruct k as [[]| |]; try destruct K; exact I.
Qed.

Lemma plain_cons c t : plain (c :: t) <-> plain_char c = true /\ plain t.
Proof. unfold plain. cbn [forallb]. rewrite andb_true_iff. tauto. Qed.

Lemma plain_app_r : forall m t, plain (m ++ t) -> plain t.
Proof.
  induction m as [|c m IH]; intros t H; [exact H|]. apply IH. cbn [app] in H. apply plain_cons in H. tauto.
Qed.

Lemma klex_plain : forall n t, (length t <= n)%nat -> plain t -> Forall (complete_key None) (klex t).
Proof.
  induction n as [|n IH]; intros t Hn Hp.
  { destruct t; [constructor|cbn [length] in Hn; lia]. }
  rewrite klex_unfold. destruct (knext t) as [[k t']|] eqn:E; [|constructor].
  pose proof (knext_shrink _ _ _ E) as [m [Hm Hne]].
  constructor.
  - unfold knext in E. destruct (kskip_suffix t) as [m' Hm'].
    destruct (kskip t) as [|c r] eqn:Ks; [discriminate|].
    apply (kbody_origin c r k t' E).
    rewrite Hm' in Hp. apply plain_app_r in Hp. apply plain_cons in Hp. tauto.
  - apply IH.
    + apply knext_len in E. lia.
    + rewrite Hm in Hp. apply (plain_app_r m). exact Hp.
Qed.

Lemma last_opt_app {A} (a b : list A) :
  last_opt (a ++ b) = match last_opt b with Some x => Some x | None => last_opt a end.
Proof.
  unfold last_opt. rewrite rev_app_distr. destruct (rev b); [rewrite app_nil_l|]; reflexivity.
Qed.

Lemma last_opt_In {A} (l : list A) x : last_opt l = Some x -> In x l.
Proof.
  unfold last_opt. destruct (rev l) as [|y r] eqn:E; [discriminate|]. intros H. inversion H; subst.
  apply in_rev. rewrite E. left. reflexivity.
Qed.

Theorem ends_complete_plain L t : lines_block L -> plain t -> ends_complete None (klex (L ++ t)).
Proof.
  intros HL Hp. rewrite (klex_lines L t HL). unfold ends_complete. rewrite last_opt_app.
  destruct (last_opt (klex t)) as [k|] eqn:E.
  - apply last_opt_In in E. pose proof (klex_plain (length t) t (le_n _) Hp) as F.
    rewrite Forall_forall in F. apply F. exact E.
  - destruct HL as [->|[pre ->]]; [reflexivity|]. rewrite klex_ends_newline. exact I.
Qed.

(* the layout theorem with a purely syntactic side condition *)
Theorem layout_separators_plain chk file L t v w1 w2 :
  lines_block L -> plain t -> sep_run w1 -> sep_run w2 -> w1 <> [] -> w2 <> [] ->
  exists i1 i2, lex_all chk file ((L ++ t) ++ w1 ++ v) = Ok i1 /\ lex_all chk file ((L ++ t) ++ w2 ++ v) = Ok i2 /\
    keys i1 = keys i2.
Proof.
  intros HL Hp H1 H2 N1 N2.
  destruct (lex_klex chk file ((L ++ t) ++ w1 ++ v)) as [i1 [A1 K1]].
  destruct (lex_klex chk file ((L ++ t) ++ w2 ++ v)) as [i2 [A2 K2]].
  exists i1, i2. rewrite K1, K2. repeat split; try assumption.
  apply klex_sep_runs; try assumption. apply ends_complete_plain; assumption.
Qed.

(* ================================================================================== *)
(* Part H: a whole text as pieces and separator runs                                    *)

Theorem klex_render : forall l, Forall piece_ok l ->
  klex (render l) = concat (map (fun pw => klex (fst pw)) l).
Proof.
  induction l as [|[p w] l IH]; intros H; [reflexivity|].
  inversion H as [|? ? [Hw Hp] Hl]; subst. cbn [fst snd] in Hw, Hp.
  unfold render. cbn [map concat fst snd]. fold (render l). rewrite <- app_assoc, <- (IH Hl).
  destruct Hp as [[Hne Hc]|[Hd Hs]].
  - apply klex_sep_split; assumption.
  - rewrite (klex_app_self p _ Hd Hs), (klex_sep w _ Hw). reflexivity.
Qed.

(* two writings of the same pieces, with whatever separators, have the same token stream *)
Theorem layout_render chk file l1 l2 :
  map fst l1 = map fst l2 -> Forall piece_ok l1 -> Forall piece_ok l2 ->
  exists i1 i2, lex_all chk file (render l1) = Ok i1 /\ lex_all chk file (render l2) = Ok i2 /\ keys i1 = keys i2.
Proof.
  intros E H1 H2.
  destruct (lex_klex chk file (render l1)) as [i1 [A1 K1]].
  destruct (lex_klex chk file (render l2)) as [i2 [A2 K2]].
  exists i1, i2. rewrite K1, K2, (klex_render l1 H1), (klex_render l2 H2). repeat split; try assumption.
  f_equal. rewrite <- (map_map fst klex l1), <- (map_map fst klex l2), E. reflexivity.
Qed.

(* ================================================================================== *)
(* Part I: in a token stream, a comment is followed by a newline (or by nothing)        *)

Lemma knext_comment_rest s b s' : knext s = Some (KTok (TComment b), s') -> s' = [] \/ exists v, s' = c_nl :: v.
Proof.
  unfold knext. destruct (kskip s) as [|c r]; [discriminate|]. unfold kbody.
  destruct (N.eqb c c_nl); [discriminate|].
  destruct (N.eqb c c_lparen); [discriminate|].
  destruct (N.eqb c c_rparen); [discriminate|].
  destruct (N.eqb c c_dot). { destruct (kscan _ _ _). discriminate. }
  destruct (N.eqb c c_hash).
  { destruct (kscan stop_comment (c :: r) []) as [acc s2] eqn:Ks. intros H. inversion H; subst. clear H.
    destruct s2 as [|l rest]; [left; reflexivity|].
    apply kscan_stopped in Ks. cbn [tl]. destruct rest as [|x rest']; [left; reflexivity|].
    cbn [hd_opt stop_comment] in Ks. apply N.eqb_eq in Ks. subst x. right. exists rest'. reflexivity. }
  destruct (N.eqb c c_dquote).
  { destruct (kacc _ _ _) as [[[text s2]|[kk s2]]|]; discriminate. }
  destruct (N.eqb c c_squote).
  { intros H. inversion H as [Hk]. pose proof (kchr_kind r) as K. rewrite Hk in K. cbn [fst] in K.
    destruct K as [K|K]; destruct K. }
  intros H. inversion H as [Hk]. pose proof (ksym_kind c (c :: r)) as K. rewrite Hk in K. destruct K.
Qed.

Lemma klex_comment_next : forall n s, (length s <= n)%nat ->
  forall pre b k post, klex s = pre ++ KTok (TComment b) :: k :: post -> k = KTok TNewline.
Proof.
  induction n as [|n IH]; intros s Hn pre b k post H.
  { destruct s; [|cbn [length] in Hn; lia]. rewrite klex_nil in H. destruct pre; discriminate. }
  rewrite klex_unfold in H. destruct (knext s) as [[k0 s']|] eqn:E; [|destruct pre; discriminate].
  destruct pre as [|p pre'].
  - cbn [app] in H. inversion H as [[Hk0 Hrest]]. subst k0.
    destruct (knext_comment_rest _ _ _ E) as [->|[v ->]].
    + rewrite klex_nil in Hrest. discriminate.
    + rewrite klex_newline in Hrest. inversion Hrest. reflexivity.
  - cbn [app] in H. inversion H as [[Hk0 Hrest]].
    apply (IH s' ltac:(apply knext_len in E; lia) pre' b k post Hrest).
Qed.

Theorem lex_comment_then_newline chk file s items pre t it post :
  lex_all chk file s = Ok items -> items = pre ++ LTok t :: it :: post ->
  (exists b, tt t = TComment b) -> exists t', it = LTok t' /\ tt t' = TNewline.
Proof.
  intros H E [b Hb]. pose proof (lex_keys _ _ _ _ H) as K. subst items.
  unfold keys in K. rewrite map_app in K. cbn [map item_key] in K. rewrite Hb in K.
  symmetry in K. apply (klex_comment_next (length s) s (le_n _)) in K.
  destruct it as [t'| |]; cbn [item_key] in K; try discriminate.
  exists t'. split; [reflexivity|]. inversion K. reflexivity.
Qed.

(* ================================================================================== *)
(* Part J: keys and location erasure (Spec/ParamSpec.v) say the same thing              *)
From RV.Spec Require ParamSpec.

Lemma item_key_erase a b : item_key a = item_key b <-> ParamSpec.erase_item a = ParamSpec.erase_item b.
Proof.
  destruct a as [ta|ta pa ka|ta], b as [tb|tb pb kb|tb]; cbn [item_key ParamSpec.erase_item]; unfold ParamSpec.erase_tok;
    split; intros H; try discriminate; inversion H; congruence.
Qed.

Lemma keys_erase : forall l1 l2, keys l1 = keys l2 <-> map ParamSpec.erase_item l1 = map ParamSpec.erase_item l2.
Proof.
  induction l1 as [|a l1 IH]; intros [|b l2]; cbn [keys map]; split; intros H; try discriminate; try reflexivity.
  - inversion H as [[Ha Hl]]. f_equal; [apply item_key_erase; exact Ha|apply IH; exact Hl].
  - inversion H as [[Ha Hl]]. f_equal; [apply item_key_erase; exact Ha|]. apply (proj2 (IH l2)). exact Hl.
Qed.
