(* Decode tables: the mnemonic -> operation mapping used by the parser (inst_from_str), by the value analysis
   (math_op) and by the ISA machine of C01 (Rv32.alu, load_width, store_width) all agree with the manual's table,
   for every spelling case of the mnemonic. *)
From Coq Require Import List Bool Lia NArith ZArith.
From RV.Model Require Import Base I32 Lexer Isa Parser Cfg Avail.
From RV.Spec Require FoldSpec AsmSpec Rv32.
Import ListNotations.

Definition fop_eqb (a b : FoldSpec.op) : bool :=
  match a, b with
  | FoldSpec.Add, FoldSpec.Add | FoldSpec.And, FoldSpec.And | FoldSpec.Or, FoldSpec.Or | FoldSpec.Sll, FoldSpec.Sll
  | FoldSpec.Slt, FoldSpec.Slt | FoldSpec.Sltu, FoldSpec.Sltu | FoldSpec.Sra, FoldSpec.Sra | FoldSpec.Srl, FoldSpec.Srl
  | FoldSpec.Sub, FoldSpec.Sub | FoldSpec.Xor, FoldSpec.Xor | FoldSpec.Mul, FoldSpec.Mul | FoldSpec.Mulh, FoldSpec.Mulh
  | FoldSpec.Mulhsu, FoldSpec.Mulhsu | FoldSpec.Mulhu, FoldSpec.Mulhu | FoldSpec.Div, FoldSpec.Div
  | FoldSpec.Divu, FoldSpec.Divu | FoldSpec.Rem, FoldSpec.Rem | FoldSpec.Remu, FoldSpec.Remu => true
  | _, _ => false
  end.
Lemma fop_eqb_eq a b : fop_eqb a b = true -> a = b.
Proof. destruct a, b; cbn; intros H; try discriminate; reflexivity. Qed.

Definition arith_ok (e : str * FoldSpec.op) : bool :=
  match inst_from_str (fst e) with
  | Some i =>
      match math_op i, Rv32.alu i with
      | Some mo, Some o => (fop_eqb (Rv32.spec_of mo) (snd e) && fop_eqb o (snd e))%bool
      | _, _ => false
      end
  | None => false
  end.

Lemma arith_table_ok : forallb arith_ok AsmSpec.manual_arith = true.
Proof. vm_compute. reflexivity. Qed.

Theorem decode_arith : forall m o, In (m, o) AsmSpec.manual_arith ->
  exists i mo, inst_from_str m = Some i /\ math_op i = Some mo /\ Rv32.spec_of mo = o /\ Rv32.alu i = Some o.
Proof.
  intros m o H. pose proof (proj1 (forallb_forall _ _) arith_table_ok _ H) as K.
  unfold arith_ok in K. cbn [fst snd] in K.
  destruct (inst_from_str m) as [i|] eqn:Ei; [|discriminate].
  destruct (math_op i) as [mo|] eqn:Em; [|discriminate]. destruct (Rv32.alu i) as [o'|] eqn:Ea; [|discriminate].
  apply andb_prop in K. destruct K as [K1 K2]. apply fop_eqb_eq in K1, K2. subst.
  exists i, mo. repeat split; auto.
Qed.

Definition load_ok (e : str * (Z * bool)) : bool :=
  match inst_from_str (fst e) with
  | Some i => let '(w, sg) := Rv32.load_width i in (Z.eqb w (fst (snd e)) && Bool.eqb sg (snd (snd e)))%bool
  | None => false
  end.
Definition store_ok (e : str * Z) : bool :=
  match inst_from_str (fst e) with Some i => Z.eqb (Rv32.store_width i) (snd e) | None => false end.
Lemma mem_tables_ok : forallb load_ok AsmSpec.manual_loads = true /\ forallb store_ok AsmSpec.manual_stores = true.
Proof. vm_compute. split; reflexivity. Qed.

Theorem decode_mem :
  (forall m w sg, In (m, (w, sg)) AsmSpec.manual_loads -> exists i, inst_from_str m = Some i /\ Rv32.load_width i = (w, sg)) /\
  (forall m w, In (m, w) AsmSpec.manual_stores -> exists i, inst_from_str m = Some i /\ Rv32.store_width i = w).
Proof.
  destruct mem_tables_ok as [L S]. split.
  - intros m w sg H. pose proof (proj1 (forallb_forall _ _) L _ H) as K. unfold load_ok in K. cbn [fst snd] in K.
    destruct (inst_from_str m) as [i|] eqn:Ei; [|discriminate]. exists i. split; [reflexivity|].
    destruct (Rv32.load_width i) as [w' sg'] eqn:El. apply andb_prop in K. destruct K as [K1 K2].
    apply Z.eqb_eq in K1. apply Bool.eqb_prop in K2. subst. reflexivity.
  - intros m w H. pose proof (proj1 (forallb_forall _ _) S _ H) as K. unfold store_ok in K. cbn [fst snd] in K.
    destruct (inst_from_str m) as [i|] eqn:Ei; [|discriminate]. exists i. split; [reflexivity|]. apply Z.eqb_eq. exact K.
Qed.

(* mnemonics are recognised in any letter case *)
Lemma to_lower_idem c : to_lower (to_lower c) = to_lower c.
Proof.
  unfold to_lower. destruct (is_ascii_upper c) eqn:E; [|rewrite E; reflexivity].
  unfold is_ascii_upper, in_range in *.
  apply andb_prop in E. destruct E as [E1 E2]. apply N.leb_le in E1, E2.
  replace (N.leb (c + 32) 90) with false; [rewrite andb_false_r; reflexivity|].
  symmetry. apply N.leb_gt. lia.
Qed.
Theorem decode_case s : inst_from_str (lower s) = inst_from_str s.
Proof.
  unfold inst_from_str. f_equal. unfold lower. rewrite map_map. apply map_ext. intros c. apply to_lower_idem.
Qed.
