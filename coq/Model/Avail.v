(* Model of the value analysis: analysis/available.rs `AvailableValuePass::run` and its seven
   rules, analysis/gen_kill.rs `gen_reg_value`/`gen_memory_value`, cfg/ops.rs `math_op` /
   `scalar_op`, cfg/available_value_map.rs `stack_offset`/`is_original_value`.
   Mirrors the code after the fix commits 86f3542, 2edb578, 4536328, 12f4dab, 6dcbaa9. *)
From RV.Model Require Import Base I32 Imm Lexer Isa Parser Cfg.
Open Scope N_scope.

(* Inst::math_op / scalar_op *)
Definition math_op (i : inst) : option mathop :=
  match i with
  | IAdd | IAddi => Some MAdd | IAnd | IAndi => Some MAnd | IOr | IOri => Some MOr
  | ISll | ISlli => Some MSll | ISlt | ISlti => Some MSlt | ISltu | ISltiu => Some MSltu
  | ISra | ISrai => Some MSra | ISrl | ISrli => Some MSrl | ISub => Some MSub
  | IXor | IXori => Some MXor | IMul => Some MMul | IMulh => Some MMulh | IMulhsu => Some MMulhsu
  | IMulhu => Some MMulhu | IDiv | IDivw => Some MDiv | IDivu => Some MDivu
  | IRem | IRemw => Some MRem | IRemu | IRemuw => Some MRemu
  | _ => None
  end.
Definition scalar_op (i : inst) : option mathop :=
  match i with IAdd | IAddi => Some MAdd | ISub => Some MSub | _ => None end.

(* ParserNode::inst() *)
Definition node_inst (n : pnode) : inst :=
  match n with
  | PArith i _ _ _ _ | PIArith i _ _ _ _ | PJumpLink i _ _ _ | PJumpLinkR i _ _ _ _ | PBasic i _
  | PBranch i _ _ _ _ | PStore i _ _ _ _ | PLoad i _ _ _ _ | PCsr i _ _ _ _ | PCsrI i _ _ _ _ => wv i
  | PLoadAddr _ _ _ _ => ILa
  | _ => INop
  end.

Definition stack_offset (m : regmap) : option Z :=
  match rm_get 2 m with Some (AOrig r off) => if N.eqb r 2 then Some off else None | _ => None end.
Definition is_original_value (m : regmap) (r : reg) : bool :=
  match rm_get r m with Some (AOrig r' off) => (N.eqb r r' && Z.eqb off 0)%bool | _ => false end.

Definition gen_memory_value (n : pnode) : option (memloc * aval) :=
  match n with
  | PCsr i _ csr rs1 _ => if inst_is i ICsrrw then Some (MCsr (wv csr), ARegScalar (wv rs1) 0) else None
  | PCsrI i _ csr imm _ => if inst_is i ICsrrwi then Some (MCsr (wv csr), AConst (wv imm)) else None
  | PStore i rs1 rs2 imm _ =>   (* only a full word makes the slot hold the register's value *)
      if (N.eqb (wv rs1) 2 && inst_is i ISw)%bool then Some (MStack (wv imm), ARegScalar (wv rs2) 0) else None
  | _ => None
  end.

Definition gen_reg_value (n : pnode) : option (reg * aval) :=
  let item :=
    match n with
    | PCsr _ rd csr _ _ => Some (wv rd, AValueInCsr (wv csr))
    | PCsrI _ rd csr _ _ => Some (wv rd, AValueInCsr (wv csr))
    | PLoadAddr _ rd name _ => Some (wv rd, AAddr name)
    | PLoad _ rd rs1 imm _ => Some (wv rd, AMemAtReg (wv rs1) (wv imm))
    | PIArith i rd rs1 imm _ =>
        if N.eqb (wv rs1) 0 then
          match wv i with
          | IAddi | ILui | IAddiw | IXori | IOri => Some (wv rd, AConst (wv imm))
          | IAndi | ISlli | ISlliw | ISrai | ISraiw | ISrli | ISrliw => Some (wv rd, AConst 0)
          | _ => None
          end
        else None
    | PArith i rd rs1 rs2 _ =>
        if (N.eqb (wv rs1) 0 && N.eqb (wv rs2) 0)%bool then
          Some (wv rd, AConst (match math_op (wv i) with Some op => operate op 0 0 | None => 0%Z end))
        else None
    | _ => None
    end in
  match item with
  | Some (r, _) => if N.eqb r 0 then None else item
  | None => None
  end.

Definition rm_remove_set (s : regset) (m : regmap) : regmap :=
  filter (fun kv => negb (rs_mem (fst kv) s)) m.
(* `extend(set.into_available_values())` *)
Definition rm_extend_originals (s : regset) (m : regmap) : regmap :=
  fold_left (fun m r => rm_insert r (AOrig r 0) m) (rs_elems s) m.

(* rules, in the order the pass applies them *)
Definition rule_expand_address_for_load (n : pnode) (out rin : regmap) : regmap :=
  match writes_to n, n with
  | Some dst, PLoad _ _ rs1 imm _ =>
      match rm_get (wv rs1) rin with
      | Some (AOrig r off) => rm_insert (wv dst) (AMemAtOrig r (wrap32 (off + wv imm))) out
      | Some (AAddr label) => rm_insert (wv dst) (AMem (wv label) (wv imm)) out
      | _ => out
      end
  | _, _ => out
  end.

Definition loads_word (n : pnode) : bool := match n with PLoad i _ _ _ _ => inst_is i ILw | _ => false end.
Definition rule_value_from_stack (n : pnode) (out : regmap) (min : memmap) : regmap :=
  match writes_to n with
  | Some dst =>
      let out1 := match rm_get (wv dst) out with
                  | Some (AValueInCsr csr) =>
                      match mm_get (MCsr csr) min with Some v => rm_insert (wv dst) v out | None => out end
                  | _ => out
                  end in
      match rm_get (wv dst) out1 with
      | Some (AMemAtOrig psp off) =>
          if (N.eqb psp 2 && loads_word n)%bool then
            match mm_get (MStack off) min with Some v => rm_insert (wv dst) v out1 | None => out1 end
          else out1
      | _ => out1
      end
  | None => out
  end.

Definition rule_pull_value_from_csr_memory (n : pnode) (out : regmap) (mout_old : memmap) : regmap :=
  match reads_from_memory n with
  | Some ((r, off), dest) =>
      match rm_get r out with
      | Some (AValueInCsr csr) =>
          match mm_get (MCsrOff csr off) mout_old with Some v => rm_insert dest v out | None => out end
      | _ => out
      end
  | None => out
  end.

Definition zero_based (v : aval) : option Z :=
  match v with
  | AOrig r i | ARegScalar r i => if N.eqb r 0 then Some i else None
  | _ => None
  end.
Definition rule_zero_to_const_reg (out rin : regmap) : regmap :=
  fold_left (fun o kv => match zero_based (snd kv) with
                         | Some i => if opt_aval_eqb (rm_get (fst kv) o) (Some (snd kv))
                                     then rm_insert (fst kv) (AConst i) o else o
                         | None => o end) rin out.
Definition rule_zero_to_const_mem (mo mi : memmap) : memmap :=
  fold_left (fun o kv => match zero_based (snd kv) with
                         | Some i => if opt_aval_eqb (mm_get (fst kv) o) (Some (snd kv))
                                     then mm_insert (fst kv) (AConst i) o else o
                         | None => o end) mi mo.

Definition rule_perform_math_ops (n : pnode) (out rin : regmap) : regmap :=
  match writes_to n with
  | Some dst =>
      let lhs := match n with
                 | PArith _ _ rs1 _ _ => rm_get (wv rs1) rin
                 | PIArith _ _ rs1 _ _ => rm_get (wv rs1) rin
                 | _ => None end in
      let rhs := match n with
                 | PArith _ _ _ rs2 _ => rm_get (wv rs2) rin
                 | PIArith _ _ _ imm _ => Some (AConst (wv imm))
                 | _ => None end in
      let result :=
        match lhs, rhs with
        | Some (AConst x), Some (AConst y) => option_map (fun op => AConst (operate op x y)) (math_op (node_inst n))
        | Some (AOrig r x), Some (AConst y) => option_map (fun op => AOrig r (operate op x y)) (scalar_op (node_inst n))
        | Some (AConst x), Some (AOrig r y) =>
            match scalar_op (node_inst n) with Some MAdd => Some (AOrig r (operate MAdd x y)) | _ => None end
        | _, _ => None
        end in
      match result with Some v => rm_insert (wv dst) v out | None => out end
  | None => out
  end.

Definition rule_push_value_to_csr_memory (n : pnode) (mo : memmap) (out : regmap) : memmap :=
  match stores_to_memory n with
  | Some (source, (r, off)) =>
      match rm_get r out with
      | Some (AValueInCsr csr) => mm_insert (MCsrOff csr off) (ARegScalar source 0) mo
      | _ => mo
      end
  | None => mo
  end.

Definition rule_known_values_to_stack (mo : memmap) (rin : regmap) : memmap :=
  fold_left (fun o kv => match snd kv with
                         | ARegScalar r off =>
                             match rm_get r rin with
                             | Some (AConst x) => mm_insert (fst kv) (AConst (wrap32 (x + off))) o
                             | Some (AOrig r2 off3) => mm_insert (fst kv) (AOrig r2 (wrap32 (off3 + off))) o
                             | _ => o
                             end
                         | _ => o end) mo mo.

Definition known_ecall_signature (c : cnode) : option (regset * regset) :=
  match known_ecall c with Some k => environment_in_outs k | None => None end.

(* meet over the visited predecessors; none -> default (empty) *)
Definition meet_regs (g : list cnode) (ps : list nat) (visited : list nat) : regmap :=
  match filter (fun p => memn p visited) ps with
  | [] => []
  | p :: ps' =>
      fold_left (fun acc q => match getn g q with Some c => rm_meet acc (rout c) | None => acc end) ps'
                (match getn g p with Some c => rout c | None => [] end)
  end.
Definition meet_mems (g : list cnode) (ps : list nat) (visited : list nat) : memmap :=
  match filter (fun p => memn p visited) ps with
  | [] => []
  | p :: ps' =>
      fold_left (fun acc q => match getn g q with Some c => mm_meet acc (mout c) | None => acc end) ps'
                (match getn g p with Some c => mout c | None => [] end)
  end.

Definition set_avail (c : cnode) (ri ro : regmap) (mi mo : memmap) : cnode :=
  mkcn (cn c) (clabels c) (ctext c) (nexts c) (prevs c) (cfuncs c) ri ro mi mo (lin c) (lout c) (udef c).

(* the transfer of one node, given its new ins and its old memory outs *)
Definition avail_transfer (c : cnode) (ri : regmap) (mi : memmap) : regmap * memmap :=
  let n := cn c in
  let c_in := set_avail c ri (rout c) mi (mout c) in
  let ow1 := kill_reg n in
  let ow2 := match calls_to n with Some _ => rs_union ow1 return_addr_set | None => ow1 end in
  let overwritten :=
    if is_ecall n then
      rs_union ow2 (match known_ecall_signature c_in with Some (_, rets) => rets | None => program_args_set end)
    else ow2 in
  (* a value expressed relative to an overwritten register no longer says anything *)
  let is_stale (v : aval) := match v with ARegScalar r _ => rs_mem r overwritten | _ => false end in
  let o3 := filter (fun kv => (negb (rs_mem (fst kv) overwritten) && negb (is_stale (snd kv)))%bool) ri in
  let o4 := match gen_reg_value n with Some (r, v) => rm_insert r v o3 | None => o3 end in
  let o4 := if is_function_entry n then [] else o4 in   (* nothing of a fall-through predecessor survives *)
  let o5 := if is_handler_function_entry n then rm_extend_originals all_writable_set o4 else o4 in
  let o6 := if is_function_entry n then rm_extend_originals callee_saved_set o5 else o5 in
  let o7 := if is_program_entry n then rm_extend_originals sp_ra_set o6 else o6 in
  let below_sp (l : memloc) :=
    match calls_to n, l with
    | Some _, MStack off => match stack_offset ri with Some sp => Z.ltb off sp | None => true end
    | _, _ => false
    end in
  let stored_bytes :=
    match n with
    | PStore i rs1 _ imm _ =>
        if N.eqb (wv rs1) 2 then
          Some (option_map (fun sp => sp + wv imm) (stack_offset ri),
                if inst_is i ISb then 1 else if inst_is i ISh then 2 else 4)
        else None
    | _ => None
    end%Z in
  let overlapped (l : memloc) :=
    match l, stored_bytes with
    | MStack off, Some (Some start, width) => (Z.ltb off (start + width) && Z.ltb start (off + 4))%bool
    | MStack _, Some (None, _) => true
    | _, _ => false
    end in
  let mi_kept := filter (fun kv => (negb (is_stale (snd kv)) && negb (below_sp (fst kv)) && negb (overlapped (fst kv)))%bool) mi in
  let m1 := if is_any_entry n then []
            else match gen_memory_value n with
                 | Some (MStack offset, v) =>
                     match stack_offset ri with
                     | Some cur => mm_insert (MStack (wrap32 (cur + offset))) v mi_kept
                     | None => mi_kept
                     end
                 | Some (loc, v) => mm_insert loc v mi_kept
                 | None => mi_kept
                 end in
  let r1 := rule_expand_address_for_load n o7 ri in
  let r2 := rule_value_from_stack n r1 mi in
  let r3 := rule_pull_value_from_csr_memory n r2 (mout c) in
  let r4 := rule_zero_to_const_reg r3 ri in
  let m2 := rule_zero_to_const_mem m1 mi in
  let r5 := rule_perform_math_ops n r4 ri in
  let m3 := rule_push_value_to_csr_memory n m2 r5 in
  let m4 := rule_known_values_to_stack m3 ri in
  (* nothing is ever recorded for x0 *)
  (rm_remove_set const_zero_set r5, m4).

Definition avail_node (g : list cnode) (visited : list nat) (i : nat) : list cnode * bool :=
  match getn g i with
  | None => (g, false)
  | Some c =>
      let ri := meet_regs g (prevs c) visited in
      let mi := meet_mems g (prevs c) visited in
      let '(ro, mo) := avail_transfer c ri mi in
      let changed := negb (rm_eqb ri (rin c) && mm_eqb mi (min c) && rm_eqb ro (rout c) && mm_eqb mo (mout c))%bool in
      (upd g i (fun x => set_avail x ri ro mi mo), changed)
  end.

Fixpoint avail_sweep (idx : list nat) (g : list cnode) (visited : list nat) (changed : bool)
  : list cnode * list nat * bool :=
  match idx with
  | [] => (g, visited, changed)
  | i :: idx' =>
      let '(g', ch) := avail_node g visited i in
      (* fix: a node seen for the first time counts as a change - the nodes before it have not yet taken it into account *)
      avail_sweep idx' g' (ins i visited) (changed || ch || negb (memn i visited))%bool
  end.

Fixpoint avail_loop (fuel : nat) (g : list cnode) (visited : list nat) : res (list cnode) :=
  match fuel with
  | O => OutOfFuel
  | S f =>
      let '(g', v', ch) := avail_sweep (seq 0 (length g)) g visited false in
      if ch then avail_loop f g' v' else Ok g'
  end.

(* fuel: a generous multiple of the program size; exhaustion is reported, never hidden *)
Definition avail_fuel (g : cfg) : nat := (40 * length (gnodes g) + 64)%nat.
Definition avail_pass (g : cfg) : res cfg :=
  do ns <- avail_loop (avail_fuel g) (gnodes g) [];
  Ok (mkcfg ns (gfuncs g) (glabelfn g)).

(* cfg/interrupt_handler.rs get_names_of_interrupt_handler_functions *)
Definition sets_csr_to_value (c : cnode) : option (Z * option aval) :=
  match cn c with
  | PCsr i _ csr rs1 _ => if inst_is i ICsrrw then Some (wv csr, rm_get (wv rs1) (rin c)) else None
  | PCsrI i _ csr imm _ => if inst_is i ICsrrwi then Some (wv csr, Some (AConst (wv imm))) else None
  | _ => None
  end.
Definition interrupt_handler_names (g : cfg) : list (wth str) :=
  dedup_names (filter_map (fun c => match sets_csr_to_value c with
                                    | Some (csr, Some (AAddr label)) => if Z.eqb csr 5 then Some label else None
                                    | _ => None end) (gnodes g)) [].
