(* Model of the graph stages: cfg/graph.rs `Cfg::new_with_predefined_call_names` (S4),
   gen/directions.rs (S5), gen/dead_code.rs (S6), gen/ecall_terminate.rs (S8),
   gen/function_annotations.rs + cfg/function.rs + cfg/iterator.rs (S9), and the node
   predicates of parser/node_instruction_properties.rs, analysis/gen_kill.rs (kill/gen sets),
   parser/register_has_register_set.rs, cfg/ecall.rs.
   Node identity (a random Uuid in the code) is the index in the node vector. *)
From RV.Model Require Import Base I32 Imm Lexer Isa Parser.
Open Scope N_scope.

(* ---- register sets: the u32 bit mask of cfg/register_set.rs ------------------------------ *)
Definition regset := N.
Definition rs_empty : regset := 0.
Definition rs_one (r : reg) : regset := N.shiftl 1 r.
Definition rs_mem (r : reg) (s : regset) : bool := N.testbit s r.
Definition rs_union (a b : regset) : regset := N.lor a b.
Definition rs_inter (a b : regset) : regset := N.land a b.
Definition rs_diff (a b : regset) : regset := N.ldiff a b.
Fixpoint rs_of_list (l : list reg) : regset :=
  match l with [] => 0 | r :: l' => rs_union (rs_one r) (rs_of_list l') end.
Definition all_regs : list reg :=
  [0;1;2;3;4;5;6;7;8;9;10;11;12;13;14;15;16;17;18;19;20;21;22;23;24;25;26;27;28;29;30;31].
(* iteration of a RegisterSet is in numeric order *)
Definition rs_elems (s : regset) : list reg := filter (fun r => rs_mem r s) all_regs.

Definition program_args_set := rs_of_list [10;11].
Definition temporary_set := rs_of_list [5;6;7;28;29;30;31].
Definition argument_set := rs_of_list [10;11;12;13;14;15;16;17].
Definition return_set := argument_set.
Definition all_writable_set := rs_of_list (tl all_regs).
Definition saved_set := rs_of_list [8;9;18;19;20;21;22;23;24;25;26;27].
Definition sp_ra_set := rs_of_list [2;1].
Definition return_addr_set := rs_of_list [1].
Definition caller_saved_set := rs_union temporary_set argument_set.
Definition const_zero_set := rs_of_list [0].
Definition callee_saved_set := rs_union saved_set sp_ra_set.
Definition ecall_always_argument_set := rs_of_list [17].

(* cfg/ecall.rs environment_in_outs *)
Definition environment_in_outs (n : Z) : option (regset * regset) :=
  let mk (a r : list reg) := Some (rs_of_list a, rs_of_list r) in
  let a0 := [10%N] in let a01 := [10%N;11%N] in let a012 := [10%N;11%N;12%N] in let a0123 := [10%N;11%N;12%N;13%N] in
  match n with
  | 1 => mk a0 [] | 4 => mk a0 [] | 5 => mk [] a0 | 8 => mk a01 [] | 9 => mk a0 a0 | 10 => mk [] []
  | 11 => mk a0 [] | 12 => mk [] a0 | 17 => mk a01 a0 | 30 => mk [] a01 | 31 => mk a0123 []
  | 32 => mk a0 [] | 33 => mk a0123 [] | 34 => mk a0 [] | 35 => mk a0 [] | 36 => mk a0 []
  | 40 => mk a01 [] | 41 => mk a0 a0 | 42 => mk a01 a0 | 43 => mk a0 a0 | 50 => mk a0 a0
  | 54 => mk a012 [11%N] | 55 => mk a0 [] | 56 => mk a01 [] | 57 => mk a0 [] | 59 => mk a01 []
  | 62 => mk a012 a0 | 63 => mk a012 a0 | 64 => mk a012 a0 | 93 => mk a0 [] | 1024 => mk a01 a0
  | _ => None
  end%Z.

(* ---- node predicates (InstructionProperties for ParserNode) ------------------------------ *)
Definition inst_is (w : wth inst) (i : inst) : bool := inst_eqb (wv w) i.
Definition reg_is (w : wth reg) (r : reg) : bool := N.eqb (wv w) r.

Definition is_return (n : pnode) : bool :=
  match n with
  | PJumpLinkR i rd rs1 imm _ => (inst_is i IJalr && reg_is rd 0 && reg_is rs1 1 && Z.eqb (wv imm) 0)%bool
  | PBasic i _ => inst_is i IUret
  | _ => false
  end.
Definition is_ureturn (n : pnode) : bool := match n with PBasic i _ => inst_is i IUret | _ => false end.
Definition is_ecall (n : pnode) : bool := match n with PBasic i _ => inst_is i IEcall | _ => false end.
Definition might_terminate := is_ecall.
Definition stores_to_memory (n : pnode) : option (reg * (reg * Z)) :=
  match n with
  | PStore _ rs1 rs2 imm _ => if reg_is rs2 0 then None else Some (wv rs2, (wv rs1, wv imm))
  | _ => None
  end.
Definition reads_from_memory (n : pnode) : option ((reg * Z) * reg) :=
  match n with PLoad _ rd rs1 imm _ => Some ((wv rs1, wv imm), wv rd) | _ => None end.
Definition can_skip_save_checks (n : pnode) : bool :=
  match n with
  | PProgramEntry _ _ | PFuncEntry _ _ _ | PJumpLink _ _ _ _ | PJumpLinkR _ _ _ _ _ | PCsr _ _ _ _ _ | PCsrI _ _ _ _ _ => true
  | _ => false
  end.
Definition calls_to (n : pnode) : option (wth str) :=
  match n with PJumpLink _ rd name _ => if reg_is rd 1 then Some name else None | _ => None end.
Definition jumps_to (n : pnode) : option (wth str) :=
  match n with
  | PJumpLink _ rd name _ => if reg_is rd 1 then None else Some name
  | PBranch _ _ _ name _ => Some name
  | _ => None
  end.
Definition reads_address_of (n : pnode) : option (wth str) :=
  match n with PLoadAddr _ _ name _ => Some name | _ => None end.
Definition is_any_entry (n : pnode) : bool :=
  match n with PProgramEntry _ _ | PFuncEntry _ _ _ => true | _ => false end.
Definition is_function_entry (n : pnode) : bool := match n with PFuncEntry _ _ _ => true | _ => false end.
Definition is_handler_function_entry (n : pnode) : bool := match n with PFuncEntry _ _ h => h | _ => false end.
Definition is_program_entry (n : pnode) : bool := match n with PProgramEntry _ _ => true | _ => false end.
Definition is_instruction (n : pnode) : bool :=
  match n with
  | PArith _ _ _ _ _ | PIArith _ _ _ _ _ | PJumpLink _ _ _ _ | PJumpLinkR _ _ _ _ _ | PBasic _ _ | PBranch _ _ _ _ _
  | PStore _ _ _ _ _ | PLoad _ _ _ _ _ | PLoadAddr _ _ _ _ | PCsr _ _ _ _ _ | PCsrI _ _ _ _ _ => true
  | _ => false
  end.
Definition uses_memory_location (n : pnode) : option (reg * Z) :=
  match n with
  | PStore _ rs1 _ imm _ => Some (wv rs1, wv imm)
  | PLoad _ _ rs1 imm _ => Some (wv rs1, wv imm)
  | _ => None
  end.
Definition is_unconditional_jump (n : pnode) : bool :=
  match n with
  | PJumpLink _ rd _ _ => reg_is rd 0
  | PJumpLinkR _ rd _ _ _ => reg_is rd 0
  | PBranch i rs1 rs2 _ _ => (reg_is rs1 0 && reg_is rs2 0 && (inst_is i IBeq || inst_is i IBge || inst_is i IBgeu))%bool
  | _ => false
  end.
Definition is_some_jump_to_label (n : pnode) : option (wth str) :=
  match n with
  | PJumpLink _ rd name _ => if reg_is rd 0 then Some name else None
  | PBranch _ _ _ name _ => Some name
  | _ => None
  end.
Definition writes_to (n : pnode) : option (wth reg) :=
  match n with
  | PLoad _ rd _ _ _ | PLoadAddr _ rd _ _ | PArith _ rd _ _ _ | PIArith _ rd _ _ _ | PJumpLink _ rd _ _
  | PJumpLinkR _ rd _ _ _ | PCsr _ rd _ _ _ | PCsrI _ rd _ _ _ => Some rd
  | _ => None
  end.
(* reads_from as the vector the HashSet is built from; a HashSet keeps the first of two equal
   registers *)
Definition reads_from_vec (n : pnode) : list (wth reg) :=
  match n with
  | PArith _ _ rs1 rs2 _ => [rs1; rs2]
  | PIArith _ _ rs1 _ _ => [rs1]
  | PJumpLinkR _ _ rs1 _ _ => [rs1]
  | PBranch _ rs1 rs2 _ _ => [rs1; rs2]
  | PStore _ rs1 rs2 _ _ => [rs1; rs2]
  | PLoad _ _ rs1 _ _ => [rs1]
  | PCsr _ _ _ rs1 _ => [rs1]
  | _ => []
  end.
Definition reads_from (n : pnode) : list (wth reg) :=
  match reads_from_vec n with
  | [a; b] => if N.eqb (wv a) (wv b) then [a] else [a; b]
  | l => l
  end.

(* analysis/gen_kill.rs *)
Definition kill_reg (n : pnode) : regset :=
  rs_diff (match calls_to n with
           | Some _ => caller_saved_set
           | None => if is_function_entry n then caller_saved_set
                     else match writes_to n with Some r => rs_one (wv r) | None => rs_empty end
           end) const_zero_set.
Definition gen_reg (n : pnode) : regset :=
  rs_diff (if is_ureturn n then all_writable_set
           else if is_return n then callee_saved_set
           else rs_of_list (map wv (reads_from n))) const_zero_set.

Definition node_raw (n : pnode) : rawtok :=
  match n with
  | PProgramEntry _ rt | PFuncEntry _ rt _ | PArith _ _ _ _ rt | PIArith _ _ _ _ rt | PLabel _ rt
  | PJumpLink _ _ _ rt | PJumpLinkR _ _ _ _ rt | PBasic _ rt | PDirective _ _ rt | PBranch _ _ _ _ rt
  | PStore _ _ _ _ rt | PLoad _ _ _ _ rt | PLoadAddr _ _ _ rt | PCsr _ _ _ _ rt | PCsrI _ _ _ _ rt => rt
  end.

(* ---- abstract values (analysis/available.rs, memory_location.rs) ------------------------- *)
Inductive aval :=
| AConst (c : Z)
| AAddr (l : wth str)
| AMem (l : str) (off : Z)
| ARegScalar (r : reg) (off : Z)
| AOrig (r : reg) (off : Z)
| AMemAtReg (r : reg) (off : Z)
| AMemAtOrig (r : reg) (off : Z)
| AValueInCsr (c : Z)
| AMemAtCsr (c : Z) (off : Z).

Definition aval_eqb (a b : aval) : bool :=
  match a, b with
  | AConst x, AConst y => Z.eqb x y
  | AAddr x, AAddr y => str_eqb (wv x) (wv y)      (* With<T> compares the underlying data only *)
  | AMem l x, AMem m y => (str_eqb l m && Z.eqb x y)%bool
  | ARegScalar r x, ARegScalar s y | AOrig r x, AOrig s y | AMemAtReg r x, AMemAtReg s y
  | AMemAtOrig r x, AMemAtOrig s y => (N.eqb r s && Z.eqb x y)%bool
  | AValueInCsr x, AValueInCsr y => Z.eqb x y
  | AMemAtCsr c x, AMemAtCsr d y => (Z.eqb c d && Z.eqb x y)%bool
  | _, _ => false
  end.

Inductive memloc := MStack (off : Z) | MCsr (c : Z) | MCsrOff (c : Z) (off : Z).
Definition memloc_eqb (a b : memloc) : bool :=
  match a, b with
  | MStack x, MStack y => Z.eqb x y
  | MCsr x, MCsr y => Z.eqb x y
  | MCsrOff c x, MCsrOff d y => (Z.eqb c d && Z.eqb x y)%bool
  | _, _ => false
  end.
(* derived Ord: variant order, then fields *)
Definition memloc_ltb (a b : memloc) : bool :=
  match a, b with
  | MStack x, MStack y => Z.ltb x y
  | MStack _, _ => true
  | MCsr _, MStack _ => false
  | MCsr x, MCsr y => Z.ltb x y
  | MCsr _, MCsrOff _ _ => true
  | MCsrOff c x, MCsrOff d y => (Z.ltb c d || (Z.eqb c d && Z.ltb x y))%bool
  | MCsrOff _ _, _ => false
  end.

(* AvailableValueMap<K>: a finite map; kept sorted by key so that equality is list equality *)
Definition regmap := list (reg * aval).
Definition memmap := list (memloc * aval).

Fixpoint rm_get (r : reg) (m : regmap) : option aval :=
  match m with [] => None | (k, v) :: m' => if N.eqb k r then Some v else rm_get r m' end.
Fixpoint rm_remove (r : reg) (m : regmap) : regmap :=
  match m with [] => [] | (k, v) :: m' => if N.eqb k r then m' else (k, v) :: rm_remove r m' end.
Fixpoint rm_insert (r : reg) (v : aval) (m : regmap) : regmap :=
  match m with
  | [] => [(r, v)]
  | (k, w) :: m' => if N.eqb k r then (r, v) :: m'
                    else if N.ltb r k then (r, v) :: m else (k, w) :: rm_insert r v m'
  end.
Fixpoint mm_get (l : memloc) (m : memmap) : option aval :=
  match m with [] => None | (k, v) :: m' => if memloc_eqb k l then Some v else mm_get l m' end.
Fixpoint mm_insert (l : memloc) (v : aval) (m : memmap) : memmap :=
  match m with
  | [] => [(l, v)]
  | (k, w) :: m' => if memloc_eqb k l then (l, v) :: m'
                    else if memloc_ltb l k then (l, v) :: m else (k, w) :: mm_insert l v m'
  end.
Definition opt_aval_eqb (a b : option aval) : bool :=
  match a, b with Some x, Some y => aval_eqb x y | None, None => true | _, _ => false end.
(* `&=`: retain entries equal in the other map *)
Definition rm_meet (a b : regmap) : regmap :=
  filter (fun kv => opt_aval_eqb (rm_get (fst kv) b) (Some (snd kv))) a.
Definition mm_meet (a b : memmap) : memmap :=
  filter (fun kv => opt_aval_eqb (mm_get (fst kv) b) (Some (snd kv))) a.
Fixpoint rm_eqb (a b : regmap) : bool :=
  match a, b with
  | [], [] => true
  | (k, v) :: a', (l, w) :: b' => (N.eqb k l && aval_eqb v w && rm_eqb a' b')%bool
  | _, _ => false
  end.
Fixpoint mm_eqb (a b : memmap) : bool :=
  match a, b with
  | [], [] => true
  | (k, v) :: a', (l, w) :: b' => (memloc_eqb k l && aval_eqb v w && mm_eqb a' b')%bool
  | _, _ => false
  end.

(* ---- graph ------------------------------------------------------------------------------- *)
Record cnode := mkcn {
  cn : pnode;
  clabels : list (wth str);      (* a HashSet in the code: order irrelevant *)
  ctext : bool;                  (* Segment::Text *)
  nexts : list nat;              (* sorted, duplicate-free *)
  prevs : list nat;
  cfuncs : list nat;             (* ids of the functions this node belongs to *)
  rin : regmap; rout : regmap; min : memmap; mout : memmap;
  lin : regset; lout : regset; udef : regset }.

Record func := mkfn {
  fentry : nat; fexit : nat; fnodes : list nat; fdefs : regset }.

Record cfg := mkcfg {
  gnodes : list cnode;
  gfuncs : list func;                 (* function id = index *)
  glabelfn : list (str * nat) }.      (* label_function_map *)

Inductive cfgerr :=
| CLabelsNotDefined (labels : list (wth str))   (* a set: order irrelevant *)
| CDuplicateLabel (l : wth str)
| CLabelWithoutInstruction (l : wth str)          (* a jump/branch target no instruction follows *)
| CFunctionWithoutReturn (entry : pnode) (labels : list (wth str))   (* no return reachable from the entry *)
| CUnexpectedError.

Definition new_cnode (n : pnode) (labels : list (wth str)) (text : bool) : cnode :=
  mkcn n labels text [] [] [] [] [] [] [] 0 0 0.

(* sorted sets of indices *)
Fixpoint ins (x : nat) (l : list nat) : list nat :=
  match l with
  | [] => [x]
  | y :: l' => if Nat.eqb x y then l else if Nat.ltb x y then x :: l else y :: ins x l'
  end.
Fixpoint del (x : nat) (l : list nat) : list nat :=
  match l with [] => [] | y :: l' => if Nat.eqb x y then l' else y :: del x l' end.
Fixpoint memn (x : nat) (l : list nat) : bool :=
  match l with [] => false | y :: l' => (Nat.eqb x y || memn x l')%bool end.

Fixpoint upd {A} (l : list A) (i : nat) (f : A -> A) : list A :=
  match l, i with
  | [], _ => []
  | x :: l', O => f x :: l'
  | x :: l', S i' => x :: upd l' i' f
  end.

Definition set_nexts (c : cnode) (v : list nat) : cnode :=
  mkcn (cn c) (clabels c) (ctext c) v (prevs c) (cfuncs c) (rin c) (rout c) (min c) (mout c) (lin c) (lout c) (udef c).
Definition set_prevs (c : cnode) (v : list nat) : cnode :=
  mkcn (cn c) (clabels c) (ctext c) (nexts c) v (cfuncs c) (rin c) (rout c) (min c) (mout c) (lin c) (lout c) (udef c).
Definition set_cn (c : cnode) (n : pnode) : cnode :=
  mkcn n (clabels c) (ctext c) (nexts c) (prevs c) (cfuncs c) (rin c) (rout c) (min c) (mout c) (lin c) (lout c) (udef c).
Definition set_cfuncs (c : cnode) (v : list nat) : cnode :=
  mkcn (cn c) (clabels c) (ctext c) (nexts c) (prevs c) v (rin c) (rout c) (min c) (mout c) (lin c) (lout c) (udef c).

Definition add_edge (g : list cnode) (a b : nat) : list cnode :=
  upd (upd g a (fun c => set_nexts c (ins b (nexts c)))) b (fun c => set_prevs c (ins a (prevs c))).

(* ---- S4: Cfg::new_with_predefined_call_names --------------------------------------------- *)
Fixpoint mem_name (s : str) (l : list (wth str)) : bool :=
  match l with [] => false | x :: l' => (str_eqb s (wv x) || mem_name s l')%bool end.
(* HashSet<LabelStringToken> built by inserting in order: the first token of a name is kept *)
Fixpoint dedup_names (l : list (wth str)) (acc : list (wth str)) : list (wth str) :=
  match l with
  | [] => rev acc
  | x :: l' => if mem_name (wv x) acc then dedup_names l' acc else dedup_names l' (x :: acc)
  end.
Fixpoint filter_map {A B} (f : A -> option B) (l : list A) : list B :=
  match l with [] => [] | x :: l' => match f x with Some y => y :: filter_map f l' | None => filter_map f l' end end.

Definition label_of (n : pnode) : option (wth str) := match n with PLabel name _ => Some name | _ => None end.
Definition is_datasec (n : pnode) : bool := match n with PDirective _ DDataSection _ => true | _ => false end.
Definition is_textsec (n : pnode) : bool := match n with PDirective _ DTextSection _ => true | _ => false end.
Definition is_directive (n : pnode) : bool := match n with PDirective _ _ _ => true | _ => false end.

Fixpoint any_in (a : list (wth str)) (b : list (wth str)) : bool :=
  match a with [] => false | x :: a' => (mem_name (wv x) b || any_in a' b)%bool end.

Fixpoint build_nodes (ns : list pnode) (call_names : list (wth str)) (predef : option (list (wth str)))
         (cur all : list (wth str)) (text : bool) (acc : list cnode) : cfgerr + list cnode :=
  match ns with
  | [] => inr (rev acc)
  | n :: ns' =>
      match label_of n with
      | Some name =>
          if mem_name (wv name) all then inl (CDuplicateLabel name)
          else build_nodes ns' call_names predef (if mem_name (wv name) cur then cur else cur ++ [name]) (name :: all) text acc
      | None =>
          if is_datasec n then build_nodes ns' call_names predef cur all false acc
          else if is_textsec n then build_nodes ns' call_names predef cur all true acc
          else if is_directive n then build_nodes ns' call_names predef cur all text acc
          else if any_in cur call_names then
            let handler := match predef with Some p => any_in cur p | None => false end in
            let fe := new_cnode (PFuncEntry (rfile (node_raw n)) (node_raw n) handler) cur text in
            build_nodes ns' call_names predef [] all text (new_cnode n [] text :: fe :: acc)
          else build_nodes ns' call_names predef [] all text (new_cnode n cur text :: acc)
      end
  end.

(* `HashSet::union` iterates the LARGER set first (std: `if self.len() >= other.len()`), then the other's difference:
   for a name in both sets the token of the larger set is the one that survives the following `collect()` *)
Definition union_names (a b : list (wth str)) : list (wth str) :=
  if Nat.leb (length b) (length a) then dedup_names (a ++ b) [] else dedup_names (b ++ a) [].

Definition cfg_new (ns : list pnode) (predef : option (list (wth str))) : cfgerr + cfg :=
  let label_names := filter_map label_of ns in
  let call_names := dedup_names (filter_map calls_to ns ++ match predef with Some p => p | None => [] end) [] in
  let jump_names := dedup_names (filter_map jumps_to ns) [] in
  let load_names := dedup_names (filter_map reads_address_of ns) [] in
  let used := union_names (union_names call_names jump_names) load_names in
  let undefined := filter (fun x => negb (mem_name (wv x) label_names)) used in
  match undefined with
  | _ :: _ => inl (CLabelsNotDefined undefined)
  | [] =>
      match build_nodes ns call_names predef [] [] true [] with
      | inl e => inl e
      | inr nodes => inr (mkcfg nodes [] [])
      end
  end.

(* ---- S5: NodeDirectionPass --------------------------------------------------------------- *)
Fixpoint find_label (s : str) (g : list cnode) (i : nat) : option nat :=
  match g with
  | [] => None
  | c :: g' => if mem_name s (clabels c) then Some i else find_label s g' (S i)
  end.

Fixpoint directions_loop (todo : list cnode) (i : nat) (prev : option nat) (g : list cnode) : cfgerr + list cnode :=
  match todo with
  | [] => inr g
  | c :: todo' =>
      let step (g1 : list cnode) :=
        let g2 := match prev with Some p => add_edge g1 p i | None => g1 end in
        let prev' := if (is_return (cn c) || is_unconditional_jump (cn c))%bool then None else Some i in
        directions_loop todo' (S i) prev' g2 in
      match jumps_to (cn c) with
      | Some label =>
          match find_label (wv label) g 0 with
          | Some j => step (add_edge g i j)
          | None => inl (CLabelWithoutInstruction label)
          end
      | None => step g
      end
  end.
Definition directions (g : cfg) : cfgerr + cfg :=
  match directions_loop (gnodes g) 0 None (gnodes g) with
  | inl e => inl e
  | inr ns => inr (mkcfg ns (gfuncs g) (glabelfn g))
  end.

(* ---- S6: EliminateDeadCodeDirectionsPass (its `while` runs exactly once: the change test
        compares node identities) ---------------------------------------------------------- *)
Definition getn (g : list cnode) (i : nat) : option cnode := nth_opt g i.

Definition dead_step (g : list cnode) (i : nat) : list cnode :=
  match getn g i with
  | None => g
  | Some c =>
      if (is_return (cn c) || is_any_entry (cn c) || might_terminate (cn c))%bool then g
      else
        let g1 := match nexts c with
                  | [] => upd (fold_left (fun g p => upd g p (fun x => set_nexts x (del i (nexts x)))) (prevs c) g)
                              i (fun x => set_prevs x [])
                  | _ => g
                  end in
        match getn g1 i with
        | None => g1
        | Some c1 =>
            match prevs c1 with
            | [] => upd (fold_left (fun g n => upd g n (fun x => set_prevs x (del i (prevs x)))) (nexts c1) g1)
                        i (fun x => set_nexts x [])
            | _ => g1
            end
        end
  end.
Definition dead_code (g : cfg) : cfg :=
  mkcfg (fold_left dead_step (seq 0 (length (gnodes g))) (gnodes g)) (gfuncs g) (glabelfn g).

(* ---- S8: EcallTerminationPass ------------------------------------------------------------ *)
Definition known_ecall (c : cnode) : option Z :=
  if is_ecall (cn c) then match rm_get 17 (rin c) with Some (AConst k) => Some k | _ => None end else None.
Definition is_program_exit (c : cnode) : bool :=
  match known_ecall c with Some k => (Z.eqb k 10 || Z.eqb k 93)%bool | None => false end.
Definition ecall_term_step (g : list cnode) (i : nat) : list cnode :=
  match getn g i with
  | None => g
  | Some c =>
      if is_program_exit c then
        upd (fold_left (fun g n => upd g n (fun x => set_prevs x (del i (prevs x)))) (nexts c) g)
            i (fun x => set_nexts x [])
      else g
  end.
Definition ecall_terminate (g : cfg) : cfg :=
  mkcfg (fold_left ecall_term_step (seq 0 (length (gnodes g))) (gnodes g)) (gfuncs g) (glabelfn g).

(* ---- S9: FunctionMarkupPass -------------------------------------------------------------- *)
(* nodes reachable from `start` along nexts (CfgNextsIterator; the visiting order depends on
   hash iteration order and is not modelled: the result is the sorted set) *)
Fixpoint reach (fuel : nat) (g : list cnode) (stack : list nat) (seen : list nat) : list nat :=
  match fuel with
  | O => seen
  | S f =>
      match stack with
      | [] => seen
      | x :: st =>
          if memn x seen then reach f g st seen
          else match getn g x with
               | Some c => reach f g (nexts c ++ st) (ins x seen)
               | None => reach f g st seen
               end
      end
  end.
Definition reachable (g : list cnode) (start : nat) : list nat :=
  reach (S (length g) * S (length g)) g [start] [].

Definition tok_return (c : cnode) : token :=
  mktok (TSymbol «"return"») (rrange (node_raw (cn c))) (rfile (node_raw (cn c))).

(* the replacement of an additional return by `jal x0, <return>` (fix: a name no source file can contain;
   fix: the new node keeps the replaced return's own place in the source, not the exit's) *)
Definition rewritten_return (found exit_ : cnode) : pnode :=
  let info := tok_return found in
  PJumpLink (mkw IJal info) (mkw 0%N info) (mkw «"<return>"» info) (node_raw (cn found)).

(* `pick` is the index of the return the traversal meets first (hash-order dependent in the
   code); it must be one of the candidates, otherwise the first candidate is used *)
Definition mark_function (g : cfg) (entry : nat) (pick : option nat) : cfgerr + cfg :=
  let ns := gnodes g in
  let fid := length (gfuncs g) in
  let r := reachable ns entry in
  let rets := filter (fun i => match getn ns i with Some c => is_return (cn c) | None => false end) r in
  match rets with
  | [] => inl (match getn ns entry with
               | Some c => CFunctionWithoutReturn (cn c) (clabels c)
               | None => CUnexpectedError end)
  | first :: _ =>
      let ex := match pick with Some p => if memn p rets then p else first | None => first end in
      let defs := fold_left (fun acc i => match getn ns i with
                                          | Some c => match writes_to (cn c) with Some w => rs_union acc (rs_one (wv w)) | None => acc end
                                          | None => acc end) r rs_empty in
      (* mark membership *)
      let ns1 := fold_left (fun g i => upd g i (fun c => set_cfuncs c (ins fid (cfuncs c)))) r ns in
      (* rewrite the other returns *)
      let ns2 := fold_left (fun g i =>
                   if Nat.eqb i ex then g
                   else match getn g i, getn g ex with
                        | Some c, Some e =>
                            let g' := upd g i (fun x => set_cn (set_nexts x [ex]) (rewritten_return c e)) in
                            upd g' ex (fun x => set_prevs x (ins i (prevs x)))
                        | _, _ => g
                        end) rets ns1 in
      let labels := match getn ns entry with Some c => clabels c | None => [] end in
      inr (mkcfg ns2 (gfuncs g ++ [mkfn entry ex r defs])
                 (glabelfn g ++ map (fun l => (wv l, fid)) labels))
  end.

Fixpoint markup_loop (entries : list nat) (picks : list nat) (g : cfg) : cfgerr + cfg :=
  match entries with
  | [] => inr g
  | e :: es =>
      match mark_function g e (hd_opt picks) with
      | inl err => inl err
      | inr g' => markup_loop es (tl picks) g'
      end
  end.
Definition function_entries (g : cfg) : list nat :=
  filter (fun i => match getn (gnodes g) i with Some c => is_function_entry (cn c) | None => false end)
         (seq 0 (length (gnodes g))).
Definition function_markup (picks : list nat) (g : cfg) : cfgerr + cfg :=
  markup_loop (function_entries g) picks g.
