(* Model of the CLI output channels: riscv_analysis_cli/src/printer.rs (PrettyPrint::format_item,
   format_item_compact, format_region, display_errors; JSONPrint::wrap_item) after fix bdf99df (marker line
   built by characters).  Colours are not modelled (the `colored` crate emits none when stdout is not a
   terminal, and `--no-color` switches them off).  A printed item carries what the printers read: severity,
   title, description, the file's name and (for the excerpt) its text as read from disk, whether it is the
   base file, and the range. *)
From RV.Model Require Import Base I32 Imm Lexer Parser Reader Cfg Lints Serde Output.
Open Scope N_scope.

Record pitem := mkp {
  psev : severity; ptitle : str; pdesc : str;
  pfile : option str;          (* reader.get_filename *)
  ptext : option str;          (* fs::read_to_string of that file *)
  pbase : bool;                (* item.file == base file *)
  prange : range }.

Definition level_name (s : severity) : str :=
  match s with SevError => «"Error"» | SevWarning => «"Warning"» | SevInformation => «"Info"» | SevHint => «"Hint"» end.

Definition show_N (n : N) : str := show_nat (Z.of_N n).
Definition unknown_file : str := «"<unknown file>"».
Definition path_of (p : pitem) : str := match pfile p with Some f => f | None => unknown_file end.

(* format_item_compact: "{level}: {title} in {path} at {line+1} {col+1}:{endcol+1}\n" *)
Definition format_item_compact (p : pitem) : str :=
  level_name (psev p) ++ «": "» ++ ptitle p ++ «" in "» ++ path_of p ++ «" at "»
  ++ show_N (line (rstart (prange p)) + 1) ++ «" "» ++ show_N (column (rstart (prange p)) + 1)
  ++ «":"» ++ show_N (column (rend (prange p)) + 1) ++ [c_nl].

(* contents.split('\n') *)
Fixpoint split_lines (s : str) (cur : str) : list str :=
  match s with
  | [] => [rev cur]
  | c :: s' => if N.eqb c c_nl then rev cur :: split_lines s' [] else split_lines s' (c :: cur)
  end.

Fixpoint first_non_ws_from (s : str) (i : nat) : nat :=
  match s with
  | [] => O
  | c :: s' => if is_whitespace c then first_non_ws_from s' (S i) else i
  end.
Definition first_non_ws (s : str) : nat := first_non_ws_from s O.

Definition c_caret : char := 94.
Definition c_bar : char := 124.

(* format_region(text, line, start, end) *)
Definition format_region (text : str) (ln : N) (start end_ : nat) : str :=
  let lno := show_N (ln + 1) in
  let spc := repeat c_space (S (length lno)) in
  let fnw := first_non_ws text in
  let base := map (fun c => if is_whitespace c then c else c_space) (skipn fnw text) in
  let arrows := repeat c_caret (S end_ - start) in
  let offset := (start - fnw)%nat in
  let base' := firstn offset base ++ arrows in
  spc ++ «" |"» ++ [c_nl] ++ [c_space] ++ lno ++ «" | "» ++ trim text ++ [c_nl]
  ++ spc ++ «" | "» ++ base' ++ [c_nl].

(* format_item *)
Definition format_item (p : pitem) : str :=
  level_name (psev p) ++ «": "» ++ ptitle p ++ [c_nl] ++ «" in file: "» ++ path_of p ++ [c_nl]
  ++ match ptext p with
     | Some t =>
         match nth_error (split_lines t []) (N.to_nat (line (rstart (prange p)))) with
         | Some region => format_region region (line (rstart (prange p)))
                            (N.to_nat (column (rstart (prange p)))) (N.to_nat (column (rend (prange p))))
         | None => []
         end
     | None => []
     end
  ++ [c_nl].

(* PrettyPrint::display_errors.  has_base = reader.get_base_file().is_some() *)
Definition shown (has_base all_files : bool) (p : pitem) : bool := (negb has_base || pbase p || all_files)%bool.
Definition display_pretty (compact all_files has_base : bool) (items : list pitem) : str :=
  let vis := filter (shown has_base all_files) items in
  let others := (length items - length vis)%nat in
  concat (map (if compact then format_item_compact else format_item) vis)
  ++ match others with
     | O => []
     | _ => show_N (N.of_nat others) ++ «" diagnostic"» ++ (if Nat.ltb 1 others then «"s"» else [])
            ++ «" found in other files. To see all errors, run with the `--all-files` option."» ++ [c_nl]
     end.

(* JSONPrint: the record of each item (the text layout is serde_json's) *)
Record jitem := mkj { jfile : option str; jtitle : str; jdesc : str; jlevel : str; jrange : range }.
Definition wrap_item (canon : str -> str) (p : pitem) : jitem :=
  mkj (option_map canon (pfile p)) (ptitle p) (pdesc p) (level_name (psev p)) (prange p).
Definition display_json (canon : str -> str) (items : list pitem) : list jitem := map (wrap_item canon) items.

(* what every channel says about one item: the common content the channels must agree on *)
Definition fields (p : pitem) : str * str * str * N * N * N :=
  (level_name (psev p), ptitle p, path_of p, line (rstart (prange p)), column (rstart (prange p)), column (rend (prange p))).
