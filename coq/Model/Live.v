(* Model of analysis/liveness.rs `LivenessPass::run` (live_in, live_out, u_def), and
   cfg/function.rs `arguments`/`returns`/`to_save`. *)
From RV.Model Require Import Base I32 Imm Lexer Isa Parser Cfg Avail.
Open Scope N_scope.

Definition set_live (c : cnode) (li lo ud : regset) : cnode :=
  mkcn (cn c) (clabels c) (ctext c) (nexts c) (prevs c) (cfuncs c) (rin c) (rout c) (min c) (mout c) li lo ud.
Definition set_lin (c : cnode) (li : regset) : cnode := set_live c li (lout c) (udef c).

Fixpoint assoc_fn (s : str) (l : list (str * nat)) : option nat :=
  match l with [] => None | (k, v) :: l' => if str_eqb s k then Some v else assoc_fn s l' end.

(* CfgNode::calls_to_from_cfg: a call, or a plain jump/branch, to a function label *)
Definition calls_to_from_cfg (g : cfg) (c : cnode) : option nat :=
  match calls_to (cn c) with
  | Some name => assoc_fn (wv name) (glabelfn g)
  | None => match is_some_jump_to_label (cn c) with
            | Some name => assoc_fn (wv name) (glabelfn g)
            | None => None
            end
  end.

Definition union_live_in (ns : list cnode) (l : list nat) : regset :=
  fold_left (fun acc i => match getn ns i with Some c => rs_union acc (lin c) | None => acc end) l rs_empty.
(* AND of u_def over the visited predecessors; none -> default (empty) *)
Definition meet_udef (ns : list cnode) (ps : list nat) (visited : list nat) : regset :=
  match filter (fun p => memn p visited) ps with
  | [] => rs_empty
  | p :: ps' =>
      fold_left (fun acc q => match getn ns q with Some c => rs_inter acc (udef c) | None => acc end) ps'
                (match getn ns p with Some c => udef c | None => rs_empty end)
  end.

Definition live_node (g : cfg) (ns : list cnode) (visited : list nat) (i : nat) : list cnode * bool :=
  match getn ns i with
  | None => (ns, false)
  | Some c =>
      let lo := union_live_in ns (nexts c) in
      let ch0 := negb (N.eqb lo (lout c)) in
      let n := cn c in
      match calls_to_from_cfg g c with
      | Some fid =>
          match nth_opt (gfuncs g) fid with
          | None => (ns, false)
          | Some f =>
              (* live_in[F_exit] |= live_out[n] *)
              let ex_li := match getn ns (fexit f) with Some e => lin e | None => rs_empty end in
              let ex_li' := rs_union lo ex_li in
              let ch1 := negb (N.eqb ex_li' ex_li) in
              let ns1 := upd ns (fexit f) (fun e => set_lin e ex_li') in
              let ex_ud := match getn ns1 (fexit f) with Some e => udef e | None => rs_empty end in
              let ud := rs_union (rs_diff (meet_udef ns1 (prevs c) visited) caller_saved_set)
                                 (rs_inter ex_ud return_set) in
              let entry_lo := match getn ns1 (fentry f) with
                              | Some e => if Nat.eqb (fentry f) i then lo else lout e
                              | None => rs_empty end in
              let li := rs_union (rs_union (rs_inter entry_lo argument_set) (rs_diff lo (kill_reg n))) (gen_reg n) in
              (* the node itself may be the exit just updated: read its current fields *)
              let cur := match getn ns1 i with Some x => x | None => c end in
              let ch2 := negb (N.eqb li (lin cur)) in
              let ch3 := negb (N.eqb ud (udef cur)) in
              (upd ns1 i (fun x => set_live x li lo ud), (ch0 || ch1 || ch2 || ch3)%bool)
          end
      | None =>
          let pud := meet_udef ns (prevs c) visited in
          let '(li, ud) :=
            if is_ecall n then
              let '(args, rets) := match known_ecall_signature c with Some p => p | None => (rs_empty, rs_empty) end in
              (rs_union (rs_union (rs_diff lo caller_saved_set) ecall_always_argument_set) args,
               rs_union (rs_diff pud caller_saved_set) rets)
            else if is_return n then (rs_union (lin c) (gen_reg n), pud)
            else if is_function_entry n then
              let li := rs_union (rs_diff lo (kill_reg n)) (gen_reg n) in (li, rs_inter li argument_set)
            else (rs_union (rs_diff lo (kill_reg n)) (gen_reg n), rs_union pud (kill_reg n)) in
          let ch := (ch0 || negb (N.eqb li (lin c)) || negb (N.eqb ud (udef c)))%bool in
          (upd ns i (fun x => set_live x li lo ud), ch)
      end
  end.

Fixpoint live_sweep (g : cfg) (idx : list nat) (ns : list cnode) (visited : list nat) (changed : bool)
  : list cnode * list nat * bool :=
  match idx with
  | [] => (ns, visited, changed)
  | i :: idx' =>
      let '(ns', ch) := live_node g ns visited i in
      live_sweep g idx' ns' (ins i visited) (changed || ch)%bool
  end.

Fixpoint live_loop (fuel : nat) (g : cfg) (ns : list cnode) (visited : list nat) : res (list cnode) :=
  match fuel with
  | O => OutOfFuel
  | S f =>
      let '(ns', v', ch) := live_sweep g (rev (seq 0 (length ns))) ns visited false in
      if ch then live_loop f g ns' v' else Ok ns'
  end.

Definition live_fuel (g : cfg) : nat := (70 * length (gnodes g) + 64)%nat.
Definition liveness_pass (g : cfg) : res cfg :=
  do ns <- live_loop (live_fuel g) g (gnodes g) [];
  Ok (mkcfg ns (gfuncs g) (glabelfn g)).

(* cfg/function.rs *)
Definition fn_arguments (g : cfg) (f : func) : regset :=
  match getn (gnodes g) (fentry f) with Some e => rs_inter (lout e) argument_set | None => rs_empty end.
Definition fn_returns (g : cfg) (f : func) : regset :=
  match getn (gnodes g) (fexit f) with Some e => rs_inter (lin e) return_set | None => rs_empty end.
Definition fn_to_save (f : func) : regset := rs_diff (rs_inter (fdefs f) callee_saved_set) (rs_one 2).
