(* Model of the file driver: parsing.rs `RVParser::parse_from_file` (include stack, per-line
   error recovery, fixes 3ac3f1b and ca1ec46), reader/mod.rs `FileReader`, error.rs
   `FileReaderError::to_parse_error`.  The reader is an in-memory map from path to text or
   fault; file identities (Uuids in the code) are indices in order of successful import. *)
From RV.Model Require Import Base I32 Imm Lexer Isa Parser.
Open Scope N_scope.

Inductive parse_error :=
| PEExpected (ex : list expected) (got : token)
| PEUnsupported (t : token)
| PEUnexpectedToken (t : token)
| PEUnexpectedError (t : token)
| PEUnknownDirective (t : token)
| PECyclicDependency (t : token)
| PEFileNotFound (path : wth str)
| PEIOError (path : wth str)
| PEInvalidString (t : token) (p : position) (k : strerr).

Inductive reader_error := REIOErr | REInternalFileNotFound | REFileAlreadyRead | REUnexpected | REInvalidPath.

Definition to_parse_error (e : reader_error) (path : wth str) : parse_error :=
  match e with
  | REInternalFileNotFound | REUnexpected => PEUnexpectedError (wt path)
  | REFileAlreadyRead => PECyclicDependency (wt path)
  | REInvalidPath => PEFileNotFound path
  | REIOErr => PEIOError path
  end.

(* in-memory reader: each path maps to a text (inl) or an injected IO fault (inr tt) *)
Definition store := list (str * (str + unit)).
Record rstate := mkrs { imported : list str }.   (* paths already read, in import order *)

Fixpoint mem_str (k : str) (l : list str) : bool :=
  match l with [] => false | x :: l' => (str_eqb k x || mem_str k l')%bool end.

Definition import_file (fs : store) (path : str) (st : rstate) : (reader_error + (N * str)) * rstate :=
  match assoc_str path fs with
  | None => (inl REInvalidPath, st)
  | Some (inr _) => (inl REIOErr, st)
  | Some (inl text) =>
      if mem_str path (imported st) then (inl REFileAlreadyRead, st)
      else (inr (N.of_nat (length (imported st)), text), mkrs (imported st ++ [path]))
  end.

(* RVParser::lexer_for: a last line without newline is read as if it had one *)
Definition normalize_text (text : str) : str :=
  match rev text with
  | [] => text
  | c :: _ => if N.eqb c c_nl then text else text ++ [c_nl]
  end.

(* recover_from_parse_error: drop items up to and including the first Ok(Newline) *)
Fixpoint recover (items : list lexitem) : list lexitem :=
  match items with
  | [] => []
  | LTok t :: l => match tt t with TNewline => l | _ => recover l end
  | _ :: l => recover l
  end.

Definition include_path (n : pnode) : option (wth str) :=
  match n with PDirective _ (DInc p) _ => Some p | _ => None end.

Definition is_newline_tok (t : token) : bool := match tt t with TNewline => true | _ => false end.

(* the `while let Some(l) = self.lexer()` loop; the lexer stack holds the remaining items of
   each open file, innermost first *)
Fixpoint drive (fuel : nat) (chk : bool) (fs : store) (ignore_imports : bool)
         (stack : list (list lexitem)) (rs : rstate)
         (nodes : list pnode) (errs : list parse_error) : res (list pnode * list parse_error * rstate) :=
  match fuel with
  | O => OutOfFuel
  | S f =>
      match stack with
      | [] => Ok (rev nodes, rev errs, rs)
      | top :: below =>
          do r <- parse_one top;
          let '(x, rest) := r in
          match x with
          | inr n =>
              match (if ignore_imports then None else include_path n) with
              | Some path =>
                  match import_file fs (wv path) rs with
                  | (inr (id, text), rs') =>
                      do items <- lex_all chk (Some id) (normalize_text text);
                      drive f chk fs ignore_imports (items :: rest :: below) rs' nodes errs
                  | (inl e, rs') =>
                      drive f chk fs ignore_imports (rest :: below) rs' nodes (to_parse_error e path :: errs)
                  end
              | None => drive f chk fs ignore_imports (rest :: below) rs (n :: nodes) errs
              end
          | inl e =>
              let go st' nodes' errs' := drive f chk fs ignore_imports st' rs nodes' errs' in
              match e with
              | EExpected ex got =>
                  go ((if is_newline_tok got then rest else recover rest) :: below) nodes (PEExpected ex got :: errs)
              | EIsNewline _ => go (rest :: below) nodes errs
              | EUnexpectedToken got => go (recover rest :: below) nodes (PEUnexpectedToken got :: errs)
              | EUnexpectedEOF => go below nodes errs
              | ENeedTwoNodes n1 n2 => go (rest :: below) (n2 :: n1 :: nodes) errs
              | EUnexpectedError t => go (recover rest :: below) nodes (PEUnexpectedError t :: errs)
              | EUnknownDirective t => go (recover rest :: below) nodes (PEUnknownDirective t :: errs)
              | EIgnoredWithWarning t | EUnsupportedDirective t =>
                  go (recover rest :: below) nodes (PEUnsupported t :: errs)
              | EIgnoredWithoutWarning => go (rest :: below) nodes errs
              | EInvalidString t p k => go (recover rest :: below) nodes (PEInvalidString t p k :: errs)
              end
          end
      end
  end.

Fixpoint store_size (fs : store) : nat :=
  match fs with
  | [] => O
  | (_, inl t) :: l => (length t + 4 + store_size l)%nat
  | (_, inr _) :: l => (2 + store_size l)%nat
  end.

(* RVParser::parse_from_file *)
Definition parse_from_file (chk : bool) (fs : store) (base : str) (ignore_imports : bool)
  : res (list pnode * list parse_error * rstate) :=
  match import_file fs base (mkrs []) with
  | (inl e, rs) => Ok ([], [to_parse_error e (mkw base tok_default)], rs)
  | (inr (id, text), rs) =>
      do items <- lex_all chk (Some id) (normalize_text text);
      drive (2 * store_size fs + 8) chk fs ignore_imports [items] rs
            [PProgramEntry (Some id) (mkraw range0 (Some id))] []
  end.

(* RVStringParser::parse_from_text: one anonymous file *)
Definition base_path : str := «"base_file.s"».
Definition parse_from_text (chk : bool) (text : str) : res (list pnode * list parse_error) :=
  do r <- parse_from_file chk [(base_path, inl text)] base_path false;
  let '(n, e, _) := r in Ok (n, e).
