(* Model of the `--yaml` dump's data layer: the serde representation of the value facts
   (analysis/available.rs derive(Serialize) with its `rename` tags, after fix 7684fff),
   analysis/memory_location.rs (hand-written string codec, after fix be3062a),
   cfg/register_set.rs (sorted list of register numbers), cfg/available_value_map.rs (sorted map),
   and the per-node record of cfg/test_wrapper.rs.  The text layer of serde_yaml is not modelled:
   values are trees. *)
From RV.Model Require Import Base I32 Lexer Isa Parser Cfg.
From Coq Require Decimal DecimalString DecimalZ DecimalN.
Open Scope Z_scope.

Inductive sval :=
| SInt (z : Z)
| SStr (s : str)
| SSeq (l : list sval)
| SMap (l : list (sval * sval))
| STag (tag : str) (v : sval).        (* externally tagged enum variant *)

(* ---- AvailableValue ----------------------------------------------------------------------- *)
Definition ser_aval (v : aval) : sval :=
  match v with
  | AConst c => STag «"c"» (SInt c)
  | AAddr l => STag «"a"» (SStr (wv l))
  | AMem l off => STag «"m"» (SSeq [SStr l; SInt off])
  | ARegScalar r off => STag «"rs"» (SSeq [SInt (Z.of_N r); SInt off])
  | AOrig r off => STag «"ors"» (SSeq [SInt (Z.of_N r); SInt off])
  | AMemAtReg r off => STag «"mr"» (SSeq [SInt (Z.of_N r); SInt off])
  | AMemAtOrig r off => STag «"omr"» (SSeq [SInt (Z.of_N r); SInt off])
  | AValueInCsr c => STag «"vc"» (SInt c)
  | AMemAtCsr c off => STag «"mc"» (SSeq [SInt c; SInt off])
  end.

(* With<T> deserialises with a default token *)
Definition de_reg (z : Z) : option reg := if (Z.leb 0 z && Z.ltb z 32)%bool then Some (Z.to_N z) else None.
Definition de_aval (s : sval) : option aval :=
  match s with
  | STag t (SInt c) =>
      if str_eqb t «"c"» then Some (AConst c)
      else if str_eqb t «"vc"» then Some (AValueInCsr c) else None
  | STag t (SStr l) => if str_eqb t «"a"» then Some (AAddr (mkw l tok_default)) else None
  | STag t (SSeq [SStr l; SInt off]) => if str_eqb t «"m"» then Some (AMem l off) else None
  | STag t (SSeq [SInt a; SInt off]) =>
      if str_eqb t «"mc"» then Some (AMemAtCsr a off)
      else match de_reg a with
           | Some r =>
               if str_eqb t «"rs"» then Some (ARegScalar r off)
               else if str_eqb t «"ors"» then Some (AOrig r off)
               else if str_eqb t «"mr"» then Some (AMemAtReg r off)
               else if str_eqb t «"omr"» then Some (AMemAtOrig r off) else None
           | None => None
           end
  | _ => None
  end.

(* ---- decimal text of integers (Display / str::parse) --------------------------------------- *)
Fixpoint uint_to_str (d : Decimal.uint) : str :=
  match d with
  | Decimal.Nil => []
  | Decimal.D0 d => 48%N :: uint_to_str d | Decimal.D1 d => 49%N :: uint_to_str d
  | Decimal.D2 d => 50%N :: uint_to_str d | Decimal.D3 d => 51%N :: uint_to_str d
  | Decimal.D4 d => 52%N :: uint_to_str d | Decimal.D5 d => 53%N :: uint_to_str d
  | Decimal.D6 d => 54%N :: uint_to_str d | Decimal.D7 d => 55%N :: uint_to_str d
  | Decimal.D8 d => 56%N :: uint_to_str d | Decimal.D9 d => 57%N :: uint_to_str d
  end.
(* `format!("{}", n)` for a non-negative integer *)
Definition show_nat (n : Z) : str := uint_to_str (N.to_uint (Z.to_N n)).
(* `format!("{}", i)` for a signed integer *)
Definition show_int (i : Z) : str := if Z.ltb i 0 then c_minus :: show_nat (- i) else show_nat i.

(* digits only, at least one; value *)
Fixpoint digits_val (s : str) (acc : Z) : option Z :=
  match s with
  | [] => Some acc
  | c :: s' => if is_ascii_digit c then digits_val s' (acc * 10 + (Z.of_N c - 48)) else None
  end.
Definition parse_digits (s : str) : option Z := match s with [] => None | _ => digits_val s 0 end.
(* str::parse::<i32>: optional '+' or '-', digits, in range *)
Definition parse_i32 (s : str) : option Z :=
  match s with
  | c :: s' =>
      let r := if N.eqb c c_minus then option_map Z.opp (parse_digits s')
               else if N.eqb c c_plus then parse_digits s' else parse_digits s in
      match r with Some v => if in32b v then Some v else None | None => None end
  | [] => None
  end.
(* str::parse::<u32>: optional '+', digits, in range *)
Definition parse_u32 (s : str) : option Z :=
  match s with
  | c :: s' =>
      let r := if N.eqb c c_plus then parse_digits s' else parse_digits s in
      match r with Some v => if Z.ltb v 4294967296 then Some v else None | None => None end
  | [] => None
  end.

(* ---- MemoryLocation ------------------------------------------------------------------------ *)
Definition show_memloc (l : memloc) : str :=
  match l with
  | MCsr c => «"csr+"» ++ show_nat c
  | MCsrOff c off => «"csro+"» ++ show_nat c ++ [c_plus] ++ show_int off
  | MStack i => «"so"» ++ (if Z.ltb i 0 then [c_minus] else [c_plus]) ++ show_nat (Z.abs i)
  end.

Fixpoint split_plus (s : str) (cur : str) : list str :=
  match s with
  | [] => [rev cur]
  | c :: s' => if N.eqb c c_plus then rev cur :: split_plus s' [] else split_plus s' (c :: cur)
  end.

Definition parse_memloc (s : str) : option memloc :=
  match strip_prefix «"so"» s with
  | Some rest => option_map MStack (parse_i32 rest)
  | None =>
      match strip_prefix «"csr+"» s with
      | Some rest => option_map MCsr (parse_u32 rest)
      | None =>
          match strip_prefix «"csro+"» s with
          | Some rest =>
              match split_plus rest [] with
              | a :: b :: _ =>
                  match parse_u32 a, parse_i32 b with
                  | Some c, Some off => Some (MCsrOff c off)
                  | _, _ => None
                  end
              | _ => None
              end
          | None => None
          end
      end
  end.

(* ---- maps, register sets, node records ----------------------------------------------------- *)
Definition ser_regmap (m : regmap) : sval := SMap (map (fun kv => (SInt (Z.of_N (fst kv)), ser_aval (snd kv))) m).
Definition ser_memmap (m : memmap) : sval := SMap (map (fun kv => (SStr (show_memloc (fst kv)), ser_aval (snd kv))) m).
Definition ser_regset (s : regset) : sval := SSeq (map (fun r => SInt (Z.of_N r)) (rs_elems s)).
Definition ser_idx (l : list nat) : sval := SSeq (map (fun i => SInt (Z.of_nat i)) l).

Fixpoint de_list {X A} (f : X -> option A) (l : list X) : option (list A) :=
  match l with
  | [] => Some []
  | x :: l' => match f x, de_list f l' with Some a, Some r => Some (a :: r) | _, _ => None end
  end.
Definition de_regmap (s : sval) : option regmap :=
  match s with
  | SMap l => de_list (fun kv => match fst kv with
                                 | SInt k => match de_reg k, de_aval (snd kv) with
                                             | Some r, Some v => Some (r, v) | _, _ => None end
                                 | _ => None end) l
  | _ => None
  end.
Definition de_memmap (s : sval) : option memmap :=
  match s with
  | SMap l => de_list (fun kv => match fst kv with
                                 | SStr k => match parse_memloc k, de_aval (snd kv) with
                                             | Some loc, Some v => Some (loc, v) | _, _ => None end
                                 | _ => None end) l
  | _ => None
  end.
Definition de_regset (s : sval) : option regset :=
  match s with
  | SSeq l => option_map rs_of_list (de_list (fun x => match x with SInt k => de_reg k | _ => None end) l)
  | _ => None
  end.
Definition de_idx (s : sval) : option (list nat) :=
  match s with
  | SSeq l => de_list (fun x => match x with SInt k => if Z.leb 0 k then Some (Z.to_nat k) else None | _ => None end) l
  | _ => None
  end.

(* the analysis part of a NodeWrapper (the `node` field - the instruction - is serialised by serde
   derive and is not part of this model) *)
Record facts := mkfacts {
  f_nexts : list nat; f_prevs : list nat; f_entry : list nat; f_exit : list nat;
  f_rin : regmap; f_rout : regmap; f_min : memmap; f_mout : memmap;
  f_lin : regset; f_lout : regset; f_udef : regset }.

Definition ser_facts (f : facts) : sval :=
  SMap [(SStr «"func_entry"», ser_idx (f_entry f)); (SStr «"func_exit"», ser_idx (f_exit f));
        (SStr «"nexts"», ser_idx (f_nexts f)); (SStr «"prevs"», ser_idx (f_prevs f));
        (SStr «"reg_values_in"», ser_regmap (f_rin f)); (SStr «"reg_values_out"», ser_regmap (f_rout f));
        (SStr «"memory_values_in"», ser_memmap (f_min f)); (SStr «"memory_values_out"», ser_memmap (f_mout f));
        (SStr «"live_in"», ser_regset (f_lin f)); (SStr «"live_out"», ser_regset (f_lout f));
        (SStr «"u_def"», ser_regset (f_udef f))].

Definition de_facts (s : sval) : option facts :=
  match s with
  | SMap [(_, a); (_, b); (_, c); (_, d); (_, e); (_, f); (_, g); (_, h); (_, i); (_, j); (_, k)] =>
      match de_idx a, de_idx b, de_idx c, de_idx d, de_regmap e, de_regmap f, de_memmap g, de_memmap h,
            de_regset i, de_regset j, de_regset k with
      | Some a, Some b, Some c, Some d, Some e, Some f, Some g, Some h, Some i, Some j, Some k =>
          Some (mkfacts c d a b e f g h i j k)
      | _, _, _, _, _, _, _, _, _, _, _ => None
      end
  | _ => None
  end.

(* the facts of node c of graph g, as `NodeWrapper::from` collects them *)
Definition facts_of (g : cfg) (c : cnode) : facts :=
  let fs := filter_map (fun fid => nth_opt (gfuncs g) fid) (cfuncs c) in
  mkfacts (nexts c) (prevs c) (map fentry fs) (map fexit fs)
          (rin c) (rout c) (min c) (mout c) (lin c) (lout c) (udef c).
Definition ser_graph (g : cfg) : list sval := map (fun c => ser_facts (facts_of g c)) (gnodes g).
