(* Base definitions shared by every stage model: result type, characters,
   strings as code-point lists, small list helpers.  No proofs here. *)
From Coq Require Export List ZArith NArith Bool Lia.
Export ListNotations.
Open Scope Z_scope.

Arguments N.add : simpl never.
Arguments N.sub : simpl never.
Arguments N.mul : simpl never.
Arguments Z.add : simpl never.
Arguments Z.sub : simpl never.
Arguments Z.mul : simpl never.

(* A Rust `char` is a Unicode scalar value; text is the list `String::chars()` yields. *)
Definition char := N.
Definition str := list char.

(* Result of a stage.  `Panic` carries a site tag naming the Rust operation that would
   panic; `OutOfFuel` is the model's image of non-termination; never a normal value. *)
Inductive res (A : Type) : Type :=
| Ok (a : A)
| Panic (site : N)
| OutOfFuel.
Arguments Ok {A} a.
Arguments Panic {A} site.
Arguments OutOfFuel {A}.

Definition bind {A B} (r : res A) (f : A -> res B) : res B :=
  match r with Ok a => f a | Panic s => Panic s | OutOfFuel => OutOfFuel end.
Notation "'do' x <- r ; k" := (bind r (fun x => k)) (at level 200, x pattern, right associativity).

Definition is_ok {A} (r : res A) : bool := match r with Ok _ => true | _ => false end.

(* -- characters ---------------------------------------------------------- *)
Definition ch (n : N) : char := n.
Definition c_nl : char := 10%N.
Definition c_cr : char := 13%N.
Definition c_tab : char := 9%N.
Definition c_space : char := 32%N.
Definition c_comma : char := 44%N.
Definition c_minus : char := 45%N.
Definition c_plus : char := 43%N.
Definition c_dot : char := 46%N.
Definition c_hash : char := 35%N.
Definition c_dquote : char := 34%N.
Definition c_squote : char := 39%N.
Definition c_lparen : char := 40%N.
Definition c_rparen : char := 41%N.
Definition c_colon : char := 58%N.
Definition c_bslash : char := 92%N.
Definition c_under : char := 95%N.
Definition c_dollar : char := 36%N.

Definition in_range (lo hi c : N) : bool := (N.leb lo c && N.leb c hi)%bool.
Definition is_ascii_digit (c : char) : bool := in_range 48 57 c.
Definition is_ascii_lower (c : char) : bool := in_range 97 122 c.
Definition is_ascii_upper (c : char) : bool := in_range 65 90 c.

(* `str::to_lowercase` restricted to ASCII (the only alphabet the lexer lets through). *)
Definition to_lower (c : char) : char := if is_ascii_upper c then (c + 32)%N else c.
Definition lower (s : str) : str := map to_lower s.

Fixpoint str_eqb (a b : str) : bool :=
  match a, b with
  | [], [] => true
  | x :: a', y :: b' => (N.eqb x y && str_eqb a' b')%bool
  | _, _ => false
  end.

(* `strip_prefix` *)
Fixpoint strip_prefix (p s : str) : option str :=
  match p, s with
  | [], _ => Some s
  | x :: p', y :: s' => if N.eqb x y then strip_prefix p' s' else None
  | _ :: _, [] => None
  end.

(* Coq string literals to code-point lists (ASCII only), for readable tables. *)
From Coq Require Import String Ascii.
Export String.StringSyntax Ascii.AsciiSyntax.
Fixpoint s2l (s : string) : str :=
  match s with
  | EmptyString => []
  | String a s' => N_of_ascii a :: s2l s'
  end.
Notation "« s »" := (s2l s%string) (at level 0, s at level 0).

Fixpoint nth_opt {A} (l : list A) (n : nat) : option A :=
  match l, n with
  | [], _ => None
  | x :: _, O => Some x
  | _ :: l', S n' => nth_opt l' n'
  end.
