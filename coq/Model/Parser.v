(* Model of the statement parser: parser/parsing.rs `ParserNode::try_from(&mut Peekable<Lexer>)`,
   register.rs `Register::from_str`, label.rs `LabelString::from_str`, directive.rs, node.rs,
   with.rs.  The lexer is run to completion first (it does not depend on the parser), so the
   `Peekable<Lexer>` is the list of remaining lexer items. *)
From RV.Model Require Import Base I32 Imm Lexer Isa.
Open Scope Z_scope.

(* registers are their number 0..31 *)
Definition reg := N.

Definition reg_names : list (str * reg) :=
  [(«"x0"», 0); («"zero"», 0); («"x1"», 1); («"ra"», 1); («"x2"», 2); («"sp"», 2); («"x3"», 3); («"gp"», 3);
   («"x4"», 4); («"tp"», 4); («"x5"», 5); («"t0"», 5); («"x6"», 6); («"t1"», 6); («"x7"», 7); («"t2"», 7);
   («"x8"», 8); («"s0"», 8); («"fp"», 8); («"x9"», 9); («"s1"», 9); («"x10"», 10); («"a0"», 10);
   («"x11"», 11); («"a1"», 11); («"x12"», 12); («"a2"», 12); («"x13"», 13); («"a3"», 13);
   («"x14"», 14); («"a4"», 14); («"x15"», 15); («"a5"», 15); («"x16"», 16); («"a6"», 16);
   («"x17"», 17); («"a7"», 17); («"x18"», 18); («"s2"», 18); («"x19"», 19); («"s3"», 19);
   («"x20"», 20); («"s4"», 20); («"x21"», 21); («"s5"», 21); («"x22"», 22); («"s6"», 22);
   («"x23"», 23); («"s7"», 23); («"x24"», 24); («"s8"», 24); («"x25"», 25); («"s9"», 25);
   («"x26"», 26); («"s10"», 26); («"x27"», 27); («"s11"», 27); («"x28"», 28); («"t3"», 28);
   («"x29"», 29); («"t4"», 29); («"x30"», 30); («"t5"», 30); («"x31"», 31); («"t6"», 31)]%N.

(* Register::from_str: exact, case-sensitive *)
Definition reg_from_str (s : str) : option reg := assoc_str s reg_names.

(* LabelString::from_str.  `char::is_alphabetic` is modelled on ASCII only: symbol and label
   tokens contain ASCII letters, digits, '_' and '-' only (Proofs/LexProofs). *)
Definition is_alpha (c : char) : bool := (is_ascii_lower c || is_ascii_upper c)%bool.
Definition label_from_str (s : str) : option str :=
  match reg_from_str s with
  | Some _ => None
  | None =>
      match s with
      | [] => None
      | c :: _ =>
          if negb (is_alpha c || N.eqb c c_under) then None
          else if forallb (fun c => is_ascii_digit c || is_alpha c || N.eqb c c_under || N.eqb c c_dot || N.eqb c c_dollar)%bool s
               then Some s else None
      end
  end.

Inductive dirtok :=
| DAlign | DAscii | DAsciz | DByte | DData | DDouble | DDword | DEndMacro | DEqv | DExtern | DFloat
| DGlobal | DGlobl | DHalf | DInclude | DMacro | DSection | DSpace | DString | DText | DWord.

Definition dir_names : list (str * dirtok) :=
  [(«".align"», DAlign); («".ascii"», DAscii); («".asciz"», DAsciz); («".byte"», DByte); («".data"», DData);
   («".double"», DDouble); («".dword"», DDword); («".endmacro"», DEndMacro); («".eqv"», DEqv);
   («".extern"», DExtern); («".float"», DFloat); («".global"», DGlobal); («".globl"», DGlobl);
   («".half"», DHalf); («".include"», DInclude); («".macro"», DMacro); («".section"», DSection);
   («".space"», DSpace); («".string"», DString); («".text"», DText); («".word"», DWord)].
Definition dir_from_str (s : str) : option dirtok := assoc_str (lower s) dir_names.

Inductive datatype := DtByte | DtHalf | DtWord | DtDouble | DtDword | DtFloat.

(* With<T> *)
Record wth (A : Type) := mkw { wv : A; wt : token }.
Arguments mkw {A}. Arguments wv {A}. Arguments wt {A}.

(* RawToken without its text *)
Record rawtok := mkraw { rrange : range; rfile : option N }.
Definition raw_default := mkraw range0 None.
Definition raw_of_token (t : token) : rawtok := mkraw (trange t) (tfile t).

Inductive dirtype :=
| DInc (path : wth str)
| DAl (i : wth Z)
| DAsc (text : wth str) (null_term : bool)
| DDataSection | DTextSection
| DDat (dt : datatype) (vals : list (wth Z))
| DSp (i : wth Z).

Inductive pnode :=
| PProgramEntry (file : option N) (rt : rawtok)
| PFuncEntry (file : option N) (rt : rawtok) (handler : bool)
| PArith (i : wth inst) (rd rs1 rs2 : wth reg) (rt : rawtok)
| PIArith (i : wth inst) (rd rs1 : wth reg) (imm : wth Z) (rt : rawtok)
| PLabel (name : wth str) (rt : rawtok)
| PJumpLink (i : wth inst) (rd : wth reg) (name : wth str) (rt : rawtok)
| PJumpLinkR (i : wth inst) (rd rs1 : wth reg) (imm : wth Z) (rt : rawtok)
| PBasic (i : wth inst) (rt : rawtok)
| PDirective (d : wth dirtok) (dt : dirtype) (rt : rawtok)
| PBranch (i : wth inst) (rs1 rs2 : wth reg) (name : wth str) (rt : rawtok)
| PStore (i : wth inst) (rs1 rs2 : wth reg) (imm : wth Z) (rt : rawtok)
| PLoad (i : wth inst) (rd rs1 : wth reg) (imm : wth Z) (rt : rawtok)
| PLoadAddr (i : wth inst) (rd : wth reg) (name : wth str) (rt : rawtok)
| PCsr (i : wth inst) (rd : wth reg) (csr : wth Z) (rs1 : wth reg) (rt : rawtok)
| PCsrI (i : wth inst) (rd : wth reg) (csr : wth Z) (imm : wth Z) (rt : rawtok).

Inductive expected := XRegister | XImm | XLabel | XLParen | XRParen | XCsrImm | XInst | XString.

Inductive lexerr :=
| EExpected (ex : list expected) (got : token)
| EIsNewline (t : token)
| EIgnoredWithWarning (t : token)
| EIgnoredWithoutWarning
| EUnexpectedToken (t : token)
| EUnexpectedEOF
| ENeedTwoNodes (n1 n2 : pnode)
| EUnexpectedError (t : token)
| EUnknownDirective (t : token)
| EUnsupportedDirective (t : token)
| EInvalidString (t : token) (p : position) (k : strerr).

(* AnnotatedLexer: remaining items + the statement's accumulated raw token (None = default) *)
Definition pstate := (list lexitem * option rawtok)%type.
Definition P (A : Type) := pstate -> res ((lexerr + A) * pstate).
Definition ret {A} (a : A) : P A := fun st => Ok (inr a, st).
Definition fail {A} (e : lexerr) : P A := fun st => Ok (inl e, st).
Definition pbind {A B} (m : P A) (f : A -> P B) : P B :=
  fun st => match m st with
            | Ok (inr a, st') => f a st'
            | Ok (inl e, st') => Ok (inl e, st')
            | Panic s => Panic s
            | OutOfFuel => OutOfFuel
            end.
Notation "'let*' x := m 'in' k" := (pbind m (fun x => k)) (at level 200, x pattern, right associativity).
Definition lift_res {A} (r : res A) : P A :=
  fun st => match r with Ok a => Ok (inr a, st) | Panic s => Panic s | OutOfFuel => OutOfFuel end.
Definition get_raw : P rawtok :=
  fun st => Ok (inr (match snd st with Some r => r | None => raw_default end), st).

Definition item_result (it : lexitem) : lexerr + token :=
  match it with
  | LTok t => inr t
  | LErrString t p k => inl (EInvalidString t p k)
  | LErrUnexpected t => inl (EUnexpectedToken t)
  end.

(* get_any: next item; an Ok token extends the statement's raw token *)
Definition get_any : P token :=
  fun st =>
    match fst st with
    | [] => Ok (inl EUnexpectedEOF, st)
    | it :: l =>
        match item_result it with
        | inr t =>
            let raw' := match snd st with
                        | None => raw_of_token t
                        | Some r => mkraw (mkrange (rstart (rrange r)) (rend (trange t))) (rfile r)
                        end in
            Ok (inr t, (l, Some raw'))
        | inl e => Ok (inl e, (l, snd st))
        end
    end.

(* peek_any: clone of the next item, nothing consumed *)
Definition peek_any : P token :=
  fun st =>
    match fst st with
    | [] => Ok (inl EUnexpectedEOF, st)
    | it :: _ => match item_result it with inr t => Ok (inr t, st) | inl e => Ok (inl e, st) end
    end.

(* Token::as_* : res (option _) because Imm::from_str is modelled with its panic sites *)
Definition tok_reg (t : token) : option (wth reg) :=
  match tt t with TSymbol s => option_map (fun r => mkw r t) (reg_from_str s) | _ => None end.
Definition tok_imm (t : token) : res (option (wth Z)) :=
  match tt t with
  | TSymbol s => do r <- imm_from_str s; Ok (option_map (fun v => mkw v t) r)
  | TChar c => Ok (Some (mkw (Z.of_N c) t))
  | _ => Ok None
  end.
Definition tok_label (t : token) : option (wth str) :=
  match tt t with TSymbol s => option_map (fun l => mkw l t) (label_from_str s) | _ => None end.
Definition tok_csrimm (t : token) : res (option (wth Z)) :=
  match tt t with
  | TSymbol s => do r <- csrimm_from_str s; Ok (option_map (fun v => mkw v t) r)
  | _ => Ok None
  end.
Definition tok_string (t : token) : option (wth str) :=
  match tt t with TSymbol s | TString s => Some (mkw s t) | _ => None end.
Definition is_lparen (t : token) : bool := match tt t with TLParen => true | _ => false end.
Definition is_rparen (t : token) : bool := match tt t with TRParen => true | _ => false end.

Definition as_reg (t : token) : P (wth reg) :=
  match tok_reg t with Some r => ret r | None => fail (EExpected [XRegister] t) end.
Definition as_imm (t : token) : P (wth Z) :=
  let* r := lift_res (tok_imm t) in
  match r with Some i => ret i | None => fail (EExpected [XImm] t) end.
Definition as_label (t : token) : P (wth str) :=
  match tok_label t with Some l => ret l | None => fail (EExpected [XLabel] t) end.
Definition as_csrimm (t : token) : P (wth Z) :=
  let* r := lift_res (tok_csrimm t) in
  match r with Some i => ret i | None => fail (EExpected [XCsrImm] t) end.
Definition as_string (t : token) : P (wth str) :=
  match tok_string t with Some s => ret s | None => fail (EExpected [XString] t) end.

Definition get_reg : P (wth reg) := let* t := get_any in as_reg t.
Definition get_imm : P (wth Z) := let* t := get_any in as_imm t.
Definition get_label : P (wth str) := let* t := get_any in as_label t.
Definition get_csrimm : P (wth Z) := let* t := get_any in as_csrimm t.
Definition get_string : P (wth str) := let* t := get_any in as_string t.
Definition expect_rparen : P unit :=
  let* t := get_any in if is_rparen t then ret Datatypes.tt else fail (EExpected [XRParen] t).

Definition X0 : reg := 0%N.
Definition X1 : reg := 1%N.

(* `.word` & co: keep consuming newlines and immediates.  Fuel = number of remaining items + 1. *)
Fixpoint data_values (fuel : nat) (acc : list (wth Z)) : P (list (wth Z)) :=
  match fuel with
  | O => fun _ => OutOfFuel
  | S f => fun st =>
      match fst st with
      | [] => ret (rev acc) st          (* end of file ends the list (fix 'data directive on the last line') *)
      | (LErrString _ _ _ | LErrUnexpected _) :: _ => ret (rev acc) st   (* so does a lexical error *)
      | _ =>
      (let* nx := peek_any in
      match tt nx with
      | TNewline => let* _ := get_any in data_values f acc
      | _ =>
          let* r := lift_res (tok_imm nx) in
          match r with
          | Some i => let* _ := get_any in data_values f (i :: acc)
          | None => ret (rev acc)
          end
      end) st
      end
  end.

(* `.macro`: skip everything up to `.endmacro` *)
Fixpoint skip_macro (fuel : nat) : P unit :=
  match fuel with
  | O => fun _ => OutOfFuel
  | S f =>
      let* nx := get_any in
      match tt nx with
      | TDirective d => match dir_from_str d with Some DEndMacro => ret Datatypes.tt | _ => skip_macro f end
      | _ => skip_macro f
      end
  end.

Definition remaining : P nat := fun st => Ok (inr (length (fst st)), st).

(* the body of ParserNode::try_from after the first token `t0` has been read *)
Definition parse_inst (i : inst) (t0 : token) : P pnode :=
  let w {A} (a : A) := mkw a t0 in
  match inst_kind i with
  | KCsrI =>
      let* rd := get_reg in let* csr := get_csrimm in let* imm := get_imm in
      let* rt := get_raw in ret (PCsrI (w i) rd csr imm rt)
  | KCsr =>
      let* rd := get_reg in let* csr := get_csrimm in let* rs1 := get_reg in
      let* rt := get_raw in ret (PCsr (w i) rd csr rs1 rt)
  | KUpperArith =>
      let* rd := get_reg in let* imm := get_imm in
      match lui_imm (wv imm) with
      | None => fail (EExpected [XImm] (wt imm))
      | Some v => let* rt := get_raw in ret (PIArith (w i) rd (w X0) (mkw v (wt imm)) rt)
      end
  | KArith =>
      let* rd := get_reg in let* rs1 := get_reg in let* rs2 := get_reg in
      let* rt := get_raw in ret (PArith (w i) rd rs1 rs2 rt)
  | KIArith =>
      let* rd := get_reg in let* rs1 := get_reg in let* imm := get_imm in
      let* rt := get_raw in ret (PIArith (w i) rd rs1 imm rt)
  | KJumpLink =>
      let* nx := get_any in
      match tok_reg nx with
      | Some r => let* name := get_label in let* rt := get_raw in ret (PJumpLink (w i) r name rt)
      | None =>
          match tok_label nx with
          | Some name => let* rt := get_raw in ret (PJumpLink (w i) (w X1) name rt)
          | None => fail (EExpected [XRegister; XLabel] nx)
          end
      end
  | KJumpLinkR =>
      let* reg1 := get_reg in
      (* fix: the token after the first register is only looked at; it is consumed when it is an operand *)
      let* nx := peek_any in
      match tok_reg nx with
      | Some rs1 => let* _ := get_any in let* imm := get_imm in let* rt := get_raw in ret (PJumpLinkR (w i) reg1 rs1 imm rt)
      | None =>
          let* oi := lift_res (tok_imm nx) in
          match oi with
          | Some imm =>
              let* _ := get_any in
              let* pk := peek_any in
              if is_lparen pk then
                let* _ := get_any in let* rs1 := get_reg in let* _ := expect_rparen in
                let* rt := get_raw in ret (PJumpLinkR (w i) reg1 rs1 imm rt)
              else let* rt := get_raw in ret (PJumpLinkR (w i) (w X1) reg1 imm rt)
          | None =>
              if is_lparen nx then
                let* _ := get_any in
                let* rs1 := get_reg in let* _ := expect_rparen in
                let* rt := get_raw in ret (PJumpLinkR (w i) reg1 rs1 (w 0) rt)
              else let* rt := get_raw in ret (PJumpLinkR (w i) (w X1) reg1 (w 0) rt)
          end
      end
  | KLoad =>
      let* rd := get_reg in
      let* nx := get_any in
      let* oi := lift_res (tok_imm nx) in
      match oi with
      | Some imm =>
          let* pk := peek_any in
          if is_lparen pk then
            let* _ := get_any in let* rs1 := get_reg in let* _ := expect_rparen in
            let* rt := get_raw in ret (PLoad (w i) rd rs1 imm rt)
          else let* rt := get_raw in ret (PLoad (w i) rd (w X0) imm rt)
      | None =>
          match tok_label nx with
          | Some label =>
              let* rt := get_raw in
              fail (ENeedTwoNodes (PLoadAddr (w ILa) rd label rt) (PLoad (w i) rd rd (w 0) rt))
          | None =>
              if is_lparen nx then
                let* rs1 := get_reg in let* _ := expect_rparen in
                let* rt := get_raw in ret (PLoad (w i) rd rs1 (w 0) rt)
              else fail (EExpected [XLabel; XImm; XLParen] nx)
          end
      end
  | KStore =>
      let* rs2 := get_reg in
      let* nx := get_any in
      let* oi := lift_res (tok_imm nx) in
      match oi with
      | Some imm =>
          let* pk := peek_any in
          if is_lparen pk then
            let* _ := get_any in let* rs1 := get_reg in let* _ := expect_rparen in
            let* rt := get_raw in ret (PStore (w i) rs1 rs2 imm rt)
          else
            match tok_reg pk with
            | Some tmp =>
                let* _ := get_any in
                let* rt := get_raw in
                fail (ENeedTwoNodes (PIArith (w IAddi) tmp (w X0) imm rt) (PStore (w i) tmp rs2 (w 0) rt))
            | None => let* rt := get_raw in ret (PStore (w i) (w X0) rs2 imm rt)
            end
      | None =>
          match tok_label nx with
          | Some label =>
              let* tmp := get_reg in
              let* rt := get_raw in
              fail (ENeedTwoNodes (PLoadAddr (w ILa) tmp label rt) (PStore (w i) tmp rs2 (w 0) rt))
          | None =>
              if is_lparen nx then
                let* rs1 := get_reg in let* _ := expect_rparen in
                let* rt := get_raw in ret (PStore (w i) rs1 rs2 (w 0) rt)
              else fail (EExpected [XLabel; XImm; XLParen] nx)
          end
      end
  | KBranch =>
      let* rs1 := get_reg in let* rs2 := get_reg in let* label := get_label in
      let* rt := get_raw in ret (PBranch (w i) rs1 rs2 label rt)
  | KIgnore => fail (EIgnoredWithWarning t0)
  | KBasic => let* rt := get_raw in ret (PBasic (w i) rt)
  | KPseudo =>
      let rr (f : wth reg -> wth reg -> rawtok -> pnode) : P pnode :=
        let* a := get_reg in let* b := get_reg in let* rt := get_raw in ret (f a b rt) in
      let rl (f : wth reg -> wth str -> rawtok -> pnode) : P pnode :=
        let* a := get_reg in let* l := get_label in let* rt := get_raw in ret (f a l rt) in
      let rrl (f : wth reg -> wth reg -> wth str -> rawtok -> pnode) : P pnode :=
        let* a := get_reg in let* b := get_reg in let* l := get_label in let* rt := get_raw in ret (f a b l rt) in
      match i with
      | IRet => let* rt := get_raw in ret (PJumpLinkR (w IJalr) (w X0) (w X1) (w 0) rt)
      | IMv => rr (fun rd rs1 rt => PArith (w IAdd) rd rs1 (w X0) rt)
      | ILi =>
          let* rd := get_reg in let* imm := get_imm in let* rt := get_raw in
          ret (PIArith (w IAddi) rd (mkw X0 (wt imm)) imm rt)
      | ILa => rl (fun rd l rt => PLoadAddr (w ILa) rd l rt)
      | IJ | IB => let* l := get_label in let* rt := get_raw in ret (PJumpLink (w IJal) (w X0) l rt)
      | IJr => let* rs1 := get_reg in let* rt := get_raw in ret (PJumpLinkR (w IJalr) (w X0) rs1 (w 0) rt)
      | IBeqz => rl (fun rs1 l rt => PBranch (w IBeq) rs1 (w X0) l rt)
      | IBnez => rl (fun rs1 l rt => PBranch (w IBne) rs1 (w X0) l rt)
      | IBltz => rl (fun rs1 l rt => PBranch (w IBlt) rs1 (w X0) l rt)
      | IBgtz => rl (fun rs1 l rt => PBranch (w IBlt) (w X0) rs1 l rt)
      | INeg => rr (fun rd rs1 rt => PArith (w ISub) rd (w X0) rs1 rt)
      | INot => rr (fun rd rs1 rt => PIArith (w IXori) rd rs1 (w (-1)) rt)
      | ISeqz => rr (fun rd rs1 rt => PIArith (w ISltiu) rd rs1 (w 1) rt)
      | ISnez => rr (fun rd rs1 rt => PArith (w ISltu) rd (w X0) rs1 rt)
      | INop => let* rt := get_raw in ret (PIArith (w IAddi) (w X0) (w X0) (w 0) rt)
      | IBgez => rl (fun rs1 l rt => PBranch (w IBge) rs1 (w X0) l rt)
      | IBlez => rl (fun rs1 l rt => PBranch (w IBge) (w X0) rs1 l rt)
      | ISgtz => rr (fun rd rs1 rt => PArith (w ISlt) rd (w X0) rs1 rt)
      | ISltz => rr (fun rd rs1 rt => PArith (w ISlt) rd rs1 (w X0) rt)
      | ISgez => rl (fun rs1 l rt => PBranch (w IBge) (w X0) rs1 l rt)
      | ICall => let* l := get_label in let* rt := get_raw in ret (PJumpLink (w IJal) (w X1) l rt)
      | IBgt => rrl (fun rs1 rs2 l rt => PBranch (w IBlt) rs2 rs1 l rt)
      | IBle => rrl (fun rs1 rs2 l rt => PBranch (w IBge) rs2 rs1 l rt)
      | IBgtu => rrl (fun rs1 rs2 l rt => PBranch (w IBltu) rs2 rs1 l rt)
      | IBleu => rrl (fun rs1 rs2 l rt => PBranch (w IBgeu) rs2 rs1 l rt)
      | ICsrci | ICsrsi | ICsrwi =>
          let* csr := get_csrimm in let* imm := get_imm in let* rt := get_raw in
          let i' := match i with ICsrci => ICsrrci | ICsrsi => ICsrrsi | _ => ICsrrwi end in
          ret (PCsrI (w i') (w X0) csr imm rt)
      | ICsrc | ICsrs | ICsrw =>
          let* rs1 := get_reg in let* csr := get_csrimm in let* rt := get_raw in
          let i' := match i with ICsrc => ICsrrc | ICsrs => ICsrrs | _ => ICsrrw end in
          ret (PCsr (w i') (w X0) csr rs1 rt)
      | ICsrr =>
          let* rd := get_reg in let* csr := get_csrimm in let* rt := get_raw in
          ret (PCsr (w ICsrrs) rd csr (w X0) rt)
      | _ => fail (EUnexpectedError t0)   (* not a pseudo: unreachable, inst_kind i = KPseudo *)
      end
  end.

Definition parse_directive (d : dirtok) (t0 : token) : P pnode :=
  let w {A} (a : A) := mkw a t0 in
  let data (dt : datatype) : P pnode :=
    let* n := remaining in
    let* vals := data_values (S n) [] in
    let* rt := get_raw in ret (PDirective (w d) (DDat dt vals) rt) in
  match d with
  | DAlign => let* imm := get_imm in let* rt := get_raw in ret (PDirective (w d) (DAl imm) rt)
  | DAscii => let* s := get_string in let* rt := get_raw in ret (PDirective (w d) (DAsc s false) rt)
  | DAsciz | DString => let* s := get_string in let* rt := get_raw in ret (PDirective (w d) (DAsc s true) rt)
  | DByte => data DtByte | DDouble => data DtDouble | DDword => data DtDword
  | DFloat => data DtFloat | DWord => data DtWord | DHalf => data DtHalf
  | DData => let* rt := get_raw in ret (PDirective (w d) DDataSection rt)
  | DMacro => let* n := remaining in let* _ := skip_macro (S n) in fail (EIgnoredWithWarning t0)
  | DEndMacro => fail (EIgnoredWithWarning t0)
  | DSection | DExtern | DEqv | DGlobal | DGlobl => fail (EUnsupportedDirective t0)
  | DInclude => let* s := get_string in let* rt := get_raw in ret (PDirective (w d) (DInc s) rt)
  | DSpace => let* imm := get_imm in let* rt := get_raw in ret (PDirective (w d) (DSp imm) rt)
  | DText => let* rt := get_raw in ret (PDirective (w d) DTextSection rt)
  end.

(* ParserNode::try_from *)
Definition parse_stmt : P pnode :=
  let* t0 := get_any in
  match tt t0 with
  | TSymbol s =>
      match inst_from_str s with
      | Some i => parse_inst i t0
      | None => fail (EExpected [XInst] t0)
      end
  | TLabel s =>
      match label_from_str s with
      | Some l => let* rt := get_raw in ret (PLabel (mkw l t0) rt)
      | None => fail (EExpected [XLabel] t0)
      end
  | TDirective d =>
      match dir_from_str d with
      | Some dt => parse_directive dt t0
      | None => fail (EUnknownDirective t0)
      end
  | TNewline => fail (EIsNewline t0)
  | TLParen | TRParen | TString _ | TChar _ => fail (EUnexpectedToken t0)
  | TComment _ => fail EIgnoredWithoutWarning
  end.

(* one call of try_from on a fresh AnnotatedLexer *)
Definition parse_one (items : list lexitem) : res ((lexerr + pnode) * list lexitem) :=
  do r <- parse_stmt (items, None);
  let '(x, (rest, _)) := r in Ok (x, rest).
