(* Model of parser/imm.rs: `Imm::from_str`, `CsrImm::from_str`, and the std functions
   they call (`u32::from_str_radix`, `str::parse::<i64>`, `str::trim`, `to_lowercase`
   on ASCII).  Mirrors the code after the `fix:` commits 975f2e7 / 4ea027f. *)
From RV.Model Require Import Base I32.

(* `char::is_whitespace` (Unicode White_Space) *)
Definition is_whitespace (c : char) : bool :=
  (in_range 9 13 c || N.eqb c 32 || N.eqb c 133 || N.eqb c 160 || N.eqb c 5760
   || in_range 8192 8202 c || N.eqb c 8232 || N.eqb c 8233 || N.eqb c 8239
   || N.eqb c 8287 || N.eqb c 12288)%bool.

Fixpoint trim_start (s : str) : str :=
  match s with
  | c :: s' => if is_whitespace c then trim_start s' else s
  | [] => []
  end.
Definition trim (s : str) : str := rev (trim_start (rev (trim_start s))).

(* `char::to_digit(radix)` for radix <= 36 *)
Definition digit_val (radix : Z) (c : char) : option Z :=
  let d :=
    if is_ascii_digit c then Some (Z.of_N c - 48)
    else if is_ascii_lower c then Some (Z.of_N c - 97 + 10)
    else if is_ascii_upper c then Some (Z.of_N c - 65 + 10)
    else None in
  match d with
  | Some v => if Z.ltb v radix then Some v else None
  | None => None
  end.

(* the digit loop of `from_str_radix`: accumulate, left to right *)
Fixpoint acc_digits (radix : Z) (acc : Z) (s : str) : option Z :=
  match s with
  | [] => Some acc
  | c :: s' =>
      match digit_val radix c with
      | Some d => acc_digits radix (acc * radix + d) s'
      | None => None
      end
  end.

(* unsigned parse: optional '+', at least one digit, value <= max *)
Definition parse_unsigned (radix max : Z) (s : str) : option Z :=
  let s := match s with c :: s' => if N.eqb c c_plus then s' else s | [] => s end in
  match s with
  | [] => None
  | _ => match acc_digits radix 0 s with
         | Some v => if Z.leb v max then Some v else None
         | None => None
         end
  end.

Definition u32_from_str_radix (radix : Z) (s : str) : option Z :=
  parse_unsigned radix 4294967295 s.

(* `str::parse::<i64>()`: optional sign, digits, range check *)
Definition i64_min : Z := -9223372036854775808.
Definition i64_max : Z := 9223372036854775807.
Definition parse_i64 (s : str) : option Z :=
  match s with
  | c :: s' =>
      if N.eqb c c_minus then
        match s' with
        | [] => None
        | _ => match acc_digits 10 0 s' with
               | Some v => if Z.leb v 9223372036854775808 then Some (- v) else None
               | None => None
               end
        end
      else parse_unsigned 10 i64_max s
  | [] => None
  end.

Definition starts_with (c : char) (s : str) : bool :=
  match s with x :: _ => N.eqb x c | [] => false end.

(* i64 multiplication `mul * i` with Rust's overflow check (site 1) *)
Definition mul_i64 (a b : Z) : res Z :=
  let p := a * b in
  if (Z.leb i64_min p && Z.leb p i64_max)%bool then Ok p else Panic 1.

(* Imm::from_signed_magnitude *)
Definition from_signed_magnitude (sign mag : Z) : res (option Z) :=
  do v <- mul_i64 sign mag;
  if Z.ltb v i32_min then Ok None else Ok (Some (wrap32 v)).

(* Imm::from_str *)
Definition imm_from_str (s0 : str) : res (option Z) :=
  let s := trim (lower s0) in
  let '(s, mul) := match strip_prefix [c_minus] s with
                   | Some s' => (s', -1)
                   | None => (s, 1)
                   end in
  if str_eqb s «"zero"» then Ok (Some 0)
  else match strip_prefix «"0x"» s with
  | Some stripped =>
      if starts_with c_minus stripped then Ok None
      else match u32_from_str_radix 16 stripped with
           | Some i => from_signed_magnitude mul i
           | None => Ok None
           end
  | None =>
  match strip_prefix «"0b"» s with
  | Some stripped =>
      if starts_with c_minus stripped then Ok None
      else match u32_from_str_radix 2 stripped with
           | Some i => from_signed_magnitude mul i
           | None => Ok None
           end
  | None =>
      if starts_with c_minus s then Ok None
      else match parse_i64 s with
           | Some i =>
               do v <- mul_i64 mul i;
               if in32b v then Ok (Some v) else Ok None
           | None => Ok None
           end
  end end.

(* CsrImm::from_str: named CSRs, else `Imm::from_str(s)?.value() as u32` *)
Definition csr_names : list (str * Z) :=
  [(«"ustatus"», 0); («"fflags"», 1); («"frm"», 2); («"fcsr"», 3); («"uie"», 4);
   («"utvec"», 5); («"uscratch"», 64); («"uepc"», 65); («"ucause"», 66);
   («"utval"», 67); («"uip"», 68); («"cycle"», 3072); («"time"», 3073);
   («"instret"», 3074); («"cycleh"», 3200); («"timeh"», 3201); («"instreth"», 3202)].

Fixpoint assoc_str {A} (k : str) (l : list (str * A)) : option A :=
  match l with
  | [] => None
  | (k', v) :: l' => if str_eqb k k' then Some v else assoc_str k l'
  end.

Definition csrimm_from_str (s : str) : res (option Z) :=
  match assoc_str (lower s) csr_names with
  | Some n => Ok (Some n)
  | None => do r <- imm_from_str s;
            Ok (match r with Some v => Some (to_u32 v) | None => None end)
  end.

(* the range check `lui` applies before shifting (parsing.rs, Type::UpperArith) *)
Definition lui_imm (v : Z) : option Z :=
  if (Z.leb 0 v && Z.leb v 1048575)%bool then Some (wrap32 (Z.shiftl v 12)) else None.
