(* Model of the output stage shared by `RVParser::run` and the CLI: the final `sort` of the diagnostic items
   (passes/diagnostics.rs `Ord for DiagnosticItem`: by file, then by range = (start.raw, end.raw)); since fix
   "deterministic order of files" files are ordered by their name (Option<String>: None first), not by their
   random UUID.  Rust's `sort`/`sort_by` is stable; so is this insertion sort. *)
From RV.Model Require Import Base Lexer Parser Reader Cfg Lints.
Open Scope N_scope.

Fixpoint str_cmp (a b : str) : comparison :=
  match a, b with
  | [], [] => Eq
  | [], _ :: _ => Lt
  | _ :: _, [] => Gt
  | x :: a', y :: b' => match N.compare x y with Eq => str_cmp a' b' | c => c end
  end.

Definition ostr_cmp (a b : option str) : comparison :=
  match a, b with
  | None, None => Eq | None, Some _ => Lt | Some _, None => Gt
  | Some x, Some y => str_cmp x y
  end.

Definition range_cmp (a b : range) : comparison :=
  match N.compare (raw (rstart a)) (raw (rstart b)) with
  | Eq => N.compare (raw (rend a)) (raw (rend b))
  | c => c
  end.

(* sort key of an item: name of its file, its range *)
Definition okey := (option str * range)%type.
Definition key_cmp (a b : okey) : comparison :=
  match ostr_cmp (fst a) (fst b) with Eq => range_cmp (snd a) (snd b) | c => c end.
Definition key_leb (a b : okey) : bool := match key_cmp a b with Gt => false | _ => true end.
Definition key_ltb (a b : okey) : bool := match key_cmp a b with Lt => true | _ => false end.

Section Sort.
  Context {A : Type} (key : A -> okey).
  (* insert x (which came BEFORE the elements of l) in front of the first element whose key is not smaller: stable *)
  Fixpoint insert_item (x : A) (l : list A) : list A :=
    match l with
    | [] => [x]
    | y :: l' => if key_ltb (key y) (key x) then y :: insert_item x l' else x :: l
    end.
  Definition sort_items (l : list A) : list A := fold_right insert_item [] l.
End Sort.

(* file name of a model file index (import order) *)
Definition file_name (rs : rstate) (f : option N) : option str :=
  match f with None => None | Some i => nth_error (imported rs) (N.to_nat i) end.
Definition loc_key (rs : rstate) (l : loc) : okey := (file_name rs (lfile l), lrange l).

(* DiagnosticItem::sort_for_output (fix 3112ad2): after the stable sort, an item that agrees with an earlier one
   in every field is dropped.  `same` is that agreement (level, title, location, messages, related). *)
Section Dedup.
  Context {A : Type} (same : A -> A -> bool).
  Fixpoint dedup_from (seen : list A) (l : list A) : list A :=
    match l with
    | [] => []
    | x :: l' => if existsb (same x) seen then dedup_from seen l' else x :: dedup_from (x :: seen) l'
    end.
  Definition dedup_items (l : list A) : list A := dedup_from [] l.
End Dedup.
Definition sort_for_output {A} (key : A -> okey) (same : A -> A -> bool) (l : list A) : list A :=
  dedup_items same (sort_items key l).

(* an output item as the library returns it: file name, range, severity, title, description *)
Record oitem := mko { ofile : option str; orange : range; osev : N; otitle : str; odesc : str }.
Definition okey_of (o : oitem) : okey := (ofile o, orange o).
Definition ostr_eqb (a b : option str) : bool := match ostr_cmp a b with Eq => true | _ => false end.
Definition range_eqb (a b : range) : bool :=
  (N.eqb (line (rstart a)) (line (rstart b)) && N.eqb (column (rstart a)) (column (rstart b)) && N.eqb (raw (rstart a)) (raw (rstart b))
   && N.eqb (line (rend a)) (line (rend b)) && N.eqb (column (rend a)) (column (rend b)) && N.eqb (raw (rend a)) (raw (rend b)))%bool.
Definition oitem_same (a b : oitem) : bool :=
  (ostr_eqb (ofile a) (ofile b) && range_eqb (orange a) (orange b) && N.eqb (osev a) (osev b)
   && str_eqb (otitle a) (otitle b) && str_eqb (odesc a) (odesc b))%bool.
Definition output_order (l : list oitem) : list oitem := sort_for_output okey_of oitem_same l.
