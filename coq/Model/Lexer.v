(* Model of parser/lexer.rs (`Lexer: Iterator`), parser/token*.rs, position.rs, range.rs,
   after the fix commits a17e229, e23f857, 85a00b9, 3a12a72.  The lexer state is the remaining
   suffix of the source plus the Rust struct's (pos,row,col). *)
From RV.Model Require Import Base.
Open Scope N_scope.

Record position := mkpos { line : N; column : N; raw : N }.
Record range := mkrange { rstart : position; rend : position }.
Definition pos0 := mkpos 0 0 0.
Definition range0 := mkrange pos0 pos0.

Inductive ttype :=
| TLParen | TRParen | TNewline
| TLabel (s : str) | TSymbol (s : str) | TDirective (s : str) | TString (s : str)
| TChar (c : char) | TComment (s : str).

(* file identity: a Uuid in the code, an index here (None = Uuid::nil / default) *)
Record token := mktok { tt : ttype; trange : range; tfile : option N }.
Definition tok_default := mktok TNewline range0 None.

Inductive strerr := InvalidEscapeSequence | Unclosed | NewlineInString.

(* what `Lexer::next` yields: Ok(token) or one of the two LexErrors the lexer itself builds *)
Inductive lexitem :=
| LTok (t : token)
| LErrString (t : token) (p : position) (k : strerr)
| LErrUnexpected (t : token).

(* cursor = (pos,row,col) *)
Record cur := mkcur { cpos : N; crow : N; ccol : N }.
Definition cur0 := mkcur 0 0 0.

(* consume_char when the current character is c *)
Definition adv (c : char) (p : cur) : cur :=
  if N.eqb c c_nl then mkcur (cpos p + 1) (crow p + 1) 0
  else mkcur (cpos p + 1) (crow p) (ccol p + 1).
Definition consume (s : str) (p : cur) : str * cur :=
  match s with c :: r => (r, adv c p) | [] => ([], p) end.
Definition get_pos (p : cur) : position := mkpos (crow p) (ccol p) (cpos p).
(* get_range: a one-character range (fix 'single-character tokens end where they start') *)
Definition get_range (p : cur) : range := mkrange (get_pos p) (get_pos p).

Definition is_ws (c : char) : bool :=
  (N.eqb c c_space || N.eqb c c_tab || N.eqb c c_comma || N.eqb c c_cr)%bool.
Definition is_symbol_char (c : char) : bool :=
  (is_ascii_lower c || is_ascii_upper c || N.eqb c c_under || N.eqb c c_minus)%bool.
Definition is_symbol_item (c : char) : bool := (is_symbol_char c || is_ascii_digit c)%bool.

Fixpoint skip_ws (s : str) (p : cur) : str * cur :=
  match s with
  | c :: r => if is_ws c then skip_ws r (adv c p) else (s, p)
  | [] => ([], p)
  end.

Fixpoint skip_line (s : str) (p : cur) : str * cur :=
  match s with
  | c :: r => if N.eqb c c_nl then (s, p) else skip_line r (adv c p)
  | [] => ([], p)
  end.

Definition hd_opt {A} (l : list A) : option A := match l with x :: _ => Some x | [] => None end.

(* the three accumulate-while loops (directive, comment, symbol): push the current character,
   break (without consuming it) when `stop (peek 1)`, else consume and continue.
   Returns the reversed accumulator. *)
Fixpoint scan (stop : option char -> bool) (s : str) (p : cur) (acc : str) : str * str * cur :=
  match s with
  | [] => (acc, [], p)
  | c :: r => if stop (hd_opt r) then (c :: acc, s, p) else scan stop r (adv c p) (c :: acc)
  end.

Definition stop_directive (o : option char) : bool :=
  match o with Some n => negb (is_symbol_char n) | None => false end.
Definition stop_comment (o : option char) : bool :=
  match o with Some n => N.eqb n c_nl | None => true end.
Definition stop_symbol (o : option char) : bool :=
  match o with Some n => negb (is_symbol_item n) | None => false end.

(* the loop added by e23f857: after skip_ws, skip lone dots *)
Definition lone_dot (s : str) : bool :=
  match s with
  | c :: r => (N.eqb c c_dot && negb (match hd_opt r with Some n => is_symbol_char n | None => false end))%bool
  | [] => false
  end.
Fixpoint skip_dots (fuel : nat) (s : str) (p : cur) : res (str * cur) :=
  match fuel with
  | O => OutOfFuel
  | S f => if lone_dot s then
             let '(s1, p1) := consume s p in
             let '(s2, p2) := skip_ws s1 p1 in skip_dots f s2 p2
           else Ok (s, p)
  end.

(* char::to_digit(16) *)
Definition hexval (c : char) : option N :=
  if is_ascii_digit c then Some (c - 48)
  else if in_range 97 102 c then Some (c - 87)
  else if in_range 65 70 c then Some (c - 55)
  else None.

(* unicode_code: current is '\\', peek(1) is 'u'; reads peek(2..5).  Returns the char and
   the state after skip_char(4). *)
Definition unicode_code (s : str) (p : cur) : option (char * str * cur) :=
  match s with
  | b :: u_ :: a1 :: a2 :: a3 :: a4 :: _ =>
      match hexval a1, hexval a2, hexval a3, hexval a4 with
      | Some d1, Some d2, Some d3, Some d4 =>
          let code := ((d1 * 16 + d2) * 16 + d3) * 16 + d4 in
          (* char::from_u32: surrogates are not scalar values *)
          if in_range 55296 57343 code then None
          else
            let '(s1, p1) := consume s p in
            let '(s2, p2) := consume s1 p1 in
            let '(s3, p3) := consume s2 p2 in
            let '(s4, p4) := consume s3 p3 in
            Some (code, s4, p4)
      | _, _, _, _ => None
      end
  | _ => None
  end.

(* escape_code: current is '\\'.  On success returns the character and the state after the
   single consume_char at its end (so the cursor is on the last character of the escape). *)
Definition escape_code (s : str) (p : cur) : option (char * str * cur) :=
  match s with
  | _ :: c :: _ =>
      let simple (r : char) := let '(s1, p1) := consume s p in Some (r, s1, p1) in
      if N.eqb c c_bslash then simple c_bslash
      else if N.eqb c c_squote then simple c_squote
      else if N.eqb c c_dquote then simple c_dquote
      else if N.eqb c 110 then simple c_nl
      else if N.eqb c 116 then simple c_tab
      else if N.eqb c 114 then simple c_cr
      else if N.eqb c 98 then simple 8
      else if N.eqb c 102 then simple 12
      else if N.eqb c 48 then simple 0
      else if N.eqb c 117 then
        match unicode_code s p with
        | Some (r, s1, p1) => let '(s2, p2) := consume s1 p1 in Some (r, s2, p2)
        | None => None
        end
      else None
  | _ => None
  end.

(* acc_string: fuel is only needed because an escape consumes a data-dependent number of
   characters; length s + 1 always suffices. *)
Fixpoint acc_string (fuel : nat) (s : str) (p : cur) (acc : str)
  : res (str * str * cur + position * strerr * str * cur) :=
  match fuel with
  | O => OutOfFuel
  | S f =>
      match s with
      | [] => Ok (inr (get_pos p, Unclosed, s, p))
      | c :: _ =>
          if N.eqb c c_dquote then Ok (inl (rev acc, s, p))
          else if N.eqb c c_nl then Ok (inr (get_pos p, NewlineInString, s, p))
          else if N.eqb c c_bslash then
            match escape_code s p with
            | Some (ec, s1, p1) => let '(s2, p2) := consume s1 p1 in acc_string f s2 p2 (ec :: acc)
            | None => Ok (inr (get_pos p, InvalidEscapeSequence, s, p))
            end
          else let '(s1, p1) := consume s p in acc_string f s1 p1 (c :: acc)
      end
  end.

Definition invalid_string (file : option N) (partial : str) (k : strerr) (st en : position) : lexitem :=
  LErrString (mktok (TString partial) (mkrange st en) file) en k.

(* debug_assert!s at the end of `next` (builds with debug assertions): site 10/11 *)
Definition check_tok (chk : bool) (t : token) : res token :=
  if chk then
    if negb (N.eqb (line (rstart (trange t))) (line (rend (trange t)))) then Panic 10
    else if negb (N.leb (column (rstart (trange t))) (column (rend (trange t)))) then Panic 11
    else Ok t
  else Ok t.

(* Lexer::next.  Result: None = end of stream; Some (item, state'). *)
Fixpoint next (fuel : nat) (chk : bool) (file : option N) (s0 : str) (p0 : cur)
  : res (option (lexitem * str * cur)) :=
  match fuel with
  | O => OutOfFuel
  | S f =>
  let '(s1, p1) := skip_ws s0 p0 in
  do sp <- skip_dots (S (length s1)) s1 p1;
  let '(s, p) := sp in
  let fin (t : token) (s' : str) (p' : cur) := do t' <- check_tok chk t; Ok (Some (LTok t', s', p')) in
  match s with
  | [] => Ok None
  | c :: r =>
      if N.eqb c c_nl then
        let rg := get_range p in let '(s', p') := consume s p in fin (mktok TNewline rg file) s' p'
      else if N.eqb c c_lparen then
        let rg := get_range p in let '(s', p') := consume s p in fin (mktok TLParen rg file) s' p'
      else if N.eqb c c_rparen then
        let rg := get_range p in let '(s', p') := consume s p in fin (mktok TRParen rg file) s' p'
      else if N.eqb c c_dot then
        let st := get_pos p in
        let '(acc, s', p') := scan stop_directive s p [] in
        let en := get_pos p' in
        let '(s'', p'') := consume s' p' in
        let d := rev acc in
        if str_eqb d [c_dot] then next f chk file s'' p''
        else fin (mktok (TDirective d) (mkrange st en) file) s'' p''
      else if N.eqb c c_hash then
        let st := get_pos p in
        let '(acc, s', p') := scan stop_comment s p [] in
        let en := get_pos p' in
        let '(s'', p'') := consume s' p' in
        (* split_at(1): drop the '#' *)
        let body := match rev acc with _ :: b => b | [] => [] end in
        fin (mktok (TComment body) (mkrange st en) file) s'' p''
      else if N.eqb c c_dquote then
        let st := get_pos p in
        let '(s1, p1) := consume s p in
        do r <- acc_string (S (length s1)) s1 p1 [];
        match r with
        | inl (text, s2, p2) =>
            let en := get_pos p2 in
            let '(s3, p3) := consume s2 p2 in
            fin (mktok (TString text) (mkrange st en) file) s3 p3
        | inr (epos, k, s2, p2) =>
            let '(s3, p3) := skip_line s2 p2 in
            Ok (Some (LErrString (mktok (TString []) (mkrange st epos) file) epos k, s3, p3))
        end
      else if N.eqb c c_squote then
        let st := get_pos p in
        let '(s1, p1) := consume s p in
        match s1 with
        | [] => Ok (Some (invalid_string file [] Unclosed st (get_pos p1), s1, p1))
        | c1 :: _ =>
            let cont (cv : char) (s2 : str) (p2 : cur) :=
              let '(s3, p3) := consume s2 p2 in
              match s3 with
              | [] => Ok (Some (invalid_string file [] Unclosed st (get_pos p3), s3, p3))
              | q :: _ =>
                  if N.eqb q c_squote then
                    let en := get_pos p3 in
                    let '(s4, p4) := consume s3 p3 in
                    Ok (Some (LTok (mktok (TChar cv) (mkrange st en) file), s4, p4))
                  else Ok (Some (invalid_string file [cv] Unclosed st (get_pos p3), s3, p3))
              end in
            if N.eqb c1 c_bslash then
              match escape_code s1 p1 with
              | Some (ec, s2, p2) => cont ec s2 p2
              | None =>
                  let en := get_pos p1 in
                  let '(s2, p2) := skip_line s1 p1 in
                  Ok (Some (invalid_string file [c1] InvalidEscapeSequence st en, s2, p2))
              end
            else if N.eqb c1 c_nl then
              Ok (Some (invalid_string file [c1] NewlineInString st (get_pos p1), s1, p1))
            else cont c1 s1 p1
        end
      else
        let st := get_pos p in
        if negb (is_symbol_item c) then
          let '(s', p') := consume s p in
          Ok (Some (LErrUnexpected (mktok (TSymbol [c]) (mkrange st st) file), s', p'))
        else
          let '(acc, s', p') := scan stop_symbol s p [] in
          let sym := rev acc in
          match s' with
          | _ :: colon :: _ =>
              if N.eqb colon c_colon then
                let '(s1, p1) := consume s' p' in
                let en := get_pos p1 in
                let '(s2, p2) := consume s1 p1 in
                Ok (Some (LTok (mktok (TLabel sym) (mkrange st en) file), s2, p2))
              else
                let en := get_pos p' in
                let '(s1, p1) := consume s' p' in
                fin (mktok (TSymbol sym) (mkrange st en) file) s1 p1
          | _ =>
              let en := get_pos p' in
              let '(s1, p1) := consume s' p' in
              fin (mktok (TSymbol sym) (mkrange st en) file) s1 p1
          end
  end
  end.

(* the whole token stream of a text (`Lexer::new(text, id).collect()`) *)
Fixpoint lex_loop (fuel : nat) (chk : bool) (file : option N) (s : str) (p : cur) (acc : list lexitem)
  : res (list lexitem) :=
  match fuel with
  | O => OutOfFuel
  | S f =>
      do r <- next (S (length s)) chk file s p;
      match r with
      | None => Ok (rev acc)
      | Some (it, s', p') => lex_loop f chk file s' p' (it :: acc)
      end
  end.

Definition lex_all (chk : bool) (file : option N) (s : str) : res (list lexitem) :=
  lex_loop (S (S (length s))) chk file s cur0 [].
