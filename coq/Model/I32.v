(* 32-bit machine integers as Z, and the model of `MathOp::operate` (cfg/ops.rs). *)
From RV.Model Require Import Base.

Definition two32 : Z := 4294967296.
Definition two31 : Z := 2147483648.
Definition i32_min : Z := -2147483648.
Definition i32_max : Z := 2147483647.

Definition in32 (x : Z) : Prop := i32_min <= x <= i32_max.
Definition in32b (x : Z) : bool := (Z.leb i32_min x && Z.leb x i32_max)%bool.
Definition inu32 (x : Z) : Prop := 0 <= x < two32.

(* `as u32` and `as i32` on any integer *)
Definition to_u32 (x : Z) : Z := x mod two32.
Definition wrap32 (x : Z) : Z :=
  let u := x mod two32 in if Z.ltb u two31 then u else u - two32.

Inductive mathop :=
| MAdd | MAnd | MOr | MSll | MSlt | MSltu | MSra | MSrl | MSub | MXor
| MMul | MMulh | MMulhsu | MMulhu | MDiv | MDivu | MRem | MRemu.

Definition all_mathops : list mathop :=
  [MAdd; MAnd; MOr; MSll; MSlt; MSltu; MSra; MSrl; MSub; MXor;
   MMul; MMulh; MMulhsu; MMulhu; MDiv; MDivu; MRem; MRemu].

Definition b2z (b : bool) : Z := if b then 1 else 0.

(* `y as u32` masked to five bits, as `wrapping_shl/shr` do *)
Definition shamt (y : Z) : Z := (to_u32 y) mod 32.

(* cfg/ops.rs::MathOp::operate, operator by operator, on i32 operands *)
Definition operate (op : mathop) (x y : Z) : Z :=
  match op with
  | MAdd => wrap32 (x + y)
  | MAnd => Z.land x y
  | MOr => Z.lor x y
  | MSll => wrap32 (Z.shiftl x (shamt y))
  | MSlt => b2z (Z.ltb x y)
  | MSltu => b2z (Z.ltb (to_u32 x) (to_u32 y))
  | MSra => Z.shiftr x (shamt y)
  | MSrl => wrap32 (Z.shiftr (to_u32 x) (shamt y))
  | MSub => wrap32 (x - y)
  | MXor => Z.lxor x y
  | MMul => wrap32 (x * y)
  | MMulh => wrap32 (Z.shiftr (x * y) 32)
  | MMulhsu => wrap32 (Z.shiftr (x * to_u32 y) 32)
  | MMulhu => wrap32 (Z.shiftr (to_u32 x * to_u32 y) 32)
  | MDiv => if Z.eqb y 0 then -1 else wrap32 (Z.quot x y)
  | MDivu => if Z.eqb y 0 then -1 else wrap32 (to_u32 x / to_u32 y)
  | MRem => if Z.eqb y 0 then x else wrap32 (Z.rem x y)
  | MRemu => if Z.eqb y 0 then x else wrap32 (to_u32 x mod to_u32 y)
  end.
