(* Instruction mnemonics and their classification (parser/inst.rs): `Inst`, `Inst::from_str`,
   `Type::from(&Inst)`.  The per-class enums of the Rust code (ArithType, ...) are represented by
   the `inst` they convert to (`From<&ArithType> for Inst` is injective).
   Tables transcribed from the source once; compared exhaustively with the code on every run. *)
From RV.Model Require Import Base.

Inductive inst :=
| IRet
| IEbreak
| IEcall
| INop
| IAdd
| IAddw
| IAnd
| IOr
| ISll
| ISllw
| ISlt
| ISltu
| ISra
| ISraw
| ISrl
| ISrlw
| ISub
| IXor
| IMul
| IMulh
| IMulhsu
| IMulhu
| IDiv
| IDivu
| IDivw
| IRem
| IRemu
| IRemw
| IRemuw
| IBeq
| IBge
| IBgeu
| IBlt
| IBltu
| IBne
| IAddi
| IAddiw
| IAndi
| IOri
| ISlli
| ISlliw
| ISlti
| ISltiu
| ISrai
| ISraiw
| ISrli
| ISrliw
| IXori
| ILui
| ILb
| ILbu
| ILh
| ILhu
| ILw
| ILwu
| ISb
| ISh
| ISw
| ICsrrw
| ICsrrs
| ICsrrc
| ICsrrwi
| ICsrrsi
| ICsrrci
| IFence
| IFencei
| IJal
| IJalr
| IAuipc
| IBeqz
| IBnez
| IJ
| IJr
| ILa
| ILi
| IMv
| INeg
| INot
| ISeqz
| ISnez
| ISltz
| ISgez
| ISgtz
| IB
| IBltz
| IBgez
| ICall
| IBgt
| IBle
| IBgtu
| IBleu
| IBgtz
| IBlez
| ICsrc
| ICsrr
| ICsrs
| ICsrw
| ICsrci
| ICsrsi
| ICsrwi
| IUret.

Definition all_insts : list inst :=
  [IRet; IEbreak; IEcall; INop; IAdd; IAddw; IAnd; IOr; ISll; ISllw; ISlt; ISltu; ISra; ISraw; ISrl; ISrlw; ISub; IXor; IMul; IMulh; IMulhsu; IMulhu; IDiv; IDivu; IDivw; IRem; IRemu; IRemw; IRemuw; IBeq; IBge; IBgeu; IBlt; IBltu; IBne; IAddi; IAddiw; IAndi; IOri; ISlli; ISlliw; ISlti; ISltiu; ISrai; ISraiw; ISrli; ISrliw; IXori; ILui; ILb; ILbu; ILh; ILhu; ILw; ILwu; ISb; ISh; ISw; ICsrrw; ICsrrs; ICsrrc; ICsrrwi; ICsrrsi; ICsrrci; IFence; IFencei; IJal; IJalr; IAuipc; IBeqz; IBnez; IJ; IJr; ILa; ILi; IMv; INeg; INot; ISeqz; ISnez; ISltz; ISgez; ISgtz; IB; IBltz; IBgez; ICall; IBgt; IBle; IBgtu; IBleu; IBgtz; IBlez; ICsrc; ICsrr; ICsrs; ICsrw; ICsrci; ICsrsi; ICsrwi; IUret].

Inductive ikind :=
| KArith | KIArith | KBasic | KJumpLink | KJumpLinkR | KLoad | KStore | KCsr | KCsrI | KIgnore | KBranch | KPseudo | KUpperArith.

(* Type::from(&Inst) *)
Definition inst_kind (i : inst) : ikind :=
  match i with
  | IRet => KPseudo
  | IEbreak => KBasic
  | IEcall => KBasic
  | INop => KPseudo
  | IAdd => KArith
  | IAddw => KArith
  | IAnd => KArith
  | IOr => KArith
  | ISll => KArith
  | ISllw => KArith
  | ISlt => KArith
  | ISltu => KArith
  | ISra => KArith
  | ISraw => KArith
  | ISrl => KArith
  | ISrlw => KArith
  | ISub => KArith
  | IXor => KArith
  | IMul => KArith
  | IMulh => KArith
  | IMulhsu => KArith
  | IMulhu => KArith
  | IDiv => KArith
  | IDivu => KArith
  | IDivw => KArith
  | IRem => KArith
  | IRemu => KArith
  | IRemw => KArith
  | IRemuw => KArith
  | IBeq => KBranch
  | IBge => KBranch
  | IBgeu => KBranch
  | IBlt => KBranch
  | IBltu => KBranch
  | IBne => KBranch
  | IAddi => KIArith
  | IAddiw => KIArith
  | IAndi => KIArith
  | IOri => KIArith
  | ISlli => KIArith
  | ISlliw => KIArith
  | ISlti => KIArith
  | ISltiu => KIArith
  | ISrai => KIArith
  | ISraiw => KIArith
  | ISrli => KIArith
  | ISrliw => KIArith
  | IXori => KIArith
  | ILui => KUpperArith
  | ILb => KLoad
  | ILbu => KLoad
  | ILh => KLoad
  | ILhu => KLoad
  | ILw => KLoad
  | ILwu => KLoad
  | ISb => KStore
  | ISh => KStore
  | ISw => KStore
  | ICsrrw => KCsr
  | ICsrrs => KCsr
  | ICsrrc => KCsr
  | ICsrrwi => KCsrI
  | ICsrrsi => KCsrI
  | ICsrrci => KCsrI
  | IFence => KIgnore
  | IFencei => KIgnore
  | IJal => KJumpLink
  | IJalr => KJumpLinkR
  | IAuipc => KIArith
  | IBeqz => KPseudo
  | IBnez => KPseudo
  | IJ => KPseudo
  | IJr => KPseudo
  | ILa => KPseudo
  | ILi => KPseudo
  | IMv => KPseudo
  | INeg => KPseudo
  | INot => KPseudo
  | ISeqz => KPseudo
  | ISnez => KPseudo
  | ISltz => KPseudo
  | ISgez => KPseudo
  | ISgtz => KPseudo
  | IB => KPseudo
  | IBltz => KPseudo
  | IBgez => KPseudo
  | ICall => KPseudo
  | IBgt => KPseudo
  | IBle => KPseudo
  | IBgtu => KPseudo
  | IBleu => KPseudo
  | IBgtz => KPseudo
  | IBlez => KPseudo
  | ICsrc => KPseudo
  | ICsrr => KPseudo
  | ICsrs => KPseudo
  | ICsrw => KPseudo
  | ICsrci => KPseudo
  | ICsrsi => KPseudo
  | ICsrwi => KPseudo
  | IUret => KBasic
  end.

(* the lower-case mnemonic of each instruction (the table of Inst::from_str, inverted) *)
Definition inst_name (i : inst) : str :=
  match i with
  | IRet => «"ret"»
  | IEbreak => «"ebreak"»
  | IEcall => «"ecall"»
  | INop => «"nop"»
  | IAdd => «"add"»
  | IAddw => «"addw"»
  | IAnd => «"and"»
  | IOr => «"or"»
  | ISll => «"sll"»
  | ISllw => «"sllw"»
  | ISlt => «"slt"»
  | ISltu => «"sltu"»
  | ISra => «"sra"»
  | ISraw => «"sraw"»
  | ISrl => «"srl"»
  | ISrlw => «"srlw"»
  | ISub => «"sub"»
  | IXor => «"xor"»
  | IMul => «"mul"»
  | IMulh => «"mulh"»
  | IMulhsu => «"mulhsu"»
  | IMulhu => «"mulhu"»
  | IDiv => «"div"»
  | IDivu => «"divu"»
  | IDivw => «"divw"»
  | IRem => «"rem"»
  | IRemu => «"remu"»
  | IRemw => «"remw"»
  | IRemuw => «"remuw"»
  | IBeq => «"beq"»
  | IBge => «"bge"»
  | IBgeu => «"bgeu"»
  | IBlt => «"blt"»
  | IBltu => «"bltu"»
  | IBne => «"bne"»
  | IAddi => «"addi"»
  | IAddiw => «"addiw"»
  | IAndi => «"andi"»
  | IOri => «"ori"»
  | ISlli => «"slli"»
  | ISlliw => «"slliw"»
  | ISlti => «"slti"»
  | ISltiu => «"sltiu"»
  | ISrai => «"srai"»
  | ISraiw => «"sraiw"»
  | ISrli => «"srli"»
  | ISrliw => «"srliw"»
  | IXori => «"xori"»
  | ILui => «"lui"»
  | ILb => «"lb"»
  | ILbu => «"lbu"»
  | ILh => «"lh"»
  | ILhu => «"lhu"»
  | ILw => «"lw"»
  | ILwu => «"lwu"»
  | ISb => «"sb"»
  | ISh => «"sh"»
  | ISw => «"sw"»
  | ICsrrw => «"csrrw"»
  | ICsrrs => «"csrrs"»
  | ICsrrc => «"csrrc"»
  | ICsrrwi => «"csrrwi"»
  | ICsrrsi => «"csrrsi"»
  | ICsrrci => «"csrrci"»
  | IFence => «"fence"»
  | IFencei => «"fencei"»
  | IJal => «"jal"»
  | IJalr => «"jalr"»
  | IAuipc => «"auipc"»
  | IBeqz => «"beqz"»
  | IBnez => «"bnez"»
  | IJ => «"j"»
  | IJr => «"jr"»
  | ILa => «"la"»
  | ILi => «"li"»
  | IMv => «"mv"»
  | INeg => «"neg"»
  | INot => «"not"»
  | ISeqz => «"seqz"»
  | ISnez => «"snez"»
  | ISltz => «"sltz"»
  | ISgez => «"sgez"»
  | ISgtz => «"sgtz"»
  | IB => «"b"»
  | IBltz => «"bltz"»
  | IBgez => «"bgez"»
  | ICall => «"call"»
  | IBgt => «"bgt"»
  | IBle => «"ble"»
  | IBgtu => «"bgtu"»
  | IBleu => «"bleu"»
  | IBgtz => «"bgtz"»
  | IBlez => «"blez"»
  | ICsrc => «"csrc"»
  | ICsrr => «"csrr"»
  | ICsrs => «"csrs"»
  | ICsrw => «"csrw"»
  | ICsrci => «"csrci"»
  | ICsrsi => «"csrsi"»
  | ICsrwi => «"csrwi"»
  | IUret => «"uret"»
  end.

Definition inst_eqb (a b : inst) : bool := str_eqb (inst_name a) (inst_name b).

(* Inst::from_str: lower-case, then table lookup *)
Fixpoint find_inst (s : str) (l : list inst) : option inst :=
  match l with
  | [] => None
  | i :: l' => if str_eqb s (inst_name i) then Some i else find_inst s l'
  end.
Definition inst_from_str (s : str) : option inst := find_inst (lower s) all_insts.
