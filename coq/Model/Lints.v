(* Model of the eleven lints (lints/*.rs), `Cfg::error_ranges_for_first_usage/first_store`
   (cfg/graph.rs), passes/manager.rs `gen_full_cfg` / `run_diagnostics`, and the diagnostic
   items of passes/diagnostics.rs, lint_error.rs, cfg_error.rs, parser/error.rs (S11, S12).
   Where the code's result depends on hash iteration order the model returns every admissible
   answer (a candidate list) instead of one. *)
From RV.Model Require Import Base I32 Imm Lexer Isa Parser Reader Cfg Avail Live.
Open Scope N_scope.

Inductive lintcode :=
| LDeadAssignment | LSaveToZero | LInvalidUseAfterCall | LInvalidUseBeforeAssignment
| LInvalidJumpToFunction | LFirstInstructionIsFunction | LUnknownEcall | LUnreachableCode
| LInvalidSegment | LUnknownStack | LInvalidStackPointer | LInvalidStackPosition
| LInvalidStackOffsetUsage | LOverwriteCalleeSavedRegister | LLostRegisterValue | LNodeInManyFunctions.

Definition all_lintcodes : list lintcode :=
  [LDeadAssignment; LSaveToZero; LInvalidUseAfterCall; LInvalidUseBeforeAssignment; LInvalidJumpToFunction;
   LFirstInstructionIsFunction; LUnknownEcall; LUnreachableCode; LInvalidSegment; LUnknownStack;
   LInvalidStackPointer; LInvalidStackPosition; LInvalidStackOffsetUsage; LOverwriteCalleeSavedRegister;
   LLostRegisterValue; LNodeInManyFunctions].

Inductive severity := SevError | SevWarning | SevInformation | SevHint.

Definition lint_name (c : lintcode) : str :=
  match c with
  | LDeadAssignment => «"dead-assignment"» | LSaveToZero => «"save-to-zero"»
  | LInvalidUseAfterCall => «"invalid-use-after-call"» | LInvalidUseBeforeAssignment => «"invalid-use-before-assignment"»
  | LInvalidJumpToFunction => «"invalid-jump-to-function"» | LFirstInstructionIsFunction => «"first-instruction-is-function"»
  | LUnknownEcall => «"unknown-ecall"» | LUnreachableCode => «"unreachable-code"» | LInvalidSegment => «"invalid-segment"»
  | LUnknownStack => «"unknown-stack"» | LInvalidStackPointer => «"invalid-stack-pointer"»
  | LInvalidStackPosition => «"invalid-stack-position"» | LInvalidStackOffsetUsage => «"invalid-stack-offset-usage"»
  | LOverwriteCalleeSavedRegister => «"overwrite-callee-saved-register"» | LLostRegisterValue => «"lost-register-value"»
  | LNodeInManyFunctions => «"node-in-many-functions"»
  end.
(* get_title (LintError) / the DiagnosticBuilder title for unreachable-code *)
Definition lint_title (c : lintcode) : str :=
  match c with
  | LDeadAssignment => «"Unused value"» | LSaveToZero => «"Saving to zero register"»
  | LInvalidUseAfterCall => «"Invalid use after call"» | LInvalidUseBeforeAssignment => «"Invalid use before assignment"»
  | LInvalidJumpToFunction => «"Invalid jump to function"» | LFirstInstructionIsFunction => «"First instruction is function"»
  | LUnknownEcall => «"Unknown ecall"» | LUnreachableCode => «"Unreachable line of code"» | LInvalidSegment => «"Invalid segment"»
  | LUnknownStack => «"Unknown stack"» | LInvalidStackPointer => «"Invalid stack pointer"»
  | LInvalidStackPosition => «"Invalid stack position"» | LInvalidStackOffsetUsage => «"Invalid stack offset usage"»
  | LOverwriteCalleeSavedRegister => «"Overwrite callee-saved register"» | LLostRegisterValue => «"Lost register value"»
  | LNodeInManyFunctions => «"Node in many functions"»
  end.
Definition lint_severity (c : lintcode) : severity :=
  match c with
  | LDeadAssignment | LSaveToZero | LInvalidSegment | LInvalidJumpToFunction | LFirstInstructionIsFunction
  | LLostRegisterValue | LNodeInManyFunctions | LUnreachableCode => SevWarning
  | _ => SevError
  end.
Definition lint_description (c : lintcode) : str :=
  match c with LUnreachableCode => «"There is no path to this instruction."» | _ => [] end.

(* a location *)
Record loc := mkloc { lrange : range; lfile : option N }.
Definition loc_of_tok (t : token) : loc := mkloc (trange t) (tfile t).
Definition loc_of_raw (r : rawtok) : loc := mkloc (rrange r) (rfile r).
Definition loc_of_node (n : pnode) : loc := loc_of_raw (node_raw n).

(* one lint finding: its kind and the admissible locations (more than one only where the code
   depends on hash order) *)
(* `lopt`: the code may also report nothing here (an admissible traversal order finds no operand) *)
Record lint := mklint { lcode : lintcode; lcands : list loc; lopt : bool }.
Definition lint1 (c : lintcode) (l : loc) : lint := mklint c [l] false.

(* ---- Cfg::error_ranges_for_first_usage: BFS over nexts, stop at the first dequeued node whose
   gen set contains the register.  `frontier` is one BFS level.  All hits on the first level
   that has one are admissible. *)
Definition usage_hit (g : list cnode) (item : reg) (i : nat) : option (option loc) :=
  match getn g i with
  | Some c =>
      if rs_mem item (gen_reg (cn c)) then
        Some (match filter (fun r => N.eqb (wv r) item) (reads_from (cn c)) with
              | r :: _ => Some (loc_of_tok (wt r))
              | [] => None
              end)
      else None
  | None => None
  end.

Fixpoint first_usage (fuel : nat) (g : list cnode) (item : reg) (frontier visited : list nat) : list (option loc) :=
  match fuel with
  | O => []
  | S f =>
      let fresh := filter (fun i => negb (memn i visited)) frontier in
      match fresh with
      | [] => []
      | _ =>
          let hits := filter_map (usage_hit g item) fresh in
          match hits with
          | _ :: _ => hits
          | [] =>
              let visited' := fold_left (fun v i => ins i v) fresh visited in
              let next := fold_left (fun acc i => match getn g i with
                                                  | Some c => fold_left (fun a j => ins j a) (nexts c) acc
                                                  | None => acc end) fresh [] in
              first_usage f g item next visited'
          end
      end
  end.
(* the admissible answers: each is a (possibly absent) location *)
Definition error_ranges_for_first_usage (g : list cnode) (i : nat) (item : reg) : list (option loc) :=
  match getn g i with
  | Some c => first_usage (S (length g)) g item (nexts c) [i]
  | None => []
  end.

(* ---- Cfg::error_ranges_for_first_store: backward search; every first writer on every path *)
Fixpoint first_store (fuel : nat) (g : list cnode) (item : reg) (queue visited : list nat) (acc : list loc) : list loc :=
  match fuel with
  | O => acc
  | S f =>
      match queue with
      | [] => acc
      | p :: q =>
          if memn p visited then first_store f g item q visited acc
          else
            match getn g p with
            | None => first_store f g item q (ins p visited) acc
            | Some c =>
                match writes_to (cn c) with
                | Some w => if N.eqb (wv w) item then first_store f g item q (ins p visited) (loc_of_tok (wt w) :: acc)
                            else first_store f g item (q ++ prevs c) (ins p visited) acc
                | None => first_store f g item (q ++ prevs c) (ins p visited) acc
                end
            end
      end
  end.
Definition error_ranges_for_first_store (g : list cnode) (i : nat) (item : reg) : list loc :=
  match getn g i with
  | Some c => first_store (S (length g) * S (length g)) g item (prevs c) [i] []
  | None => []
  end.

Definition indices (g : cfg) : list nat := seq 0 (length (gnodes g)).
Definition for_nodes (g : cfg) (f : nat -> cnode -> list lint) : list lint :=
  flat_map (fun i => match getn (gnodes g) i with Some c => f i c | None => [] end) (indices g).

(* SaveToZeroCheck *)
Definition lint_save_to_zero (g : cfg) : list lint :=
  for_nodes g (fun _ c => match writes_to (cn c) with
                          | Some r => if (N.eqb (wv r) 0 && negb (can_skip_save_checks (cn c)))%bool
                                      then [lint1 LSaveToZero (loc_of_tok (wt r))] else []
                          | None => [] end).

(* DeadValueCheck *)
Definition usage_lints (code : lintcode) (g : cfg) (i : nat) (regs : list reg) : list lint :=
  flat_map (fun item =>
              let cands := error_ranges_for_first_usage (gnodes g) i item in
              match cands with
              | [] => []
              | _ =>
                  (* when every admissible answer is "no location", nothing is reported; when some
                     are, the code may or may not report: the candidate list keeps the located ones
                     and the differ accepts absence only if an absent answer is admissible *)
                  match filter_map (fun x => x) cands with
                  | [] => []
                  | ls => [mklint code ls (existsb (fun x => match x with None => true | Some _ => false end) cands)]
                  end
              end) regs.
Definition lint_dead_value (g : cfg) : list lint :=
  for_nodes g (fun i c =>
    match calls_to_from_cfg g c with
    | Some fid =>
        match nth_opt (gfuncs g) fid with
        | Some f =>
            let out := rs_inter (rs_diff caller_saved_set (fn_returns g f)) (lout c) in
            usage_lints LInvalidUseAfterCall g i (rs_elems out)
        | None => []
        end
    | None =>
        match writes_to (cn c) with
        | Some def => if (negb (rs_mem (wv def) (lout c)) && negb (can_skip_save_checks (cn c)))%bool
                      then [lint1 LDeadAssignment (loc_of_tok (wt def))] else []
        | None => []
        end
    end).

Definition lint_instruction_in_text (g : cfg) : list lint :=
  for_nodes g (fun _ c => if (is_instruction (cn c) && negb (ctext c))%bool
                          then [lint1 LInvalidSegment (loc_of_node (cn c))] else []).

Definition lint_ecall (g : cfg) : list lint :=
  for_nodes g (fun _ c => if is_ecall (cn c) then
                            match known_ecall c with None => [lint1 LUnknownEcall (loc_of_node (cn c))] | Some _ => [] end
                          else []).

(* ControlFlowCheck.  For a function entry the code loops over prevs x functions (both hash
   sets) and `break`s out of the inner loop after an invalid-jump item: the number of items
   per (prev) is |functions| for a program-entry prev and 1 for a jump prev. *)
Definition lint_control_flow (g : cfg) : list lint :=
  for_nodes g (fun _ c =>
    if is_function_entry (cn c) then
      flat_map (fun p => match getn (gnodes g) p with
                         | Some pc =>
                             if is_program_entry (cn pc) then
                               map (fun _ => lint1 LFirstInstructionIsFunction (loc_of_node (cn c))) (cfuncs c)
                             else if is_unconditional_jump (cn pc) then
                               match cfuncs c with [] => [] | _ => [lint1 LInvalidJumpToFunction (loc_of_node (cn c))] end
                             else []
                         | None => [] end) (prevs c)
    else if (negb (is_program_entry (cn c)) && match prevs c with [] => true | _ => false end)%bool
         then [lint1 LUnreachableCode (loc_of_node (cn c))] else []).

Definition is_function_entry_with_func (g : cfg) (i : nat) (c : cnode) : option func :=
  match filter_map (fun fid => match nth_opt (gfuncs g) fid with
                               | Some f => if Nat.eqb (fentry f) i then Some f else None
                               | None => None end) (cfuncs c) with
  | f :: _ => Some f
  | [] => None
  end.

Definition lint_garbage_input (g : cfg) : list lint :=
  for_nodes g (fun i c =>
    if is_program_entry (cn c) then
      usage_lints LInvalidUseBeforeAssignment g i (rs_elems (rs_diff (lin c) program_args_set))
    else match is_function_entry_with_func g i c with
         | Some f =>
             usage_lints LInvalidUseBeforeAssignment g i
                         (rs_elems (rs_diff (rs_diff (lin c) (fn_arguments g f)) callee_saved_set))
         | None => []
         end).

(* StackCheckPass: stops at the first unknown / invalid stack pointer *)
Fixpoint stack_loop (nodes : list cnode) : list lint :=
  match nodes with
  | [] => []
  | c :: rest =>
      match rm_get 2 (rout c) with
      | None => [lint1 LUnknownStack (loc_of_node (cn c))]
      | Some (AOrig r off) =>
          if negb (N.eqb r 2) then [lint1 LInvalidStackPointer (loc_of_node (cn c))]
          else if Z.ltb 0 off then [lint1 LInvalidStackPosition (loc_of_node (cn c))]
          else
            (match uses_memory_location (cn c) with
             | Some (r2, off2) =>
                 (* saturating_add: the sign of the exact sum *)
                 if (N.eqb r2 2 && Z.leb 0 (off2 + off))%bool then [lint1 LInvalidStackOffsetUsage (loc_of_node (cn c))] else []
             | None => []
             end) ++ stack_loop rest
      | Some _ => [lint1 LInvalidStackPointer (loc_of_node (cn c))]
      end
  end.
Definition lint_stack (g : cfg) : list lint := stack_loop (gnodes g).

(* CalleeSavedRegisterCheck: once per function, in program order (fix "check callee-saved registers once
   per function"; before, once per entry of the label->function map, in hash order) *)
Definition lint_callee_saved (g : cfg) : list lint :=
  flat_map (fun f =>
        match getn (gnodes g) (fexit f) with
        | Some e =>
            flat_map (fun r => if is_original_value (rin e) r then []
                               else map (lint1 LOverwriteCalleeSavedRegister) (error_ranges_for_first_store (gnodes g) (fexit f) r))
                     (rs_elems callee_saved_set)
        | None => []
        end) (gfuncs g).

Definition lint_callee_saved_garbage_read (g : cfg) : list lint :=
  for_nodes g (fun _ c =>
    flat_map (fun rd => if (rs_mem (wv rd) saved_set
                            && match uses_memory_location (cn c) with None => true | Some _ => false end
                            && is_original_value (rin c) (wv rd))%bool
                        then [lint1 LInvalidUseBeforeAssignment (loc_of_tok (wt rd))] else [])
             (reads_from (cn c))).

Definition holds_original (r : reg) (v : aval) : bool :=
  match v with AOrig r2 off => (N.eqb r2 r && Z.eqb off 0)%bool | _ => false end.
Definition lint_lost_callee_saved (g : cfg) : list lint :=
  for_nodes g (fun _ c =>
    match writes_to (cn c) with
    | Some r =>
        if (rs_mem (wv r) saved_set && negb (match cfuncs c with [] => true | _ => false end)
            && opt_aval_eqb (rm_get (wv r) (rin c)) (Some (AOrig (wv r) 0)))%bool then
          if (existsb (fun kv => holds_original (wv r) (snd kv)) (mout c)
              || existsb (fun kv => holds_original (wv r) (snd kv)) (rout c))%bool then []
          else [lint1 LLostRegisterValue (loc_of_tok (wt r))]
        else []
    | None => []
    end).

(* OverlappingFunctionCheck: located on one of the entry's labels (`labels.first()` of a hash
   set): every label is admissible *)
Definition lint_overlapping (g : cfg) : list lint :=
  for_nodes g (fun i c =>
    if (Nat.ltb 1 (length (cfuncs c)) && match is_function_entry_with_func g i c with Some _ => true | None => false end)%bool
    then match clabels c with
         | [] => []
         | ls => [mklint LNodeInManyFunctions (map (fun l => loc_of_tok (wt l)) ls) false]
         end
    else []).

(* Manager::run_diagnostics, in its order *)
Definition run_diagnostics (g : cfg) : list lint :=
  lint_save_to_zero g ++ lint_dead_value g ++ lint_instruction_in_text g ++ lint_ecall g ++ lint_control_flow g
  ++ lint_garbage_input g ++ lint_stack g ++ lint_callee_saved g ++ lint_callee_saved_garbage_read g
  ++ lint_lost_callee_saved g ++ lint_overlapping g.

(* ---- Manager::gen_full_cfg --------------------------------------------------------------- *)
Inductive stage_res (A : Type) := SOk (a : A) | SErr (e : cfgerr).
Arguments SOk {A}. Arguments SErr {A}.

Definition lift_sum {A} (x : cfgerr + A) : res (stage_res A) :=
  match x with inl e => Ok (SErr e) | inr a => Ok (SOk a) end.

(* `picks`: the exit the traversal of each function met first, in function order (oracle) *)
Definition gen_full_cfg (picks : list nat) (ns : list pnode) : res (stage_res cfg) :=
  match cfg_new ns None with
  | inl e => Ok (SErr e)
  | inr g0 =>
      match directions g0 with
      | inl e => Ok (SErr e)
      | inr g1 =>
          do g2 <- avail_pass g1;
          let handlers := interrupt_handler_names g2 in
          match cfg_new ns (Some handlers) with
          | inl e => Ok (SErr e)
          | inr h0 =>
              match directions h0 with
              | inl e => Ok (SErr e)
              | inr h1 =>
                  let h2 := dead_code h1 in
                  do h3 <- avail_pass h2;
                  let h4 := ecall_terminate h3 in
                  match function_markup picks h4 with
                  | inl e => Ok (SErr e)
                  | inr h5 =>
                      do h6 <- avail_pass h5;
                      let h7 := ecall_terminate h6 in
                      do h8 <- liveness_pass h7;
                      Ok (SOk h8)
                  end
              end
          end
      end
  end.

(* ---- diagnostic items (S12) -------------------------------------------------------------- *)
Inductive dkind :=
| DLint (c : lintcode)
| DParse (e : parse_error)
| DCfg (e : cfgerr).

Record ditem := mkd { dk : dkind; dlocs : list loc; dopt : bool }.

Definition parse_error_loc (e : parse_error) : loc :=
  match e with
  | PEExpected _ t | PEUnsupported t | PEUnexpectedToken t | PEUnexpectedError t | PEUnknownDirective t
  | PECyclicDependency t | PEInvalidString t _ _ => loc_of_tok t
  | PEFileNotFound p | PEIOError p => loc_of_tok (wt p)
  end.

Fixpoint str_ltb (a b : str) : bool :=
  match a, b with
  | [], [] => false
  | [], _ :: _ => true
  | _ :: _, [] => false
  | x :: a', y :: b' => (N.ltb x y || (N.eqb x y && str_ltb a' b'))%bool
  end.
Fixpoint min_name (l : list (wth str)) (best : wth str) : wth str :=
  match l with [] => best | x :: l' => min_name l' (if str_ltb (wv x) (wv best) then x else best) end.

Definition cfg_error_loc (e : cfgerr) : loc :=
  match e with
  | CLabelsNotDefined (x :: l) => loc_of_tok (wt (min_name l x))
  | CLabelsNotDefined [] => mkloc range0 None
  | CDuplicateLabel l | CLabelWithoutInstruction l => loc_of_tok (wt l)
  | CFunctionWithoutReturn n _ => loc_of_node n
  | CUnexpectedError => mkloc range0 None
  end.

(* RVParser::run / the CLI: parse errors first, then either the lints or the one CFG error *)
Definition run_items (picks : list nat) (nodes : list pnode) (errs : list parse_error) : res (list ditem) :=
  let pitems := map (fun e => mkd (DParse e) [parse_error_loc e] false) errs in
  do r <- gen_full_cfg picks nodes;
  match r with
  | SOk g => Ok (pitems ++ map (fun l => mkd (DLint (lcode l)) (lcands l) (lopt l)) (run_diagnostics g))
  | SErr e => Ok (pitems ++ [mkd (DCfg e) [cfg_error_loc e] false])
  end.

(* the same pipeline stopped after a given stage (for stage-wise correspondence):
   0 new1, 1 dir1, 2 avail0, 3 new, 4 dir, 5 dead, 6 avail1, 7 term1, 8 markup, 9 avail2, 10 term2, 11 live *)
Definition gen_cfg_upto (stage : N) (picks : list nat) (ns : list pnode) : res (stage_res cfg) :=
  match cfg_new ns None with
  | inl e => Ok (SErr e)
  | inr g0 =>
      if N.eqb stage 0 then Ok (SOk g0) else
      match directions g0 with
      | inl e => Ok (SErr e)
      | inr g1 =>
          if N.eqb stage 1 then Ok (SOk g1) else
          do g2 <- avail_pass g1;
          if N.eqb stage 2 then Ok (SOk g2) else
          match cfg_new ns (Some (interrupt_handler_names g2)) with
          | inl e => Ok (SErr e)
          | inr h0 =>
              if N.eqb stage 3 then Ok (SOk h0) else
              match directions h0 with
              | inl e => Ok (SErr e)
              | inr h1 =>
                  if N.eqb stage 4 then Ok (SOk h1) else
                  let h2 := dead_code h1 in
                  if N.eqb stage 5 then Ok (SOk h2) else
                  do h3 <- avail_pass h2;
                  if N.eqb stage 6 then Ok (SOk h3) else
                  let h4 := ecall_terminate h3 in
                  if N.eqb stage 7 then Ok (SOk h4) else
                  match function_markup picks h4 with
                  | inl e => Ok (SErr e)
                  | inr h5 =>
                      if N.eqb stage 8 then Ok (SOk h5) else
                      do h6 <- avail_pass h5;
                      if N.eqb stage 9 then Ok (SOk h6) else
                      let h7 := ecall_terminate h6 in
                      if N.eqb stage 10 then Ok (SOk h7) else
                      do h8 <- liveness_pass h7;
                      Ok (SOk h8)
                  end
              end
          end
      end
  end.

(* ---- titles (Display of ParseError / CfgError; token_type.rs Display) -------------------- *)
Definition ttype_display (t : ttype) : str :=
  match t with
  | TLabel s => «"LABEL("» ++ s ++ «")"»
  | TSymbol s => «"SYMBOL("» ++ s ++ «")"»
  | TDirective s => «"DIRECTIVE("» ++ s ++ «")"»
  | TString s => «"STRING("» ++ s ++ «")"»
  | TChar c => «"CHAR("» ++ [c] ++ «")"»
  | TComment s => «"COMMENT"» ++ s
  | TNewline => «"NEWLINE"»
  | TLParen => «"LPAREN"»
  | TRParen => «"RPAREN"»
  end.
Definition expected_display (e : expected) : str :=
  match e with
  | XRegister => «"REGISTER"» | XImm => «"IMMEDIATE"» | XLabel => «"LABEL"» | XLParen => «"LPAREN"»
  | XRParen => «"RPAREN"» | XCsrImm => «"CSR-IMMEDIATE"» | XInst => «"INSTRUCTION"» | XString => «"STRING"»
  end.
Fixpoint join (sep : str) (l : list str) : str :=
  match l with [] => [] | [x] => x | x :: l' => x ++ sep ++ join sep l' end.
Definition parse_error_title (e : parse_error) : str :=
  match e with
  | PEExpected ex found =>
      «"Expected "» ++ join «" or "» (map expected_display ex) ++ «", found "» ++ ttype_display (tt found)
  | PEUnsupported _ => «"Unsupported operation"»
  | PEUnexpectedToken _ => «"Unexpected token"»
  | PEUnexpectedError _ => «"Unexpected error"»
  | PEUnknownDirective _ => «"Unknown directive"»
  | PECyclicDependency _ => «"Cyclic dependency"»
  | PEFileNotFound f => «"File not found: "» ++ wv f
  | PEIOError f => «"IO Error: "» ++ wv f ++ «" (injected)"»
  | PEInvalidString _ _ _ => «"Invalid string"»
  end.
(* insertion sort of names (as_str_list sorts the labels) *)
Fixpoint insert_name (x : str) (l : list str) : list str :=
  match l with [] => [x] | y :: l' => if str_ltb y x then y :: insert_name x l' else x :: l end.
Definition sort_names (l : list str) : list str := fold_left (fun acc x => insert_name x acc) l [].
Definition cfg_error_title (e : cfgerr) : str :=
  match e with
  | CLabelsNotDefined ls => «"Labels not defined: "» ++ join «", "» (sort_names (map wv ls))
  | CDuplicateLabel l => «"Duplicate label: "» ++ wv l
  | CLabelWithoutInstruction l => «"No instruction after label: "» ++ wv l
  | CFunctionWithoutReturn _ ls => «"Function never returns: "» ++ join «", "» (sort_names (map wv ls))
  | CUnexpectedError => «"Unexpected error"»
  end.
