
(** val fst : ('a1 * 'a2) -> 'a1 **)

let fst = function
| (x, _) -> x

(** val snd : ('a1 * 'a2) -> 'a2 **)

let snd = function
| (_, y) -> y

(** val app : 'a1 list -> 'a1 list -> 'a1 list **)

let rec app l m =
  match l with
  | [] -> m
  | a :: l1 -> a :: (app l1 m)

type comparison =
| Eq
| Lt
| Gt

(** val compOpp : comparison -> comparison **)

let compOpp = function
| Eq -> Eq
| Lt -> Gt
| Gt -> Lt

(** val rev : 'a1 list -> 'a1 list **)

let rec rev = function
| [] -> []
| x :: l' -> app (rev l') (x :: [])

(** val map : ('a1 -> 'a2) -> 'a1 list -> 'a2 list **)

let rec map f = function
| [] -> []
| a :: t -> (f a) :: (map f t)

type positive =
| XI of positive
| XO of positive
| XH

type n =
| N0
| Npos of positive

type z =
| Z0
| Zpos of positive
| Zneg of positive

module Pos =
 struct
  type mask =
  | IsNul
  | IsPos of positive
  | IsNeg
 end

module Coq_Pos =
 struct
  (** val succ : positive -> positive **)

  let rec succ = function
  | XI p -> XO (succ p)
  | XO p -> XI p
  | XH -> XO XH

  (** val add : positive -> positive -> positive **)

  let rec add x y =
    match x with
    | XI p ->
      (match y with
       | XI q -> XO (add_carry p q)
       | XO q -> XI (add p q)
       | XH -> XO (succ p))
    | XO p ->
      (match y with
       | XI q -> XI (add p q)
       | XO q -> XO (add p q)
       | XH -> XI p)
    | XH -> (match y with
             | XI q -> XO (succ q)
             | XO q -> XI q
             | XH -> XO XH)

  (** val add_carry : positive -> positive -> positive **)

  and add_carry x y =
    match x with
    | XI p ->
      (match y with
       | XI q -> XI (add_carry p q)
       | XO q -> XO (add_carry p q)
       | XH -> XI (succ p))
    | XO p ->
      (match y with
       | XI q -> XO (add_carry p q)
       | XO q -> XI (add p q)
       | XH -> XO (succ p))
    | XH ->
      (match y with
       | XI q -> XI (succ q)
       | XO q -> XO (succ q)
       | XH -> XI XH)

  (** val pred_double : positive -> positive **)

  let rec pred_double = function
  | XI p -> XI (XO p)
  | XO p -> XI (pred_double p)
  | XH -> XH

  (** val pred_N : positive -> n **)

  let pred_N = function
  | XI p -> Npos (XO p)
  | XO p -> Npos (pred_double p)
  | XH -> N0

  type mask = Pos.mask =
  | IsNul
  | IsPos of positive
  | IsNeg

  (** val succ_double_mask : mask -> mask **)

  let succ_double_mask = function
  | IsNul -> IsPos XH
  | IsPos p -> IsPos (XI p)
  | IsNeg -> IsNeg

  (** val double_mask : mask -> mask **)

  let double_mask = function
  | IsPos p -> IsPos (XO p)
  | x0 -> x0

  (** val double_pred_mask : positive -> mask **)

  let double_pred_mask = function
  | XI p -> IsPos (XO (XO p))
  | XO p -> IsPos (XO (pred_double p))
  | XH -> IsNul

  (** val sub_mask : positive -> positive -> mask **)

  let rec sub_mask x y =
    match x with
    | XI p ->
      (match y with
       | XI q -> double_mask (sub_mask p q)
       | XO q -> succ_double_mask (sub_mask p q)
       | XH -> IsPos (XO p))
    | XO p ->
      (match y with
       | XI q -> succ_double_mask (sub_mask_carry p q)
       | XO q -> double_mask (sub_mask p q)
       | XH -> IsPos (pred_double p))
    | XH -> (match y with
             | XH -> IsNul
             | _ -> IsNeg)

  (** val sub_mask_carry : positive -> positive -> mask **)

  and sub_mask_carry x y =
    match x with
    | XI p ->
      (match y with
       | XI q -> succ_double_mask (sub_mask_carry p q)
       | XO q -> double_mask (sub_mask p q)
       | XH -> IsPos (pred_double p))
    | XO p ->
      (match y with
       | XI q -> double_mask (sub_mask_carry p q)
       | XO q -> succ_double_mask (sub_mask_carry p q)
       | XH -> double_pred_mask p)
    | XH -> IsNeg

  (** val mul : positive -> positive -> positive **)

  let rec mul x y =
    match x with
    | XI p -> add y (XO (mul p y))
    | XO p -> XO (mul p y)
    | XH -> y

  (** val iter : ('a1 -> 'a1) -> 'a1 -> positive -> 'a1 **)

  let rec iter f x = function
  | XI n' -> f (iter f (iter f x n') n')
  | XO n' -> iter f (iter f x n') n'
  | XH -> f x

  (** val div2 : positive -> positive **)

  let div2 = function
  | XI p0 -> p0
  | XO p0 -> p0
  | XH -> XH

  (** val div2_up : positive -> positive **)

  let div2_up = function
  | XI p0 -> succ p0
  | XO p0 -> p0
  | XH -> XH

  (** val compare_cont : comparison -> positive -> positive -> comparison **)

  let rec compare_cont r x y =
    match x with
    | XI p ->
      (match y with
       | XI q -> compare_cont r p q
       | XO q -> compare_cont Gt p q
       | XH -> Gt)
    | XO p ->
      (match y with
       | XI q -> compare_cont Lt p q
       | XO q -> compare_cont r p q
       | XH -> Gt)
    | XH -> (match y with
             | XH -> r
             | _ -> Lt)

  (** val compare : positive -> positive -> comparison **)

  let compare =
    compare_cont Eq

  (** val eqb : positive -> positive -> bool **)

  let rec eqb p q =
    match p with
    | XI p0 -> (match q with
                | XI q0 -> eqb p0 q0
                | _ -> false)
    | XO p0 -> (match q with
                | XO q0 -> eqb p0 q0
                | _ -> false)
    | XH -> (match q with
             | XH -> true
             | _ -> false)

  (** val coq_Nsucc_double : n -> n **)

  let coq_Nsucc_double = function
  | N0 -> Npos XH
  | Npos p -> Npos (XI p)

  (** val coq_Ndouble : n -> n **)

  let coq_Ndouble = function
  | N0 -> N0
  | Npos p -> Npos (XO p)

  (** val coq_lor : positive -> positive -> positive **)

  let rec coq_lor p q =
    match p with
    | XI p0 ->
      (match q with
       | XI q0 -> XI (coq_lor p0 q0)
       | XO q0 -> XI (coq_lor p0 q0)
       | XH -> p)
    | XO p0 ->
      (match q with
       | XI q0 -> XI (coq_lor p0 q0)
       | XO q0 -> XO (coq_lor p0 q0)
       | XH -> XI p0)
    | XH -> (match q with
             | XO q0 -> XI q0
             | _ -> q)

  (** val coq_land : positive -> positive -> n **)

  let rec coq_land p q =
    match p with
    | XI p0 ->
      (match q with
       | XI q0 -> coq_Nsucc_double (coq_land p0 q0)
       | XO q0 -> coq_Ndouble (coq_land p0 q0)
       | XH -> Npos XH)
    | XO p0 ->
      (match q with
       | XI q0 -> coq_Ndouble (coq_land p0 q0)
       | XO q0 -> coq_Ndouble (coq_land p0 q0)
       | XH -> N0)
    | XH -> (match q with
             | XO _ -> N0
             | _ -> Npos XH)

  (** val ldiff : positive -> positive -> n **)

  let rec ldiff p q =
    match p with
    | XI p0 ->
      (match q with
       | XI q0 -> coq_Ndouble (ldiff p0 q0)
       | XO q0 -> coq_Nsucc_double (ldiff p0 q0)
       | XH -> Npos (XO p0))
    | XO p0 ->
      (match q with
       | XI q0 -> coq_Ndouble (ldiff p0 q0)
       | XO q0 -> coq_Ndouble (ldiff p0 q0)
       | XH -> Npos p)
    | XH -> (match q with
             | XO _ -> Npos XH
             | _ -> N0)

  (** val coq_lxor : positive -> positive -> n **)

  let rec coq_lxor p q =
    match p with
    | XI p0 ->
      (match q with
       | XI q0 -> coq_Ndouble (coq_lxor p0 q0)
       | XO q0 -> coq_Nsucc_double (coq_lxor p0 q0)
       | XH -> Npos (XO p0))
    | XO p0 ->
      (match q with
       | XI q0 -> coq_Nsucc_double (coq_lxor p0 q0)
       | XO q0 -> coq_Ndouble (coq_lxor p0 q0)
       | XH -> Npos (XI p0))
    | XH ->
      (match q with
       | XI q0 -> Npos (XO q0)
       | XO q0 -> Npos (XI q0)
       | XH -> N0)
 end

module N =
 struct
  (** val succ_double : n -> n **)

  let succ_double = function
  | N0 -> Npos XH
  | Npos p -> Npos (XI p)

  (** val double : n -> n **)

  let double = function
  | N0 -> N0
  | Npos p -> Npos (XO p)

  (** val succ_pos : n -> positive **)

  let succ_pos = function
  | N0 -> XH
  | Npos p -> Coq_Pos.succ p

  (** val add : n -> n -> n **)

  let add n0 m =
    match n0 with
    | N0 -> m
    | Npos p -> (match m with
                 | N0 -> n0
                 | Npos q -> Npos (Coq_Pos.add p q))

  (** val sub : n -> n -> n **)

  let sub n0 m =
    match n0 with
    | N0 -> N0
    | Npos n' ->
      (match m with
       | N0 -> n0
       | Npos m' ->
         (match Coq_Pos.sub_mask n' m' with
          | Coq_Pos.IsPos p -> Npos p
          | _ -> N0))

  (** val mul : n -> n -> n **)

  let mul n0 m =
    match n0 with
    | N0 -> N0
    | Npos p -> (match m with
                 | N0 -> N0
                 | Npos q -> Npos (Coq_Pos.mul p q))

  (** val compare : n -> n -> comparison **)

  let compare n0 m =
    match n0 with
    | N0 -> (match m with
             | N0 -> Eq
             | Npos _ -> Lt)
    | Npos n' -> (match m with
                  | N0 -> Gt
                  | Npos m' -> Coq_Pos.compare n' m')

  (** val eqb : n -> n -> bool **)

  let eqb n0 m =
    match n0 with
    | N0 -> (match m with
             | N0 -> true
             | Npos _ -> false)
    | Npos p -> (match m with
                 | N0 -> false
                 | Npos q -> Coq_Pos.eqb p q)

  (** val leb : n -> n -> bool **)

  let leb x y =
    match compare x y with
    | Gt -> false
    | _ -> true

  (** val pos_div_eucl : positive -> n -> n * n **)

  let rec pos_div_eucl a b =
    match a with
    | XI a' ->
      let (q, r) = pos_div_eucl a' b in
      let r' = succ_double r in
      if leb b r' then ((succ_double q), (sub r' b)) else ((double q), r')
    | XO a' ->
      let (q, r) = pos_div_eucl a' b in
      let r' = double r in
      if leb b r' then ((succ_double q), (sub r' b)) else ((double q), r')
    | XH ->
      (match b with
       | N0 -> (N0, (Npos XH))
       | Npos p -> (match p with
                    | XH -> ((Npos XH), N0)
                    | _ -> (N0, (Npos XH))))

  (** val coq_lor : n -> n -> n **)

  let coq_lor n0 m =
    match n0 with
    | N0 -> m
    | Npos p -> (match m with
                 | N0 -> n0
                 | Npos q -> Npos (Coq_Pos.coq_lor p q))

  (** val coq_land : n -> n -> n **)

  let coq_land n0 m =
    match n0 with
    | N0 -> N0
    | Npos p -> (match m with
                 | N0 -> N0
                 | Npos q -> Coq_Pos.coq_land p q)

  (** val ldiff : n -> n -> n **)

  let ldiff n0 m =
    match n0 with
    | N0 -> N0
    | Npos p -> (match m with
                 | N0 -> n0
                 | Npos q -> Coq_Pos.ldiff p q)

  (** val coq_lxor : n -> n -> n **)

  let coq_lxor n0 m =
    match n0 with
    | N0 -> m
    | Npos p -> (match m with
                 | N0 -> n0
                 | Npos q -> Coq_Pos.coq_lxor p q)
 end

module Z =
 struct
  (** val double : z -> z **)

  let double = function
  | Z0 -> Z0
  | Zpos p -> Zpos (XO p)
  | Zneg p -> Zneg (XO p)

  (** val succ_double : z -> z **)

  let succ_double = function
  | Z0 -> Zpos XH
  | Zpos p -> Zpos (XI p)
  | Zneg p -> Zneg (Coq_Pos.pred_double p)

  (** val pred_double : z -> z **)

  let pred_double = function
  | Z0 -> Zneg XH
  | Zpos p -> Zpos (Coq_Pos.pred_double p)
  | Zneg p -> Zneg (XI p)

  (** val pos_sub : positive -> positive -> z **)

  let rec pos_sub x y =
    match x with
    | XI p ->
      (match y with
       | XI q -> double (pos_sub p q)
       | XO q -> succ_double (pos_sub p q)
       | XH -> Zpos (XO p))
    | XO p ->
      (match y with
       | XI q -> pred_double (pos_sub p q)
       | XO q -> double (pos_sub p q)
       | XH -> Zpos (Coq_Pos.pred_double p))
    | XH ->
      (match y with
       | XI q -> Zneg (XO q)
       | XO q -> Zneg (Coq_Pos.pred_double q)
       | XH -> Z0)

  (** val add : z -> z -> z **)

  let add x y =
    match x with
    | Z0 -> y
    | Zpos x' ->
      (match y with
       | Z0 -> x
       | Zpos y' -> Zpos (Coq_Pos.add x' y')
       | Zneg y' -> pos_sub x' y')
    | Zneg x' ->
      (match y with
       | Z0 -> x
       | Zpos y' -> pos_sub y' x'
       | Zneg y' -> Zneg (Coq_Pos.add x' y'))

  (** val opp : z -> z **)

  let opp = function
  | Z0 -> Z0
  | Zpos x0 -> Zneg x0
  | Zneg x0 -> Zpos x0

  (** val sub : z -> z -> z **)

  let sub m n0 =
    add m (opp n0)

  (** val mul : z -> z -> z **)

  let mul x y =
    match x with
    | Z0 -> Z0
    | Zpos x' ->
      (match y with
       | Z0 -> Z0
       | Zpos y' -> Zpos (Coq_Pos.mul x' y')
       | Zneg y' -> Zneg (Coq_Pos.mul x' y'))
    | Zneg x' ->
      (match y with
       | Z0 -> Z0
       | Zpos y' -> Zneg (Coq_Pos.mul x' y')
       | Zneg y' -> Zpos (Coq_Pos.mul x' y'))

  (** val compare : z -> z -> comparison **)

  let compare x y =
    match x with
    | Z0 -> (match y with
             | Z0 -> Eq
             | Zpos _ -> Lt
             | Zneg _ -> Gt)
    | Zpos x' -> (match y with
                  | Zpos y' -> Coq_Pos.compare x' y'
                  | _ -> Gt)
    | Zneg x' ->
      (match y with
       | Zneg y' -> compOpp (Coq_Pos.compare x' y')
       | _ -> Lt)

  (** val leb : z -> z -> bool **)

  let leb x y =
    match compare x y with
    | Gt -> false
    | _ -> true

  (** val ltb : z -> z -> bool **)

  let ltb x y =
    match compare x y with
    | Lt -> true
    | _ -> false

  (** val eqb : z -> z -> bool **)

  let eqb x y =
    match x with
    | Z0 -> (match y with
             | Z0 -> true
             | _ -> false)
    | Zpos p -> (match y with
                 | Zpos q -> Coq_Pos.eqb p q
                 | _ -> false)
    | Zneg p -> (match y with
                 | Zneg q -> Coq_Pos.eqb p q
                 | _ -> false)

  (** val of_N : n -> z **)

  let of_N = function
  | N0 -> Z0
  | Npos p -> Zpos p

  (** val pos_div_eucl : positive -> z -> z * z **)

  let rec pos_div_eucl a b =
    match a with
    | XI a' ->
      let (q, r) = pos_div_eucl a' b in
      let r' = add (mul (Zpos (XO XH)) r) (Zpos XH) in
      if ltb r' b
      then ((mul (Zpos (XO XH)) q), r')
      else ((add (mul (Zpos (XO XH)) q) (Zpos XH)), (sub r' b))
    | XO a' ->
      let (q, r) = pos_div_eucl a' b in
      let r' = mul (Zpos (XO XH)) r in
      if ltb r' b
      then ((mul (Zpos (XO XH)) q), r')
      else ((add (mul (Zpos (XO XH)) q) (Zpos XH)), (sub r' b))
    | XH -> if leb (Zpos (XO XH)) b then (Z0, (Zpos XH)) else ((Zpos XH), Z0)

  (** val div_eucl : z -> z -> z * z **)

  let div_eucl a b =
    match a with
    | Z0 -> (Z0, Z0)
    | Zpos a' ->
      (match b with
       | Z0 -> (Z0, a)
       | Zpos _ -> pos_div_eucl a' b
       | Zneg b' ->
         let (q, r) = pos_div_eucl a' (Zpos b') in
         (match r with
          | Z0 -> ((opp q), Z0)
          | _ -> ((opp (add q (Zpos XH))), (add b r))))
    | Zneg a' ->
      (match b with
       | Z0 -> (Z0, a)
       | Zpos _ ->
         let (q, r) = pos_div_eucl a' b in
         (match r with
          | Z0 -> ((opp q), Z0)
          | _ -> ((opp (add q (Zpos XH))), (sub b r)))
       | Zneg b' -> let (q, r) = pos_div_eucl a' (Zpos b') in (q, (opp r)))

  (** val div : z -> z -> z **)

  let div a b =
    let (q, _) = div_eucl a b in q

  (** val modulo : z -> z -> z **)

  let modulo a b =
    let (_, r) = div_eucl a b in r

  (** val quotrem : z -> z -> z * z **)

  let quotrem a b =
    match a with
    | Z0 -> (Z0, Z0)
    | Zpos a0 ->
      (match b with
       | Z0 -> (Z0, a)
       | Zpos b0 ->
         let (q, r) = N.pos_div_eucl a0 (Npos b0) in ((of_N q), (of_N r))
       | Zneg b0 ->
         let (q, r) = N.pos_div_eucl a0 (Npos b0) in
         ((opp (of_N q)), (of_N r)))
    | Zneg a0 ->
      (match b with
       | Z0 -> (Z0, a)
       | Zpos b0 ->
         let (q, r) = N.pos_div_eucl a0 (Npos b0) in
         ((opp (of_N q)), (opp (of_N r)))
       | Zneg b0 ->
         let (q, r) = N.pos_div_eucl a0 (Npos b0) in
         ((of_N q), (opp (of_N r))))

  (** val quot : z -> z -> z **)

  let quot a b =
    fst (quotrem a b)

  (** val rem : z -> z -> z **)

  let rem a b =
    snd (quotrem a b)

  (** val div2 : z -> z **)

  let div2 = function
  | Z0 -> Z0
  | Zpos p -> (match p with
               | XH -> Z0
               | _ -> Zpos (Coq_Pos.div2 p))
  | Zneg p -> Zneg (Coq_Pos.div2_up p)

  (** val shiftl : z -> z -> z **)

  let shiftl a = function
  | Z0 -> a
  | Zpos p -> Coq_Pos.iter (mul (Zpos (XO XH))) a p
  | Zneg p -> Coq_Pos.iter div2 a p

  (** val shiftr : z -> z -> z **)

  let shiftr a n0 =
    shiftl a (opp n0)

  (** val coq_lor : z -> z -> z **)

  let coq_lor a b =
    match a with
    | Z0 -> b
    | Zpos a0 ->
      (match b with
       | Z0 -> a
       | Zpos b0 -> Zpos (Coq_Pos.coq_lor a0 b0)
       | Zneg b0 -> Zneg (N.succ_pos (N.ldiff (Coq_Pos.pred_N b0) (Npos a0))))
    | Zneg a0 ->
      (match b with
       | Z0 -> a
       | Zpos b0 -> Zneg (N.succ_pos (N.ldiff (Coq_Pos.pred_N a0) (Npos b0)))
       | Zneg b0 ->
         Zneg
           (N.succ_pos (N.coq_land (Coq_Pos.pred_N a0) (Coq_Pos.pred_N b0))))

  (** val coq_land : z -> z -> z **)

  let coq_land a b =
    match a with
    | Z0 -> Z0
    | Zpos a0 ->
      (match b with
       | Z0 -> Z0
       | Zpos b0 -> of_N (Coq_Pos.coq_land a0 b0)
       | Zneg b0 -> of_N (N.ldiff (Npos a0) (Coq_Pos.pred_N b0)))
    | Zneg a0 ->
      (match b with
       | Z0 -> Z0
       | Zpos b0 -> of_N (N.ldiff (Npos b0) (Coq_Pos.pred_N a0))
       | Zneg b0 ->
         Zneg (N.succ_pos (N.coq_lor (Coq_Pos.pred_N a0) (Coq_Pos.pred_N b0))))

  (** val coq_lxor : z -> z -> z **)

  let coq_lxor a b =
    match a with
    | Z0 -> b
    | Zpos a0 ->
      (match b with
       | Z0 -> a
       | Zpos b0 -> of_N (Coq_Pos.coq_lxor a0 b0)
       | Zneg b0 ->
         Zneg (N.succ_pos (N.coq_lxor (Npos a0) (Coq_Pos.pred_N b0))))
    | Zneg a0 ->
      (match b with
       | Z0 -> a
       | Zpos b0 ->
         Zneg (N.succ_pos (N.coq_lxor (Coq_Pos.pred_N a0) (Npos b0)))
       | Zneg b0 -> of_N (N.coq_lxor (Coq_Pos.pred_N a0) (Coq_Pos.pred_N b0)))
 end

type ascii =
| Ascii of bool * bool * bool * bool * bool * bool * bool * bool

(** val n_of_digits : bool list -> n **)

let rec n_of_digits = function
| [] -> N0
| b :: l' ->
  N.add (if b then Npos XH else N0) (N.mul (Npos (XO XH)) (n_of_digits l'))

(** val n_of_ascii : ascii -> n **)

let n_of_ascii = function
| Ascii (a0, a1, a2, a3, a4, a5, a6, a7) ->
  n_of_digits
    (a0 :: (a1 :: (a2 :: (a3 :: (a4 :: (a5 :: (a6 :: (a7 :: []))))))))

type string =
| EmptyString
| String of ascii * string

type char = n

type str = char list

type 'a res =
| Ok of 'a
| Panic of n
| OutOfFuel

(** val bind : 'a1 res -> ('a1 -> 'a2 res) -> 'a2 res **)

let bind r f =
  match r with
  | Ok a -> f a
  | Panic s -> Panic s
  | OutOfFuel -> OutOfFuel

(** val c_minus : char **)

let c_minus =
  Npos (XI (XO (XI (XI (XO XH)))))

(** val c_plus : char **)

let c_plus =
  Npos (XI (XI (XO (XI (XO XH)))))

(** val in_range : n -> n -> n -> bool **)

let in_range lo hi c =
  (&&) (N.leb lo c) (N.leb c hi)

(** val is_ascii_digit : char -> bool **)

let is_ascii_digit c =
  in_range (Npos (XO (XO (XO (XO (XI XH)))))) (Npos (XI (XO (XO (XI (XI
    XH)))))) c

(** val is_ascii_lower : char -> bool **)

let is_ascii_lower c =
  in_range (Npos (XI (XO (XO (XO (XO (XI XH))))))) (Npos (XO (XI (XO (XI (XI
    (XI XH))))))) c

(** val is_ascii_upper : char -> bool **)

let is_ascii_upper c =
  in_range (Npos (XI (XO (XO (XO (XO (XO XH))))))) (Npos (XO (XI (XO (XI (XI
    (XO XH))))))) c

(** val to_lower : char -> char **)

let to_lower c =
  if is_ascii_upper c then N.add c (Npos (XO (XO (XO (XO (XO XH)))))) else c

(** val lower : str -> str **)

let lower s =
  map to_lower s

(** val str_eqb : str -> str -> bool **)

let rec str_eqb a b =
  match a with
  | [] -> (match b with
           | [] -> true
           | _ :: _ -> false)
  | x :: a' ->
    (match b with
     | [] -> false
     | y :: b' -> (&&) (N.eqb x y) (str_eqb a' b'))

(** val strip_prefix : str -> str -> str option **)

let rec strip_prefix p s =
  match p with
  | [] -> Some s
  | x :: p' ->
    (match s with
     | [] -> None
     | y :: s' -> if N.eqb x y then strip_prefix p' s' else None)

(** val s2l : string -> str **)

let rec s2l = function
| EmptyString -> []
| String (a, s') -> (n_of_ascii a) :: (s2l s')

(** val two32 : z **)

let two32 =
  Zpos (XO (XO (XO (XO (XO (XO (XO (XO (XO (XO (XO (XO (XO (XO (XO (XO (XO
    (XO (XO (XO (XO (XO (XO (XO (XO (XO (XO (XO (XO (XO (XO (XO
    XH))))))))))))))))))))))))))))))))

(** val two31 : z **)

let two31 =
  Zpos (XO (XO (XO (XO (XO (XO (XO (XO (XO (XO (XO (XO (XO (XO (XO (XO (XO
    (XO (XO (XO (XO (XO (XO (XO (XO (XO (XO (XO (XO (XO (XO
    XH)))))))))))))))))))))))))))))))

(** val i32_min : z **)

let i32_min =
  Zneg (XO (XO (XO (XO (XO (XO (XO (XO (XO (XO (XO (XO (XO (XO (XO (XO (XO
    (XO (XO (XO (XO (XO (XO (XO (XO (XO (XO (XO (XO (XO (XO
    XH)))))))))))))))))))))))))))))))

(** val i32_max : z **)

let i32_max =
  Zpos (XI (XI (XI (XI (XI (XI (XI (XI (XI (XI (XI (XI (XI (XI (XI (XI (XI
    (XI (XI (XI (XI (XI (XI (XI (XI (XI (XI (XI (XI (XI
    XH))))))))))))))))))))))))))))))

(** val in32b : z -> bool **)

let in32b x =
  (&&) (Z.leb i32_min x) (Z.leb x i32_max)

(** val to_u32 : z -> z **)

let to_u32 x =
  Z.modulo x two32

(** val wrap32 : z -> z **)

let wrap32 x =
  let u = Z.modulo x two32 in if Z.ltb u two31 then u else Z.sub u two32

type mathop =
| MAdd
| MAnd
| MOr
| MSll
| MSlt
| MSltu
| MSra
| MSrl
| MSub
| MXor
| MMul
| MMulh
| MMulhsu
| MMulhu
| MDiv
| MDivu
| MRem
| MRemu

(** val all_mathops : mathop list **)

let all_mathops =
  MAdd :: (MAnd :: (MOr :: (MSll :: (MSlt :: (MSltu :: (MSra :: (MSrl :: (MSub :: (MXor :: (MMul :: (MMulh :: (MMulhsu :: (MMulhu :: (MDiv :: (MDivu :: (MRem :: (MRemu :: [])))))))))))))))))

(** val b2z : bool -> z **)

let b2z = function
| true -> Zpos XH
| false -> Z0

(** val shamt : z -> z **)

let shamt y =
  Z.modulo (to_u32 y) (Zpos (XO (XO (XO (XO (XO XH))))))

(** val operate : mathop -> z -> z -> z **)

let operate op x y =
  match op with
  | MAdd -> wrap32 (Z.add x y)
  | MAnd -> Z.coq_land x y
  | MOr -> Z.coq_lor x y
  | MSll -> wrap32 (Z.shiftl x (shamt y))
  | MSlt -> b2z (Z.ltb x y)
  | MSltu -> b2z (Z.ltb (to_u32 x) (to_u32 y))
  | MSra -> Z.shiftr x (shamt y)
  | MSrl -> wrap32 (Z.shiftr (to_u32 x) (shamt y))
  | MSub -> wrap32 (Z.sub x y)
  | MXor -> Z.coq_lxor x y
  | MMul -> wrap32 (Z.mul x y)
  | MMulh -> wrap32 (Z.shiftr (Z.mul x y) (Zpos (XO (XO (XO (XO (XO XH)))))))
  | MMulhsu ->
    wrap32 (Z.shiftr (Z.mul x (to_u32 y)) (Zpos (XO (XO (XO (XO (XO XH)))))))
  | MMulhu ->
    wrap32
      (Z.shiftr (Z.mul (to_u32 x) (to_u32 y)) (Zpos (XO (XO (XO (XO (XO
        XH)))))))
  | MDiv -> if Z.eqb y Z0 then Zneg XH else wrap32 (Z.quot x y)
  | MDivu ->
    if Z.eqb y Z0 then Zneg XH else wrap32 (Z.div (to_u32 x) (to_u32 y))
  | MRem -> if Z.eqb y Z0 then x else wrap32 (Z.rem x y)
  | MRemu -> if Z.eqb y Z0 then x else wrap32 (Z.modulo (to_u32 x) (to_u32 y))

(** val is_whitespace : char -> bool **)

let is_whitespace c =
  (||)
    ((||)
      ((||)
        ((||)
          ((||)
            ((||)
              ((||)
                ((||)
                  ((||)
                    ((||)
                      (in_range (Npos (XI (XO (XO XH)))) (Npos (XI (XO (XI
                        XH)))) c)
                      (N.eqb c (Npos (XO (XO (XO (XO (XO XH))))))))
                    (N.eqb c (Npos (XI (XO (XI (XO (XO (XO (XO XH))))))))))
                  (N.eqb c (Npos (XO (XO (XO (XO (XO (XI (XO XH))))))))))
                (N.eqb c (Npos (XO (XO (XO (XO (XO (XO (XO (XI (XO (XI (XI
                  (XO XH)))))))))))))))
              (in_range (Npos (XO (XO (XO (XO (XO (XO (XO (XO (XO (XO (XO (XO
                (XO XH)))))))))))))) (Npos (XO (XI (XO (XI (XO (XO (XO (XO
                (XO (XO (XO (XO (XO XH)))))))))))))) c))
            (N.eqb c (Npos (XO (XO (XO (XI (XO (XI (XO (XO (XO (XO (XO (XO
              (XO XH))))))))))))))))
          (N.eqb c (Npos (XI (XO (XO (XI (XO (XI (XO (XO (XO (XO (XO (XO (XO
            XH))))))))))))))))
        (N.eqb c (Npos (XI (XI (XI (XI (XO (XI (XO (XO (XO (XO (XO (XO (XO
          XH))))))))))))))))
      (N.eqb c (Npos (XI (XI (XI (XI (XI (XO (XI (XO (XO (XO (XO (XO (XO
        XH))))))))))))))))
    (N.eqb c (Npos (XO (XO (XO (XO (XO (XO (XO (XO (XO (XO (XO (XO (XI
      XH)))))))))))))))

(** val trim_start : str -> str **)

let rec trim_start s = match s with
| [] -> []
| c :: s' -> if is_whitespace c then trim_start s' else s

(** val trim : str -> str **)

let trim s =
  rev (trim_start (rev (trim_start s)))

(** val digit_val : z -> char -> z option **)

let digit_val radix c =
  let d =
    if is_ascii_digit c
    then Some (Z.sub (Z.of_N c) (Zpos (XO (XO (XO (XO (XI XH)))))))
    else if is_ascii_lower c
         then Some
                (Z.add
                  (Z.sub (Z.of_N c) (Zpos (XI (XO (XO (XO (XO (XI XH))))))))
                  (Zpos (XO (XI (XO XH)))))
         else if is_ascii_upper c
              then Some
                     (Z.add
                       (Z.sub (Z.of_N c) (Zpos (XI (XO (XO (XO (XO (XO
                         XH)))))))) (Zpos (XO (XI (XO XH)))))
              else None
  in
  (match d with
   | Some v -> if Z.ltb v radix then Some v else None
   | None -> None)

(** val acc_digits : z -> z -> str -> z option **)

let rec acc_digits radix acc = function
| [] -> Some acc
| c :: s' ->
  (match digit_val radix c with
   | Some d -> acc_digits radix (Z.add (Z.mul acc radix) d) s'
   | None -> None)

(** val parse_unsigned : z -> z -> str -> z option **)

let parse_unsigned radix max s =
  let s0 = match s with
           | [] -> s
           | c :: s' -> if N.eqb c c_plus then s' else s
  in
  (match s0 with
   | [] -> None
   | _ :: _ ->
     (match acc_digits radix Z0 s0 with
      | Some v -> if Z.leb v max then Some v else None
      | None -> None))

(** val u32_from_str_radix : z -> str -> z option **)

let u32_from_str_radix radix s =
  parse_unsigned radix (Zpos (XI (XI (XI (XI (XI (XI (XI (XI (XI (XI (XI (XI
    (XI (XI (XI (XI (XI (XI (XI (XI (XI (XI (XI (XI (XI (XI (XI (XI (XI (XI
    (XI XH)))))))))))))))))))))))))))))))) s

(** val i64_min : z **)

let i64_min =
  Zneg (XO (XO (XO (XO (XO (XO (XO (XO (XO (XO (XO (XO (XO (XO (XO (XO (XO
    (XO (XO (XO (XO (XO (XO (XO (XO (XO (XO (XO (XO (XO (XO (XO (XO (XO (XO
    (XO (XO (XO (XO (XO (XO (XO (XO (XO (XO (XO (XO (XO (XO (XO (XO (XO (XO
    (XO (XO (XO (XO (XO (XO (XO (XO (XO (XO
    XH)))))))))))))))))))))))))))))))))))))))))))))))))))))))))))))))

(** val i64_max : z **)

let i64_max =
  Zpos (XI (XI (XI (XI (XI (XI (XI (XI (XI (XI (XI (XI (XI (XI (XI (XI (XI
    (XI (XI (XI (XI (XI (XI (XI (XI (XI (XI (XI (XI (XI (XI (XI (XI (XI (XI
    (XI (XI (XI (XI (XI (XI (XI (XI (XI (XI (XI (XI (XI (XI (XI (XI (XI (XI
    (XI (XI (XI (XI (XI (XI (XI (XI (XI
    XH))))))))))))))))))))))))))))))))))))))))))))))))))))))))))))))

(** val parse_i64 : str -> z option **)

let parse_i64 s = match s with
| [] -> None
| c :: s' ->
  if N.eqb c c_minus
  then (match s' with
        | [] -> None
        | _ :: _ ->
          (match acc_digits (Zpos (XO (XI (XO XH)))) Z0 s' with
           | Some v ->
             if Z.leb v (Zpos (XO (XO (XO (XO (XO (XO (XO (XO (XO (XO (XO (XO
                  (XO (XO (XO (XO (XO (XO (XO (XO (XO (XO (XO (XO (XO (XO (XO
                  (XO (XO (XO (XO (XO (XO (XO (XO (XO (XO (XO (XO (XO (XO (XO
                  (XO (XO (XO (XO (XO (XO (XO (XO (XO (XO (XO (XO (XO (XO (XO
                  (XO (XO (XO (XO (XO (XO
                  XH))))))))))))))))))))))))))))))))))))))))))))))))))))))))))))))))
             then Some (Z.opp v)
             else None
           | None -> None))
  else parse_unsigned (Zpos (XO (XI (XO XH)))) i64_max s

(** val starts_with : char -> str -> bool **)

let starts_with c = function
| [] -> false
| x :: _ -> N.eqb x c

(** val mul_i64 : z -> z -> z res **)

let mul_i64 a b =
  let p = Z.mul a b in
  if (&&) (Z.leb i64_min p) (Z.leb p i64_max) then Ok p else Panic (Npos XH)

(** val from_signed_magnitude : z -> z -> z option res **)

let from_signed_magnitude sign mag =
  bind (mul_i64 sign mag) (fun v ->
    if Z.ltb v i32_min then Ok None else Ok (Some (wrap32 v)))

(** val imm_from_str : str -> z option res **)

let imm_from_str s0 =
  let s = trim (lower s0) in
  (match strip_prefix (c_minus :: []) s with
   | Some s' ->
     let mul0 = Zneg XH in
     if str_eqb s'
          (s2l (String ((Ascii (false, true, false, true, true, true, true,
            false)), (String ((Ascii (true, false, true, false, false, true,
            true, false)), (String ((Ascii (false, true, false, false, true,
            true, true, false)), (String ((Ascii (true, true, true, true,
            false, true, true, false)), EmptyString)))))))))
     then Ok (Some Z0)
     else (match strip_prefix
                   (s2l (String ((Ascii (false, false, false, false, true,
                     true, false, false)), (String ((Ascii (false, false,
                     false, true, true, true, true, false)), EmptyString)))))
                   s' with
           | Some stripped ->
             if starts_with c_minus stripped
             then Ok None
             else (match u32_from_str_radix (Zpos (XO (XO (XO (XO XH)))))
                           stripped with
                   | Some i -> from_signed_magnitude mul0 i
                   | None -> Ok None)
           | None ->
             (match strip_prefix
                      (s2l (String ((Ascii (false, false, false, false, true,
                        true, false, false)), (String ((Ascii (false, true,
                        false, false, false, true, true, false)),
                        EmptyString))))) s' with
              | Some stripped ->
                if starts_with c_minus stripped
                then Ok None
                else (match u32_from_str_radix (Zpos (XO XH)) stripped with
                      | Some i -> from_signed_magnitude mul0 i
                      | None -> Ok None)
              | None ->
                if starts_with c_minus s'
                then Ok None
                else (match parse_i64 s' with
                      | Some i ->
                        bind (mul_i64 mul0 i) (fun v ->
                          if in32b v then Ok (Some v) else Ok None)
                      | None -> Ok None)))
   | None ->
     let mul0 = Zpos XH in
     if str_eqb s
          (s2l (String ((Ascii (false, true, false, true, true, true, true,
            false)), (String ((Ascii (true, false, true, false, false, true,
            true, false)), (String ((Ascii (false, true, false, false, true,
            true, true, false)), (String ((Ascii (true, true, true, true,
            false, true, true, false)), EmptyString)))))))))
     then Ok (Some Z0)
     else (match strip_prefix
                   (s2l (String ((Ascii (false, false, false, false, true,
                     true, false, false)), (String ((Ascii (false, false,
                     false, true, true, true, true, false)), EmptyString)))))
                   s with
           | Some stripped ->
             if starts_with c_minus stripped
             then Ok None
             else (match u32_from_str_radix (Zpos (XO (XO (XO (XO XH)))))
                           stripped with
                   | Some i -> from_signed_magnitude mul0 i
                   | None -> Ok None)
           | None ->
             (match strip_prefix
                      (s2l (String ((Ascii (false, false, false, false, true,
                        true, false, false)), (String ((Ascii (false, true,
                        false, false, false, true, true, false)),
                        EmptyString))))) s with
              | Some stripped ->
                if starts_with c_minus stripped
                then Ok None
                else (match u32_from_str_radix (Zpos (XO XH)) stripped with
                      | Some i -> from_signed_magnitude mul0 i
                      | None -> Ok None)
              | None ->
                if starts_with c_minus s
                then Ok None
                else (match parse_i64 s with
                      | Some i ->
                        bind (mul_i64 mul0 i) (fun v ->
                          if in32b v then Ok (Some v) else Ok None)
                      | None -> Ok None))))

(** val csr_names : (str * z) list **)

let csr_names =
  ((s2l (String ((Ascii (true, false, true, false, true, true, true, false)),
     (String ((Ascii (true, true, false, false, true, true, true, false)),
     (String ((Ascii (false, false, true, false, true, true, true, false)),
     (String ((Ascii (true, false, false, false, false, true, true, false)),
     (String ((Ascii (false, false, true, false, true, true, true, false)),
     (String ((Ascii (true, false, true, false, true, true, true, false)),
     (String ((Ascii (true, true, false, false, true, true, true, false)),
     EmptyString))))))))))))))),
    Z0) :: (((s2l (String ((Ascii (false, true, true, false, false, true,
               true, false)), (String ((Ascii (false, true, true, false,
               false, true, true, false)), (String ((Ascii (false, false,
               true, true, false, true, true, false)), (String ((Ascii (true,
               false, false, false, false, true, true, false)), (String
               ((Ascii (true, true, true, false, false, true, true, false)),
               (String ((Ascii (true, true, false, false, true, true, true,
               false)), EmptyString))))))))))))), (Zpos
    XH)) :: (((s2l (String ((Ascii (false, true, true, false, false, true,
                true, false)), (String ((Ascii (false, true, false, false,
                true, true, true, false)), (String ((Ascii (true, false,
                true, true, false, true, true, false)), EmptyString))))))),
    (Zpos (XO
    XH))) :: (((s2l (String ((Ascii (false, true, true, false, false, true,
                 true, false)), (String ((Ascii (true, true, false, false,
                 false, true, true, false)), (String ((Ascii (true, true,
                 false, false, true, true, true, false)), (String ((Ascii
                 (false, true, false, false, true, true, true, false)),
                 EmptyString))))))))), (Zpos (XI
    XH))) :: (((s2l (String ((Ascii (true, false, true, false, true, true,
                 true, false)), (String ((Ascii (true, false, false, true,
                 false, true, true, false)), (String ((Ascii (true, false,
                 true, false, false, true, true, false)), EmptyString))))))),
    (Zpos (XO (XO
    XH)))) :: (((s2l (String ((Ascii (true, false, true, false, true, true,
                  true, false)), (String ((Ascii (false, false, true, false,
                  true, true, true, false)), (String ((Ascii (false, true,
                  true, false, true, true, true, false)), (String ((Ascii
                  (true, false, true, false, false, true, true, false)),
                  (String ((Ascii (true, true, false, false, false, true,
                  true, false)), EmptyString))))))))))), (Zpos (XI (XO
    XH)))) :: (((s2l (String ((Ascii (true, false, true, false, true, true,
                  true, false)), (String ((Ascii (true, true, false, false,
                  true, true, true, false)), (String ((Ascii (true, true,
                  false, false, false, true, true, false)), (String ((Ascii
                  (false, true, false, false, true, true, true, false)),
                  (String ((Ascii (true, false, false, false, false, true,
                  true, false)), (String ((Ascii (false, false, true, false,
                  true, true, true, false)), (String ((Ascii (true, true,
                  false, false, false, true, true, false)), (String ((Ascii
                  (false, false, false, true, false, true, true, false)),
                  EmptyString))))))))))))))))), (Zpos (XO (XO (XO (XO (XO (XO
    XH)))))))) :: (((s2l (String ((Ascii (true, false, true, false, true,
                      true, true, false)), (String ((Ascii (true, false,
                      true, false, false, true, true, false)), (String
                      ((Ascii (false, false, false, false, true, true, true,
                      false)), (String ((Ascii (true, true, false, false,
                      false, true, true, false)), EmptyString))))))))), (Zpos
    (XI (XO (XO (XO (XO (XO
    XH)))))))) :: (((s2l (String ((Ascii (true, false, true, false, true,
                      true, true, false)), (String ((Ascii (true, true,
                      false, false, false, true, true, false)), (String
                      ((Ascii (true, false, false, false, false, true, true,
                      false)), (String ((Ascii (true, false, true, false,
                      true, true, true, false)), (String ((Ascii (true, true,
                      false, false, true, true, true, false)), (String
                      ((Ascii (true, false, true, false, false, true, true,
                      false)), EmptyString))))))))))))), (Zpos (XO (XI (XO
    (XO (XO (XO
    XH)))))))) :: (((s2l (String ((Ascii (true, false, true, false, true,
                      true, true, false)), (String ((Ascii (false, false,
                      true, false, true, true, true, false)), (String ((Ascii
                      (false, true, true, false, true, true, true, false)),
                      (String ((Ascii (true, false, false, false, false,
                      true, true, false)), (String ((Ascii (false, false,
                      true, true, false, true, true, false)),
                      EmptyString))))))))))), (Zpos (XI (XI (XO (XO (XO (XO
    XH)))))))) :: (((s2l (String ((Ascii (true, false, true, false, true,
                      true, true, false)), (String ((Ascii (true, false,
                      false, true, false, true, true, false)), (String
                      ((Ascii (false, false, false, false, true, true, true,
                      false)), EmptyString))))))), (Zpos (XO (XO (XI (XO (XO
    (XO
    XH)))))))) :: (((s2l (String ((Ascii (true, true, false, false, false,
                      true, true, false)), (String ((Ascii (true, false,
                      false, true, true, true, true, false)), (String ((Ascii
                      (true, true, false, false, false, true, true, false)),
                      (String ((Ascii (false, false, true, true, false, true,
                      true, false)), (String ((Ascii (true, false, true,
                      false, false, true, true, false)),
                      EmptyString))))))))))), (Zpos (XO (XO (XO (XO (XO (XO
    (XO (XO (XO (XO (XI
    XH))))))))))))) :: (((s2l (String ((Ascii (false, false, true, false,
                           true, true, true, false)), (String ((Ascii (true,
                           false, false, true, false, true, true, false)),
                           (String ((Ascii (true, false, true, true, false,
                           true, true, false)), (String ((Ascii (true, false,
                           true, false, false, true, true, false)),
                           EmptyString))))))))), (Zpos (XI (XO (XO (XO (XO
    (XO (XO (XO (XO (XO (XI
    XH))))))))))))) :: (((s2l (String ((Ascii (true, false, false, true,
                           false, true, true, false)), (String ((Ascii
                           (false, true, true, true, false, true, true,
                           false)), (String ((Ascii (true, true, false,
                           false, true, true, true, false)), (String ((Ascii
                           (false, false, true, false, true, true, true,
                           false)), (String ((Ascii (false, true, false,
                           false, true, true, true, false)), (String ((Ascii
                           (true, false, true, false, false, true, true,
                           false)), (String ((Ascii (false, false, true,
                           false, true, true, true, false)),
                           EmptyString))))))))))))))), (Zpos (XO (XI (XO (XO
    (XO (XO (XO (XO (XO (XO (XI
    XH))))))))))))) :: (((s2l (String ((Ascii (true, true, false, false,
                           false, true, true, false)), (String ((Ascii (true,
                           false, false, true, true, true, true, false)),
                           (String ((Ascii (true, true, false, false, false,
                           true, true, false)), (String ((Ascii (false,
                           false, true, true, false, true, true, false)),
                           (String ((Ascii (true, false, true, false, false,
                           true, true, false)), (String ((Ascii (false,
                           false, false, true, false, true, true, false)),
                           EmptyString))))))))))))), (Zpos (XO (XO (XO (XO
    (XO (XO (XO (XI (XO (XO (XI
    XH))))))))))))) :: (((s2l (String ((Ascii (false, false, true, false,
                           true, true, true, false)), (String ((Ascii (true,
                           false, false, true, false, true, true, false)),
                           (String ((Ascii (true, false, true, true, false,
                           true, true, false)), (String ((Ascii (true, false,
                           true, false, false, true, true, false)), (String
                           ((Ascii (false, false, false, true, false, true,
                           true, false)), EmptyString))))))))))), (Zpos (XI
    (XO (XO (XO (XO (XO (XO (XI (XO (XO (XI
    XH))))))))))))) :: (((s2l (String ((Ascii (true, false, false, true,
                           false, true, true, false)), (String ((Ascii
                           (false, true, true, true, false, true, true,
                           false)), (String ((Ascii (true, true, false,
                           false, true, true, true, false)), (String ((Ascii
                           (false, false, true, false, true, true, true,
                           false)), (String ((Ascii (false, true, false,
                           false, true, true, true, false)), (String ((Ascii
                           (true, false, true, false, false, true, true,
                           false)), (String ((Ascii (false, false, true,
                           false, true, true, true, false)), (String ((Ascii
                           (false, false, false, true, false, true, true,
                           false)), EmptyString))))))))))))))))), (Zpos (XO
    (XI (XO (XO (XO (XO (XO (XI (XO (XO (XI
    XH))))))))))))) :: []))))))))))))))))

(** val assoc_str : str -> (str * 'a1) list -> 'a1 option **)

let rec assoc_str k = function
| [] -> None
| p :: l' ->
  let (k', v) = p in if str_eqb k k' then Some v else assoc_str k l'

(** val csrimm_from_str : str -> z option res **)

let csrimm_from_str s =
  match assoc_str (lower s) csr_names with
  | Some n0 -> Ok (Some n0)
  | None ->
    bind (imm_from_str s) (fun r -> Ok
      (match r with
       | Some v -> Some (to_u32 v)
       | None -> None))

(** val lui_imm : z -> z option **)

let lui_imm v =
  if (&&) (Z.leb Z0 v)
       (Z.leb v (Zpos (XI (XI (XI (XI (XI (XI (XI (XI (XI (XI (XI (XI (XI (XI
         (XI (XI (XI (XI (XI XH)))))))))))))))))))))
  then Some (wrap32 (Z.shiftl v (Zpos (XO (XO (XI XH))))))
  else None
