(* Extraction of the executable model to OCaml.  ExtrOcamlBasic only (bool, option, unit,
   list, prod, sumbool, sumor); no Extract Constant; nat, N, Z, positive stay Coq datatypes. *)
From Coq Require Import ExtrOcamlBasic.
From RV.Model Require Import Base I32 Imm Lexer Isa Parser Reader Cfg Avail Live Lints Serde Output Printer.
From RV.Spec Require Import LitSpec.
From RV.Spec Require FoldSpec.

Definition spec_op (o : mathop) : FoldSpec.op :=
  match o with
  | MAdd => FoldSpec.Add | MAnd => FoldSpec.And | MOr => FoldSpec.Or | MSll => FoldSpec.Sll
  | MSlt => FoldSpec.Slt | MSltu => FoldSpec.Sltu | MSra => FoldSpec.Sra | MSrl => FoldSpec.Srl
  | MSub => FoldSpec.Sub | MXor => FoldSpec.Xor | MMul => FoldSpec.Mul | MMulh => FoldSpec.Mulh
  | MMulhsu => FoldSpec.Mulhsu | MMulhu => FoldSpec.Mulhu | MDiv => FoldSpec.Div
  | MDivu => FoldSpec.Divu | MRem => FoldSpec.Rem | MRemu => FoldSpec.Remu
  end.
Definition spec_eval (o : mathop) (x y : Z) : Z := FoldSpec.eval (spec_op o) x y.
Extraction Language OCaml.
Extraction "rvmodel.ml"
  operate all_mathops imm_from_str csrimm_from_str lui_imm wrap32 to_u32 lit_value spec_eval lex_all parse_from_file dir_names inst_name gen_cfg_upto run_items cfg_error_loc lint_title lint_severity lint_description lint_name all_lintcodes parse_error_title cfg_error_title ser_graph gen_full_cfg display_pretty format_region fields output_order math_op scalar_op inst_from_str.
