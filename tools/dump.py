"""Parser for the graph dumps of harness/src/s_cfg.rs (and the identical model dumps)."""
import re
import lib

NODE = re.compile(r"C\((\d+) N\((.*?) \| (\S+)\) L\[(.*?)\] (text|data) >\[(.*?)\] <\[(.*?)\] F\[(.*?)\] "
                  r"ri\[(.*?)\] ro\[(.*?)\] mi\[(.*?)\] mo\[(.*?)\] li=(\d+) lo=(\d+) ud=(\d+)\)")
FN = re.compile(r"FN\(entry=(\d+) exit=(\d+) nodes\[(.*?)\] defs=(\d+)\)")
LF = re.compile(r"LF\[(.*?)\]")


def ints(s):
    return [int(x) for x in s.split(",") if x != ""]


def kv(s):
    out = {}
    for part in s.split(";"):
        if part:
            k, v = part.split("=", 1)
            out[k] = v
    return out


class Node:
    pass


def parse(line):
    """-> None for errors/timeouts, else dict(nodes=[Node], funcs=[...], labelfn={label: fid})"""
    if not line.startswith("C("):
        return None
    nodes = []
    for m in NODE.finditer(line):
        n = Node()
        n.idx = int(m.group(1))
        body = m.group(2).split(" ")
        n.kind = body[0]
        n.body = body
        n.raw = m.group(3)
        n.labels = [lib.dec(x) for x in m.group(4).split(",") if x]
        n.text = m.group(5) == "text"
        n.nexts, n.prevs, n.funcs = ints(m.group(6)), ints(m.group(7)), ints(m.group(8))
        n.ri, n.ro, n.mi, n.mo = kv(m.group(9)), kv(m.group(10)), kv(m.group(11)), kv(m.group(12))
        n.li, n.lo, n.ud = int(m.group(13)), int(m.group(14)), int(m.group(15))
        nodes.append(n)
    funcs = [dict(entry=int(m.group(1)), exit=int(m.group(2)), nodes=ints(m.group(3)), defs=int(m.group(4)))
             for m in FN.finditer(line)]
    lf = {}
    m = LF.search(line)
    if m:
        for part in m.group(1).split(","):
            if part:
                l, f = part.split("=")
                lf[lib.dec(l)] = int(f)
    return dict(nodes=nodes, funcs=funcs, labelfn=lf)


def val(field):
    """'addi@0.6.6-0.7.7/0' -> 'addi'"""
    return field.split("@")[0]


def is_return(n):
    if n.kind == "jumplinkr":
        return val(n.body[1]) == "jalr" and val(n.body[2]) == "0" and val(n.body[3]) == "1" and val(n.body[4]) == "0"
    return n.kind == "basic" and val(n.body[1]) == "uret"


def is_ecall(n):
    return n.kind == "basic" and val(n.body[1]) == "ecall"


def is_uncond_jump(n):
    if n.kind == "jumplink":
        return val(n.body[2]) == "0"
    if n.kind == "jumplinkr":
        return val(n.body[2]) == "0"
    if n.kind == "branch":
        return val(n.body[2]) == "0" and val(n.body[3]) == "0" and val(n.body[1]) in ("beq", "bge", "bgeu")
    return False


def jumps_to(n):
    if n.kind == "jumplink" and val(n.body[2]) != "1":
        return lib.dec(val(n.body[3]))
    if n.kind == "branch":
        return lib.dec(val(n.body[4]))
    return None


def calls_to(n):
    if n.kind == "jumplink" and val(n.body[2]) == "1":
        return lib.dec(val(n.body[3]))
    return None


def is_return_merge(n):
    return n.kind == "jumplink" and val(n.body[1]) == "jal" and val(n.body[2]) == "0" and lib.dec(val(n.body[3])) == "<return>"


def known_ecall(n):
    if is_ecall(n):
        v = n.ri.get("17")
        if v and v.startswith("c:"):
            return int(v[2:])
    return None
