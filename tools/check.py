#!/usr/bin/env python3
"""python3 tools/check.py <property id> [--tier quick|thorough] [--replay path]"""
import argparse, importlib, os, sys
sys.path.insert(0, os.path.dirname(os.path.abspath(__file__)))
import lib


def main():
    ap = argparse.ArgumentParser()
    ap.add_argument("pid")
    ap.add_argument("--tier", default=os.environ.get("VERIF_TIER", "quick"))
    ap.add_argument("--replay", default=None)
    a = ap.parse_args()
    tier = a.tier if a.tier in ("quick", "thorough") else "quick"
    seed = int(os.environ.get("VERIF_SEED", "1"))
    ctx = lib.Ctx(a.pid, tier, seed)
    mod = importlib.import_module("props." + a.pid)
    if a.replay:
        sys.exit(mod.replay(ctx, a.replay))
    mod.run(ctx)
    lib.finish(ctx)


if __name__ == "__main__":
    main()
