"""The RISC-V assembly manual as an executable table, written from the manual (RV32IM base instructions and
the standard pseudo-instructions) independently of parser/parsing.rs.  For every mnemonic and operand form:
the source text and the architectural effect as a function of the register file.  `effect_of_nodes` computes
the same kind of effect from the nodes the implementation built; the two must agree on every register state."""
import interp

R_OPS = ["add", "sub", "and", "or", "xor", "sll", "srl", "sra", "slt", "sltu", "mul", "mulh", "mulhsu", "mulhu", "div", "divu", "rem", "remu"]
I_OPS = {"addi": "add", "andi": "and", "ori": "or", "xori": "xor", "slli": "sll", "srli": "srl", "srai": "sra", "slti": "slt", "sltiu": "sltu"}
LOADS = {"lb": (1, True), "lbu": (1, False), "lh": (2, True), "lhu": (2, False), "lw": (4, True)}
STORES = {"sb": 1, "sh": 2, "sw": 4}
BR = {"beq": lambda a, b: a == b, "bne": lambda a, b: a != b, "blt": lambda a, b: a < b, "bge": lambda a, b: a >= b,
      "bltu": lambda a, b: (a & interp.M32) < (b & interp.M32), "bgeu": lambda a, b: (a & interp.M32) >= (b & interp.M32)}
ABI = ["zero", "ra", "sp", "gp", "tp", "t0", "t1", "t2", "s0", "s1", "a0", "a1", "a2", "a3", "a4", "a5", "a6", "a7",
       "s2", "s3", "s4", "s5", "s6", "s7", "s8", "s9", "s10", "s11", "t3", "t4", "t5", "t6"]


def R(n):
    return ABI[n]


def forms(rng):
    """yield (text, expected) ; expected(regs) -> effect tuple.  Effects:
       ('reg', rd, value) | ('branch', taken, label) | ('jump', rd, label) | ('jumpr', rd, target)
       | ('load', rd, addr, width, signed) | ('store', addr, value, width) | ('la', rd, label) | seq of these"""
    regs3 = [(rng.randrange(32), rng.randrange(32), rng.randrange(32)) for _ in range(3)] + [(0, 0, 0), (5, 5, 5), (1, 2, 0), (31, 0, 31)]
    imms = [0, 1, -1, 2047, -2048, 5, 31, 32, 93, 1234567, -2147483648, 2147483647]
    shs = [0, 1, 31]
    out = []
    for op in R_OPS:
        for d, a, b in regs3:
            out.append(("%s %s, %s, %s" % (op, R(d), R(a), R(b)),
                        lambda rg, op=op, d=d, a=a, b=b: [("reg", d, interp.alu(op, rg[a], rg[b]))]))
    for op, base in I_OPS.items():
        for d, a, _ in regs3:
            for imm in (shs if base in ("sll", "srl", "sra") else imms):
                out.append(("%s %s, %s, %d" % (op, R(d), R(a), imm),
                            lambda rg, base=base, d=d, a=a, imm=imm: [("reg", d, interp.alu(base, rg[a], imm))]))
    for d, _, _ in regs3:
        for imm in (0, 1, 0x12345, 0xfffff, 0x80000):
            out.append(("lui %s, %d" % (R(d), imm), lambda rg, d=d, imm=imm: [("reg", d, interp.s32(imm << 12))]))
        for imm in imms:
            out.append(("li %s, %d" % (R(d), imm), lambda rg, d=d, imm=imm: [("reg", d, imm)]))
    for op, (w, sg) in LOADS.items():
        for d, a, _ in regs3:
            for off in (0, 4, -8, 2047):
                out.append(("%s %s, %d(%s)" % (op, R(d), off, R(a)), lambda rg, d=d, a=a, off=off, w=w, sg=sg: [("load", d, interp.s32(rg[a] + off), w, sg)]))
            out.append(("%s %s, (%s)" % (op, R(d), R(a)), lambda rg, d=d, a=a, w=w, sg=sg: [("load", d, rg[a], w, sg)]))
            out.append(("%s %s, 64" % (op, R(d)), lambda rg, d=d, w=w, sg=sg: [("load", d, 64, w, sg)]))
            if d != 0:
                out.append(("%s %s, lbl" % (op, R(d)), lambda rg, d=d, w=w, sg=sg: [("la", d, "lbl"), ("load", d, "lbl+0", w, sg)]))
    for op, w in STORES.items():
        for s_, a, t in regs3:
            for off in (0, 4, -8):
                out.append(("%s %s, %d(%s)" % (op, R(s_), off, R(a)), lambda rg, s_=s_, a=a, off=off, w=w: [("store", interp.s32(rg[a] + off), rg[s_], w)]))
            out.append(("%s %s, (%s)" % (op, R(s_), R(a)), lambda rg, s_=s_, a=a, w=w: [("store", rg[a], rg[s_], w)]))
            if t != 0 and t != s_:
                out.append(("%s %s, lbl, %s" % (op, R(s_), R(t)), lambda rg, s_=s_, t=t, w=w: [("la", t, "lbl"), ("store", "lbl+0", rg[s_], w)]))
    for op, f in BR.items():
        for a, b, _ in regs3:
            out.append(("%s %s, %s, lbl" % (op, R(a), R(b)), lambda rg, f=f, a=a, b=b: [("branch", f(rg[a], rg[b]), "lbl")]))
    z = {"beqz": lambda a: a == 0, "bnez": lambda a: a != 0, "bltz": lambda a: a < 0, "bgez": lambda a: a >= 0,
         "bgtz": lambda a: a > 0, "blez": lambda a: a <= 0}
    for op, f in z.items():
        for a, _, _ in regs3:
            out.append(("%s %s, lbl" % (op, R(a)), lambda rg, f=f, a=a: [("branch", f(rg[a]), "lbl")]))
    sw = {"bgt": lambda a, b: a > b, "ble": lambda a, b: a <= b, "bgtu": lambda a, b: (a & interp.M32) > (b & interp.M32),
          "bleu": lambda a, b: (a & interp.M32) <= (b & interp.M32)}
    for op, f in sw.items():
        for a, b, _ in regs3:
            out.append(("%s %s, %s, lbl" % (op, R(a), R(b)), lambda rg, f=f, a=a, b=b: [("branch", f(rg[a], rg[b]), "lbl")]))
    un = {"mv": lambda a: a, "neg": lambda a: interp.s32(-a), "not": lambda a: interp.s32(~a), "seqz": lambda a: int(a == 0),
          "snez": lambda a: int(a != 0), "sltz": lambda a: int(a < 0), "sgtz": lambda a: int(a > 0)}
    for op, f in un.items():
        for d, a, _ in regs3:
            out.append(("%s %s, %s" % (op, R(d), R(a)), lambda rg, f=f, d=d, a=a: [("reg", d, f(rg[a]))]))
    out.append(("nop", lambda rg: []))
    out.append(("j lbl", lambda rg: [("jump", 0, "lbl")]))
    out.append(("jal lbl", lambda rg: [("jump", 1, "lbl")]))
    out.append(("call lbl", lambda rg: [("jump", 1, "lbl")]))
    for d, a, _ in regs3:
        out.append(("jal %s, lbl" % R(d), lambda rg, d=d: [("jump", d, "lbl")]))
        out.append(("jr %s" % R(a), lambda rg, a=a: [("jumpr", 0, rg[a])]))
        out.append(("jalr %s" % R(a), lambda rg, a=a: [("jumpr", 1, rg[a])]))
        for off in (0, 8, -4):
            out.append(("jalr %s, %s, %d" % (R(d), R(a), off), lambda rg, d=d, a=a, off=off: [("jumpr", d, interp.s32(rg[a] + off))]))
            out.append(("jalr %s, %d(%s)" % (R(d), off, R(a)), lambda rg, d=d, a=a, off=off: [("jumpr", d, interp.s32(rg[a] + off))]))
        out.append(("jalr %s, (%s)" % (R(d), R(a)), lambda rg, d=d, a=a: [("jumpr", d, rg[a])]))
        out.append(("la %s, lbl" % R(d), lambda rg, d=d: [("la", d, "lbl")]))
    out.append(("ret", lambda rg: [("jumpr", 0, rg[1])]))
    # CSR instructions (Zicsr) and their pseudo-instructions; user-level CSR numbers from the N extension / RARS
    csrs = {"ustatus": 0, "uie": 4, "utvec": 5, "uscratch": 0x40, "uepc": 0x41, "ucause": 0x42, "utval": 0x43, "uip": 0x44}
    for name, num in list(csrs.items()) + [("0x40", 0x40), ("5", 5), ("0b101", 5)]:
        for d, a, _ in regs3[:3]:
            for op in ("csrrw", "csrrs", "csrrc"):
                out.append(("%s %s, %s, %s" % (op, R(d), name, R(a)), lambda rg, op=op, d=d, a=a, num=num: [("csr", op, d, num, a)]))
            for op in ("csrrwi", "csrrsi", "csrrci"):
                out.append(("%s %s, %s, %d" % (op, R(d), name, 7), lambda rg, op=op, d=d, num=num: [("csri", op, d, num, 7)]))
            # pseudo-instructions (RARS operand order: the register first)
            out.append(("csrr %s, %s" % (R(d), name), lambda rg, d=d, num=num: [("csr", "csrrs", d, num, 0)]))
            out.append(("csrw %s, %s" % (R(a), name), lambda rg, a=a, num=num: [("csr", "csrrw", 0, num, a)]))
            out.append(("csrs %s, %s" % (R(a), name), lambda rg, a=a, num=num: [("csr", "csrrs", 0, num, a)]))
            out.append(("csrc %s, %s" % (R(a), name), lambda rg, a=a, num=num: [("csr", "csrrc", 0, num, a)]))
        out.append(("csrwi %s, 3" % name, lambda rg, num=num: [("csri", "csrrwi", 0, num, 3)]))
        out.append(("csrsi %s, 3" % name, lambda rg, num=num: [("csri", "csrrsi", 0, num, 3)]))
        out.append(("csrci %s, 3" % name, lambda rg, num=num: [("csri", "csrrci", 0, num, 3)]))
    return out


def effect_of_nodes(nodes, rg):
    """nodes: list of tools/dump-like field lists (kind + operand values); the effect of executing them in order on rg"""
    rg = list(rg)
    eff = []
    sym = {}                # register -> symbolic label address, for the two-node label forms

    def val(r):
        return 0 if r == 0 else rg[r]
    for k, f in nodes:
        if k in ("arith", "iarith"):
            op, d, a = f[0], int(f[1]), int(f[2])
            y = val(int(f[3])) if k == "arith" else int(f[3])
            v = y if op == "lui" else interp.alu(op, val(a), y)
            if d != 0:
                rg[d] = v
                sym.pop(d, None)
            eff.append(("reg", d, v))
        elif k == "loadaddr":
            d = int(f[1])
            sym[d] = f[2]
            eff.append(("la", d, f[2]))
        elif k == "load":
            op, d, a, off = f[0], int(f[1]), int(f[2]), int(f[3])
            w, sg = LOADS.get(op, (4, True))
            addr = ("%s+%d" % (sym[a], off)) if a in sym else interp.s32(val(a) + off)
            eff.append(("load", d, addr, w, sg))
        elif k == "store":
            op, a, s_, off = f[0], int(f[1]), int(f[2]), int(f[3])
            addr = ("%s+%d" % (sym[a], off)) if a in sym else interp.s32(val(a) + off)
            eff.append(("store", addr, val(s_), STORES.get(op, 4)))
        elif k == "branch":
            eff.append(("branch", BR[f[0]](val(int(f[1])), val(int(f[2]))), f[3]))
        elif k == "jumplink":
            eff.append(("jump", int(f[1]), f[2]))
        elif k == "jumplinkr":
            eff.append(("jumpr", int(f[1]), interp.s32(val(int(f[2])) + int(f[3]))))
        elif k in ("csr", "csri"):
            eff.append((k, f[0], int(f[1]), int(f[2]), int(f[3])))
    # writes to x0 have no architectural effect
    return [e for e in eff if not (e[0] == "reg" and e[1] == 0)]
