#!/usr/bin/env python3
"""Development-time tool (not a registered check): run every stored seeded change against its own property's check and
the listed neighbouring checks; write seeded/MATRIX.md.  /repo must be clean; it is restored after every seed."""
import json, os, subprocess, sys
ROOT = os.path.dirname(os.path.dirname(os.path.abspath(__file__)))
NEIGH = {"C01": ["C12"], "C02": ["C12"], "C03": ["C11"], "C04": ["C05"], "C05": ["C04"], "C06": ["C07"], "C07": ["C09"], "C08": ["C13"],
         "C09": ["C07"], "C10": ["C18"], "C11": ["C03"], "C12": ["C02"], "C13": ["C08"], "C14": ["C02"], "C15": ["C18"], "C16": ["C03"],
         "C17": ["C13"], "C18": ["C15"], "C19": ["C01"]}


def main():
    only = sys.argv[1:]
    rows = []
    for name in sorted(os.listdir(os.path.join(ROOT, "seeded"))):
        d = os.path.join(ROOT, "seeded", name)
        if not os.path.isdir(d) or (only and name not in only):
            continue
        pid = name.split("-")[0]
        props = [pid] + NEIGH.get(pid, [])
        out = subprocess.run([sys.executable, os.path.join(ROOT, "tools", "seedrun.py"), name] + props, stdout=subprocess.PIPE, stderr=subprocess.STDOUT, cwd=ROOT).stdout.decode()
        meta = json.load(open(os.path.join(d, "meta.json")))
        ch = meta.get("verified", {}).get("checks", {})
        cells = []
        for p in props:
            v = ch.get(p, {})
            vio = (v.get("violation") or [""])[0]
            cells.append("%s: %s" % (p, "failing input" if vio and "no-failing-input-found" not in vio else ("proof/correspondence only" if vio else "not caught")))
        rows.append((name, meta.get("what", "")[:160].replace("|", "/"), "; ".join(cells)))
        print(rows[-1], flush=True)
    with open(os.path.join(ROOT, "seeded", "MATRIX.md"), "w") as f:
        f.write("| seeded change | what it does | checks (quick tier) |\n|---|---|---|\n")
        for r in rows:
            f.write("| %s | %s | %s |\n" % r)


if __name__ == "__main__":
    main()
