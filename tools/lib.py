"""Shared machinery for the per-property checks (see DESIGN.md sections 3, 6, 7)."""
import hashlib, json, os, random, re, subprocess, sys, time

ROOT = os.path.dirname(os.path.dirname(os.path.abspath(__file__)))
COQ = os.path.join(ROOT, "coq")
BUILD = os.path.join(ROOT, "build")
HARNESS = os.path.join(ROOT, "harness")
DRIVER = os.path.join(ROOT, "ocaml", "driver")
EVID = os.path.join(ROOT, "evidence")
REPLAY = os.path.join(EVID, "replay")
ENV = dict(os.environ, CARGO_NET_OFFLINE="true")

FORBIDDEN = re.compile(
    r"\b(Admitted|admit|Axiom|Axioms|Parameter|Parameters|Conjecture|Conjectures)\b|Unset\s+Guard|bypass_check|"
    r"Unset\s+Positivity|Unset\s+Universe\s+Checking|type-in-type|impredicative-set|Admit\s+Obligations|native_compute")
# axioms of the standard library that a theorem may depend on (none expected; see DESIGN 10)
ALLOWED_AXIOMS = set()

COQ_Q = ["-Q", "Model", "RV.Model", "-Q", "Spec", "RV.Spec", "-Q", "Proofs", "RV.Proofs",
         "-Q", "Props", "RV.Props", "-Q", "Extract", "RV.Extract"]

TRUSTED_BASE = [
    "Coq 8.16.1 kernel via coqc (full .vo build, vm_compute used, native_compute not used)",
    "no axioms: every property theorem is 'Closed under the global context' (Print Assumptions, checked each run)",
    "hand-written Gallina model of the Rust code, tied to /repo by the differential correspondence run in this check",
    "extraction with ExtrOcamlBasic only (Extract Inductive bool/option/unit/list/prod/sumbool/sumor), no Extract Constant; OCaml 4.13.1; ocaml/driver.ml glue",
    "Rust harness (harness/src) and Python generators/differ (tools/)",
    "specifications in coq/Spec are the author's reading of the RISC-V manuals and of the property text",
]


def sh(cmd, cwd=None, timeout=3600, env=None):
    p = subprocess.run(cmd, cwd=cwd, shell=isinstance(cmd, str), stdout=subprocess.PIPE,
                       stderr=subprocess.STDOUT, timeout=timeout, env=env or ENV)
    return p.returncode, p.stdout.decode("utf-8", "replace")


class Ctx:
    def __init__(self, pid, tier, seed):
        self.pid, self.tier, self.seed = pid, tier, seed
        self.rng = random.Random(seed)
        self.t0 = time.time()
        self.rundir = os.path.join(BUILD, "run", pid)
        os.makedirs(self.rundir, exist_ok=True)
        os.makedirs(REPLAY, exist_ok=True)
        for fn in os.listdir(REPLAY):          # replays of earlier runs of this property are stale
            if fn.startswith(pid + "-"):
                os.remove(os.path.join(REPLAY, fn))
        self.notes = []
        self.known_lines = []
        self.violations = []   # (replay_path, suffix)
        self.coverage = {}
        self.proof = None

    def thorough(self):
        return self.tier == "thorough"

    def scale(self, n):
        """input-count multiplier: 1 in the quick tier; n x VERIF_THOROUGH_MULT (default 4) in the thorough tier"""
        return n * int(os.environ.get("VERIF_THOROUGH_MULT", "4")) if self.thorough() else 1


# ---------------------------------------------------------------------------------------------
# build steps
# ---------------------------------------------------------------------------------------------
def ensure_coq_makefile():
    """(re)generate coq/Makefile whenever the set of .v files changed"""
    files = []
    for d in ("Model", "Spec", "Proofs", "Props"):
        for r, _, fs in os.walk(os.path.join(COQ, d)):
            files += [os.path.relpath(os.path.join(r, f), COQ) for f in fs if f.endswith(".v")]
    files = sorted(files)
    stamp = os.path.join(COQ, ".filelist")
    old = open(stamp).read().split("\n") if os.path.exists(stamp) else None
    if old != files or not os.path.exists(os.path.join(COQ, "Makefile")):
        sh(["coq_makefile", "-f", "_CoqProject"] + files + ["-o", "Makefile"], cwd=COQ)
        with open(stamp, "w") as f:
            f.write("\n".join(files))


def forbidden_tokens():
    """grep the whole development for declarations that would add to the trusted base"""
    hits = []
    for r, _, fs in os.walk(COQ):
        for f in fs:
            if not f.endswith(".v"):
                continue
            p = os.path.join(r, f)
            txt = open(p, encoding="utf-8").read()
            txt = re.sub(r"\(\*.*?\*\)", " ", txt, flags=re.S)  # drop comments
            for m in FORBIDDEN.finditer(txt):
                hits.append("%s: %s" % (os.path.relpath(p, ROOT), m.group(0)))
    return hits


def check_proofs(ctx, prop_file):
    """prop_file may name several statement files joined by '+' (e.g. "C07+C07par"): all are checked"""
    parts = prop_file.split("+")
    if len(parts) == 1:
        return check_proofs_one(ctx, prop_file)
    res = dict(ok=True, obligations=0, discharged=0, failed=[], cmd="", log="", theorems=[])
    for pf in parts:
        r = check_proofs_one(ctx, pf)
        res["ok"] = res["ok"] and r["ok"]
        res["obligations"] += r["obligations"]
        res["discharged"] += r["discharged"]
        res["failed"] += r["failed"]
        res["theorems"] += r["theorems"]
        res["cmd"] += ("; " if res["cmd"] else "") + r["cmd"]
        res["log"] += r["log"][-1500:]
    return res


def check_proofs_one(ctx, prop_file):
    """Build Props/<prop_file>.v and everything it depends on; parse Print Assumptions.
    Returns dict(ok, obligations, discharged, failed, cmd, log)."""
    ensure_coq_makefile()
    target = "Props/%s.vo" % prop_file
    cmd = "cd coq && make -j16 %s && coqc <-Q flags> Props/%s.v  # Print Assumptions parsed" % (target, prop_file)
    src = open(os.path.join(COQ, "Props", prop_file + ".v"), encoding="utf-8").read()
    src_nc = re.sub(r"\(\*.*?\*\)", " ", src, flags=re.S)
    theorems = re.findall(r"^\s*Theorem\s+(\w+)", src_nc, flags=re.M)
    pinned = set(re.findall(r"^\s*Check\s+(\w+)\s*:", src_nc, flags=re.M))
    printed = set(re.findall(r"^\s*Print Assumptions\s+(\w+)", src_nc, flags=re.M))
    res = dict(ok=False, obligations=len(theorems), discharged=0, failed=[], cmd=cmd, log="", theorems=theorems)
    rc, out = sh(["make", "-j16", target], cwd=COQ, timeout=3000)
    if rc != 0:
        res["log"] = out[-3000:]
        res["failed"] = ["build of %s failed" % target]
        return res
    # re-run coqc on the property file alone to capture Print Assumptions output
    rc, out = sh(["coqc"] + COQ_Q + ["Props/%s.v" % prop_file], cwd=COQ, timeout=1200)
    res["log"] = out[-3000:]
    if rc != 0:
        res["failed"] = ["coqc Props/%s.v failed" % prop_file]
        return res
    # split output into blocks per Print Assumptions, in order
    blocks = re.split(r"(?m)^(?=Closed under the global context|Axioms:)", out)
    blocks = [b for b in blocks if b.startswith("Closed under") or b.startswith("Axioms:")]
    order = re.findall(r"^\s*Print Assumptions\s+(\w+)", src_nc, flags=re.M)
    status = {}
    for name, b in zip(order, blocks):
        if b.startswith("Closed under"):
            status[name] = True
        else:
            axs = set(re.findall(r"^(\S+)\s*:", b[len("Axioms:"):], flags=re.M))
            status[name] = axs <= ALLOWED_AXIOMS
            if not status[name]:
                res["failed"].append("%s depends on axioms %s" % (name, sorted(axs - ALLOWED_AXIOMS)))
    for t in theorems:
        if t not in pinned:
            res["failed"].append("theorem %s has no pinned statement (Check %s : ...)" % (t, t))
        elif t not in printed or t not in status:
            res["failed"].append("theorem %s has no Print Assumptions" % t)
        elif status[t]:
            res["discharged"] += 1
    bad = forbidden_tokens()
    if bad:
        res["failed"].append("forbidden tokens: " + "; ".join(bad[:5]))
        res["discharged"] = 0
    if getattr(ctx, "tier", "quick") == "thorough" and not res["failed"]:
        # independent re-check of the compiled statement file and everything it depends on (coqchk, its own
        # type checker); the context summary must list no axiom, nothing relying on type-in-type, unsafe
        # fixpoints or assumed positivity
        rc, out = sh(["coqchk", "-o", "-silent"] + COQ_Q + ["RV.Props.%s" % prop_file], cwd=COQ, timeout=2400)
        summary = out[out.find("CONTEXT SUMMARY"):] if "CONTEXT SUMMARY" in out else out[-1500:]
        wanted = ["Axioms: <none>", "type-in-type: <none>", "unsafe (co)fixpoints: <none>", "positivity is assumed: <none>"]
        if rc != 0 or not all(w in summary for w in wanted):
            res["failed"].append("coqchk RV.Props.%s: rc=%d %s" % (prop_file, rc, " ".join(summary.split())[:400]))
        res["cmd"] += " && coqchk -o -silent <-Q flags> RV.Props.%s  # Axioms: <none> required" % prop_file
        res["coqchk"] = " ".join(summary.split())[:300]
    res["ok"] = (not res["failed"]) and res["discharged"] == res["obligations"] and res["obligations"] > 0
    return res


def build_harness(release=False):
    """(re)build the Rust harness against /repo's current working tree"""
    cmd = ["cargo", "build", "--offline", "--quiet"] + (["--release"] if release else [])
    rc, out = sh(cmd, cwd=HARNESS, timeout=1800)
    return rc == 0, out[-3000:]


def harness_bin(release=False):
    return os.path.join(HARNESS, "target", "release" if release else "debug", "rva_harness")


def build_driver():
    if os.path.exists(DRIVER):
        # rebuild if any model source is newer than the driver
        m = os.path.getmtime(DRIVER)
        newer = False
        for d in ("coq/Model", "coq/Extract", "ocaml"):
            for r, _, fs in os.walk(os.path.join(ROOT, d)):
                for f in fs:
                    if f.endswith((".v", ".ml")) and f not in ("rvmodel.ml",) and os.path.getmtime(os.path.join(r, f)) > m:
                        newer = True
        if not newer:
            return True, ""
    ensure_coq_makefile()
    rc, out = sh("cd %s && make -j16 $(ls Model/*.v | sed 's/\\.v$/.vo/') > /dev/null && cd ../ocaml && "
                 "coqc -Q ../coq/Model RV.Model -Q ../coq/Spec RV.Spec -Q ../coq/Proofs RV.Proofs -Q ../coq/Props RV.Props "
                 "-Q ../coq/Extract RV.Extract ../coq/Extract/Extract.v > /dev/null && "
                 "ocamlfind ocamlopt -O2 -w -a rvmodel.mli rvmodel.ml conv.ml driver.ml d_lex.ml d_parse.ml d_cfg.ml d_yaml.ml d_print.ml main.ml -o driver 2>/dev/null || "
                 "ocamlfind ocamlopt -w -a rvmodel.mli rvmodel.ml conv.ml driver.ml d_lex.ml d_parse.ml d_cfg.ml d_yaml.ml d_print.ml main.ml -o driver" % COQ, timeout=3000)
    return rc == 0, out[-3000:]


def run_cli(cmd, cpu_s=8.0, wall_factor=15):
    """run a command; give up when it has used `cpu_s` seconds of CPU (a hang burns CPU; a process that is merely
    starved by other load does not) or, as a last resort, `wall_factor` times that in wall time.
    -> (returncode | "timeout", stdout bytes, stderr bytes)"""
    import tempfile
    with tempfile.TemporaryFile() as fo, tempfile.TemporaryFile() as fe:
        p = subprocess.Popen(cmd, stdout=fo, stderr=fe)
        t0 = time.time()
        rc = None
        while True:
            rc = p.poll()
            if rc is not None:
                break
            try:
                f = open("/proc/%d/stat" % p.pid).read().rsplit(")", 1)[1].split()
                cpu = (int(f[11]) + int(f[12])) / 100.0
            except (OSError, IndexError, ValueError):
                cpu = 0.0
            if cpu > cpu_s or time.time() - t0 > cpu_s * wall_factor:
                p.kill()
                p.wait()
                rc = "timeout"
                break
            time.sleep(0.01)
        fo.seek(0)
        fe.seek(0)
        return rc, fo.read(), fe.read()


# ---------------------------------------------------------------------------------------------
# running commands through implementation and model
# ---------------------------------------------------------------------------------------------
def enc(s):
    return "-" if s == "" else ".".join(str(ord(c)) for c in s)


def dec(s):
    return "" if s == "-" else "".join(chr(int(x)) for x in s.split("."))


def _run_impl_shard(path, cmds, release, limit_ms):
    with open(path, "w", encoding="utf-8") as f:
        f.write("\n".join(cmds) + "\n")
    outs = []
    skip = 0
    while skip < len(cmds):
        p = subprocess.run([harness_bin(release), path, "--skip", str(skip), "--limit-ms", str(limit_ms)],
                           stdout=subprocess.PIPE, stderr=subprocess.DEVNULL, env=ENV)
        lines = p.stdout.decode("utf-8", "replace").split("\n")
        if lines and lines[-1] == "":
            lines.pop()
        outs += lines
        skip = len(outs)
        if p.returncode == 0 and skip >= len(cmds):
            break
        if p.returncode == 3:
            continue  # TIMEOUT line already printed for the offending command
        if skip < len(cmds):
            outs.append("CRASH")  # process died without printing the line
            skip = len(outs)
    return outs[:len(cmds)]


def run_impl(ctx, cmds, release=False, limit_ms=5000, tag="impl", shards=12):
    """Run the harness over cmds (list of strings); returns list of output lines, same length.
    Survives timeouts (exit 3) and crashes by restarting after the offending command.
    The commands are independent: they are split over several harness processes."""
    path = os.path.join(ctx.rundir, "%s.cmds" % tag)
    n = len(cmds)
    shards = max(1, min(shards, n // 40 + 1))
    if shards == 1:
        return _run_impl_shard(path, cmds, release, limit_ms)
    from concurrent.futures import ThreadPoolExecutor
    per = (n + shards - 1) // shards
    parts = [cmds[i * per:(i + 1) * per] for i in range(shards)]
    with ThreadPoolExecutor(max_workers=shards) as ex:
        res = list(ex.map(lambda ip: _run_impl_shard("%s.%d" % (path, ip[0]), ip[1], release, limit_ms), enumerate(parts)))
    return [l for r in res for l in r]


def run_model(ctx, cmds, tag="model", shards=16):
    path = os.path.join(ctx.rundir, "%s.cmds" % tag)
    n = len(cmds)
    if n == 0:
        return []
    shards = max(1, min(shards, n // 200 + 1))
    procs = []
    per = (n + shards - 1) // shards
    for i in range(shards):
        part = cmds[i * per:(i + 1) * per]
        pp = "%s.%d" % (path, i)
        with open(pp, "w", encoding="utf-8") as f:
            f.write("\n".join(part) + "\n")
        procs.append((subprocess.Popen([DRIVER, pp], stdout=subprocess.PIPE, stderr=subprocess.DEVNULL), len(part)))
    outs = []
    for p, k in procs:
        o = p.communicate()[0].decode("utf-8", "replace").split("\n")
        if o and o[-1] == "":
            o.pop()
        o = (o + ["MODEL-CRASH"] * k)[:k]
        outs += o
    return outs


def same(a, b):
    """outputs agree; the implementation's TIMEOUT/CRASH correspond to the model's TIMEOUT"""
    if a == b:
        return True
    return False


# ---------------------------------------------------------------------------------------------
# verdicts, evidence
# ---------------------------------------------------------------------------------------------
def write_replay(ctx, name, obj):
    p = os.path.join(REPLAY, "%s-%s.json" % (ctx.pid, name))
    with open(p, "w", encoding="utf-8") as f:
        json.dump(obj, f, indent=1, ensure_ascii=True)
    return p


def load_known(pid):
    p = os.path.join(ROOT, "known_findings.json")
    if not os.path.exists(p):
        return []
    return [k for k in json.load(open(p)).get("findings", []) if k.get("property") == pid]


def finish(ctx):
    """write evidence, print verdict lines, exit"""
    wall = time.time() - ctx.t0
    cov = dict(ctx.coverage)
    pr = ctx.proof or dict(obligations=0, discharged=0, cmd="", failed=["no proof step run"], theorems=[])
    cov.setdefault("obligations", pr["obligations"])
    cov.setdefault("discharged", pr["discharged"])
    cov.setdefault("checker_cmd", pr["cmd"])
    cov.setdefault("trusted_base", TRUSTED_BASE)
    cov.setdefault("theorems", pr.get("theorems", []))
    cov.setdefault("proof_failures", pr.get("failed", []))
    cov.setdefault("evaluations", 0)
    cov.setdefault("distinct_nontrivial", 0)
    cov.setdefault("samples", [])
    cov["known_findings_replayed"] = ctx.known_lines
    cov["notes"] = ctx.notes
    ev = dict(property_id=ctx.pid, tier=ctx.tier, seed=ctx.seed, level="proof", coverage=cov,
              assumptions=TRUSTED_BASE, wall_s=round(wall, 2), violations=len(ctx.violations))
    os.makedirs(EVID, exist_ok=True)
    with open(os.path.join(EVID, ctx.pid + ".json"), "w", encoding="utf-8") as f:
        json.dump(ev, f, indent=1, ensure_ascii=True)
    for l in ctx.known_lines:
        print("KNOWN-FINDING: property=%s %s" % (ctx.pid, l))
    for path, suffix in ctx.violations:
        print("VIOLATION property=%s replay=%s%s" % (ctx.pid, path, (" " + suffix) if suffix else ""))
    print("%s %s: proofs %d/%d, evaluations %d, distinct %d, violations %d, %.1fs" % (
        ctx.pid, ctx.tier, cov["discharged"], cov["obligations"], cov["evaluations"],
        cov["distinct_nontrivial"], len(ctx.violations), wall))
    sys.exit(1 if ctx.violations else 0)


def violation(ctx, name, obj, found_input):
    p = write_replay(ctx, name, obj)
    ctx.violations.append((p, "" if found_input else "no-failing-input-found"))


def store_cmd(cmd, files, base):
    """files: list of (path, text or None for an IO fault)"""
    parts = [cmd, str(len(files))]
    for p, t in files:
        parts += [enc(p), "t" if t is not None else "f", enc(t) if t is not None else "-"]
    parts.append(enc(base))
    return " ".join(parts)


import re as _re
_PICKS = _re.compile(r" ?PICKS\[([^\]]*)\]")


def run_pair_with_picks(ctx, mk_cmd, inputs, release=False, limit_ms=8000, tag="p"):
    """For commands whose model needs the implementation's exit choices: run the implementation
    first, read PICKS[...] from each output line, then run the model with them.
    mk_cmd(picks, input) -> command string.  Returns (impl_lines_without_picks, model_lines)."""
    impl = run_impl(ctx, [mk_cmd("-", x) for x in inputs], release=release, limit_ms=limit_ms, tag=tag + "-impl")
    picks, cleaned = [], []
    for l in impl:
        m = _PICKS.search(l)
        picks.append((m.group(1) or "-") if m else "-")
        cleaned.append(_PICKS.sub("", l))
    model = run_model(ctx, [mk_cmd(p, x) for p, x in zip(picks, inputs)], tag=tag + "-model")
    return cleaned, model
