#!/usr/bin/env python3
"""Development-time tool (not a registered check): verify a seeded change delivered in a scratch
worktree, keep it under /verif/seeded/, and run the named property checks against it.
usage: seedtest.py <worktree> <name> <prop> [<prop> ...]"""
import json, os, shutil, subprocess, sys
ROOT = os.path.dirname(os.path.dirname(os.path.abspath(__file__)))


def sh(cmd, cwd=None, timeout=3000):
    p = subprocess.run(cmd, shell=True, cwd=cwd, stdout=subprocess.PIPE, stderr=subprocess.STDOUT, timeout=timeout)
    return p.returncode, p.stdout.decode("utf-8", "replace")


def main():
    wt, name, props = sys.argv[1], sys.argv[2], sys.argv[3:]
    env = "CARGO_TARGET_DIR=%s/target CARGO_NET_OFFLINE=true" % wt
    seed = os.path.join(wt, "SEED")
    res = {}
    rc, out = sh("%s cargo test --workspace --no-fail-fast --offline 2>&1 | grep -E '^test result|FAILED' " % env, cwd=wt)
    results = [l for l in out.split("\n") if l.startswith("test result")]
    res["tests_with_change"] = bool(results) and all(l.startswith("test result: ok") for l in results) and "FAILED" not in out
    res["tests_output"] = [l for l in out.split("\n") if l.startswith("test result")][:4]
    demo = os.path.join(seed, "demo.sh")
    if os.path.exists(demo):
        sh("%s cargo build --offline" % env, cwd=wt)
        rc1, _ = sh("bash %s %s/target/debug/rva" % (demo, wt), cwd=wt)
        sh("git apply -R SEED/patch.diff", cwd=wt)
        sh("%s cargo build --offline" % env, cwd=wt)
        rc0, _ = sh("bash %s %s/target/debug/rva" % (demo, wt), cwd=wt)
        sh("git apply SEED/patch.diff", cwd=wt)
        res["demo_with_change_rc"], res["demo_without_change_rc"] = rc1, rc0
    dst = os.path.join(ROOT, "seeded", name)
    shutil.rmtree(dst, ignore_errors=True)
    shutil.copytree(seed, dst)
    patch = os.path.join(dst, "patch.diff")
    rc, out = sh("git -C /repo apply --check %s" % patch)
    res["applies_to_repo"] = rc == 0
    det = {}
    if rc == 0:
        sh("git -C /repo apply %s" % patch)
        try:
            for p in props:
                rc, out = sh("python3 tools/check.py %s --tier quick" % p, cwd=ROOT, timeout=1800)
                vio = [l for l in out.split("\n") if l.startswith("VIOLATION")]
                det[p] = dict(exit=rc, violation=vio[:1])
                if vio:
                    path = vio[0].split("replay=")[1].split(" ")[0]
                    if os.path.exists(path):
                        shutil.copy(path, os.path.join(dst, "replay-%s.json" % p))
        finally:
            sh("git -C /repo checkout -- .")
    res["checks"] = det
    meta_p = os.path.join(dst, "meta.json")
    meta = json.load(open(meta_p)) if os.path.exists(meta_p) else {}
    meta["verified"] = res
    json.dump(meta, open(meta_p, "w"), indent=1)
    print(json.dumps(res, indent=1))
    # rebuild the harness against the restored tree
    sh("cargo build --offline --quiet; cargo build --offline --release --quiet", cwd=os.path.join(ROOT, "harness"))


if __name__ == "__main__":
    main()
