#!/usr/bin/env python3
"""Development-time tool (not a registered check): rebuild seeded/MATRIX.md from the meta.json files (no runs)."""
import json, os
ROOT = os.path.dirname(os.path.dirname(os.path.abspath(__file__)))


def main():
    rows = []
    for name in sorted(os.listdir(os.path.join(ROOT, "seeded"))):
        d = os.path.join(ROOT, "seeded", name)
        if not os.path.isdir(d):
            continue
        pid = name.split("-")[0]
        meta = json.load(open(os.path.join(d, "meta.json")))
        ch = meta.get("verified", {}).get("checks", {})
        props = [pid] + sorted(p for p in ch if p != pid)
        cells = []
        for p in props:
            v = ch.get(p, {})
            vio = (v.get("violation") or [""])[0]
            cells.append("%s: %s" % (p, "failing input" if vio and "no-failing-input-found" not in vio else ("proof/correspondence only" if vio else "not caught")))
        what = meta.get("what") or meta.get("description") or meta.get("nickname") or ""
        rows.append((name, str(what)[:160].replace("|", "/").replace("\n", " "), "; ".join(cells)))
    with open(os.path.join(ROOT, "seeded", "MATRIX.md"), "w") as f:
        f.write("| seeded change | what it does | checks (quick tier) |\n|---|---|---|\n")
        for r in rows:
            f.write("| %s | %s | %s |\n" % r)
    print(len(rows), "rows;", sum(1 for r in rows if not r[2].startswith(r[0].split("-")[0] + ": failing input")), "not caught with a failing input by their own check")


if __name__ == "__main__":
    main()
