"""A concrete RV32IM interpreter over the implementation's own graph dump (tools/dump.py), used as the
search oracle of C01 (claims are true of the machine) and C03 (executed transfers are edges).
Calls are executed for real; every activation remembers its entry state."""
import dump, lib

M32 = (1 << 32) - 1


def s32(x):
    x &= M32
    return x - (1 << 32) if x & (1 << 31) else x


def alu(op, x, y):
    ux, uy = x & M32, y & M32
    sh = uy & 31
    if op in ("add", "addi"): return s32(x + y)
    if op == "sub": return s32(x - y)
    if op in ("and", "andi"): return s32(ux & uy)
    if op in ("or", "ori"): return s32(ux | uy)
    if op in ("xor", "xori"): return s32(ux ^ uy)
    if op in ("sll", "slli"): return s32(ux << sh)
    if op in ("srl", "srli"): return s32(ux >> sh)
    if op in ("sra", "srai"): return s32(x >> sh)
    if op in ("slt", "slti"): return 1 if x < y else 0
    if op in ("sltu", "sltiu"): return 1 if ux < uy else 0
    if op == "mul": return s32(x * y)
    if op == "mulh": return s32((x * y) >> 32)
    if op == "mulhsu": return s32((x * uy) >> 32)
    if op == "mulhu": return s32((ux * uy) >> 32)
    if op == "div":
        if y == 0: return -1
        if x == -(1 << 31) and y == -1: return x
        q = abs(x) // abs(y)
        return s32(q if (x < 0) == (y < 0) else -q)
    if op == "divu": return -1 if uy == 0 else s32(ux // uy)
    if op == "rem":
        if y == 0: return x
        if x == -(1 << 31) and y == -1: return 0
        r = abs(x) % abs(y)
        return s32(r if x >= 0 else -r)
    if op == "remu": return x if uy == 0 else s32(ux % uy)
    return None


class Abort(Exception):
    pass


class Machine:
    def __init__(self, g, rng, max_steps=3000):
        self.g, self.rng, self.max_steps = g, rng, max_steps
        self.ns = g["nodes"]
        self.first_label = {}
        for n in self.ns:
            for l in n.labels:
                self.first_label.setdefault(l, n.idx)
        self.regs = [0] + [s32(rng.getrandbits(32)) for _ in range(31)]
        self.regs[2] = 0x7fff0000 + 16 * rng.randrange(0, 256) - (1 << 32) if False else s32(0x7ffe0000 + 16 * rng.randrange(0, 256))
        self.mem = {}
        self.acts = [dict(s0=list(self.regs), ret=None)]
        self.trace = []           # (node index, next index)
        self.executed = set()
        self.findings = []

    def rd(self, r): return 0 if r == 0 else self.regs[r]

    def wr(self, r, v):
        if r != 0: self.regs[r] = s32(v)

    def byte(self, a): return self.mem.get(a & M32, 0)

    def loadu(self, a, w): return sum(self.byte(a + k) << (8 * k) for k in range(w))

    def store(self, a, v, w):
        for k in range(w):
            self.mem[(a + k) & M32] = (v >> (8 * k)) & 255

    def addr(self, label):
        return s32(0x10010000 + 64 * (self.first_label.get(label, 0)))

    def holds(self, v, x):
        s0 = self.acts[-1]["s0"]
        if v.startswith("c:"): return x == int(v[2:])
        if v.startswith("a:"): return x == self.addr(lib.dec(v[2:]))
        if v.startswith("ors:"):
            _, r, off = v.split(":")
            return x == s32((0 if int(r) == 0 else s0[int(r)]) + int(off))
        return True

    def check_claims(self, n):
        s0 = self.acts[-1]["s0"]
        for k, v in n.ri.items():
            if not self.holds(v, self.rd(int(k))):
                self.findings.append("node %d: claim x%s = %s but the machine has %d (entry value %s)" % (
                    n.idx, k, v, self.rd(int(k)), s0[int(v.split(':')[1])] if v.startswith("ors:") else "-"))
        for k, v in n.mi.items():
            if k.startswith("so:"):
                off = int(k[3:])
                if -(1 << 20) <= off < (1 << 20):
                    w = s32(self.loadu(s0[2] + off, 4))
                    if not self.holds(v, w):
                        self.findings.append("node %d: claim slot sp%+d = %s but the machine has %d" % (n.idx, off, v, w))

    def run(self):
        pc, steps = 0, 0
        while steps < self.max_steps:
            steps += 1
            if pc >= len(self.ns):
                raise Abort("fell off the end")
            n = self.ns[pc]
            self.executed.add(pc)
            if n.kind not in ("progentry", "funcentry"):
                self.check_claims(n)
            nxt = pc + 1
            k = n.kind
            v = dump.val
            if k == "funcentry":
                if self.acts[-1].get("pending") != pc:
                    raise Abort("function entered without a call")
                self.acts[-1]["pending"] = None
            elif k in ("arith", "iarith"):
                op = v(n.body[1])
                x = self.rd(int(v(n.body[3])))
                y = self.rd(int(v(n.body[4]))) if k == "arith" else int(v(n.body[4]))
                if op == "lui":
                    res = y
                else:
                    res = alu(op, x, y)
                    if res is None:
                        raise Abort("unsupported " + op)
                self.wr(int(v(n.body[2])), res)
            elif k == "loadaddr":
                self.wr(int(v(n.body[2])), self.addr(lib.dec(v(n.body[3]))))
            elif k == "load":
                op, a = v(n.body[1]), self.rd(int(v(n.body[3]))) + int(v(n.body[4]))
                w = {"lb": 1, "lbu": 1, "lh": 2, "lhu": 2}.get(op, 4)
                u = self.loadu(a, w)
                if op in ("lb", "lh") and u >> (8 * w - 1):
                    u -= 1 << (8 * w)
                self.wr(int(v(n.body[2])), u)
            elif k == "store":
                op = v(n.body[1])
                a_ = self.rd(int(v(n.body[2]))) + int(v(n.body[4]))
                w_ = {"sb": 1, "sh": 2}.get(op, 4)
                for act in self.acts[1:]:
                    if 0 <= ((a_ - act["s0"][2]) & M32) < (1 << 22) or 0 <= ((a_ + w_ - 1 - act["s0"][2]) & M32) < (1 << 22):
                        act["wrote_above"] = True
                self.store(a_, self.rd(int(v(n.body[3]))) & M32, {"sb": 1, "sh": 2}.get(op, 4))
            elif k == "branch":
                op, x, y = v(n.body[1]), self.rd(int(v(n.body[2]))), self.rd(int(v(n.body[3])))
                taken = {"beq": x == y, "bne": x != y, "blt": x < y, "bge": x >= y,
                         "bltu": (x & M32) < (y & M32), "bgeu": (x & M32) >= (y & M32)}[op]
                if taken:
                    nxt = self.target(lib.dec(v(n.body[4])))
            elif k == "jumplink":
                rd, tgt = int(v(n.body[2])), lib.dec(v(n.body[3]))
                if tgt == "<return>" and dump.is_return_merge(n) and n.nexts:
                    nxt = n.nexts[0]        # a merged return: continue at the function's exit
                elif rd == 1:
                    t = self.target(tgt)
                    if self.ns[t].kind != "funcentry":
                        raise Abort("call to a non-function")
                    self.trace.append((pc, pc + 1, "call"))
                    self.wr(1, 0x00400000 + 4 * pc)
                    self.acts.append(dict(s0=list(self.regs), ret=pc + 1, pending=t))
                    pc = t
                    continue
                else:
                    self.wr(rd, 0x00400000 + 4 * pc)
                    nxt = self.target(tgt)
            elif k == "jumplinkr":
                if not dump.is_return(n):
                    raise Abort("indirect jump")
                act = self.acts.pop()
                if act["ret"] is None or not self.acts:
                    raise Abort("return from the top level")
                # the property quantifies over callees that respect the convention: sp, gp, tp and the saved
                # registers restored, nothing stored at or above the entry stack pointer
                for r in (2, 3, 4, 8, 9, 18, 19, 20, 21, 22, 23, 24, 25, 26, 27):
                    if self.regs[r] != act["s0"][r]:
                        raise Abort("callee breaks the convention")
                if act.get("wrote_above"):
                    raise Abort("callee wrote above its entry stack pointer")
                # convention check of the callee: sp and saved registers restored
                pc = act["ret"]
                continue
            elif k == "basic":
                op = v(n.body[1])
                if op == "ecall":
                    num = self.rd(17)
                    if num in (10, 93):
                        return "exit"
                    import props.C02 as c02
                    rets = c02.ECALLS.get(num, (0, 3))[1]
                    for b in range(8):
                        if rets >> b & 1:
                            self.wr(10 + b, self.rng.getrandbits(32))
                elif op == "uret":
                    raise Abort("uret")
            elif k in ("csr", "csri"):
                raise Abort("csr")
            self.trace.append((pc, nxt, "edge"))
            pc = nxt
        return "steps"

    def target(self, label):
        if label not in self.first_label:
            raise Abort("undefined label")
        return self.first_label[label]


def run_graph(g, rng, runs=2):
    """-> (findings, traces) ; findings are claim violations"""
    findings, edges, executed = [], [], set()
    for _ in range(runs):
        m = Machine(g, rng)
        try:
            m.run()
        except Abort:
            pass
        except (IndexError, ValueError, KeyError):
            pass
        findings += m.findings
        edges += m.trace
        executed |= m.executed
    return findings, edges, executed
