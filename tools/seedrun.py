#!/usr/bin/env python3
"""Development-time tool (not a registered check): apply a stored seeded change to /repo, run the named
property checks (quick tier), undo the change, and record the outcome in seeded/<name>/meta.json.
usage: seedrun.py <name> <prop> [<prop> ...]"""
import json, os, shutil, subprocess, sys
ROOT = os.path.dirname(os.path.dirname(os.path.abspath(__file__)))


def sh(cmd, cwd=None, timeout=3000):
    p = subprocess.run(cmd, shell=True, cwd=cwd, stdout=subprocess.PIPE, stderr=subprocess.STDOUT, timeout=timeout)
    return p.returncode, p.stdout.decode("utf-8", "replace")


def main():
    name, props = sys.argv[1], sys.argv[2:]
    dst = os.path.join(ROOT, "seeded", name)
    patch = os.path.join(dst, "patch.diff")
    rc, out = sh("git -C /repo status --porcelain")
    assert out.strip() == "", "/repo not clean"
    rc, out = sh("git -C /repo apply %s" % patch)
    assert rc == 0, out
    det = {}
    try:
        for p in props:
            rc, out = sh("python3 tools/check.py %s --tier quick" % p, cwd=ROOT, timeout=2400)
            vio = [l for l in out.split("\n") if l.startswith("VIOLATION")]
            det[p] = dict(exit=rc, violation=vio[:1])
            if vio:
                path = vio[0].split("replay=")[1].split(" ")[0]
                if os.path.exists(path):
                    shutil.copy(path, os.path.join(dst, "replay-%s.json" % p))
    finally:
        sh("git -C /repo checkout -- .")
    meta_p = os.path.join(dst, "meta.json")
    meta = json.load(open(meta_p)) if os.path.exists(meta_p) else {}
    meta.setdefault("verified", {}).setdefault("checks", {}).update(det)
    json.dump(meta, open(meta_p, "w"), indent=1)
    print(json.dumps(det, indent=1))
    sh("cargo build --offline --quiet; cargo build --offline --release --quiet", cwd=os.path.join(ROOT, "harness"))


if __name__ == "__main__":
    main()
