#!/usr/bin/env python3
"""Writes MANIFEST.json from the table below (kept in one place so it stays valid)."""
import json, os
ROOT = os.path.dirname(os.path.dirname(os.path.abspath(__file__)))
NOTE = ("Trusted: Coq 8.16.1 kernel (coqc, vm_compute; no native_compute); no axioms (Print Assumptions checked every run); "
        "hand-written Gallina model tied to /repo by a differential correspondence run in every check; extraction via ExtrOcamlBasic only; "
        "OCaml driver, Rust harness, Python generators; Spec/ files are the author's reading of the manuals. ")
CLAIMED = {
 "C08": dict(text="Constant folding: Coq theorem C08_fold_correct proves, for all 18 operators and all 2^64 i32 operand pairs, that the model of "
                  "MathOp::operate equals an independently written RV32IM specification (FoldSpec) and stays in range. The model is tied to "
                  "cfg/ops.rs by differential execution (debug and release builds) on a boundary grid squared plus random pairs; the same run "
                  "judges the implementation's results against the extracted specification, so a wrong fold is reported with the operand pair.",
             design="8/C08", note=NOTE + "Modelled: Rust i32/i64/u64 arithmetic as Z with explicit wrap.",
             technique="Coq proof over a Gallina model + differential correspondence against the Rust code"),
 "C17": dict(text="Literals: Coq theorem C17_imm_exact proves for every string over the lexer's symbol alphabet that the model of Imm::from_str "
                  "never panics, accepts exactly the spellings that denote a value with a 32-bit representation (hex/bin up to 2^32-1, decimal "
                  "signed range), returns that value's two's-complement word, and rejects everything else; C17_lui_exact and C17_csr_exact cover "
                  "lui's 20-bit check and CSR operands. Tied to parser/imm.rs by differential execution of Imm::from_str/CsrImm::from_str in both "
                  "profiles on boundary spellings in all notations plus malformed and random strings; the extracted LitSpec judges every answer.",
             design="8/C17", note=NOTE + "Modelled, not verified: u32::from_str_radix, str::parse::<i64>, str::trim, to_lowercase on ASCII.",
             technique="Coq proof over a Gallina model + differential correspondence against the Rust code"),
}
ALL = ["C%02d" % i for i in range(1, 20)]
checks = []
for pid in ALL:
    if pid in CLAIMED:
        c = CLAIMED[pid]
        checks.append(dict(property_id=pid, quick_cmd="python3 tools/check.py %s --tier quick" % pid,
                           thorough_cmd="python3 tools/check.py %s --tier thorough" % pid,
                           evidence_file="/verif/evidence/%s.json" % pid,
                           replay_cmd_template="python3 tools/check.py %s --replay {path}" % pid,
                           engine="coq+correspondence",
                           level_claimed=dict(category="proof", text=c["text"], design_ref=c["design"]),
                           level_note=c["note"], technique=c["technique"]))
na = [dict(property_id=p, reason="not claimed yet: the model/theorems for this property are still being built (the technique applies; see DESIGN.md 8)")
      for p in ALL if p not in CLAIMED]
m = dict(version=1, setup_cmd="bash tools/setup.sh",
         hooks=dict(guard="rva_verif", enable="none needed: every stage boundary is public API; the harness crate depends on /repo by path",
                    baseline_off_cmd="cd /repo && cargo test --workspace --no-fail-fast --offline", source_commits=[], add_only=True),
         engines=[dict(name="coq+correspondence", path="/verif/tools/check.py", serves_properties=sorted(CLAIMED),
                       kind_free_text="Coq 8.16 theorems over a hand-written Gallina model; model extracted to OCaml and compared with the Rust implementation on generated inputs")],
         checks=checks, not_applicable=na,
         notes="See DESIGN.md. Fix commits in /repo are listed in known_findings.json as 'fixed:' entries.")
json.dump(m, open(os.path.join(ROOT, "MANIFEST.json"), "w"), indent=1)
print("claimed", sorted(CLAIMED))
