#!/usr/bin/env python3
"""Writes MANIFEST.json from the table below (kept in one place so it stays valid)."""
import json, os
ROOT = os.path.dirname(os.path.dirname(os.path.abspath(__file__)))
NOTE = ("Trusted: Coq 8.16.1 kernel (coqc, vm_compute; no native_compute); no axioms (Print Assumptions checked every run); "
        "hand-written Gallina model tied to /repo by a differential correspondence run in every check; extraction via ExtrOcamlBasic only; "
        "OCaml driver, Rust harness, Python generators; Spec/ files are the author's reading of the manuals. ")
CLAIMED = {
 "C08": dict(text="Constant folding: Coq theorem C08_fold_correct proves, for all 18 operators and all 2^64 i32 operand pairs, that the model of "
                  "MathOp::operate equals an independently written RV32IM specification (FoldSpec) and stays in range. The model is tied to "
                  "cfg/ops.rs by differential execution (debug and release builds) on a boundary grid squared plus random pairs; the same run "
                  "judges the implementation's results against the extracted specification, so a wrong fold is reported with the operand pair. Decoding: C08_decode_tables proves "
                  "that every base mnemonic of the manual's table is recognised in any letter case and carries the manual's operation, width and signedness; Props/C08sem.v proves the SEMANTICS of "
                  "pseudo-expansion on the ISA machine of Spec/Rv32.v: for mv, neg, not, seqz, snez, sltz, sgtz, li and nop the node the parser builds from the tokens has, on every machine state, "
                  "exactly the effect the assembly manual describes (Spec/PseudoSpec.v, written from the manual: e.g. seqz rd, rs writes 1 iff rs = 0 - an expansion to a SIGNED compare is refuted "
                  "by a computed example), and for beqz, bnez, bltz, bgez, bgtz, blez, bgt, ble, bgtu, bleu the built branch node's ISA condition (PcSpec.branch_holds) equals the manual's condition "
                  "on the named operands (signed, resp. unsigned for bgtu/bleu), with the written label as target and no effect on the state. Props/C08sem2.v does the same for the BASE instructions, each stated once over the "
                  "manual's tables: for every register-register and register-immediate mnemonic of AsmSpec.manual_arith the node built from `m rd, rs1, rs2|imm` writes FoldSpec.eval of the manual's operation on the named "
                  "operands into rd; for every load/store mnemonic in the off(rs1) form the effect is the Rv32 load/store with the MANUAL's width and signedness at rs1+off; `la` writes the label's address; `j/b` are jumps "
                  "with link register x0, `jal l`/`call l` calls with link register ra, `jr rs`/`ret` register jumps of which exactly those through ra are returns. Besides, every mnemonic x operand form of the manual is parsed by code and model and its "
                  "architectural effect judged, the registers each line READS are observed through liveness and judged against the manual (every register whose value changes the line's effect; exactly rs1 for CSR forms), and "
                  "the control transfer of every jump and branch form (any link register) is read off the graph's successor edges.",
             design="8/C08", note=NOTE + "Modelled: Rust i32/i64/u64 arithmetic as Z with explicit wrap.",
             technique="Coq proof over a Gallina model + differential correspondence against the Rust code"),
 "C17": dict(text="Literals: Coq theorem C17_imm_exact proves for every string over the lexer's symbol alphabet that the model of Imm::from_str "
                  "never panics, accepts exactly the spellings that denote a value with a 32-bit representation (hex/bin up to 2^32-1, decimal "
                  "signed range), returns that value's two's-complement word, and rejects everything else; C17_lui_exact and C17_csr_exact cover "
                  "lui's 20-bit check and CSR operands. Tied to parser/imm.rs by differential execution of Imm::from_str/CsrImm::from_str in both "
                  "profiles on boundary spellings in all notations plus malformed and random strings; the extracted LitSpec judges every answer; `lui` is additionally driven through the parser with every literal (0..0xFFFFF placed in the "
                  "upper 20 bits, anything else a parse error on the literal).",
             design="8/C17", note=NOTE + "Modelled, not verified: u32::from_str_radix, str::parse::<i64>, str::trim, to_lowercase on ASCII.",
             technique="Coq proof over a Gallina model + differential correspondence against the Rust code"),

 "C02": dict(text="Liveness: Coq theorems over the model of LivenessPass prove, for ANY graph (loops, irreducible flow, recursion, many returns and call sites), "
                  "that whenever the pass returns its live sets are closed under the documented equations, are below every closed assignment (least "
                  "solution), that along every path a register read at the end and not overwritten on the way is live at the start, that returns "
                  "cover what callers read, and that 'unused value' is reported only on a destination not live out. Tied to analysis/liveness.rs by "
                  "comparing the live/udef sets of every node after the pass on generated programs; an independent Kleene iteration in the checker "
                  "recomputes the least solution from the implementation's own graph and reports the program on any difference. Props/C02pipe.v discharges "
                  "the well-formedness hypotheses for the graph the pipeline hands to the pass: for every pipeline output the statements hold with no premise "
                  "but the pass having returned.",
             design="8/C02", note=NOTE + "Hypothesis wf_live (function ids resolve, returns have no successors) is what C03/C11 establish for pipeline graphs. Non-termination of the pass is C06's business (OutOfFuel is excluded by the theorem's premise).",
             technique="Coq proof (fixed-point/least-solution argument) + differential correspondence"),
 "C03": dict(text="CFG, both directions. Coq theorems prove for every program and every exit choice that after every pipeline stage nexts/prevs are exact "
                  "inverses, that every edge of the finished graph is a fall-through, a jump to the written label or a return merge, that returns and "
                  "exit ecalls have no successors, and that 'unreachable code' is reported only on nodes without predecessors (Props/C03.v). "
                  "Props/C03lbl.v ties 'the written label' to the SOURCE: a label names the next instruction of the node stream (directives and further "
                  "labels in between do not matter), the graph's instruction nodes are the source's instructions in order, and jumps, branches and calls "
                  "go to that instruction (or its function entry) - from nothing but the success of the graph builder. "
                  "Props/C03dyn.v proves the converse: with the program-counter successor relation pc_succ written from the ISA and the label "
                  "definitions (never from the edges), every transfer out of a connected node is an edge (C03_transfers_are_edges, sharp case form "
                  "C03dyn_transfer_cases), every program-counter run from a program or function entry stays graph-reachable and no node on it is "
                  "reported as unreachable code (C03dyn_runs_reach, C03dyn_runs_not_unreachable, C03dyn_free_runs for programs without dead ends). "
                  "Tied to graph.rs/directions.rs/dead_code.rs/ecall_terminate.rs/function_annotations.rs by comparing the graph after each stage; "
                  "the checker verifies on the implementation's graph that every static transfer is an edge and, with a concrete interpreter, that "
                  "every executed transfer is an edge.",
             design="8/C03", note=NOTE + "Hypotheses of the converse, each refuted without it by a computed program and each implied by the property's quantifier (every path ends in ret or an "
                  "exit ecall; no indirect jumps other than ret): source and target are not disconnected by the dead-code pass (code falling off the end or ending in `jr reg`), the "
                  "instruction is not a computed jump, and the ecall was not classified as an exit by the first value analysis only.",
             technique="Coq proof (graph invariants by induction over the passes; edge completeness against an ISA-level successor relation) + differential correspondence + interpreter oracle"),
 "C07": dict(text="Lines: Coq theorems prove that lexing is a homomorphism over blocks of complete lines (so editing one line never changes the tokens "
                  "of another), that parsing any single file terminates without panic, and that, unless the unsupported .macro is used, every "
                  "significant token and every lexical error is inside the range of a produced node or on a line with a reported parse error "
                  "(nothing is dropped silently). Tied to lexer.rs/parsing.rs by comparing items, nodes and errors; the checker re-does the token "
                  "accounting and a delete-one-malformed-line differential on the implementation alone. Parser level (Props/C07par.v): for a text "
                  "A ++ M ++ B of complete lines where A and M end at a statement boundary, nodes and errors are those of A, M and B parsed alone, up to "
                  "positions (C07_parse_line_local), hence replacing or deleting M - whatever it contains - leaves the nodes and errors of A and B unchanged "
                  "(C07_bad_line_contained, C07_delete_block); every line without an open data directive or .macro is such a boundary (C07_plain_line_closed).",
             design="8/C07", note=NOTE + "Hypothesis `closed` (statement boundary) is necessary: a data directive keeps consuming numbers over newlines, .macro swallows lines (counterexamples proved).",
             technique="Coq proof (lexer/parser invariants) + differential correspondence"),
 "C09": dict(text="Locations: Coq theorems prove for every newline-terminated text, both profiles, that lexing succeeds and every token's line/column "
                  "are those of its raw offset, the range lies inside the text on one line and covers exactly the token's spelling, and that tokens "
                  "are ordered and disjoint (Props/C09.v). Props/C09loc.v lifts this to everything the analyzer reports, for single files AND include "
                  "trees with any faults: every operand token of every node is a lexer token of its file inside that node's range (C09loc_operands); a "
                  "node's range is the hull from its statement's first to its last consumed token, nodes of different statements are disjoint and in "
                  "source order - except the two nodes of an expanded `lw rd, label`/`sw rs, label, rt`, which share one range (C09loc_node_range); every "
                  "INSTRUCTION statement consumes its mnemonic and operand tokens only - no newline, no comment - so its range is mnemonic through "
                  "last operand (C09loc_node_range_tight, and C09loc_tree_node_range_tight for include trees; true of every form since the fix of the bare `jalr rs` quirk); every "
                  "parse error is located on a lexer item (C09loc_parse_error); and every location of every diagnostic (through the whole pipeline, by "
                  "the position-parametricity theorem) is in a file that was read, inside its text, with consistent line/column/offset, and is either "
                  "one token or the hull of one statement (C09loc_diagnostics, C09loc_tree_diagnostics). Two non-text locations are explicit "
                  "exceptions: the program-entry node and the error for an unreadable base file. Tied to lexer.rs item by item and to the parser and "
                  "pipeline by the node/diagnostic correspondence; the checker also verifies every printed range against the file text (LF, CRLF, "
                  "leading blank lines, includes) and that behind an instruction's last operand token its range holds at most the closing parenthesis.",
             design="8/C09", note=NOTE + "Multi-line statements (a data directive continued on the next line) have a hull spanning lines: `span_ok` instead of `range_ok`.",
             technique="Coq proof (lexer state invariant; partial-correctness logic of the statement parser; pipeline provenance) + differential correspondence"),
 "C12": dict(text="Fixed point: Coq theorems prove that the value analysis result satisfies its equations over all predecessors whenever the pass returns (unconditional since the fix of its "
                  "early stop; before, the proof had forced the disjunct 'or the run changed nothing'), that "
                  "value analysis and liveness never touch edges, nodes or functions, that ecall termination is idempotent, that on the pipeline's final graph the value equation holds at every node except those that lost a predecessor "
                  "in the last ecall-termination step (exception shown necessary on the witness of the recorded finding), that the live sets satisfy "
                  "the exact equations and are reproduced by a re-run, and that the lints ignore u_def. Tied to available.rs/liveness.rs/"
                  "ecall_terminate.rs by stage dumps; the checker applies random sequences of extra pass runs to the implementation's finished graph "
                  "and requires facts, edges and diagnostics to stay identical. The sweep bound is NOT proved (it is false: see C06 known findings).",
             design="8/C12", note=NOTE + "Termination/sweep bounds are excluded (known findings under C06).",
             technique="Coq proof (fixed-point equations, frame lemmas) + differential correspondence"),
 "C16": dict(text="CFG errors: Coq theorem proves for every program parsed from any include tree that when the analysis stops, the error is one of four "
                  "specific kinds, is about an occurrence of the named label/function in the parsed nodes, and is located in one of the user's files "
                  "(never the nil file, never 'unexpected error'); and that otherwise all eleven lints run. Tied to graph.rs/directions.rs/"
                  "function_annotations.rs/cfg_error.rs by comparing error kinds, payloads and locations; the checker builds programs with each stopping condition on purpose (also inside an included "
                  "file) and requires the right kind at an occurrence of the right name, and that the default output of the rva binary is not silent about it.",
             design="8/C16", note=NOTE + "Relies on the fix commit that introduced the two specific error kinds.",
             technique="Coq proof (case analysis of the error paths, provenance invariant of the value analysis) + differential correspondence"),

 "C04": dict(text="No spurious diagnostics: Coq theorem C04_every_diagnostic_is_due proves for every annotated graph that each of the eleven lints' "
                  "diagnostics is DUE: its trigger condition (LintSpec.trig, stated over the liveness/value facts and register-class tables) holds at "
                  "the reported node - so a program whose facts meet no trigger gets none; C04_clean_facts_no_diags proves that facts meeting the "
                  "convention-level cleanliness conditions give an empty report. Props/C04sem.v joins this with C01 on the ISA machine for the stack diagnostics: "
                  "whenever 'stack pointer above its entry value' or 'stack access at or above the entry stack pointer' is reported (on any graph satisfying the C01 premises, and on every "
                  "pipeline output), EVERY execution that steps out of the reported node really has sp = entry sp + off with off > 0, resp. accesses entry sp + (off+off2) with off+off2 >= 0 "
                  "(C04sem_positive_sp_is_real, C04sem_stack_offset_usage_is_real), hence a program none of whose executions ever raises sp above its entry value gets no such diagnostic "
                  "(C04sem_conforming_sp_no_position_diag; its premise 'the reported node is executed' is shown necessary by a computed program). Tied to lints/*.rs and manager.rs by comparing the full diagnostic "
                  "list (kind, location, related) of implementation and model. The property itself is explored on programs generated "
                  "conforming-by-construction (acyclic call graphs, wrappers, nested branches/loops, calls and ecalls inside function bodies, early returns, frames incl. frame pointers, saved registers, random "
                  "spelling/layout), each confirmed by a concrete run under a convention monitor, which must get zero diagnostics.",
             design="8/C04", note=NOTE + "The step 'a convention-conforming program has clean facts' is a theorem over executions for the two definite stack diagnostics only (C04sem); "
                  "for the other kinds it is covered by the monitored generator.",
             technique="Coq proof (each diagnostic implies its trigger; definite stack diagnostics are true of every execution) + differential correspondence + monitored conforming-program generator"),
 "C05": dict(text="Violations are reported where they occur: Coq theorems prove for every annotated graph that each node meeting a lint's trigger "
                  "condition is reported by that lint at that node's location (C05_triggers_are_reported), that the stack lint reports the first node with a "
                  "bad stack position, and that the use-after-call / use-before-assignment searches report the FIRST reads of the offending register "
                  "reachable without redefinition (breadth-first levels). Tied to lints/*.rs and graph.rs::error_ranges_for_first_usage by comparing the "
                  "diagnostic lists; the checker injects one violation of each kind (incl. read-modify-write first uses) into conforming programs and "
                  "requires the diagnostic of that kind on the injected line.",
             design="8/C05", note=NOTE + "Completeness is relative to the trigger conditions of LintSpec (over analysis facts); that the facts reflect executions is C01/C02.",
             technique="Coq proof (trigger implies report, first-use search correctness) + differential correspondence + violation injection"),
 "C19": dict(text="Serialized facts round-trip: Coq theorems prove for EVERY abstract value, memory location, register set and per-node fact record that the "
                  "model of the serde encoders followed by the decoders returns the original (aval/memloc/regset/facts round trips), including the "
                  "distinct tags of all value kinds. Tied to the Serialize/Deserialize impls (available_value.rs, memory_location.rs, register_set.rs, "
                  "node wrappers) by comparing the YAML/JSON produced by the implementation for whole analysed graphs with the model's, and by a "
                  "serialize-deserialize-compare run on the implementation alone (this found the duplicate ValueInCsr tag, fixed).",
             design="8/C19", note=NOTE + "The `node` field (parser node serialization) is compared differentially, not modelled in the round-trip theorems; serde_yaml/serde_json themselves are trusted.",
             technique="Coq proof (codec round trip) + differential correspondence against serde output"),
 "C10": dict(text="Determinism / no duplicates: Coq theorems over the model of the output stage (DiagnosticItem::sort_for_output: stable sort by file name, "
                  "start and end offset, then removal of every item identical to an earlier one) prove for ANY item list that the result is a sorted "
                  "sub-sequence of a permutation of the input in which items of equal key keep their production order (C10_order), that no item is "
                  "the same as an earlier one, every produced item is represented and nothing is invented (C10_no_duplicates) - so the printed list is "
                  "a function of the produced items and free of duplicates. The model (a function without hash maps) is tied to the code by comparing, "
                  "for every program, the implementation's unsorted and final item lists with the model's output_order of the unsorted list, and (other "
                  "checks) the items themselves. That the Rust passes produce the same items in every run - independence from hash seeds and random "
                  "UUIDs - cannot be proved from a model without hash maps: it is explored by linting each program 5-8 times in one process on fresh "
                  "parsers and 3 times in separate rva processes in 5 output modes, comparing item by item in order. This found seven genuine defects, "
                  "all repaired (fix commits).",
             design="8/C10", note=NOTE + "Partial: independence of the produced items from hash iteration order is observed over repeated runs, not proved (every HashSet/HashMap "
                  "iteration that reaches the output was made order-independent by the fix commits and is listed in DESIGN.md).",
             technique="Coq proof (output stage: stable sort + dedup) + differential correspondence + repeated-run exploration"),
 "C13": dict(text="Spelling independence: 95 Coq theorems. Lexer: a position-free restatement of the lexer (klex) equals the lexer's token keys for every text; "
                  "replacing any non-empty run of space/tab/comma/CR by another, inserting optional separators at self-delimiting boundaries, adding "
                  "a comment before a newline or a blank line changes the key stream exactly as expected (C13_layout_separators, _optional_separators, "
                  "_comment, _blank_line, C13_layout_render), with the exact side conditions (not inside a string/char/comment; counterexamples proved). "
                  "Parser: comments and blank lines are ignored - nodes equal up to positions, errors equal up to the token named after 'found' "
                  "(drive_same_code, parse_texts_same_code) under the proved-necessary provisos (a comment does stop a data directive's value list); a "
                  "valid label on its own line equals the label before its statement (label_own_line). Tables: all 65 register names, mnemonics, "
                  "directives and immediates are case/alias/notation independent (reg_names_sound/_complete, inst_from_str_lower, imm_same_value with "
                  "its exact range proviso, char literals). Operand forms: 11 theorems ((rs) = 0(rs), jalr forms, jal label = jal ra, label ...). "
                  "Pseudo-instructions: 26 theorems pseudo_X (same node as the official expansion up to token text) and the documented exceptions "
                  "(mv = add rd,rs,x0 with equal gen/kill; call; la; RARS operand order of csrw/csrs/csrc; sgez). END TO END "
                  "(C13_same_keys_same_diagnostics, with Props/Param.v): two writings with equal token keys get equal nodes and parse errors up to "
                  "positions and, through the whole pipeline, the same diagnostics each located at the same node index and operand selector. Tied to "
                  "the code by lexer/parser/diagnostic correspondence on rewritten texts; the checker writes every program plainly and with a random "
                  "composition of all listed rewrites at every site and compares diagnostics by statement and operand.",
             design="8/C13", note=NOTE + "Not one theorem: the composition 'any sequence of the listed rewrites preserves diagnostics' - each rewrite class has its theorem and "
                  "the end-to-end theorem covers everything that keeps the token keys; rewrites that change tokens (case, aliases, notations, operand forms, pseudo-instructions) are "
                  "proved at the table/parse_inst level and explored end to end. The parser follows the RARS dialect for csrw/csrs/csrc (register first).",
             technique="Coq proof (position-free lexer, parser/pipeline parametricity in positions, finite tables, per-form parse equalities) + differential correspondence + rewrite metamorphic exploration"),
 "C14": dict(text="Renaming equivariance, whole pipeline: Coq theorems prove for EVERY class permutation sigma (a bijection moving temporaries among "
                  "temporaries, saved among saved, fixing every other register; given as a validated list) and EVERY injective label renaming rho that "
                  "fixes the one reserved internal name: all register-class tables and ecall signatures are invariant (C14_tables); kill/gen, every "
                  "per-node set and predicate are equivariant for every node (C14_regs_node, C14_labels_node); liveness and the value analysis commute "
                  "with the renaming (C14_liveness, C14_avail, C14_transfer); the whole pipeline does (C14_pipeline: gen_full_cfg of the renamed "
                  "program is the renamed graph or the renamed error); and the diagnostics of the renamed program are a PERMUTATION of the original "
                  "ones with identical kinds, locations and flags (C14_items, C14_regs_items; plain equality for label renamings, "
                  "C14_labels_items). Plain list equality under register permutations is refuted by a proved counterexample (three lints enumerate "
                  "register sets in numeric order: only the order of same-node findings changes). Tied to the code by the lint/graph correspondence on "
                  "renamed programs; the checker lints each program as written and after a random renaming/permutation and compares kinds, statements "
                  "and operand positions with operands mapped (this exploration and the proof work found a genuine defect: a user label named "
                  "__return__ captured the analyzer's internal jump name; fixed).",
             design="8/C14", note=NOTE + "Hypotheses: rho injective and fixing the reserved name '<return>' (not a valid identifier since the fix, so every renaming of valid identifiers "
                  "extends to such a rho); for the 'labels not defined' error the reported location/title follows rho only if rho is monotone on the undefined labels (the code "
                  "picks the alphabetically first): counterexample proved, location is always one of the undefined labels. Renaming acts on parsed nodes; that the parser maps "
                  "renamed text to renamed nodes is C13's spelling tables plus the parser correspondence.",
             technique="Coq proof (equivariance of every pipeline stage by simulation) + differential correspondence + renaming metamorphic exploration"),
 "C15": dict(text="Include = textual inclusion: Coq theorems over the model of the file driver prove, for every store, text and fault: parsing is "
                  "parametric in positions and file identities (C15_parse_one_erase, C15_drive_erase); a failing .include (absent path, IO fault, "
                  "already imported = self/cyclic/second inclusion) contributes exactly its error located on the directive's path token, no node, and "
                  "parsing continues as if the line were absent (C15_include_fault, end to end for A ++ line ++ B vs A ++ B up to positions); a "
                  "succeeding .include is equivalent to pasting the file (C15_run_concat exact at driver level, C15_include_paste end to end, nested "
                  "includes allowed) provided the included text and the text before the directive end at a statement boundary (executable predicate "
                  "`closed`; counterexamples proved: a trailing `.word 1` keeps consuming numbers of the next line, an unterminated .macro); every node "
                  "and error produced from an included text carries that file's id and file-relative positions (C15_include_locations, exact). "
                  "Parsing any store always returns. Tied to parsing.rs/reader by comparing nodes, errors and diagnostics on include trees with faults; "
                  "the checker cuts programs into random include trees (in memory and on disk with nested directories through the rva binary) and "
                  "requires the pasted program's diagnostics at the mapped file/line, and checks --all-files against the other-files counter.",
             design="8/C15", note=NOTE + "Hypotheses `closed` (statement boundary) and no_cyclic are needed and shown necessary by proved counterexamples. The CLI's path resolution "
                  "(IOFileReader: relative to the including file, canonicalisation) is exercised on disk, not modelled. Whole-tree flattening follows by iterating the one-level theorem (not stated as one theorem).",
             technique="Coq proof (driver refinement: include = paste, fault step lemmas, position parametricity) + differential correspondence + cut-and-paste metamorphic exploration"),
 "C18": dict(text="Output channels: Coq theorems over the model of printer.rs prove: every lint kind, parse error and CFG error has a non-empty title and "
                  "lint severity is a function of the kind (C18_kind_table); the excerpt is exact - for reported columns on the line after its "
                  "indentation the marker line has carets exactly under columns start..end, keeps tabs/white space before them, and the shown line is "
                  "the source line trimmed (C18_excerpt_exact/_source/_outside cover every other case); the items every channel receives are one "
                  "list sorted by (file name, start, end) and the base-file filter keeps that order and counts the hidden items (C18_visible_sorted, "
                  "C18_display_pretty); the compact line, the pretty header and the JSON record are functions of the same fields and the compact "
                  "output can be decoded back to them (C18_channels_agree, C18_compact_decode, C18_compact_output). Tied to printer.rs by rendering "
                  "the items returned by the library entry point RVParser::run with the extracted printer model and comparing byte for byte with "
                  "the rva binary's pretty and compact output (with/without --all-files); the checker parses JSON, compact and pretty output back and "
                  "compares them with each other and with the library items, order included, and checks JSON shape and excerpt/carets against the file (the marker "
                  "must lie inside the shown line and, for 'Labels not defined', under one of the labels named).",
             design="8/C18", note=NOTE + "Colours are not modelled (none are emitted when stdout is not a terminal); JSON text layout is serde_json's (trusted), compared as parsed data. "
                  "Reader-fault messages differ between the in-memory reader and the CLI reader by design and are normalised in the comparison.",
             technique="Coq proof (printer model: excerpt geometry, order preservation, decodability) + byte-exact differential correspondence + cross-channel exploration"),
 "C01": dict(text="Value analysis soundness: Coq theorem C01_claims_hold_on_executions proves, over an RV32IM machine written from the ISA (arithmetic = the "
                  "FoldSpec of C08, byte-addressed little-endian memory, calls summarised by the calling convention, ecalls by the RARS table), that for ANY "
                  "graph whose facts satisfy the analysis equations and any execution of any length from an entry node inside the supported subset, every "
                  "constant / label-address / entry-value-plus-constant claim on a register or stack slot is true of the machine state before and after "
                  "every node reached; corollary: the a7 value, stack offset and 'original value' facts the lints read are true. For every graph the PIPELINE "
                  "produces (C01_pipeline_claims) the equations and edge symmetry are not assumed but proved: every execution of the final graph is an "
                  "execution of the graph after the last value analysis, which satisfies the equations unconditionally (C12_avail_fix). Proved by transfer "
                  "soundness for every node kind and all seven rules, meet soundness, induction over executions. Tied to available.rs/gen_kill.rs by "
                  "comparing all value facts after each of the three runs of the pass; a concrete interpreter executes every program over the "
                  "implementation's own graph and checks each claim against the machine (this oracle found defect D41).",
             design="8/C01", note=NOTE + "Hypotheses for arbitrary graphs: AvailEqns (C12), Sym (C03) - both discharged for pipeline outputs in Props/C01pipe.v; no edge into an entry node, registers<32 / 32-bit immediates (typing), no CSR instructions, "
                  "no RV64-only forms, jalr only as ret, non-sp stores stay 2 MiB from the entry sp, sp-relative stores and calls happen at a known stack position "
                  "within a 1 MiB window. Nine value-analysis defects were repaired first (fix commits); CSR facts remain outside the theorem.",
             technique="Coq proof (abstract-interpretation soundness against an ISA-level machine) + differential correspondence + concrete-execution oracle"),
 "C06": dict(text="Termination/no crash: Coq theorems prove that lexing any text and parsing any include graph over the in-memory reader (any faults) always "
                  "return (no panic site reachable, fuel suffices), that the pipeline and lints never panic, that only the two dataflow loops can fail "
                  "to return, and that on graphs without back edges both loops DO return within a linear number of sweeps (value analysis: 2 + number of "
                  "loads; liveness on call-free DAGs: 2 + n; a constant bound is refuted for both by computed programs) with results that satisfy their equations. The rest of the property is explored: every input class (soup, raw Unicode, extreme literals and sizes, include graphs, "
                  "self-inclusion on disk) through the library in debug and release builds and the rva binary in ten flag combinations under a watchdog. "
                  "The dataflow loops do NOT always terminate: recorded as known findings (class = the pass that hangs AND the model of that pass running out of fuel "
                  "on the same input); a hang on which the model terminates, and any other hang/panic, is a violation.",
             design="8/C06", note=NOTE + "Partial: termination of AvailableValuePass/LivenessPass is false today (known findings) and not proved for any class; wall-clock "
                  "polynomial bound, stack depth and OS behaviour are observed, not proved.",
             technique="Coq proof (totality of lexer/parser/driver, absence of panic sites) + watchdogged exploration"),
 "C11": dict(text="Functions: Coq theorems prove that function entries are created exactly for label groups containing a called name, that a label owns a "
                  "function iff it sits on an entry, that membership lists are consistent both ways, that every listed node is reachable from the entry "
                  "(unless an exit ecall inside the body cut the flow afterwards; unguarded right after the markup pass), that bodies are EXACTLY the "
                  "reachable set when functions share no instruction, that any return left in a body is its exit and (no sharing) the exit is a return "
                  "and merged returns lead only to it, and that the overlap diagnostic is given exactly for entries in two or more functions. Tied to "
                  "graph.rs/function_annotations.rs by stage dumps; the checker recomputes the same facts on the implementation's graph.",
             design="8/C11", note=NOTE + "Known finding D24 (sharing of a tail that contains no entry is not reported) is outside the proved 'exactly for shared entries' statement.",
             technique="Coq proof (reachability soundness/completeness, invariants of the markup pass) + differential correspondence"),
}
ALL = ["C%02d" % i for i in range(1, 20)]
checks = []
for pid in ALL:
    if pid in CLAIMED:
        c = CLAIMED[pid]
        checks.append(dict(property_id=pid, quick_cmd="python3 tools/check.py %s --tier quick" % pid,
                           thorough_cmd="python3 tools/check.py %s --tier thorough" % pid,
                           evidence_file="/verif/evidence/%s.json" % pid,
                           replay_cmd_template="python3 tools/check.py %s --replay {path}" % pid,
                           engine="coq+correspondence",
                           level_claimed=dict(category="proof", text=c["text"], design_ref=c["design"]),
                           level_note=c["note"], technique=c["technique"]))
na = [dict(property_id=p, reason="not claimed yet: the model/theorems for this property are still being built (the technique applies; see DESIGN.md 8)")
      for p in ALL if p not in CLAIMED]
m = dict(version=1, setup_cmd="bash tools/setup.sh",
         hooks=dict(guard="rva_verif", enable="none needed: every stage boundary is public API; the harness crate depends on /repo by path",
                    baseline_off_cmd="cd /repo && cargo test --workspace --no-fail-fast --offline", source_commits=[], add_only=True),
         engines=[dict(name="coq+correspondence", path="/verif/tools/check.py", serves_properties=sorted(CLAIMED),
                       kind_free_text="Coq 8.16 theorems over a hand-written Gallina model; model extracted to OCaml and compared with the Rust implementation on generated inputs")],
         checks=checks, not_applicable=na,
         notes="See DESIGN.md. Fix commits in /repo are listed in known_findings.json as 'fixed:' entries.")
json.dump(m, open(os.path.join(ROOT, "MANIFEST.json"), "w"), indent=1)
print("claimed", sorted(CLAIMED))
