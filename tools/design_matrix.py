#!/usr/bin/env python3
"""copies seeded/MATRIX.md into DESIGN.md between the MATRIX markers"""
import os
R = os.path.dirname(os.path.dirname(os.path.abspath(__file__)))
s = open(R + "/DESIGN.md").read()
m = open(R + "/seeded/MATRIX.md").read()
i, j = s.index("<!-- MATRIX-BEGIN -->"), s.index("<!-- MATRIX-END -->")
open(R + "/DESIGN.md", "w").write(s[:i] + "<!-- MATRIX-BEGIN -->\n" + m + s[j:])
