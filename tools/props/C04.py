"""C04 - convention-conforming programs produce no diagnostics.
Theorems: Props/C04.v (every diagnostic is due; clean facts give a clean report).  Tie: S11/S12 (all lints and the
item list) on conforming and non-conforming programs.  Exploration of the property itself: programs generated
conforming-by-construction (any call graph incl. recursion, nested branches and loops, frames, saved registers),
rendered with random register spellings and layout, confirmed by a dynamic convention monitor (a concrete run in
which every callee restores sp/gp/tp/saved registers and stores only inside its frame), must get ZERO diagnostics."""
import random
import lib, gen, pipe, dump, interp
from props import common, generic


def run(ctx):
    proof_ok, can_run = common.prepare(ctx, "C04+C04sem")
    if not can_run:
        common.broken_without_input(ctx, "build", ctx.notes[-1] if ctx.notes else "")
        return
    # (stores_for applies the tier's scale itself)
    stores = generic.stores_for(ctx, {"conforming": 150, "rendered-conforming": 150, "injected": 40, "random": 30, "loophead": 30})
    sb = [(f, b) for f, b, _ in stores]
    dis, parsed = pipe.diag_compare(ctx, sb)
    graphs = lib.run_impl(ctx, [lib.store_cmd("cfg live -", f, b) for f, b in sb], tag="graphs")
    failing, monitored, not_confirmed = [], 0, 0
    for (f, b, tag), (sa, ia, sm, im), gl in zip(stores, parsed, graphs):
        if not tag.endswith("conforming"):
            continue
        g = dump.parse(lib._PICKS.sub("", gl))
        confirmed = False
        if g is not None:
            m = interp.Machine(g, random.Random(ctx.seed + len(gl)), max_steps=20000)
            try:
                confirmed = (m.run() == "exit") and not m.findings
            except interp.Abort:
                confirmed = False
            except (IndexError, KeyError, ValueError):
                confirmed = False
        monitored += 1
        if not confirmed:
            not_confirmed += 1
            continue
        if sa == "timeout":
            continue          # termination is C06's property (and its watchdog's business)
        if sa != "ok":
            failing.append(dict(files=f, base=b, kind=tag, why="linting a conforming program ends with %s" % sa))
        elif ia:
            failing.append(dict(files=f, base=b, kind=tag, why="a conforming program gets %d diagnostics: %s" % (
                len(ia), [(x[1], x[4][0]) for x in ia[:4]])))
    ctx.coverage.update(
        evaluations=2 * len(stores), distinct_nontrivial=len(set(str(f) for f, _, _ in stores)),
        rule="conforming-by-construction programs (0-3 functions, recursion, nested if/else and loops, frames with any subset of saved "
             "registers, calls passing exactly the callee's arguments, known ecalls, exit) as generated and re-rendered with random "
             "layout/register spelling; each confirmed conforming by a concrete run under the convention monitor, then linted: zero "
             "diagnostics required; plus injected/random programs for the lint correspondence; distinct = distinct programs",
        samples=[dict(kind=stores[i][2], files=stores[i][0]) for i in (len(stores) // 3, len(stores) // 2)],
        conforming_programs=monitored, not_confirmed_by_monitor=not_confirmed,
        correspondence_disagreements=len(dis), oracle_failures=len(failing), exhaustive=False)
    if failing:
        lib.violation(ctx, "program", dict(property="C04", input=failing[0], all_failing=failing[:10]), True)
        return
    if dis or not proof_ok:
        common.broken_without_input(ctx, "correspondence of the lints" if dis else "theorems of Props/C04.v",
                                    dict(disagreements=dis[:8], proof=ctx.proof["failed"]))


replay = generic.replay
