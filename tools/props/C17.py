"""C17 - numeric literals mean what they say.
Theorems: Props/C17.v (imm_exact, lui_exact, csr_exact).  Tie: Imm::from_str / CsrImm::from_str
called directly, debug and release profiles, against the extracted model; the spec value of
every generated spelling comes from the extracted Coq LitSpec.lit_value and judges the
implementation's answer (search oracle)."""
import lib
from props import common

SYMBOL = set("abcdefghijklmnopqrstuvwxyzABCDEFGHIJKLMNOPQRSTUVWXYZ0123456789_-")


def spellings(rng, thorough):
    vals = set([0, 1, 2, 7, 9, 10, 15, 16, 255, 256, 4095, 4096, 65535, 65536, 1048575, 1048576])
    for k in list(range(0, 36)) + [62, 63, 64, 65]:
        for d in (-1, 0, 1):
            vals.add(2 ** k + d)
    vals = set(v for v in vals if v >= 0)
    for _ in range(400 if thorough else 60):
        vals.add(rng.getrandbits(32))
        vals.add(rng.getrandbits(rng.randrange(1, 70)))
    out = []
    for v in sorted(vals):
        forms = ["%d" % v, "0x%x" % v, "0x%X" % v, "0X%x" % v, "0b" + bin(v)[2:], "0B" + bin(v)[2:]]
        z = rng.randrange(1, 40)
        forms += ["0" * z + "%d" % v, "0x" + "0" * z + "%x" % v, "0b" + "0" * z + bin(v)[2:]]
        hx = "%x" % v
        forms.append("0x" + "".join(c.upper() if rng.random() < 0.5 else c for c in hx))
        for f in forms:
            out.append(f)
            out.append("-" + f)
    malformed = ["", "-", "--", "0x", "0b", "0X", "-0x", "0x-1", "0b-1", "--1", "1-2", "0_1", "1_000", "zero", "ZERO",
                 "Zero", "-zero", "zer0", "zeroo", "0xg", "0xG1", "0b2", "0b12", "x10", "0x1x", "0b1b", "0o17", "1e5",
                 "0x_1", "_1", "1_", "-_", "a", "ff", "0xffffffffffffffffffffffff", "9" * 40, "-" + "9" * 40,
                 "00x1", "0x0x1", "0b0b1", "-0", "-00", "0-", "0x1-", "12ab", "0xabcdefg", "0b102",
                 "2147483647", "2147483648", "-2147483648", "-2147483649", "4294967295", "4294967296",
                 "9223372036854775807", "9223372036854775808", "-9223372036854775808", "-9223372036854775809"]
    out += malformed
    alpha = "0123456789abcdefxbXBzero-_ABCDEFg"
    for _ in range(1500 if thorough else 300):
        n = rng.randrange(1, 14)
        out.append("".join(rng.choice(alpha) for _ in range(n)))
    # strings outside the lexer's alphabet: correspondence only (std parsers accept '+', trim white space)
    odd = ["+1", "+0x1", "0x+1", "0b+1", "-+1", "+-1", " 12", "12 ", " 0x10 ", "\t7", "7\n", "1 2", " 12", "12 ",
           "0x 1", "- 1", "+", "0x+", "λ", "1λ", "é", "12.5", "1,2", "(1)", "'a'", "#1", "0x1.", "+zero", " zero "]
    out += odd
    # de-duplicate preserving order
    seen, res = set(), []
    for s in out:
        if s not in seen:
            seen.add(s)
            res.append(s)
    return res


def wrap32(v):
    u = v % (1 << 32)
    return u if u < (1 << 31) else u - (1 << 32)


def judge(s, impl, spec):
    """C17 clauses on the implementation's answer; None if fine, else a reason."""
    if not all(c in SYMBOL for c in s):
        return None  # outside the quantifier (the lexer never produces it)
    if impl in ("PANIC", "CRASH", "TIMEOUT"):
        return "crashes (%s)" % impl
    sp = None
    if spec.startswith("some "):
        _, v, n = spec.split(" ")
        sp = (int(v), n)
    if impl.startswith("some "):
        i = int(impl.split(" ")[1])
        if sp is None:
            return "accepts a spelling that denotes nothing (as %d)" % i
        v, n = sp
        if not (-(1 << 31) <= v < (1 << 32)):
            return "accepts %d, which has no 32-bit representation, as %d" % (v, i)
        if i != wrap32(v):
            return "reads %d as %d" % (v, i)
        if v >= (1 << 31) and n not in ("hex", "bin"):
            return None  # decimal spellings of bit patterns: accepting is also fine
        return None
    if impl == "none":
        if sp is not None:
            v, n = sp
            if -(1 << 31) <= v < (1 << 31):
                return "rejects %d, a signed 32-bit value" % v
            if n in ("hex", "bin") and (1 << 31) <= v < (1 << 32):
                return "rejects the 32-bit pattern %d written in %s" % (v, n)
        return None
    return "unrecognised answer %r" % impl


def run(ctx):
    proof_ok, can_run = common.prepare(ctx, release=True)
    if not can_run:
        common.broken_without_input(ctx, "build", ctx.notes[-1] if ctx.notes else "")
        return
    lits = spellings(ctx.rng, ctx.thorough())
    cmds = ["imm " + lib.enc(s) for s in lits] + ["csrimm " + lib.enc(s) for s in lits]
    names = ["ustatus", "fflags", "frm", "fcsr", "uie", "utvec", "uscratch", "uepc", "ucause", "utval", "uip",
             "cycle", "time", "instret", "cycleh", "timeh", "instreth", "USTATUS", "Cycle", "mstatus", "cycles"]
    cmds += ["csrimm " + lib.enc(s) for s in names]
    model = lib.run_model(ctx, cmds)
    spec = lib.run_model(ctx, ["litspec " + lib.enc(s) for s in lits], tag="spec")
    disagreements, failing = [], []
    evaluations = 0
    for prof in ("debug", "release"):
        impl = lib.run_impl(ctx, cmds, release=(prof == "release"), tag="impl-" + prof)
        evaluations += len(cmds)
        for c, a, b in zip(cmds, impl, model):
            if a != b:
                disagreements.append(dict(profile=prof, cmd=c, text=lib.dec(c.split(" ")[1]), impl=a, model=b))
        for s, a, sp in zip(lits, impl[:len(lits)], spec):
            why = judge(s, a, sp)
            if why:
                failing.append(dict(profile=prof, literal=s, impl=a, spec=sp, why=why))
    # character literals used as immediates (through the parser): the immediate is the character's code point
    import pipe, re as _re
    chars = [("'%s'" % c, ord(c)) for c in "AZaz09 !#$%&()*+,-./:;<=>?@[]^_`{|}~\u00e9\u00ff\u0100\u03bb\u20ac\u4e2d\U0001f600"] + \
            [("'\\n'", 10), ("'\\t'", 9), ("'\\0'", 0), ("'\\\\'", 92), ("'\\''", 39), ("'\\r'", 13)]
    # \uXXXX escapes: exactly four hexadecimal digits (either letter case) denote that code point; anything else in one of
    # the four places - a sign, a space, a letter beyond f, an underscore, too few digits - and the surrogates are not
    # characters and must be rejected, never read as some number (round 8: from_str_radix accepts a leading '+')
    for h in ("0041", "00e9", "00E9", "03bb", "20AC", "ffff", "FFFD", "0000", "007f", "d7ff", "e000", "aBcD"):
        chars.append(("'\\u%s'" % h, int(h, 16)))
    for h in ("d800", "dfff", "DBFF"):
        chars.append(("'\\u%s'" % h, None))
    for pos in range(4):
        for ch in "+-gGxX_ .,'\"#\u00e9":
            h = list("0041")
            h[pos] = ch
            chars.append(("'\\u%s'" % "".join(h), None))
    for h in ("", "4", "41", "041", "+41", "0x41"):
        chars.append(("'\\u%s'" % h, None))
    ccmds = [lib.store_cmd("parse", pipe.single("li t0, %s\n" % lit), "a.s") for lit, _ in chars]
    ci, cm = lib.run_impl(ctx, ccmds, tag="impl-char"), lib.run_model(ctx, ccmds, tag="model-char")
    evaluations += len(ccmds)
    for (lit, val), a, b in zip(chars, ci, cm):
        if a != b:
            disagreements.append(dict(profile="debug", cmd="parse li t0, " + lit, text=lit, impl=a[:200], model=b[:200]))
        m = _re.search(r"N\(iarith addi@\S+ 5@\S+ 0@\S+ (-?\d+)@", a)
        if val is None:
            if m or "E(" not in a:
                failing.append(dict(profile="debug", literal=lit, impl=a[:300], spec="none",
                                    why="%s is not a well-formed character literal; the analyzer read %s%s" % (
                                        lit, m.group(1) if m else "nothing", "" if "E(" in a else " and reported no error")))
            continue
        if "E(" in a and not m:
            continue          # a literal the lexer rejects is reported, not misread
        if not m or int(m.group(1)) != val:
            failing.append(dict(profile="debug", literal=lit, impl=a[:300], spec="some %d" % val,
                                why="the character literal %s denotes code point %d, the analyzer read %s" % (lit, val, m.group(1) if m else "nothing")))
    # lui through the parser: a literal that denotes 0..0xFFFFF is placed in the upper 20 bits; every other literal is
    # rejected with a parse error on that literal (never truncated or wrapped)
    lsel = [(s_, sp) for s_, sp in zip(lits, spec) if all(ch in SYMBOL for ch in s_) and s_ and not s_.startswith("-0") or s_ in ("-0", "-1")]
    lsel = lsel[::(1 if ctx.thorough() else 3)] + [(s_, sp) for s_, sp in zip(lits, spec) if s_ in ("1048575", "1048576", "0xfffff", "0x100000", "0x100001", "-1", "524288", "0x80000", "4294967295", "0xFFFFFFFF")]
    lcmds = [lib.store_cmd("parse", pipe.single("lui a2, %s\n" % s_), "a.s") for s_, _ in lsel]
    li_, lm = lib.run_impl(ctx, lcmds, tag="impl-lui"), lib.run_model(ctx, lcmds, tag="model-lui")
    evaluations += len(lcmds)
    for (s_, sp), a, b in zip(lsel, li_, lm):
        if a != b:
            disagreements.append(dict(profile="debug", cmd="parse lui a2, " + s_, text=s_, impl=a[:200], model=b[:200]))
        m = _re.search(r"N\(iarith lui@\S+ 12@\S+ 0@\S+ (-?\d+)@", a)
        v = int(sp.split(" ")[1]) if sp.startswith("some ") else None
        why = None
        if v is not None and 0 <= v <= 0xFFFFF:
            if not m or int(m.group(1)) != wrap32(v << 12):
                why = "lui with the literal %s (= %d) must load %d, the analyzer read %s" % (s_, v, wrap32(v << 12), m.group(1) if m else "no instruction")
        elif m:
            why = "lui accepts the literal %s (%s), which is not a 20-bit value, as %s" % (s_, "= %d" % v if v is not None else "malformed", m.group(1))
        elif "E(" not in a:
            why = "lui with the bad literal %s yields neither an instruction nor a parse error" % s_
        if why:
            failing.append(dict(profile="debug", literal="lui a2, " + s_, impl=a[:300], spec=sp, why=why))
    # CSR operands: a numeric CSR operand must be read as the same 32-bit value the literal denotes
    # (named CSRs aside): CsrImm::from_str(s) = Imm::from_str(s) as u32
    named = set(n.lower() for n in names)
    for prof in ("debug", "release"):
        impl = lib.run_impl(ctx, cmds, release=(prof == "release"), tag="impl2-" + prof)
        for s_, a, c in zip(lits, impl[:len(lits)], impl[len(lits):2 * len(lits)]):
            if s_.lower() in named or not all(ch in SYMBOL for ch in s_):
                continue
            exp = ("some %d" % (int(a.split(" ")[1]) % (1 << 32))) if a.startswith("some ") else a
            if c != exp:
                failing.append(dict(profile=prof, literal=s_, impl=c, spec=exp,
                                    why="as a CSR operand the literal is read as %s, as an immediate as %s" % (c, a)))
    nontrivial = set(s for s, sp in zip(lits, spec) if all(c in SYMBOL for c in s))
    ctx.coverage.update(
        evaluations=evaluations, distinct_nontrivial=len(nontrivial),
        rule="each literal spelling (boundary grid 2^k-1,2^k,2^k+1 for k<=65 plus random, in dec/hex/bin, both cases, "
             "leading zeros, optional '-', plus malformed and random symbol strings) is parsed by Imm::from_str and "
             "CsrImm::from_str in the debug and the release build and by the extracted model; distinct = distinct strings over "
             "the lexer's symbol alphabet (the theorem's quantifier); strings outside it are compared model-vs-code only",
        samples=[dict(literal=s, impl=a, spec=sp) for s, a, sp in list(zip(lits, model, spec))[:6]],
        correspondence_disagreements=len(disagreements),
        spellings=len(lits), accepted=sum(1 for m in model[:len(lits)] if m.startswith("some")),
        rejected=sum(1 for m in model[:len(lits)] if m == "none"), exhaustive=False)
    if failing:
        f = failing[0]
        lib.violation(ctx, "literal", dict(property="C17", input=f, all_failing=failing[:20],
                                          how="echo 'imm %s' > cmds; harness/target/%s/rva_harness cmds" % (lib.enc(f["literal"]), f["profile"])), True)
        return
    if disagreements or not proof_ok:
        what = "correspondence Imm::from_str vs Model/Imm.v" if disagreements else "theorems of Props/C17.v"
        common.broken_without_input(ctx, what, dict(disagreements=disagreements[:20], proof=ctx.proof["failed"]))


def replay(ctx, path):
    import json
    r = json.load(open(path))
    print(json.dumps(r, indent=1)[:2000])
    return 0
