"""C02 - liveness covers every real use and is the least solution of its equations.
Theorems: Props/C02.v (live_least, live_covers, dead_only_if_unread, returns_cover_callers).
Tie: S10 (and S9, S7 for the call/ecall classes).  Search oracle: on the implementation's final
graph, (i) recompute the least solution of the documented equations by an independent Kleene
iteration and compare with the implementation's sets (the theorem says they must coincide),
(ii) check every 'unused value' diagnostic against live_out."""
import lib, pipe, dump
from props import generic

TEMP = sum(1 << r for r in (5, 6, 7, 28, 29, 30, 31))
ARG = sum(1 << r for r in range(10, 18))
SAVED = sum(1 << r for r in (8, 9, 18, 19, 20, 21, 22, 23, 24, 25, 26, 27))
CALLER = TEMP | ARG
CALLEE = SAVED | (1 << 2) | (1 << 1)
ALLW = sum(1 << r for r in range(1, 32))
ECALLS = {1: (1, 0), 4: (1, 0), 5: (0, 1), 8: (3, 0), 9: (1, 1), 10: (0, 0), 11: (1, 0), 12: (0, 1), 17: (3, 1), 30: (0, 3),
          31: (15, 0), 32: (1, 0), 33: (15, 0), 34: (1, 0), 35: (1, 0), 36: (1, 0), 40: (3, 0), 41: (1, 1), 42: (3, 1),
          43: (1, 1), 50: (1, 1), 54: (7, 2), 55: (1, 0), 56: (3, 0), 57: (1, 0), 59: (3, 0), 62: (7, 1), 63: (7, 1),
          64: (7, 1), 93: (1, 0), 1024: (3, 1)}


def regs(n, names):
    return [int(dump.val(n.body[i])) for i in names]


def reads(n):
    k = n.kind
    if k == "arith": return regs(n, (3, 4))
    if k in ("iarith", "load"): return regs(n, (3,))
    if k == "jumplinkr": return regs(n, (3,))
    if k in ("branch", "store"): return regs(n, (2, 3))
    if k == "csr": return regs(n, (4,))
    return []


def writes(n):
    if n.kind in ("load", "loadaddr", "arith", "iarith", "jumplink", "jumplinkr", "csr", "csri"):
        return int(dump.val(n.body[2]))
    return None


def gen_kill(n):
    if n.kind == "basic" and dump.val(n.body[1]) == "uret":
        g = ALLW
    elif dump.is_return(n):
        g = CALLEE
    else:
        g = 0
        for r in reads(n):
            g |= 1 << r
    if dump.calls_to(n) is not None or n.kind == "funcentry":
        k = CALLER
    elif writes(n) is not None:
        k = 1 << writes(n)
    else:
        k = 0
    return g & ~1, k & ~1


def lfp(g):
    ns, fs, lf = g["nodes"], g["funcs"], g["labelfn"]
    n = len(ns)
    li, lo = [0] * n, [0] * n
    callee = {}
    for x in ns:
        t = dump.calls_to(x)
        if t is None and x.kind == "jumplink" and dump.val(x.body[2]) == "0":
            t = lib.dec(dump.val(x.body[3]))
        if t is None and x.kind == "branch":
            t = lib.dec(dump.val(x.body[4]))
        if t is not None and t in lf:
            callee[x.idx] = fs[lf[t]]
    changed = True
    while changed:
        changed = False
        for x in ns:
            i = x.idx
            o = 0
            for s in x.nexts:
                o |= li[s]
            gk = gen_kill(x)
            if i in callee:
                f = callee[i]
                new_in = (lo[f["entry"]] & ARG) | (o & ~gk[1]) | gk[0]
                if li[f["exit"]] | o != li[f["exit"]]:
                    li[f["exit"]] |= o
                    changed = True
            elif dump.is_ecall(x):
                k = dump.known_ecall(x)
                a = ECALLS.get(k, (0, 0))[0] if k is not None else 0
                new_in = (o & ~CALLER) | (1 << 17) | (a << 10)
            elif dump.is_return(x):
                new_in = li[i] | gk[0]
            else:
                new_in = (o & ~gk[1]) | gk[0]
            if dump.is_return(x) and i not in callee and not dump.is_ecall(x):
                new_in |= li[i]
            if i in callee and i == callee[i]["exit"]:
                pass
            if new_in != li[i] or o != lo[i]:
                changed = True
            li[i], lo[i] = (new_in if not (dump.is_return(x) and i not in callee) else li[i] | new_in), o
    return li, lo


def oracle(ctx, stores):
    sb = [(f, b) for f, b, _ in stores]
    impl = lib.run_impl(ctx, [lib.store_cmd("cfg live -", f, b) for f, b in sb], tag="oracle")
    bad = []
    for (f, b, tag), line in zip(stores, impl):
        g = dump.parse(lib._PICKS.sub("", line))
        if g is None:
            continue
        ns = g["nodes"]
        # exits that were rewritten into jumps (shared returns, known finding of C11/C06) are outside the
        # simple Kleene oracle: the combined system is still checked by the correspondence
        if any(not dump.is_return(ns[fn["exit"]]) for fn in g["funcs"]):
            continue
        li, lo = lfp(g)
        why = None
        for x in ns:
            if x.li != li[x.idx] or x.lo != lo[x.idx]:
                why = "node %d: live_in/out %d/%d, least solution %d/%d" % (x.idx, x.li, x.lo, li[x.idx], lo[x.idx])
                break
        if why:
            bad.append(dict(files=f, base=b, kind=tag, why=why, graph=line[:1500]))
    return bad


def oracle_returns(ctx):
    """a function's return registers are those some caller reads after the call: values returned in a1..a7 and read by the
    caller are no 'use after call' and no 'unused value'; a temporary the callee does not write, read after the call, is"""
    import gen
    cases = [gen.retreg_prog(ctx.rng) for _ in range(40 * ctx.scale(5))]
    out = lib.run_impl(ctx, [lib.store_cmd("diag -", pipe.single(t), "a.s") for t, _, _ in cases], tag="oracle-returns")
    bad = []
    for (t, rets, genuine), line in zip(cases, out):
        st, items = pipe.parse_diag_line(lib._PICKS.sub("", line))
        if st != "ok":
            continue
        titles = [it[1] for it in items]
        uac = titles.count("Invalid use after call")
        why = None
        if uac != (1 if genuine else 0):
            why = "the caller reads %s, which the callee writes on every path%s: %d 'Invalid use after call' diagnostics" % (
                rets, " (and t4, which it does not)" if genuine else "", uac)
        elif "Unused value" in titles and not genuine:      # (with the genuine case, `li t4` before the call IS unused)
            why = "a value returned in %s and read by the caller is reported as unused" % rets
        if why:
            bad.append(dict(files=pipe.single(t), base="a.s", kind="returns", why=why, output=line[:400]))
    return bad


def both(ctx, stores):
    return oracle(ctx, stores) + oracle_returns(ctx)


def run(ctx):
    generic.run(ctx, "C02+C02pipe", ["live"], dict(conforming=40, flow=100, random=60, injected=40, loopfn=120, handlers=60, cutflow=30), oracle=both, what="liveness")


replay = generic.replay
