"""Shared driver for the properties decided on the analysis pipeline: proof step, stage-wise
correspondence on corpus + generated programs, a property-specific oracle on the
IMPLEMENTATION's own output (the search for a failing input), known findings, verdict."""
import os, sys
import lib, gen, pipe
from props import common
sys.path.insert(0, os.path.join(lib.ROOT, "corpus"))
import programs as corpus_programs


def stores_for(ctx, mix, scale=1):
    """mix: dict generator-name -> count (quick tier); thorough multiplies by 6"""
    k = ctx.scale(6) * scale
    rng = ctx.rng
    # the three witnesses of the non-termination findings (C06) cost a watchdog timeout per stage: only C06 runs them
    out = [(files, base, "corpus:" + name) for name, files, base in corpus_programs.PROGRAMS
           if mix.get("hanging") or not name.startswith(("d21-", "d31-", "d32-"))]
    for _ in range(mix.get("conforming", 0) * k):
        out.append((pipe.single("\n".join(gen.conforming(rng)[0]) + "\n"), "a.s", "conforming"))
    for _ in range(mix.get("injected", 0) * k):
        L, _m = gen.conforming(rng, nfuncs=rng.randrange(1, 3))
        r = gen.inject(rng, L, rng.choice(gen.VIOLATIONS))
        if r:
            out.append((pipe.single("\n".join(r[0]) + "\n"), "a.s", "injected:" + r[1]))
    for _ in range(mix.get("flow", 0) * k):
        out.append((pipe.single(gen.random_flow(rng)), "a.s", "flow"))
    for _ in range(mix.get("random", 0) * k):
        out.append((pipe.single(gen.render(rng, gen.program(rng))), "a.s", "random"))
    for _ in range(mix.get("handlers", 0) * k):
        out.append((pipe.single(gen.handler_prog(rng)), "a.s", "handlers"))
    for _ in range(mix.get("labeldir", 0) * k):        # a directive between a label and the instruction it names (.align, .text, .globl)
        L = gen.conforming(rng, nfuncs=rng.randrange(1, 4))[0] if rng.random() < 0.6 else [l for l in gen.random_flow(rng).split("\n") if l.strip()]
        out_l = []
        for l in L:
            out_l.append(l)
            if l.endswith(":") and rng.random() < 0.5:
                out_l.append(rng.choice([".align 2", ".text", ".globl main", ".align 4", ".text"]))
        out.append((pipe.single("\n".join(out_l) + "\n"), "a.s", "labeldir"))
    for _ in range(mix.get("zeroreg", 0) * k):         # writes to x0 with a computable result, directly followed by reads of x0
        out.append((pipe.single(gen.zero_reg_prog(rng)), "a.s", "zeroreg"))
    for _ in range(mix.get("stoptree", 0) * k):       # the analysis stops on a condition that lies (also) in an included file
        f, _n, kind, _w = gen.stopping_tree(rng)
        out.append((f, "a.s", "stoptree:" + kind))
    if mix.get("cutflow", 0) or mix.get("cutinjected", 0):
        from props import C15          # programs spread over include trees (cut at random line boundaries)
        for _ in range(mix.get("cutflow", 0) * k):
            lines = [l for l in gen.random_flow(rng).split("\n") if l.strip()]
            files, base, _w = C15.split_program(rng, lines)
            out.append((files, base, "cutflow"))
        for _ in range(mix.get("cutinjected", 0) * k):
            L, _m = gen.conforming(rng, nfuncs=rng.randrange(1, 3))
            r = gen.inject(rng, L, rng.choice(gen.VIOLATIONS))
            files, base, _w = C15.split_program(rng, list(r[0]) if r else L)
            out.append((files, base, "cutinjected"))
    for _ in range(mix.get("loophead", 0) * k):
        out.append((pipe.single(gen.loophead_prog(rng)), "a.s", "loophead-conforming"))
    for _ in range(mix.get("ecallloop", 0) * k):
        out.append((pipe.single(gen.ecall_loop_prog(rng)), "a.s", "ecallloop"))
    for _ in range(mix.get("loopfn", 0) * k):
        out.append((pipe.single(gen.loop_fn_prog(rng)), "a.s", "loopfn"))
    for _ in range(mix.get("fold", 0) * k):
        out.append((pipe.single(gen.fold_prog(rng)), "a.s", "fold"))
    for _ in range(mix.get("csrmem", 0) * k):
        out.append((pipe.single(gen.csr_mem_prog(rng)), "a.s", "csrmem"))
    for _ in range(mix.get("loopslot", 0) * k):
        out.append((pipe.single(gen.loop_slot_prog(rng)), "a.s", "loopslot"))
    for _ in range(mix.get("spswitch", 0) * k):
        out.append((pipe.single(gen.sp_switch_prog(rng)), "a.s", "spswitch"))
    for _ in range(mix.get("stack", 0) * k):
        out.append((pipe.single(gen.stack_fuzz(rng)), "a.s", "stack"))
    for _ in range(mix.get("mutated", 0) * k):
        out.append((pipe.single(gen.mutated_text(rng, gen.render(rng, gen.program(rng, rng.randrange(1, 10))))), "a.s", "mutated"))
    for _ in range(mix.get("rendered-conforming", 0) * k):
        L, _m = gen.conforming(rng)
        items = []
        for l in L:
            if l.endswith(":"):
                items.append(("label", l[:-1]))
            else:
                parts = l.split(None, 1)
                ops = [o.strip() for o in parts[1].split(",")] if len(parts) > 1 else []
                items.append(("inst", parts[0], ops))
        out.append((pipe.single(gen.render(rng, items, dict(crlf=False))), "a.s", "rendered-conforming"))
    return out


def run(ctx, prop_file, stages, mix, oracle=None, with_diag=False, known=None, release=False, what="pipeline"):
    """oracle(ctx, stores) -> list of failing dicts (input + why), judged on the implementation alone.
    known(failing) -> KNOWN-FINDING line or None."""
    proof_ok, can_run = common.prepare(ctx, prop_file, release=release)
    if not can_run:
        common.broken_without_input(ctx, "build", ctx.notes[-1] if ctx.notes else "")
        return
    stores = stores_for(ctx, mix)
    sb = [(f, b) for f, b, _ in stores]
    n, dis, hist = (0, [], {})
    if stages:
        n, dis, hist = pipe.stage_compare(ctx, sb, stages)
    ddis = []
    if with_diag:
        ddis, _parsed = pipe.diag_compare(ctx, sb)
        n += len(sb)
    failing = oracle(ctx, stores) if oracle else []
    tags = {}
    for _, _, t in stores:
        t = t.split(":")[0]
        tags[t] = tags.get(t, 0) + 1
    texts = set("\x00".join("%s=%s" % (p, t) for p, t in f) for f, _, _ in stores)
    ctx.coverage.update(
        evaluations=n + len(stores), distinct_nontrivial=len(texts),
        rule="programs = hand-written corpus (every branch of the passes, repaired-defect witnesses) + generated programs "
             "(see input_classes); each is run through the implementation's pass pipeline stopped after each listed stage and "
             "through the extracted model on the same input (with the implementation's exit choices as oracle), dumps compared "
             "field by field; the property's own oracle then judges the implementation's output; distinct = distinct programs",
        samples=[dict(kind=t, files=f) for f, _, t in stores[:2] + stores[-2:]],
        stages=stages, stage_outcomes=hist, input_classes=tags,
        correspondence_disagreements=len(dis) + len(ddis), oracle_failures=len(failing), exhaustive=False)
    fresh = []
    for f in failing:
        line = known(f) if known else None
        if line:
            if line not in ctx.known_lines:
                ctx.known_lines.append(line)
        else:
            fresh.append(f)
    if fresh:
        f = fresh[0]
        lib.violation(ctx, "input", dict(property=ctx.pid, input=f, all_failing=fresh[:10]), True)
        return
    if dis or ddis or not proof_ok:
        whatb = ("correspondence of %s (stages %s)" % (what, ",".join(sorted(set(d["stage"] for d in dis)) or ["diag"]))
                 if (dis or ddis) else "theorems of Props/%s.v" % prop_file)
        common.broken_without_input(ctx, whatb, dict(disagreements=(dis + ddis)[:8], proof=ctx.proof["failed"]))


def replay(ctx, path):
    import json
    print(json.dumps(json.load(open(path)), indent=1)[:4000])
    return 0
