"""Steps shared by the property modules."""
import lib


def prepare(ctx, prop_file=None, release=False):
    """proof step + builds.  Returns (proof_ok, corr_possible)."""
    pr = lib.check_proofs(ctx, prop_file or ctx.pid)
    ctx.proof = pr
    ok_d, log_d = lib.build_driver()
    ok_h, log_h = lib.build_harness(False)
    ok_r, log_r = (True, "")
    if release:
        ok_r, log_r = lib.build_harness(True)
    if not pr["ok"]:
        ctx.notes.append("proof step failed: %s" % "; ".join(pr["failed"]))
    if not ok_d:
        ctx.notes.append("model driver build failed: " + log_d[-500:])
    if not (ok_h and ok_r):
        ctx.notes.append("harness build against /repo failed: " + (log_h + log_r)[-800:])
    return pr["ok"], (ok_d and ok_h and ok_r)


def broken_without_input(ctx, what, detail):
    """a proof or the correspondence no longer checks and the search found no failing input"""
    lib.violation(ctx, "unchecked", dict(property=ctx.pid, broken=what, detail=detail,
                                        note="no failing input found by the search; the property is no longer shown to hold"),
                  found_input=False)
