"""C09 - every reported location designates exactly the text it is about.
Theorems: Props/C09.v (token_range_exact, tokens_ordered; later node_range_hull).  Tie: S1 lexer
item-by-item (kinds, payloads, ranges) in debug and release builds; the search oracle recomputes
line/column from the raw index and compares the covered characters with the token's spelling."""
import lib, gen
from props import common


TIGHT = {"arith", "iarith", "jumplink", "jumplinkr", "basic", "branch", "store", "load", "loadaddr", "csr", "csri"}


def parse_items(line):
    """'K(kind payload a.b.c d.e.f) ...' -> list of dicts"""
    out = []
    for part in line.split(") "):
        part = part.strip()
        if part in ("END", "PANIC", "TIMEOUT", "CRASH", ""):
            continue
        tag, rest = part.split("(", 1)
        f = rest.rstrip(")").split(" ")
        d = dict(tag=tag, kind=f[0], payload=f[1], start=tuple(int(x) for x in f[2].split(".")),
                 end=tuple(int(x) for x in f[3].split(".")))
        if tag == "ES":
            d["epos"] = tuple(int(x) for x in f[4].split("."))
            d["ekind"] = f[5]
        out.append(d)
    return out


def line_col(text, raw):
    pre = text[:raw]
    ln = pre.count("\n")
    col = len(pre) - (pre.rfind("\n") + 1)
    return ln, col


def judge(text, line):
    """range_ok + spelling_ok on the implementation's own output (texts ending in newline only)"""
    if line.endswith("PANIC") or line.endswith("TIMEOUT") or line.endswith("CRASH"):
        return "lexer " + line.split(" ")[-1]
    for it in parse_items(line):
        (sl, sc, sr), (el, ec, er) = it["start"], it["end"]
        if line_col(text, sr) != (sl, sc):
            return "start line/column %s inconsistent with raw index %d (should be %s)" % ((sl, sc), sr, line_col(text, sr))
        if line_col(text, er) != (el, ec):
            return "end line/column %s inconsistent with raw index %d (should be %s)" % ((el, ec), er, line_col(text, er))
        if it["tag"] == "ES":
            continue
        if not (sr <= er < len(text)) or sl != el:
            return "range %s-%s not inside the text on one line" % (it["start"], it["end"])
        cov = text[sr:er + 1]
        k, pl = it["kind"], lib.dec(it["payload"]) if it["kind"] != "chr" else None
        exp = {"lp": "(", "rp": ")", "nl": "\n"}.get(k)
        if k == "sym": exp = pl
        if k == "lab": exp = pl + ":"
        if k == "dir": exp = pl
        if k == "com": exp = "#" + pl
        if exp is not None and cov != exp:
            return "token %s %r covers %r" % (k, exp, cov)
        if k == "str" and not (cov[0] == '"' and cov[-1] == '"' and len(cov) >= 2):
            return "string token covers %r" % cov
        if k == "chr" and not (cov[0] == "'" and cov[-1] == "'" and len(cov) >= 3):
            return "char token covers %r" % cov
    return None


def import_order(files, base):
    """texts of the files in the order the driver imports them (depth-first at each .include)"""
    import re
    store = dict(files)
    order, seen = [], set()

    def visit(p):
        if p not in store or store[p] is None or p in seen:
            return
        seen.add(p)
        order.append(store[p])
        for m in re.finditer(r'^[ \t,]*(?:[A-Za-z_][\w.$]*:[ \t,]*)*\.include[ \t,]+"([^"\n]*)"', store[p], re.M | re.I):
            visit(m.group(1))
    visit(base)
    return order


def pretty_excerpts(ctx):
    """the default (pretty) output of the rva binary is a location too: the excerpt must show the line the diagnostic
    reports, under its own number, with the bars of its three rows in one column and the carets under exactly the
    reported columns - on the lines where the line number gains a digit, with LF and CRLF line ends (round 8)"""
    import json, os, shutil, subprocess
    from props import C18
    ok, log, rva = C18.build_rva(False)
    if not ok:
        return 0, [dict(profile="cli", kind="build", files=[("a.s", "")], why="rva does not build: " + log[-300:])]
    work = os.path.join(ctx.rundir, "pretty")
    shutil.rmtree(work, ignore_errors=True)
    os.makedirs(work)
    bad, n = [], 0
    for ci, (files, base, _tag) in enumerate(C18.line_boundary_stores()):
        text = dict(files)[base]
        path = os.path.join(work, "p%d.s" % ci)
        with open(path, "w", encoding="utf-8", newline="") as f:
            f.write(text)
        try:
            pj = subprocess.run([rva, "lint", "--json", path], stdout=subprocess.PIPE, stderr=subprocess.PIPE, timeout=20)
            pp = subprocess.run([rva, "lint", "--no-color", path], stdout=subprocess.PIPE, stderr=subprocess.PIPE, timeout=20)
            jd = json.loads(pj.stdout.decode("utf-8", "replace"))["diagnostics"]
        except (subprocess.TimeoutExpired, ValueError, KeyError) as e:
            bad.append(dict(profile="cli", kind="lineno", files=[("a.s", text)], why="rva lint on the file fails: %r" % (e,)))
            continue
        pit, _ = C18.parse_pretty(pp.stdout.decode("utf-8", "replace"))
        n += 1
        flines = text.split("\n")
        why = None
        if len(pit) != len(jd) or not jd:
            why = "the pretty output lists %d diagnostics, the JSON output %d" % (len(pit), len(jd))
        for (sev, title, _p, shown, src, marker), x in zip(pit, jd):
            if why:
                break
            l, c0, c1 = x["range"]["start"]["line"], x["range"]["start"]["column"], x["range"]["end"]["column"]
            raw = flines[l] if l < len(flines) else ""
            body = raw.rstrip("\r")
            fnw = len(body) - len(body.lstrip(" \t"))
            if shown != l + 1 or src is None or src.rstrip("\r") != body.strip(" \t"):
                why = "%r: the excerpt shows line %r %r, the diagnostic is on line %d %r" % (title, shown, src, l + 1, body)
            elif marker is not None and marker.startswith("\x00"):
                why = "%r on line %d: %s" % (title, l + 1, marker[1:])
            else:
                carets = [i + fnw for i, ch in enumerate(marker or "") if ch == "^"]
                if carets != list(range(c0, c1 + 1)):
                    why = "%r on line %d: the marker is under columns %s (%r), the diagnostic is about columns %d-%d (%r)" % (
                        title, l + 1, carets[:1] + carets[-1:], body[carets[0]:carets[-1] + 1] if carets else "", c0, c1, body[c0:c1 + 1])
        if why:
            bad.append(dict(profile="cli", kind="lineno", files=[("a.s", text)], lines=len(flines), crlf="\r" in text, why=why,
                            how_cli="write the text (%d pad lines, %s line ends) to a file; rva lint --no-color / --json" % (max(0, len(flines) - 6), "CRLF" if "\r" in text else "LF")))
    return n, bad


def run(ctx):
    proof_ok, can_run = common.prepare(ctx, "C09+C09loc", release=True)
    if not can_run:
        common.broken_without_input(ctx, "build", ctx.notes[-1] if ctx.notes else "")
        return
    k = ctx.scale(4)
    corpus = gen.text_corpus(ctx.rng, 150 * k, 150 * k, 150 * k, 60 * k)
    fixed = ["", "\n", "\n\n", "main:\n", "a", ".", "..\n", ". .\n", ".word2\n", "#", "#\n", "x#y\n", "'a'\n", "'\\n'\n", "'ab'\n",
             "'\n", "''\n", "'\\q'\n", "\"abc\"\n", "\"a\\nb\"\n", "\"a\nb\"\n", "\"abc", "\"\\q\" li\n", "\"\\u00e9\"\n", "\"\\ud800\"\n",
             "a:b:\n", ":\n", ";\n", "x;y\n", "\tli\tt0,5\r\n", "(\n", "4(sp)\n", "-1 a-b _x\n", "\u00e9\n", "li \u03bb\n", ".data:\n",
             ".word 1 \"s\"(\n", "\"s\"#c\n", "'\\u0041'\n", "'\\u00'\n", "a\n" * 50, "." * 200 + "\n", "main: li t0, 5"]
    corpus = [("fixed", t) for t in fixed] + corpus
    texts = [t for _, t in corpus]
    cmds = ["lex " + lib.enc(t) for t in texts]
    cmds_rel = ["lex-release " + lib.enc(t) for t in texts]
    model_d = lib.run_model(ctx, cmds)
    model_r = lib.run_model(ctx, cmds_rel, tag="model-rel")
    impl_d = lib.run_impl(ctx, cmds, release=False, tag="impl-debug")
    impl_r = lib.run_impl(ctx, cmds, release=True, tag="impl-release")
    disagreements, failing = [], []
    for (tag, t), a, b, c, d in zip(corpus, impl_d, model_d, impl_r, model_r):
        if a != b:
            disagreements.append(dict(profile="debug", text=t, impl=a, model=b))
        if c != d:
            disagreements.append(dict(profile="release", text=t, impl=c, model=d))
        if t.endswith("\n"):
            for prof, o in (("debug", a), ("release", c)):
                why = judge(t, o)
                if why:
                    failing.append(dict(profile=prof, text=t, impl=o, why=why))
    kinds = {}
    for l in model_d:
        for it in parse_items(l):
            kinds[it["tag"] + ":" + it["kind"]] = kinds.get(it["tag"] + ":" + it["kind"], 0) + 1
    tags = {}
    for tag, _ in corpus:
        tags[tag] = tags.get(tag, 0) + 1
    ctx.coverage.update(
        evaluations=4 * len(cmds), distinct_nontrivial=len(set(t for t in texts if len(t.strip()) > 0)),
        rule="texts = hand-written edge cases + rendered valid programs with random layout + line-mutated programs + token soup "
             "from the lexer's alphabet + raw Unicode; each is lexed by Lexer (debug and release) and by the extracted model and all "
             "items compared field by field; distinct = distinct non-blank texts",
        samples=[dict(text=texts[i], items=model_d[i]) for i in (4, 9, len(fixed) + 1)],
        correspondence_disagreements=len(disagreements), input_classes=tags, item_kinds=kinds, exhaustive=False)
    # ---- statement / diagnostic level: every range printed by the parser (node, operand, error) and by
    # the whole pipeline (diagnostic items) must be consistent with the text of its file
    import re, pipe
    from props import generic
    RANGE = re.compile(r"@?(\d+)\.(\d+)\.(\d+)[- ](\d+)\.(\d+)\.(\d+)/(\d+)")
    stores = generic.stores_for(ctx, dict(random=40, mutated=40, conforming=10, injected=20, cutinjected=40, cutflow=20, stoptree=10))
    crlf = [([(p, (t.replace("\n", "\r\n") if t is not None else None)) for p, t in f], b, tag + "+crlf") for f, b, tag in stores[::3]]
    lead = [([(p, ("\n\n" + t if t is not None else None)) for p, t in f], b, tag + "+leading-blank") for f, b, tag in stores[1::5]]
    stores = stores + crlf + lead
    # statements that start at the very first character of a file, incl. one-letter mnemonics and single-token statements
    for t in ["j main\nmain:\n li a7, 10\n ecall\n", "b end\nend: ret\n", "j x\nx: j x\n", "ret\n", "x: j x\n", "a: b a\n", "j j\nj: ret\n",
              "li a0, 1\nj e\ne: ret\n", "( j x\nx: ret\n"]:
        stores.append((pipe.single(t), "a.s", "offset0"))
        stores.append(([("a.s", 'main:\n li a7, 10\n ecall\n.include "t.s"\n'), ("t.s", t)], "a.s", "offset0-included"))
    pcmds = [lib.store_cmd("parse", f, b) for f, b, _ in stores]
    pimpl = lib.run_impl(ctx, pcmds, tag="impl-parse")
    pmodel = lib.run_model(ctx, pcmds, tag="model-parse")
    dimpl = lib.run_impl(ctx, [lib.store_cmd("diag -", f, b) for f, b, _ in stores], tag="impl-diag")
    for (f, b, tag), a, m, d in zip(stores, pimpl, pmodel, dimpl):
        if a != m:
            disagreements.append(dict(stage="parse", files=f, impl=pipe.first_diff(a, m)))
        # file index -> text: files are numbered in order of successful import; recover the order from the
        # include structure by trying each file (ranges must fit exactly one assignment: use the model's
        # numbering = import order, which the parse dump exposes through the program-entry/file ids)
        texts = [t for _, t in f if t is not None]
        order = import_order(f, b)
        # a node's range covers every operand token it carries (same file): the statement's text, not a part of it
        for nm in re.finditer(r"N\((\w+) ([^|]*?) \| (\d+)\.(\d+)\.(\d+)-(\d+)\.(\d+)\.(\d+)/(\d+)\)", a):
            if nm.group(1) in ("progentry", "funcentry"):
                continue
            ns, ne, nf = int(nm.group(5)), int(nm.group(8)), nm.group(9)
            for om in re.finditer(r"@(\d+)\.(\d+)\.(\d+)-(\d+)\.(\d+)\.(\d+)/(\d+)", nm.group(2)):
                os_, oe, of = int(om.group(3)), int(om.group(6)), om.group(7)
                if of != nf or os_ < ns or oe > ne:
                    failing.append(dict(profile="debug", kind=tag, files=f, impl=nm.group(0),
                                        why="node range %d..%d (file %s) does not cover its own token at %d..%d (file %s)" % (ns, ne, nf, os_, oe, of)))
                    break
        # an instruction's range is mnemonic through last operand: behind its last operand token there is at most the
        # closing parenthesis - no comment, no newline, no token of the next statement
        allnodes = list(re.finditer(r"N\((\w+) ([^|]*?) \| (\d+)\.(\d+)\.(\d+)-(\d+)\.(\d+)\.(\d+)/(\d+)\)", a))
        for nm in allnodes:
            if nm.group(1) not in TIGHT or int(nm.group(9)) >= len(order):
                continue
            t = order[int(nm.group(9))]
            ns, ne = int(nm.group(5)), int(nm.group(8))
            # (the two nodes of an expansion - `lw rd, label` - share one statement: its tokens are those of both)
            same = [x for x in allnodes if x.groups()[2:] == nm.groups()[2:]]
            ends = [int(om.group(6)) for x in same for om in re.finditer(r"@(\d+)\.(\d+)\.(\d+)-(\d+)\.(\d+)\.(\d+)/(\d+)", x.group(2)) if om.group(7) == nm.group(9)]
            if not ends or ne >= len(t):
                continue
            tail = t[max(ends) + 1:ne + 1]
            if "\n" in t[ns:ne + 1] or not re.match(r"^[ \t]*\)?$", tail):
                failing.append(dict(profile="debug", kind=tag, files=f, impl=nm.group(0),
                                    why="the range of the %s statement %r runs on behind its last operand over %r" % (nm.group(1), t[ns:max(ends) + 1], tail)))
                break
        for out, what in ((a, "parser output"), (d, "diagnostic")):
            for mm in RANGE.finditer(lib._PICKS.sub("", out)):
                sl, sc, sr, el, ec, er, fi = (int(x) for x in mm.groups())
                if fi >= len(order):
                    continue
                t = order[fi]
                if (sl, sc, sr, el, ec, er) == (0, 0, 0, 0, 0, 0):
                    continue
                if line_col(t, sr) != (sl, sc) or line_col(t, er) != (el, ec) or not (sr <= er <= len(t)):
                    failing.append(dict(profile="debug", kind=tag, files=f, impl=mm.group(0),
                                        why="%s range %s is inconsistent with the text of file %d (line/column of raw %d is %s, of raw %d is %s)"
                                            % (what, mm.group(0), fi, sr, line_col(t, sr), er, line_col(t, er))))
                    break
    ctx.coverage["evaluations"] = ctx.coverage.get("evaluations", 0) + 3 * len(stores)   # parse (impl+model) and diag (impl) per store
    npretty, pbad = pretty_excerpts(ctx)
    failing += pbad
    ctx.coverage["pretty_excerpts_checked"] = npretty
    ctx.coverage["evaluations"] += 2 * npretty
    if failing:
        f = failing[0]
        lib.violation(ctx, "position", dict(property="C09", input=f, all_failing=failing[:10],
                                           how=("echo 'lex %s' > cmds; harness/target/%s/rva_harness cmds" % (lib.enc(f["text"]), f["profile"])) if "text" in f
                                               else "harness command: " + lib.store_cmd("diag -", f["files"], "a.s")[:400]), True)
        return
    if disagreements or not proof_ok:
        what = "correspondence Lexer vs Model/Lexer.v" if disagreements else "theorems of Props/C09.v"
        common.broken_without_input(ctx, what, dict(disagreements=disagreements[:10], proof=ctx.proof["failed"]))


def replay(ctx, path):
    import json
    print(json.dumps(json.load(open(path)), indent=1)[:3000])
    return 0
