"""C06 - linting any input terminates without crashing.
Theorems: Props/C06.v (lexing/parsing of any input over any include graph always returns; the pipeline and
the lints never panic; only the two dataflow loops can fail to terminate).  Tie: the whole pipeline (library
entry = `diag`, debug and release builds) against the model, on token soup, raw Unicode, mutated programs,
random flow, include graphs with faults; plus every CLI output mode of the `rva` binary on files on disk
(self-inclusion, cycles, missing files, CRLF, no final newline, leading blank lines, large inputs) under a
watchdog.  Known findings: the two dataflow fixed-point loops do not always terminate (known_findings.json);
a hang is attributed to the pass in which it happens, any other hang, panic or crash is a violation."""
import os, shutil, subprocess, time
import lib, gen, pipe
from props import common, generic

RVA_DIR = os.path.join(lib.HARNESS, "target", "repo")


def build_rva(release=False):
    cmd = ["cargo", "build", "--offline", "--quiet", "--manifest-path", "/repo/Cargo.toml", "-p", "riscv_analysis_cli",
           "--target-dir", RVA_DIR] + (["--release"] if release else [])
    rc, out = lib.sh(cmd, timeout=1800)
    return rc == 0, out[-1500:], os.path.join(RVA_DIR, "release" if release else "debug", "rva")


def classify_hang(ctx, files, base):
    """which pass does not return?  The stages before the dataflow passes are deterministic; the dataflow passes
    depend on which return the function traversal met first (hash order), so they are tried several times."""
    pre = ["new1", "dir1", "new", "dir", "dead", "term1", "markup", "term2"]
    for attempt in range(6):
        for st in ["avail0", "avail1", "avail2", "live"]:
            o = lib.run_impl(ctx, [lib.store_cmd("cfg %s -" % st, files, base)], limit_ms=2500, tag="hang")[0]
            if o in ("TIMEOUT", "CRASH"):
                # make sure it is that pass and not an earlier stage
                before = {"avail0": "dir1", "avail1": "dead", "avail2": "markup", "live": "term2"}[st]
                ob = lib.run_impl(ctx, [lib.store_cmd("cfg %s -" % before, files, base)], limit_ms=2500, tag="hang")[0]
                if ob in ("TIMEOUT", "CRASH"):
                    break
                return "hang:LivenessPass" if st == "live" else "hang:AvailableValuePass"
            if not o.startswith("C("):
                break
    for st in pre:
        o = lib.run_impl(ctx, [lib.store_cmd("cfg %s -" % st, files, base)], limit_ms=2500, tag="hang")[0]
        if o in ("TIMEOUT", "CRASH"):
            return "hang:" + st
    return "hang:dataflow-unreproduced"


def run(ctx):
    proof_ok, can_run = common.prepare(ctx, "C06", release=True)
    ok_d, log_d, rva = build_rva(False)
    ok_r, log_r, rva_rel = build_rva(True)
    if not (can_run and ok_d and ok_r):
        common.broken_without_input(ctx, "build", (ctx.notes[-1] if ctx.notes else "") + log_d + log_r)
        return
    k = ctx.scale(4)
    rng = ctx.rng
    known = lib.load_known("C06")
    known_classes = set(x["class"] for x in known)
    # ---- library entry: whole pipeline, both profiles, against the model -------------------------------
    stores = generic.stores_for(ctx, dict(flow=150, random=60, mutated=120, conforming=20, injected=20, hanging=True, ecallloop=20))
    for _ in range(150 * k):
        stores.append((pipe.single(gen.token_soup(rng, rng.randrange(0, 120))), "a.s", "soup"))
    for _ in range(80 * k):
        stores.append((pipe.single(gen.raw_unicode(rng, rng.randrange(0, 80))), "a.s", "raw"))
    for _ in range(25 * k):          # called helpers that never return (exit / spin), with values live across the call
        stores.append((pipe.single(gen.noreturn_prog(rng)), "a.s", "noreturn"))
    for _ in range(15 * k):
        stores.append((gen.stopping_tree(rng)[0], "a.s", "stoptree"))
    for _ in range(6 * k):           # 2^n paths through a chain of diamonds: the searches behind the lints must stay polynomial
        stores.append((pipe.single(gen.diamond_chain(rng)), "a.s", "diamonds"))
    edge = ["." * 300000, "\n" * 20000, "'" * 5000, "\"" * 5000, "#" * 100000, "a" * 200000, "0x" + "f" * 100000, "-" * 100000,
            "li t0, " + "9" * 5000 + "\n", ("x: " * 3000) + "\n", ".word " + "1 " * 20000 + "\n", "(" * 50000, ".macro\n" * 2000,
            "li t0, 0x7fffffff\naddi t0, t0, 1\nslli t1, t0, 32\nli t2, -0x80000000\nli t3, -1\ndiv t4, t2, t3\nrem t5, t2, t3\n",
            "main:\n addi sp, sp, -2147483648\n sw t0, -2147483648(sp)\n lw t1, 2147483647(sp)\n addi sp, sp, -1\n",
            "main:\n jal f\nf:\n addi sp, sp, 2147483647\n addi sp, sp, 2147483647\n sw ra, 2147483647(sp)\n ret\n",
            "﻿main:\n li a7, 10\n ecall\n", "main:\x00\n li\x00 t0, 1\n", "\r\r\r\n\r", "main:\n\tli\ta7,10\r\n\tecall\r\n"]
    # long runs of ONE short unit (a token and a separator): anything that recurses or re-scans once per token shows here
    # (round 8: lone dots separated by blanks reached the lexer's recursive fallback, one stack frame per dot)
    for unit in (". ", ".,", ".\t", ".\r", ". \n", ".. ", ". . word ", "( ", ") ", ": ", ", ", "- ", "-\n", "' ", "'a' ", "\" ", "\"\" ",
                 "x ", "x: ", "x:\n", "1 ", ".word ", ".word\n", ".data\n", ".include ", ".macro ", ".endmacro\n", "# \n", ";\n", "\\ ", "@ ",
                 "li ", "li t0 ", "t0, ", "0( ", "(t0) ", "\u00e9 ", "\u3000. "):
        edge.append(unit * 60000)
    # lines mixing multi-byte white space, tabs and errors: the excerpt printer works on columns
    printer = ['.data\n.string "\u3000\u3000\u3000" @\n', 'main:\n\tli t0, 5 \u00a0\u00a0 foo\n', '\u2003li t9, 5\n li \u3000 t0 $\n',
               'main:\n li t0, 5 # \u3000\u3000\n addi zero, t0, 1 # \u00e9\u00e9\u00e9\n', '.asciz "\u00e9\u00e9" ;\n', "\t\t.word 1 '\u4e2d\n",
               'x: .string "\t\u3000" ($\n', ' \t \u00a0main: frob\n']
    for t in printer:
        stores.append((pipe.single(t), "a.s", "printer"))
    for t in edge:
        stores.append((pipe.single(t), "a.s", "edge"))
    big = gen.render(rng, gen.program(rng, 1500))
    stores.append((pipe.single(big), "a.s", "big"))
    stores.append((pipe.single("\n".join(gen.conforming(rng, nfuncs=3, depth=3)[0] * 15)), "a.s", "big-dup-labels"))
    for _ in range(40 * k):          # include graphs with faults
        n = rng.randrange(2, 5)
        names = ["f%d.s" % i for i in range(n)]
        files = []
        for i, nm in enumerate(names):
            body = gen.render(rng, gen.program(rng, rng.randrange(1, 8)), dict(crlf=False))
            incs = "".join('.include "%s"\n' % rng.choice(names + ["missing.s", "bad.s", nm]) for _ in range(rng.randrange(0, 3)))
            files.append((nm, body + incs if rng.random() < 0.5 else incs + body))
        files.append(("bad.s", None))
        stores.append((files, names[0], "includes"))
    sb = [(f, b) for f, b, _ in stores]
    failing, dis, hist = [], [], {}
    def size(f):
        return sum(len(t) for _, t in f if t is not None)
    for prof in ("debug", "release"):
        # the model is an executable specification, not an efficient program (its lexer recomputes lengths): large
        # inputs are run through the implementation only - they are about the implementation's resource use
        small = [i for i, (f, b) in enumerate(sb) if size(f) <= 6000]
        impl_s, model_s = lib.run_pair_with_picks(ctx, lambda p, x: lib.store_cmd("diag %s" % p, x[0], x[1]), [sb[i] for i in small],
                                                  release=(prof == "release"), limit_ms=6000, tag="lib-" + prof)
        large = [i for i in range(len(sb)) if i not in set(small)]
        impl_l = lib.run_impl(ctx, [lib.store_cmd("diag -", sb[i][0], sb[i][1]) for i in large], release=(prof == "release"),
                              limit_ms=15000, tag="lib-large-" + prof)
        impl, model = [None] * len(sb), [None] * len(sb)
        for i, a, m in zip(small, impl_s, model_s):
            impl[i], model[i] = a, m
        for i, a in zip(large, impl_l):
            impl[i], model[i] = lib._PICKS.sub("", a), None
        for (f, b, tag), a, m in zip(stores, impl, model):
            st = "panic" if a == "PANIC" else ("crash" if a == "CRASH" else ("timeout" if a == "TIMEOUT" else "ok"))
            hist[prof + ":" + st] = hist.get(prof + ":" + st, 0) + 1
            if st in ("panic", "crash"):
                failing.append(dict(files=f if len(str(f)) < 3000 else "(large input, kind %s)" % tag, base=b, kind=tag, profile=prof,
                                    why="the library entry point %ss" % st, cls=st))
            elif st == "timeout":
                cls = classify_hang(ctx, f, b)
                failing.append(dict(files=f if len(str(f)) < 3000 else "(large input, kind %s)" % tag, base=b, kind=tag, profile=prof,
                                    why="linting does not terminate (%s)" % cls, cls=cls))
            elif m is None:
                pass
            elif pipe.parse_diag_line(a)[0] == "ok" and pipe.parse_diag_line(m)[0] == "ok":
                why = pipe.diag_match(pipe.parse_diag_line(a)[1], pipe.parse_diag_line(m)[1])
                if why:
                    dis.append(dict(stage="diag", files=f if len(str(f)) < 3000 else tag, why=why))
            elif m in ("PANIC", "TIMEOUT"):
                dis.append(dict(stage="diag", files=f if len(str(f)) < 3000 else tag, why="model %s, implementation fine" % m))
    # ---- CLI modes on disk --------------------------------------------------------------------------
    work = os.path.join(ctx.rundir, "cli")
    shutil.rmtree(work, ignore_errors=True)
    os.makedirs(work)
    modes = [[], ["--json"], ["--compact"], ["--no-color"], ["--all-files"], ["--yaml"], ["--debug"], ["--json", "--all-files"],
             ["--compact", "--no-color", "--all-files"], ["--no-output"]]
    cli_cases = []
    pick = [s for s in stores if s[2] in ("includes",)][:12 * k] + \
           [s for s in stores if s[2].startswith("corpus") and not s[2].startswith(("corpus:d21", "corpus:d31", "corpus:d32"))][::4] + \
           [s for s in stores if s[2] in ("mutated", "soup", "raw", "edge")][::9] + [s for s in stores if s[2] == "printer"]
    cli_runs = 0
    for ci, (files, base, tag) in enumerate(pick):
        d = os.path.join(work, "c%d" % ci)
        os.makedirs(d)
        okfiles = True
        for p, t in files:
            if t is None:
                os.makedirs(os.path.join(d, p), exist_ok=True)     # a directory: reading it is an IO error
            else:
                try:
                    with open(os.path.join(d, p), "w", encoding="utf-8", newline="") as fh:
                        fh.write(t)
                except (UnicodeEncodeError, OSError):
                    okfiles = False
        if not okfiles or not os.path.exists(os.path.join(d, base)):
            continue
        for mi, mode in enumerate(modes):
            for binp, prof in ((rva, "debug"), (rva_rel, "release")):
                if prof == "release" and mi % 3:
                    continue
                cli_runs += 1
                t0 = time.time()
                rc, _o, err = lib.run_cli([binp, "lint"] + mode + [os.path.join(d, base)], cpu_s=6.0)
                err = err.decode("utf-8", "replace")
                st = "ok" if rc == 0 else ("timeout" if rc == "timeout" else ("panic" if "panicked" in err else "rc%s" % rc))
                hist["cli:" + st] = hist.get("cli:" + st, 0) + 1
                if st == "timeout":
                    cls = classify_hang(ctx, files, base)
                    failing.append(dict(files=files, base=base, kind=tag, profile=prof, mode=mode, why="rva lint %s does not terminate (%s)" % (" ".join(mode), cls), cls=cls))
                elif st != "ok":
                    failing.append(dict(files=files if len(str(files)) < 3000 else tag, base=base, kind=tag, profile=prof, mode=mode,
                                        why="rva lint %s ends with %s: %s" % (" ".join(mode), st, err[-300:]), cls=st))
    # self-inclusion and include cycles on disk (the CLI reader's already-read test), with every spelling of the paths:
    # plain names, "./name", through a sub-directory and back ("../"), through a symbolic link
    d = os.path.join(work, "self")
    os.makedirs(os.path.join(d, "inc"))
    open(os.path.join(d, "a.s"), "w").write('main:\n.include "a.s"\n.include "./b.s"\n li a7, 10\n ecall\n')
    open(os.path.join(d, "b.s"), "w").write('li a0, 1\n.include "a.s"\n.include "b.s"\n')
    open(os.path.join(d, "dot.s"), "w").write('main:\n li a7, 10\n ecall\n.include "./dot.s"\n')
    open(os.path.join(d, "up.s"), "w").write('main:\n li a7, 10\n ecall\n.include "./inc/util.s"\n')
    open(os.path.join(d, "inc", "util.s"), "w").write('helper:\n ret\n.include "../up.s"\n.include "../inc/util.s"\n')
    open(os.path.join(d, "lnk.s"), "w").write('main:\n li a7, 10\n ecall\n.include "alias.s"\n')
    try:
        os.symlink("lnk.s", os.path.join(d, "alias.s"))
    except OSError:
        pass
    for start in ("a.s", "dot.s", "up.s", "lnk.s"):
        for mode in ([], ["--json"], ["--all-files", "--compact"]):
            cli_runs += 1
            rc_, _o, e_ = lib.run_cli([rva, "lint"] + mode + [os.path.join(d, start)], cpu_s=6.0)
            if rc_ == "timeout":
                failing.append(dict(files="include cycle on disk starting at %s (see tools/props/C06.py for the files)" % start, mode=mode,
                                    why="self/cyclic inclusion does not terminate", cls="hang:include"))
                break
            if rc_ != 0:
                failing.append(dict(files="include cycle on disk starting at %s" % start, mode=mode, why="rva exits with %s: %s" % (rc_, e_.decode("utf-8", "replace")[-200:]), cls="rc"))
    shutil.rmtree(work, ignore_errors=True)
    # ---- verdict --------------------------------------------------------------------------------------
    tags = {}
    for _, _, t in stores:
        t = t.split(":")[0]
        tags[t] = tags.get(t, 0) + 1
    ctx.coverage.update(
        evaluations=2 * len(stores) + cli_runs, distinct_nontrivial=len(stores),
        rule="inputs: corpus + random flow + mutated programs + token soup + raw Unicode + extreme literals/sizes + include graphs with "
             "missing/unreadable/self/cyclic files; each linted through the library pipeline in the debug (overflow checks, debug "
             "assertions) and release builds under a per-input watchdog and compared with the model; a subset written to disk and "
             "linted by the rva binary in ten flag combinations; distinct = distinct inputs",
        samples=[dict(kind=stores[i][2], files=str(stores[i][0])[:300]) for i in (len(stores) - 3, len(stores) // 2)],
        outcomes=hist, input_classes=tags, cli_runs=cli_runs, correspondence_disagreements=len(dis), exhaustive=False)
    fresh = []
    # a hang is the recorded finding only when the MODEL of the same pass does not terminate on that input either (the
    # fixed-point iteration as written oscillates); an input on which the model terminates and the code does not is new
    hangs = [f for f in failing if f.get("cls") in known_classes and isinstance(f.get("files"), list) and size(f["files"]) <= 6000]
    if hangs:
        mo = lib.run_model(ctx, [lib.store_cmd("diag -", f["files"], f["base"]) for f in hangs], tag="hang-model")
        for f, o in zip(hangs, mo):
            if o.strip() != "TIMEOUT":
                f["cls"] = f["cls"] + " although the model of the pass terminates on this input"
                f["why"] += " - and the model terminates: %s" % o[:120]
    for f in failing:
        if f.get("cls") in known_classes:
            line = "%s: %s" % (f["cls"], [x["what"] for x in known if x["class"] == f["cls"]][0][:160])
            if line not in ctx.known_lines:
                ctx.known_lines.append(line)
        else:
            fresh.append(f)
    if fresh:
        lib.violation(ctx, "input", dict(property="C06", input=fresh[0], all_failing=fresh[:10]), True)
        return
    if dis or not proof_ok:
        common.broken_without_input(ctx, "correspondence of the whole pipeline" if dis else "theorems of Props/C06.v",
                                    dict(disagreements=dis[:8], proof=ctx.proof["failed"]))


replay = generic.replay
