"""C03 - the control-flow graph matches the program's control flow.
Theorems: Props/C03.v (cfg_sym, cfg_edges_kinds, edges_stop, unreachable_only_without_preds).
Tie: S4, S5, S6, S8, S9 (+S7 as far as it decides exit ecalls), every stage dump.  Search oracle: the
same three conditions checked directly on the implementation's final graph."""
import lib, pipe, dump
from props import generic


def oracle(ctx, stores):
    sb = [(f, b) for f, b, _ in stores]
    impl = lib.run_impl(ctx, [lib.store_cmd("cfg live -", f, b) for f, b in sb], tag="oracle")
    bad = []
    for (f, b, tag), line in zip(stores, impl):
        g = dump.parse(lib._PICKS.sub("", line))
        if g is None:
            continue
        ns = g["nodes"]
        first_label = {}
        for n in ns:
            for l in n.labels:
                first_label.setdefault(l, n.idx)
        why = None
        for n in ns:
            for j in n.nexts:
                if j >= len(ns) or n.idx not in ns[j].prevs:
                    why = "edge %d->%d has no matching predecessor entry" % (n.idx, j)
            for j in n.prevs:
                if j >= len(ns) or n.idx not in ns[j].nexts:
                    why = "predecessor %d of %d has no matching successor entry" % (j, n.idx)
            if (dump.is_return(n) or dump.known_ecall(n) in (10, 93)) and n.nexts:
                why = "node %d is a return/exit ecall but has successors %s" % (n.idx, n.nexts)
            for j in n.nexts:
                fall = (j == n.idx + 1 and not dump.is_return(n) and not dump.is_uncond_jump(n))
                tgt = dump.jumps_to(n)
                target = (tgt is not None and not dump.is_return_merge(n) and first_label.get(tgt) == j)
                merge = (dump.is_return_merge(n) and n.nexts == [j] and
                         any(fid < len(g["funcs"]) and g["funcs"][fid]["exit"] == j for fid in n.funcs))
                if not (fall or target or merge):
                    why = "edge %d->%d is neither fall-through, jump target nor return merge" % (n.idx, j)
        if why:
            bad.append(dict(files=f, base=b, kind=tag, why=why, graph=line[:1500]))
    return bad


def oracle_transfers(ctx, stores):
    """every static control transfer is an edge of the graph as first built (before pruning): the written
    target of a jump or branch, and the next instruction unless the node is a return or an unconditional jump"""
    sb = [(f, b) for f, b, _ in stores]
    impl = lib.run_impl(ctx, [lib.store_cmd("cfg dir -", f, b) for f, b in sb], tag="oracle-dir")
    bad = []
    for (f, b, tag), line in zip(stores, impl):
        g = dump.parse(lib._PICKS.sub("", line))
        if g is None:
            continue
        ns = g["nodes"]
        first_label = {}
        for n in ns:
            for l in n.labels:
                first_label.setdefault(l, n.idx)
        why = None
        for n in ns:
            tgt = None
            if n.kind == "jumplink" and dump.val(n.body[2]) != "1":
                tgt = lib.dec(dump.val(n.body[3]))
            if n.kind == "branch":
                tgt = lib.dec(dump.val(n.body[4]))
            if tgt is not None and tgt in first_label and first_label[tgt] not in n.nexts:
                why = "node %d transfers control to label %r (node %d) but has no such edge" % (n.idx, tgt, first_label[tgt])
            uncond = (n.kind == "jumplink" and dump.val(n.body[2]) == "0") or (n.kind == "jumplinkr" and dump.val(n.body[2]) == "0") \
                or (n.kind == "branch" and dump.val(n.body[2]) == "0" and dump.val(n.body[3]) == "0" and dump.val(n.body[1]) in ("beq", "bge", "bgeu"))
            ret = dump.is_return(n)
            if not uncond and not ret and n.idx + 1 < len(ns) and (n.idx + 1) not in n.nexts:
                why = "node %d can fall through to node %d but has no such edge" % (n.idx, n.idx + 1)
        if why:
            bad.append(dict(files=f, base=b, kind=tag, why=why, graph=line[:1500]))
    return bad


def both(ctx, stores):
    return oracle(ctx, stores) + oracle_transfers(ctx, stores)


def run(ctx):
    generic.run(ctx, "C03", ["dir", "dead", "term1", "markup", "term2", "live"],
                dict(conforming=30, flow=120, random=60, injected=30), oracle=both, what="CFG construction")


replay = generic.replay
