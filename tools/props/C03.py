"""C03 - the control-flow graph matches the program's control flow.
Theorems: Props/C03.v (cfg_sym, cfg_edges_kinds, edges_stop, unreachable_only_without_preds).
Tie: S4, S5, S6, S8, S9 (+S7 as far as it decides exit ecalls), every stage dump.  Search oracle: the
same three conditions checked directly on the implementation's final graph."""
import lib, pipe, dump
from props import generic


def oracle(ctx, stores):
    sb = [(f, b) for f, b, _ in stores]
    impl = lib.run_impl(ctx, [lib.store_cmd("cfg live -", f, b) for f, b in sb], tag="oracle")
    bad = []
    for (f, b, tag), line in zip(stores, impl):
        g = dump.parse(lib._PICKS.sub("", line))
        if g is None:
            continue
        ns = g["nodes"]
        first_label = {}
        for n in ns:
            for l in n.labels:
                first_label.setdefault(l, n.idx)
        why = None
        for n in ns:
            for j in n.nexts:
                if j >= len(ns) or n.idx not in ns[j].prevs:
                    why = "edge %d->%d has no matching predecessor entry" % (n.idx, j)
            for j in n.prevs:
                if j >= len(ns) or n.idx not in ns[j].nexts:
                    why = "predecessor %d of %d has no matching successor entry" % (j, n.idx)
            if (dump.is_return(n) or dump.known_ecall(n) in (10, 93)) and n.nexts:
                why = "node %d is a return/exit ecall but has successors %s" % (n.idx, n.nexts)
            for j in n.nexts:
                fall = (j == n.idx + 1 and not dump.is_return(n) and not dump.is_uncond_jump(n))
                tgt = dump.jumps_to(n)
                target = (tgt is not None and not dump.is_return_merge(n) and first_label.get(tgt) == j)
                merge = (dump.is_return_merge(n) and n.nexts == [j] and
                         any(fid < len(g["funcs"]) and g["funcs"][fid]["exit"] == j for fid in n.funcs))
                if not (fall or target or merge):
                    why = "edge %d->%d is neither fall-through, jump target nor return merge" % (n.idx, j)
        if why:
            bad.append(dict(files=f, base=b, kind=tag, why=why, graph=line[:1500]))
    return bad


def oracle_transfers(ctx, stores):
    """every static control transfer is an edge of the graph as first built (before pruning): the written
    target of a jump or branch, and the next instruction unless the node is a return or an unconditional jump"""
    sb = [(f, b) for f, b, _ in stores]
    impl = lib.run_impl(ctx, [lib.store_cmd("cfg dir -", f, b) for f, b in sb], tag="oracle-dir")
    bad = []
    for (f, b, tag), line in zip(stores, impl):
        g = dump.parse(lib._PICKS.sub("", line))
        if g is None:
            continue
        ns = g["nodes"]
        first_label = {}
        for n in ns:
            for l in n.labels:
                first_label.setdefault(l, n.idx)
        why = None
        for n in ns:
            tgt = None
            if n.kind == "jumplink" and dump.val(n.body[2]) != "1":
                tgt = lib.dec(dump.val(n.body[3]))
            if n.kind == "branch":
                tgt = lib.dec(dump.val(n.body[4]))
            if tgt is not None and tgt in first_label and first_label[tgt] not in n.nexts:
                why = "node %d transfers control to label %r (node %d) but has no such edge" % (n.idx, tgt, first_label[tgt])
            uncond = (n.kind == "jumplink" and dump.val(n.body[2]) == "0") or (n.kind == "jumplinkr" and dump.val(n.body[2]) == "0") \
                or (n.kind == "branch" and dump.val(n.body[2]) == "0" and dump.val(n.body[3]) == "0" and dump.val(n.body[1]) in ("beq", "bge", "bgeu"))
            ret = dump.is_return(n)
            if not uncond and not ret and n.idx + 1 < len(ns) and (n.idx + 1) not in n.nexts:
                why = "node %d can fall through to node %d but has no such edge" % (n.idx, n.idx + 1)
        if why:
            bad.append(dict(files=f, base=b, kind=tag, why=why, graph=line[:1500]))
    return bad


def oracle_dynamic(ctx, stores):
    """execute the program concretely: every control transfer actually made between two instructions of
    one activation is an edge of the finished graph, and no executed instruction is reported unreachable"""
    import random, interp
    sb = [(f, b) for f, b, _ in stores]
    impl = lib.run_impl(ctx, [lib.store_cmd("cfg live -", f, b) for f, b in sb], tag="oracle-dyn")
    diag = lib.run_impl(ctx, [lib.store_cmd("diag -", f, b) for f, b in sb], tag="oracle-dyn-diag")
    first = lib.run_impl(ctx, [lib.store_cmd("cfg dir -", f, b) for f, b in sb], tag="oracle-dyn-dir")
    bad = []
    transfers = 0
    for (f, b, tag), line, dl, l0 in zip(stores, impl, diag, first):
        g = dump.parse(lib._PICKS.sub("", line))
        if g is None:
            continue
        ns = g["nodes"]
        # the property quantifies over programs whose every path ends in ret or an exit ecall: a node that can
        # run off the end (no successor, not a return, not an ecall) puts the program outside it - the analyzer
        # deliberately prunes such code and everything that leads only to it
        # (judged on the graph AS FIRST BUILT, whose edges oracle_transfers checks against the text - not on the finished
        # graph, where a wrong pruning would itself create such nodes and so hide the program from this oracle: round 8)
        g0 = dump.parse(lib._PICKS.sub("", l0))
        if g0 is None or len(g0["nodes"]) != len(ns):
            continue
        if any((not n.nexts) and not dump.is_return(n) and not dump.is_ecall(n) and n.kind != "progentry" for n in g0["nodes"]):
            continue
        rng = random.Random(ctx.seed * 7919 + len(line))
        _f, edges, executed = interp.run_graph(g, rng, runs=2)
        why = None
        for (i, j, kind) in edges:
            transfers += 1
            if i < len(ns) and j < len(ns) and j not in ns[i].nexts:
                why = "execution goes from node %d to node %d (%s) but the graph has no such edge" % (i, j, kind)
                break
        st, items = pipe.parse_diag_line(lib._PICKS.sub("", dl))
        unreachable = set(it[4][0] for it in items if it[1] == "Unreachable line of code")
        for i in executed:
            if i < len(ns) and ns[i].kind not in ("progentry", "funcentry") and ns[i].raw in unreachable:
                why = "node %d is executed but reported as unreachable code" % i
        if why:
            bad.append(dict(files=f, base=b, kind=tag, why=why, graph=line[:1200]))
    ctx.coverage["executed_transfers_checked"] = transfers
    return bad


def source_labels(text):
    """label -> 0-based line of the instruction it names, read off the SOURCE: the next instruction in the text (blank lines,
    comments, directives and further labels in between do not matter)"""
    import re
    pending, m = [], {}
    for i, l in enumerate(text.split("\n")):
        t = l.split("#")[0].strip()
        while True:
            mm = re.match(r"^([A-Za-z_]\w*):\s*(.*)$", t)
            if not mm:
                break
            pending.append(mm.group(1))
            t = mm.group(2)
        if not t or t.startswith("."):
            continue
        for p_ in pending:
            m.setdefault(p_, i)
        pending = []
    return m


def oracle_source_targets(ctx, stores):
    """a jump, branch or call goes to the instruction that its label names IN THE SOURCE (independent of how the graph
    builder attached labels to nodes): the graph must have that node as successor, or as a function entry for a call"""
    sel = [(f, b, t) for f, b, t in stores if t.split(":")[0] in ("conforming", "flow", "labeldir", "injected") and len(f) == 1 and '"' not in f[0][1] and "'" not in f[0][1]]
    impl = lib.run_impl(ctx, [lib.store_cmd("cfg dir -", f, b) for f, b, _ in sel], tag="oracle-src")
    prs = lib.run_impl(ctx, [lib.store_cmd("parse", f, b) for f, b, _ in sel], tag="oracle-src-parse")
    bad = []
    for (f, b, tag), line, pl in zip(sel, impl, prs):
        g = dump.parse(lib._PICKS.sub("", line))
        if g is None or " E(" in pl or pl.startswith("E("):
            continue          # (a line that does not parse is no instruction: the labels before it name the next one)
        ns = g["nodes"]
        lab = source_labels(f[0][1])
        line_of = lambda n: int(n.raw.split(".")[0])
        why = None
        for n in ns:
            if n.kind not in ("jumplink", "branch"):
                continue
            tgt = lib.dec(dump.val(n.body[-1]))
            if tgt not in lab:
                continue
            if n.kind == "jumplink" and dump.val(n.body[2]) == "1":
                if not any(m.kind == "funcentry" and line_of(m) == lab[tgt] for m in ns):
                    why = "node %d calls %r, which names the instruction on line %d, but there is no function entry for that instruction" % (n.idx, tgt, lab[tgt] + 1)
            elif not any(x < len(ns) and line_of(ns[x]) == lab[tgt] for x in n.nexts):
                why = "node %d transfers control to %r, which names the instruction on line %d; its successors are on lines %s" % (
                    n.idx, tgt, lab[tgt] + 1, [line_of(ns[x]) + 1 for x in n.nexts if x < len(ns)])
        if why:
            bad.append(dict(files=f, base=b, kind=tag, why=why, graph=line[:1200]))
    return bad


def both(ctx, stores):
    return oracle(ctx, stores) + oracle_transfers(ctx, stores) + oracle_dynamic(ctx, stores) + oracle_source_targets(ctx, stores)


def run(ctx):
    generic.run(ctx, "C03+C03dyn+C03lbl", ["dir", "dead", "term1", "markup", "term2", "live"],
                dict(conforming=30, flow=120, random=60, injected=30, handlers=20, cutflow=60, labeldir=40), oracle=both, what="CFG construction")


replay = generic.replay
