"""C01 - claimed register and stack values are true on every execution.
Theorems: Props/C01.v (claims_hold_on_executions, lint_inputs_true) over the machine of Spec/Rv32.v.
Tie: S7 (all three runs of the value analysis in the pipeline).  Search oracle: a concrete RV32IM interpreter
executes each program from random initial states over the implementation's own graph and compares every
claim the implementation attached to each executed node with the machine state."""
import random
import lib, pipe, dump, interp
from props import generic


def oracle(ctx, stores):
    sb = [(f, b) for f, b, _ in stores]
    impl = lib.run_impl(ctx, [lib.store_cmd("cfg live -", f, b) for f, b in sb], tag="oracle")
    bad = []
    executed_nodes = 0
    for (f, b, tag), line in zip(stores, impl):
        g = dump.parse(lib._PICKS.sub("", line))
        if g is None:
            continue
        rng = random.Random(ctx.seed * 1000003 + len(line))
        findings, _edges, ex = interp.run_graph(g, rng, runs=3)
        executed_nodes += len(ex)
        if findings:
            bad.append(dict(files=f, base=b, kind=tag, why=findings[0], more=findings[1:4], graph=line[:1200]))
    ctx.coverage["interpreter_executed_nodes"] = executed_nodes
    return bad


def run(ctx):
    generic.run(ctx, "C01+C01pipe", ["avail0", "avail1", "avail2"],
                dict(conforming=100, injected=60, flow=40, random=40, stack=200, fold=120, spswitch=60, loopslot=40, zeroreg=40), oracle=oracle, what="value analysis")


replay = generic.replay
