"""C01 - claimed register and stack values are true on every execution.
Theorems: Props/C01.v (claims_hold_on_executions, lint_inputs_true) over the machine of Spec/Rv32.v.
Tie: S7 (all three runs of the value analysis in the pipeline).  Search oracle: a concrete RV32IM interpreter
executes each program from random initial states over the implementation's own graph and compares every
claim the implementation attached to each executed node with the machine state."""
import random
import lib, pipe, dump, interp
from props import generic


def oracle(ctx, stores):
    sb = [(f, b) for f, b, _ in stores]
    impl = lib.run_impl(ctx, [lib.store_cmd("cfg live -", f, b) for f, b in sb], tag="oracle")
    bad = []
    executed_nodes = 0
    for (f, b, tag), line in zip(stores, impl):
        g = dump.parse(lib._PICKS.sub("", line))
        if g is None:
            continue
        rng = random.Random(ctx.seed * 1000003 + len(line))
        findings, _edges, ex = interp.run_graph(g, rng, runs=3)
        executed_nodes += len(ex)
        if findings:
            bad.append(dict(files=f, base=b, kind=tag, why=findings[0], more=findings[1:4], graph=line[:1200]))
    ctx.coverage["interpreter_executed_nodes"] = executed_nodes
    return bad


def manual_claims(ctx):
    """the machine of the property is the one the SOURCE TEXT describes, not the one the implementation's own decoding
    describes: every line of the assembly manual (tools/asm_manual.py: each mnemonic, pseudo-instruction and operand form
    with a pure register effect) is put behind `li`s that give every register a known constant, and the constant the
    analyzer then claims for the written register must be the one the manual computes (round 8: `seqz` expanded to a
    signed compare made the claim `t1 = 1` where the machine has 0 - invisible to an interpreter that executes the
    implementation's own nodes)"""
    import asm_manual
    rng = random.Random(ctx.seed * 77 + 5)
    pool = [0, 1, -1, 2, -5, 2047, -2048, 2 ** 31 - 1, -2 ** 31, 0x12345678, -0x12345678]
    progs = []
    reps = 1 if ctx.tier == "quick" else 4
    for text, exp in asm_manual.forms(rng):
        for _ in range(reps):
            rg = [0] + [rng.choice(pool + [rng.randrange(-2 ** 31, 2 ** 31)]) for _ in range(31)]
            try:
                want = exp(rg)
            except Exception:
                continue
            if not want or not all(e[0] == "reg" for e in want):
                continue
            final = {}
            for e in want:
                if e[1] != 0:
                    final[e[1]] = e[2]
            src = "main:\n" + "".join("li %s, %d\n" % (asm_manual.ABI[i], rg[i]) for i in range(1, 32)) + text + "\nli a7, 10\necall\n"
            progs.append((src, text, final, rg))
    impl = lib.run_impl(ctx, [lib.store_cmd("cfg live -", [("a.s", p[0])], "a.s") for p in progs], tag="manual")
    bad, claims = [], 0
    for (src, text, final, rg), line in zip(progs, impl):
        g = dump.parse(lib._PICKS.sub("", line))
        if g is None or len(g["nodes"]) < 3:
            continue
        at = g["nodes"][-2]                      # `li a7, 10`: its incoming facts are the facts after the line under test
        for d, v in final.items():
            c = at.ri.get(str(d))
            if c is not None and c.startswith("c:"):
                claims += 1
                if int(c[2:]) != v:
                    bad.append(dict(files=[("a.s", src)], base="a.s", kind="manual-claims",
                                    why="after `%s` the analyzer claims x%d = %s, the machine (assembly manual) has %d" % (text, d, c[2:], v),
                                    graph=line[:800]))
                    break
    ctx.coverage["manual_lines_with_constant_claims"] = claims
    ctx.coverage["manual_programs"] = len(progs)
    return bad


def oracle_all(ctx, stores):
    return oracle(ctx, stores) + manual_claims(ctx)


def run(ctx):
    generic.run(ctx, "C01+C01pipe", ["avail0", "avail1", "avail2"],
                dict(conforming=100, injected=60, flow=40, random=40, stack=200, fold=120, spswitch=60, loopslot=40, zeroreg=40, ecallloop=20), oracle=oracle_all, what="value analysis")


replay = generic.replay
