"""C11 - functions are exactly the call targets and their bodies are what they reach.
Theorems: Props/C11.v.  Tie: S4 (function entries) and S9 (function records, membership).
Search oracle: the same facts recomputed on the implementation's final graph."""
import lib, pipe, dump
from props import generic


def reach(ns, start):
    seen, st = set(), [start]
    while st:
        x = st.pop()
        if x in seen or x >= len(ns):
            continue
        seen.add(x)
        st += ns[x].nexts
    return seen


def oracle(ctx, stores):
    sb = [(f, b) for f, b, _ in stores]
    impl = lib.run_impl(ctx, [lib.store_cmd("cfg live -", f, b) for f, b in sb], tag="oracle")
    bad = []
    for (f, b, tag), line in zip(stores, impl):
        g = dump.parse(lib._PICKS.sub("", line))
        if g is None:
            continue
        ns, fs = g["nodes"], g["funcs"]
        called = set(c for c in (dump.calls_to(n) for n in ns) if c)
        why = None
        sharing = any(len(n.funcs) > 1 for n in ns)
        for n in ns:
            is_entry = n.kind == "funcentry"
            handler = is_entry and n.body[2] == "true"
            if is_entry and not (set(n.labels) & called) and not handler:
                why = "function entry %d (%s) is not the target of any call" % (n.idx, n.labels)
            if not is_entry and (set(n.labels) & called):
                why = "label %s is called but node %d is not a function entry" % (sorted(set(n.labels) & called), n.idx)
            for fid in n.funcs:
                if fid >= len(fs) or n.idx not in fs[fid]["nodes"]:
                    why = "node %d lists function %d which does not list it" % (n.idx, fid)
        # a label written into the interrupt vector (csrrw/csrrwi to CSR 5 of a register holding the label's
        # address) is a function too
        for n in ns:
            if n.kind == "csr" and dump.val(n.body[1]) == "csrrw" and dump.val(n.body[3]) == "5":
                v = n.ri.get(dump.val(n.body[4]), "")
                if v.startswith("a:"):
                    lab = lib.dec(v[2:])
                    # (a label that names no instruction - the last thing of the program, or only data follows - is on no node)
                    if any(lab in m.labels for m in ns) and not any(m.kind == "funcentry" and lab in m.labels for m in ns):
                        why = "label %r is installed as interrupt handler at node %d but is not a function" % (lab, n.idx)
        for fid, fn in enumerate(fs):
            for i in fn["nodes"]:
                if fid not in ns[i].funcs:
                    why = "function %d lists node %d which does not list it" % (fid, i)
                if dump.is_return(ns[i]) and i != fn["exit"]:
                    why = "function %d contains return %d other than its exit %d" % (fid, i, fn["exit"])
            r = reach(ns, fn["entry"])
            if not set(fn["nodes"]) <= r:
                why = "function %d lists nodes not reachable from its entry" % fid
            if not sharing:
                if set(fn["nodes"]) != r:
                    why = "function %d body %s differs from the set reachable from its entry %s" % (fid, fn["nodes"], sorted(r))
                if not dump.is_return(ns[fn["exit"]]):
                    why = "exit %d of function %d is not a return" % (fn["exit"], fid)
                # the exit is the function's FIRST return in program order (a fixed rule, not an accident of traversal):
                # every other return of the body was rewritten into a jump to it and comes later
                merged = [i for i in fn["nodes"] if dump.is_return_merge(ns[i])]
                if merged and min(merged) < fn["exit"]:
                    why = "function %d: return %d was merged into exit %d although it comes first in the program" % (fid, min(merged), fn["exit"])
            if ns[fn["entry"]].kind != "funcentry":
                why = "entry %d of function %d is not a function-entry node" % (fn["entry"], fid)
        labels_on_entries = set(l for n in ns if n.kind == "funcentry" for l in n.labels)
        if set(g["labelfn"]) != labels_on_entries:
            why = "labels owning a function %s differ from labels on function entries %s" % (sorted(g["labelfn"]), sorted(labels_on_entries))
        if why:
            bad.append(dict(files=f, base=b, kind=tag, why=why, graph=line[:1500]))
    return bad


def oracle_with_source(ctx, stores):
    """... and 'the labels that calls name' are read off the SOURCE as well (a label names the next instruction of the text,
    directives in between do not matter): the graph's own label sets cannot vouch for a label that the builder lost on the
    way (round 9: `f:` / `.align 2` / code - the label was dropped from every node, the call had no function)"""
    from props import C03
    return oracle(ctx, stores) + C03.oracle_source_targets(ctx, stores)


def run(ctx):
    generic.run(ctx, "C11", ["new", "markup", "live"], dict(conforming=40, flow=120, random=40, injected=20, handlers=40, cutflow=30, labeldir=30),
                oracle=oracle_with_source, what="function discovery")


replay = generic.replay
