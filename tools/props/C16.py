"""C16 - every analysis failure is explained at a real place in the user's files.
Theorems: Props/C16.v.  Tie: S4, S5, S9 error paths and S12 items.  Search oracle on the implementation
alone: for programs without parse errors, no generic/unlocated error, and an error names a label that
occurs at the reported place."""
import re
import lib, pipe
from props import generic

CE = re.compile(r"CE\((\w+) (.*?) @(\d+)\.(\d+)\.(\d+)-(\d+)\.(\d+)\.(\d+)/(\w+)\)")


def oracle(ctx, stores):
    sb = [(f, b) for f, b, _ in stores]
    parse = lib.run_impl(ctx, [lib.store_cmd("parse", f, b) for f, b in sb], tag="oracle-parse")
    impl = lib.run_impl(ctx, [lib.store_cmd("cfg live -", f, b) for f, b in sb], tag="oracle")
    bad = []
    for (f, b, tag), pl, line in zip(stores, parse, impl):
        if " E(" in pl or pl.startswith("E("):
            continue   # the property speaks of input that parses without errors
        if line in ("TIMEOUT", "CRASH"):
            continue   # termination is C06's business
        why = None
        if line == "PANIC":
            why = "analysis panics"
        m = CE.match(line)
        if m:
            kind, payload, sl, sc, sr, el, ec, er, fi = m.groups()
            if kind in ("unexpectederror", "other"):
                why = "generic error %r" % kind
            elif fi in ("n", "?"):
                why = "error %s attached to no file" % kind
            else:
                text = dict(f).get(b) if len(f) == 1 else None
                if text is not None and kind in ("labelsnotdefined", "duplicatelabel", "labelwithoutinstruction"):
                    names = [lib.dec(x) for x in payload.strip("[]").split(",") if x]
                    cov = text[int(sr):int(er) + 1].rstrip(":")
                    if cov not in names:
                        why = "error %s about %s is located on %r" % (kind, names, cov)
        elif not line.startswith("C("):
            why = "neither a graph nor an error: %r" % line[:80]
        if why:
            bad.append(dict(files=f, base=b, kind=tag, why=why, output=line[:400]))
    return bad


def illformed_oracle(ctx):
    """completeness: an ill-formed program IS reported, with the right kind, about the right name, at an occurrence of it"""
    import gen
    cases = [gen.illformed(ctx.rng) for _ in range(600 if ctx.thorough() else 150)]
    out = lib.run_impl(ctx, [lib.store_cmd("cfg live -", pipe.single(t), "a.s") for t, _, _, _ in cases], tag="illformed")
    bad = []
    for (t, kind, name, lines), line in zip(cases, out):
        m = CE.match(line)
        why = None
        if not m:
            why = "an ill-formed program (%s %r) is analysed without an error: %r" % (kind, name, line[:80])
        else:
            k2, payload, sl = m.group(1), m.group(2), int(m.group(3))
            names = [lib.dec(x) for x in payload.strip("[]").split(",") if x]
            if k2 != kind or name not in names:
                why = "expected %s about %r, got %s about %s" % (kind, name, k2, names)
            elif sl not in lines:
                why = "%s about %r is located on line %d, the fault is on line %s" % (kind, name, sl + 1, [l + 1 for l in lines])
        if why:
            bad.append(dict(files=pipe.single(t), base="a.s", kind="illformed:" + kind, why=why, output=line[:300]))
    # undefined labels in SEVERAL files: the error must sit on an occurrence of one of the names, in the file that holds it
    trees = []
    for _ in range(200 if ctx.thorough() else 50):
        names = ctx.rng.sample(["alpha_missing", "zeta_missing", "mid_gone", "Zed", "a1", "nowhere"], 2)
        uses = [ctx.rng.choice(["j %s", "bnez a0, %s", "la a1, %s", "jal %s"]) % n for n in names]
        pad_a, pad_b = ctx.rng.randrange(0, 4), ctx.rng.randrange(0, 6)
        fa = "main:\n" + " li a0, 1\n" * pad_a + (' .include "lib.s"\n' if ctx.rng.random() < 0.5 else "") + " " + uses[0] + "\n li a7, 10\n ecall\n"
        if "include" not in fa:
            fa += '.include "lib.s"\n'
        fb = "helper:\n" + " addi a0, a0, 1\n" * pad_b + " " + uses[1] + "\n ret\n"
        trees.append(([("a.s", fa), ("lib.s", fb)], names))
    tout = lib.run_impl(ctx, [lib.store_cmd("cfg live -", f, "a.s") for f, _ in trees], tag="illformed-tree")
    for (files, names), line in zip(trees, tout):
        m = CE.match(line)
        why = None
        if not m or m.group(1) != "labelsnotdefined":
            why = "two undefined labels in two files are not reported as such: %r" % line[:80]
        else:
            sl, sc, el, ec, fi = int(m.group(3)), int(m.group(4)), int(m.group(6)), int(m.group(7)), m.group(9)
            order = ["a.s", "lib.s"]          # import order
            text = dict(files)[order[int(fi)]] if fi.isdigit() and int(fi) < 2 else None
            lines_ = text.split("\n") if text is not None else []
            cov = lines_[sl][sc:ec + 1] if sl < len(lines_) and sl == el else None
            if cov not in names:
                why = "'labels not defined' %s is located in file %s at line %d columns %d-%d, which reads %r" % (names, fi, sl + 1, sc + 1, ec + 1, cov)
        if why:
            bad.append(dict(files=files, base="a.s", kind="illformed:undefined-in-two-files", why=why, output=line[:300]))
    return bad, len(cases) + len(trees)


def run(ctx):
    def both(ctx2, stores):
        bad, n = illformed_oracle(ctx2)
        ctx2.coverage["illformed_programs"] = n
        return oracle(ctx2, stores) + bad
    generic.run(ctx, "C16", ["new1", "dir1", "new", "dir", "markup"], dict(flow=160, random=80, conforming=10, injected=10, handlers=30),
                oracle=both, with_diag=True, what="CFG error paths")


replay = generic.replay
