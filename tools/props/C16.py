"""C16 - every analysis failure is explained at a real place in the user's files.
Theorems: Props/C16.v.  Tie: S4, S5, S9 error paths and S12 items.  Search oracle on the implementation
alone: for programs without parse errors, no generic/unlocated error, and an error names a label that
occurs at the reported place."""
import re
import lib, pipe
from props import generic

CE = re.compile(r"CE\((\w+) (.*?) @(\d+)\.(\d+)\.(\d+)-(\d+)\.(\d+)\.(\d+)/(\w+)\)")


def oracle(ctx, stores):
    sb = [(f, b) for f, b, _ in stores]
    parse = lib.run_impl(ctx, [lib.store_cmd("parse", f, b) for f, b in sb], tag="oracle-parse")
    impl = lib.run_impl(ctx, [lib.store_cmd("cfg live -", f, b) for f, b in sb], tag="oracle")
    bad = []
    for (f, b, tag), pl, line in zip(stores, parse, impl):
        if " E(" in pl or pl.startswith("E("):
            continue   # the property speaks of input that parses without errors
        if line in ("TIMEOUT", "CRASH"):
            continue   # termination is C06's business
        why = None
        if line == "PANIC":
            why = "analysis panics"
        m = CE.match(line)
        if m:
            kind, payload, sl, sc, sr, el, ec, er, fi = m.groups()
            if kind in ("unexpectederror", "other"):
                why = "generic error %r" % kind
            elif fi in ("n", "?"):
                why = "error %s attached to no file" % kind
            else:
                text = dict(f).get(b) if len(f) == 1 else None
                if text is not None and kind in ("labelsnotdefined", "duplicatelabel", "labelwithoutinstruction"):
                    names = [lib.dec(x) for x in payload.strip("[]").split(",") if x]
                    cov = text[int(sr):int(er) + 1].rstrip(":")
                    if cov not in names:
                        why = "error %s about %s is located on %r" % (kind, names, cov)
        elif not line.startswith("C("):
            why = "neither a graph nor an error: %r" % line[:80]
        if why:
            bad.append(dict(files=f, base=b, kind=tag, why=why, output=line[:400]))
    return bad


def illformed_oracle(ctx):
    """completeness: an ill-formed program IS reported, with the right kind, about the right name, at an occurrence of it"""
    import gen
    cases = [gen.illformed(ctx.rng) for _ in range(600 if ctx.thorough() else 150)]
    out = lib.run_impl(ctx, [lib.store_cmd("cfg live -", pipe.single(t), "a.s") for t, _, _, _ in cases], tag="illformed")
    bad = []
    for (t, kind, name, lines), line in zip(cases, out):
        m = CE.match(line)
        why = None
        if not m:
            why = "an ill-formed program (%s %r) is analysed without an error: %r" % (kind, name, line[:80])
        else:
            k2, payload, sl = m.group(1), m.group(2), int(m.group(3))
            names = [lib.dec(x) for x in payload.strip("[]").split(",") if x]
            if k2 != kind or name not in names:
                why = "expected %s about %r, got %s about %s" % (kind, name, k2, names)
            elif sl not in lines:
                why = "%s about %r is located on line %d, the fault is on line %s" % (kind, name, sl + 1, [l + 1 for l in lines])
        if why:
            bad.append(dict(files=pipe.single(t), base="a.s", kind="illformed:" + kind, why=why, output=line[:300]))
    return bad, len(cases)


def run(ctx):
    def both(ctx2, stores):
        bad, n = illformed_oracle(ctx2)
        ctx2.coverage["illformed_programs"] = n
        return oracle(ctx2, stores) + bad
    generic.run(ctx, "C16", ["new1", "dir1", "new", "dir", "markup"], dict(flow=160, random=80, conforming=10, injected=10, handlers=30),
                oracle=both, with_diag=True, what="CFG error paths")


replay = generic.replay
