"""C16 - every analysis failure is explained at a real place in the user's files.
Theorems: Props/C16.v.  Tie: S4, S5, S9 error paths and S12 items.  Search oracle on the implementation
alone: for programs without parse errors, no generic/unlocated error, and an error names a label that
occurs at the reported place."""
import re
import os, shutil
import lib, pipe
from props import generic

CE = re.compile(r"CE\((\w+) (.*?) @(\d+)\.(\d+)\.(\d+)-(\d+)\.(\d+)\.(\d+)/(\w+)\)")


def oracle(ctx, stores):
    sb = [(f, b) for f, b, _ in stores]
    parse = lib.run_impl(ctx, [lib.store_cmd("parse", f, b) for f, b in sb], tag="oracle-parse")
    impl = lib.run_impl(ctx, [lib.store_cmd("cfg live -", f, b) for f, b in sb], tag="oracle")
    bad = []
    for (f, b, tag), pl, line in zip(stores, parse, impl):
        if " E(" in pl or pl.startswith("E("):
            continue   # the property speaks of input that parses without errors
        if line in ("TIMEOUT", "CRASH"):
            continue   # termination is C06's business
        why = None
        if line == "PANIC":
            why = "analysis panics"
        m = CE.match(line)
        if m:
            kind, payload, sl, sc, sr, el, ec, er, fi = m.groups()
            if kind in ("unexpectederror", "other"):
                why = "generic error %r" % kind
            elif fi in ("n", "?"):
                why = "error %s attached to no file" % kind
            else:
                text = dict(f).get(b) if len(f) == 1 else None
                if text is not None and kind in ("labelsnotdefined", "duplicatelabel", "labelwithoutinstruction"):
                    names = [lib.dec(x) for x in payload.strip("[]").split(",") if x]
                    cov = text[int(sr):int(er) + 1].rstrip(":")
                    if cov not in names:
                        why = "error %s about %s is located on %r" % (kind, names, cov)
        elif not line.startswith("C("):
            why = "neither a graph nor an error: %r" % line[:80]
        if why:
            bad.append(dict(files=f, base=b, kind=tag, why=why, output=line[:400]))
    return bad


def illformed_oracle(ctx):
    """completeness: an ill-formed program IS reported, with the right kind, about the right name, at an occurrence of it"""
    import gen
    cases = [gen.illformed(ctx.rng) for _ in range(600 if ctx.thorough() else 150)]
    out = lib.run_impl(ctx, [lib.store_cmd("cfg live -", pipe.single(t), "a.s") for t, _, _, _ in cases], tag="illformed")
    bad = []
    for (t, kind, name, lines), line in zip(cases, out):
        m = CE.match(line)
        why = None
        if not m:
            why = "an ill-formed program (%s %r) is analysed without an error: %r" % (kind, name, line[:80])
        else:
            k2, payload, sl = m.group(1), m.group(2), int(m.group(3))
            names = [lib.dec(x) for x in payload.strip("[]").split(",") if x]
            if k2 != kind or name not in names:
                why = "expected %s about %r, got %s about %s" % (kind, name, k2, names)
            elif sl not in lines:
                why = "%s about %r is located on line %d, the fault is on line %s" % (kind, name, sl + 1, [l + 1 for l in lines])
        if why:
            bad.append(dict(files=pipe.single(t), base="a.s", kind="illformed:" + kind, why=why, output=line[:300]))
    # a condition that stops the analysis and lies (also) in an INCLUDED file: the error must sit on an occurrence of one of
    # the names, in a file that holds it - and the default output of the CLI (base file only) must not be silent about it
    KIND = {"undefined-two-files": "labelsnotdefined", "undefined-lib": "labelsnotdefined", "noreturn-lib": "functionwithoutreturn",
            "duplicate-lib": "duplicatelabel", "duplicate-across": "duplicatelabel", "eof-label-lib": "labelwithoutinstruction"}
    trees = [gen.stopping_tree(ctx.rng) for _ in range(240 if ctx.thorough() else 60)]
    tout = lib.run_impl(ctx, [lib.store_cmd("cfg live -", f, "a.s") for f, _, _, _ in trees], tag="illformed-tree")
    from props.C06 import build_rva
    ok_r, _log, rva = build_rva(False)
    work = os.path.join(ctx.rundir, "cli16")
    shutil.rmtree(work, ignore_errors=True)
    for ti, ((files, names, kind, where), line) in enumerate(zip(trees, tout)):
        m = CE.match(line)
        why = None
        if not m or m.group(1) != KIND[kind]:
            why = "%s %s in an included file is not reported as such: %r" % (kind, names, line[:80])
        else:
            sl, sc, el, ec, fi = int(m.group(3)), int(m.group(4)), int(m.group(6)), int(m.group(7)), m.group(9)
            order = ["a.s", "lib.s"]          # import order
            fname = order[int(fi)] if fi.isdigit() and int(fi) < 2 else None
            text = dict(files)[fname] if fname else None
            lines_ = text.split("\n") if text is not None else []
            cov = lines_[sl][sc:ec + 1] if sl < len(lines_) and sl == el else None
            if fname not in where:
                why = "%s %s is located in file %s, the fault is in %s" % (KIND[kind], names, fname, where)
            elif kind != "noreturn-lib" and (cov or "").rstrip(":") not in names:
                why = "%s %s is located in file %s at line %d columns %d-%d, which reads %r" % (KIND[kind], names, fi, sl + 1, sc + 1, ec + 1, cov)
            elif kind == "noreturn-lib" and (cov is None or not cov.strip()):
                why = "%s is located in file %s at line %d columns %d-%d, where there is no text" % (KIND[kind], fi, sl + 1, sc + 1, ec + 1)
        if not why and ok_r and ti < (120 if ctx.thorough() else 40):
            d = os.path.join(work, "t%d" % ti)
            os.makedirs(d)
            for pth, t in files:
                with open(os.path.join(d, pth), "w", newline="") as fh:
                    fh.write(t)
            rc, so, se = lib.run_cli([rva, "lint", "--no-color", os.path.join(d, "a.s")])
            txt = so.decode("utf-8", "replace")
            if rc != "timeout" and not ("found in other files" in txt or any(n in txt for n in names) or "rror" in txt):
                why = "the analysis stops with %s in %s, and the default output of `rva lint` says nothing about it: %r" % (KIND[kind], where, txt[:120])
        if why:
            bad.append(dict(files=files, base="a.s", kind="illformed:" + kind, why=why, output=line[:300]))
    shutil.rmtree(work, ignore_errors=True)
    return bad, len(cases) + len(trees)


def run(ctx):
    def both(ctx2, stores):
        bad, n = illformed_oracle(ctx2)
        ctx2.coverage["illformed_programs"] = n
        return oracle(ctx2, stores) + bad
    generic.run(ctx, "C16", ["new1", "dir1", "new", "dir", "markup"], dict(flow=160, random=80, conforming=10, injected=10, handlers=30),
                oracle=both, with_diag=True, what="CFG error paths")


replay = generic.replay
