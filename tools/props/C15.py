"""C15 - .include behaves as textual inclusion with per-file locations.
Theorems: Props/C15.v (parser position-parametricity, include faults, include = paste, per-file locations).
Tie: `parse` and `diag` stages of implementation and model on include trees with faults.  Search oracles on the
implementation alone: (1) a program cut at line boundaries into an include tree gets exactly the diagnostics of
the pasted single file, each at the file and file-relative line where its text lives (in-memory reader, and the
rva binary on directory trees incl. nested directories); (2) a missing / unreadable / self- / doubly-included
file gives one error on the directive's path and the remaining diagnostics are those of the program without that
line; (3) --all-files and the other-files counter agree with the per-file counts."""
import json, os, re, shutil, subprocess
import lib, gen, pipe
from props import common, generic
from props.C06 import build_rva
from props.C10 import write_files
from props.C18 import lib_items


def cut(rng, lines, depth=0, prefix="inc", counter=None, dirs=False):
    """cut `lines` into an include tree.  Returns (files, linemap) for the file holding `lines`:
    files: list of (name, [lines]); linemap: dict name -> list of original indices (index into the ORIGINAL `lines` numbering given by idx)"""
    raise NotImplementedError


def split_program(rng, lines, nested_dirs=False):
    """-> (files: list of (path, text), base, where: dict path -> list of original line numbers per file line (None for include lines))"""
    counter = [0]
    files, where = {}, {}

    def build(path, idxs, depth):
        """idxs: original line numbers that belong (transitively) to this file"""
        out, wh = [], []
        i = 0
        while i < len(idxs):
            if depth < 3 and len(idxs) - i >= 2 and rng.random() < (0.25 if depth == 0 else 0.15):
                j = rng.randrange(i + 1, min(len(idxs), i + 8) + 1)
                counter[0] += 1
                d = os.path.dirname(path)
                sub = ("sub%d/" % counter[0]) if nested_dirs and rng.random() < 0.5 else ""
                child_rel = "%sinc%d.s" % (sub, counter[0])
                child = os.path.join(d, child_rel) if nested_dirs else child_rel
                build(child, idxs[i:j], depth + 1)
                out.append(rng.choice(['.include "%s"', '  .include   "%s"', '.include "%s"   ', '\t.include "%s"']) % child_rel)
                wh.append(None)
                i = j
            else:
                out.append(lines[idxs[i]])
                wh.append(idxs[i])
                i += 1
        files[path] = out
        where[path] = wh

    build("a.s", list(range(len(lines))), 0)
    # a file's last line may lack its newline (the reader closes it): in the base file and in included files
    return [(p, "\n".join(ls) + ("\n" if rng.random() < 0.65 else "")) for p, ls in files.items()], "a.s", where


def key_items(items, where=None, base_dir=None):
    """items from lib_items / JSON -> sorted list of (sev, title, original line, col, endcol)"""
    out = []
    for it in items:
        f, (sl, sc, sr, el, ec, er) = it["file"], it["r"]
        if where is not None:
            wl = where.get(f)
            ol = wl[sl] if wl is not None and sl < len(wl) else ("?", f, sl)
        else:
            ol = sl
        out.append((it["sev"], it["title"], ol, sc, ec))
    return sorted(out, key=repr)


def run(ctx):
    proof_ok, can_run = common.prepare(ctx, "C15")
    ok_d, log_d, rva = build_rva(False)
    if not (can_run and ok_d):
        common.broken_without_input(ctx, "build", (ctx.notes[-1] if ctx.notes else "") + log_d)
        return
    k = ctx.scale(4)
    rng = ctx.rng
    failing, dis = [], []
    # ---- programs and their cuts -------------------------------------------------------------------
    progs = []
    for _ in range(60 * k):
        L, _m = gen.conforming(rng, nfuncs=rng.randrange(1, 3))
        r = gen.inject(rng, L, rng.choice(gen.VIOLATIONS))
        progs.append(list(r[0]) if r else L)
    for _ in range(60 * k):
        progs.append(gen.random_flow(rng).rstrip("\n").split("\n"))
    for _ in range(40 * k):
        progs.append(gen.mutated_text(rng, gen.render(rng, gen.program(rng, rng.randrange(3, 14)), dict(crlf=False))).rstrip("\n").split("\n"))
    for _ in range(30 * k):          # the analysis stops (undefined / duplicate labels, no return ...): cut so that the faults lie in different files
        f, _n, _k, _w = gen.stopping_tree(rng)
        a, b = dict(f)["a.s"].rstrip("\n").split("\n"), dict(f)["lib.s"].rstrip("\n").split("\n")
        progs.append([l for l in a if ".include" not in l] + b)
    progs = [p for p in progs if not any(".include" in l or ".macro" in l.lower() or re.match(r"^\s*[-+0-9']", l) for l in p)]
    cases = []
    for p in progs:
        files, base, where = split_program(rng, p)
        if len(files) > 1:
            cases.append((p, files, base, where))
    # twin files: the same text included under two names (identical diagnostics at identical file-relative positions)
    for p in progs[:40 * k]:
        block = rng.choice([["addi zero, a0, 1"], [" li t5, 3", " addi zero, t5, 2"], ["lw t0, 4(sp"], [" frob a0", " addi zero, zero, 0"]])
        i = rng.randrange(0, len(p) + 1)
        j = rng.randrange(i, len(p) + 1)
        full = p[:i] + block + p[i:j] + block + p[j:]
        a_lines = p[:i] + ['.include "u1.s"'] + p[i:j] + ['.include "lib/u2.s"'] + p[j:]
        wa = list(range(i)) + [None] + list(range(i + len(block), j + len(block))) + [None] + list(range(j + 2 * len(block), len(full)))
        where = {"a.s": wa, "u1.s": list(range(i, i + len(block))), "lib/u2.s": list(range(j + len(block), j + 2 * len(block)))}
        cases.append((full, [("a.s", "\n".join(a_lines) + "\n"), ("u1.s", "\n".join(block) + "\n"), ("lib/u2.s", "\n".join(block) + "\n")], "a.s", where))
    # the witness of the recorded finding (known_findings.json: labels of one function entry spread over two files)
    wp = ["main:", "B1:", " li a7, 5", " ecall", " ret", " call B2", " call B1", " li a7, 10", " ecall", "B2:", " j B1"]
    cases.append((wp, [("a.s", "\n".join([wp[0], '.include "inc1.s"'] + wp[5:]) + "\n"), ("inc1.s", "\n".join(wp[1:5]) + "\n")], "a.s",
                  {"a.s": [0, None] + list(range(5, 11)), "inc1.s": [1, 2, 3, 4]}))
    pasted = lib.run_impl(ctx, [lib.store_cmd("repeat 1", pipe.single("\n".join(p) + "\n"), "a.s") for p, _, _, _ in cases], tag="pasted")
    split = lib.run_impl(ctx, [lib.store_cmd("repeat 1", f, b) for _, f, b, _ in cases], tag="split")
    # nodes and parse errors of the tree = those of the pasted file, up to positions (the statement sequence itself)
    ERASE = re.compile(r"@[^ )\]]*")
    def shape(line):
        line = re.sub(r" \| [^)]*\)", ")", line)
        line = re.sub(r"\d+\.\d+\.\d+ \d+\.\d+\.\d+/\w+( \d+\.\d+\.\d+)?", "", line)       # token range [+ error position] of a parse error
        return [x for x in re.findall(r"[NE]\((?:[^()]|\([^()]*\))*\)", ERASE.sub("", line)) if not x.startswith("N(progentry")]
    pp = lib.run_impl(ctx, [lib.store_cmd("parse", pipe.single("\n".join(p) + "\n"), "a.s") for p, _, _, _ in cases], tag="pasted-parse")
    sp = lib.run_impl(ctx, [lib.store_cmd("parse", f, b) for _, f, b, _ in cases], tag="split-parse")
    for (p, files, base, where), a, b in zip(cases, pp, sp):
        if a.endswith(("TIMEOUT", "PANIC", "CRASH")) or b.endswith(("TIMEOUT", "PANIC", "CRASH")):
            continue
        sa, sb_ = shape(a), shape(b)
        if sa != sb_:
            i = next((i for i, (x, y) in enumerate(zip(sa, sb_)) if x != y), min(len(sa), len(sb_)))
            failing.append(dict(files=files, base=base, kind="cut-parse", pasted="\n".join(p),
                                why="the include tree does not parse to the statements of the pasted file: item %d is %s in the pasted file and %s in the tree (%d vs %d items)" % (
                                    i, sa[i] if i < len(sa) else "-", sb_[i] if i < len(sb_) else "-", len(sa), len(sb_))))
    depth_hist = {}
    for (p, files, base, where), a, b in zip(cases, pasted, split):
        ia, ib = lib_items(a), lib_items(b)
        depth_hist[len(files)] = depth_hist.get(len(files), 0) + 1
        if ia is None or ib is None:
            if (ia is None) != (ib is None):
                failing.append(dict(files=files, base=base, kind="cut", why="pasted program %s, split program %s" % (a[:30], b[:30])))
            continue
        ka, kb = key_items(ia), key_items(ib, where)
        if ka != kb:
            only_a, only_b = [x for x in ka if x not in kb], [x for x in kb if x not in ka]
            cls = None
            if only_a and len(only_a) == len(only_b) and all(x[1] == "Node in many functions" for x in only_a + only_b):
                # the recorded finding: both places are labels of ONE entry (nothing but labels between them in the pasted
                # program) that the cut put into different files
                fl = lambda ln: next((fn for fn, wl in where.items() if ln in wl), None)
                same_entry = True
                for x, y in zip(sorted(only_a, key=repr), sorted(only_b, key=repr)):
                    if not (isinstance(x[2], int) and isinstance(y[2], int)):
                        same_entry = False
                        break
                    lo, hi = sorted([x[2], y[2]])
                    if not all(l.strip().endswith(":") for l in p[lo:hi + 1]) or fl(lo) == fl(hi):
                        same_entry = False
                if same_entry:
                    cls = "cut:overlap-label-choice-across-files"
            failing.append(dict(files=files, base=base, kind="cut", pasted="\n".join(p), cls=cls,
                                why="the include tree and the pasted file get different diagnostics (sev, title, original line, columns): only pasted %s / only split %s" % (
                                    only_a[:3], only_b[:3])))
    # ---- faults --------------------------------------------------------------------------------------
    fault_cases = []
    for p in progs[:120 * k]:
        i = rng.randrange(0, len(p) + 1)
        kind = rng.choice(["missing", "io", "self", "twice", "cycle"])
        base_lines = list(p)
        files = []
        if kind == "missing":
            inc, title = "nothere.s", "File not found: nothere.s"
        elif kind == "io":
            inc, title = "bad.s", "IO Error: bad.s"
            files.append(("bad.s", None))
        elif kind == "self":
            inc, title = "a.s", "Cyclic dependency"
        elif kind == "twice":
            inc, title = "lib.s", "Cyclic dependency"
            files.append(("lib.s", "# nothing\n"))
            base_lines = ['.include "lib.s"'] + base_lines      # first inclusion succeeds (contributes nothing)
            i += 1
        else:
            inc, title = "a.s", "Cyclic dependency"           # a.s -> c.s -> a.s : the error is in c.s
            files.append(("c.s", '.include "a.s"\n'))
        line = '.include "%s"' % (inc if kind != "cycle" else "c.s")
        with_fault = base_lines[:i] + [line] + base_lines[i:]
        files = [("a.s", "\n".join(with_fault) + "\n")] + files
        without = base_lines
        fault_cases.append((kind, title, i, files, without))
    fa = lib.run_impl(ctx, [lib.store_cmd("repeat 1", f, "a.s") for _, _, _, f, _ in fault_cases], tag="fault")
    fb = lib.run_impl(ctx, [lib.store_cmd("repeat 1", [("a.s", "\n".join(w) + "\n")] + [x for x in f[1:] if x[0] == "lib.s"], "a.s") for _, _, _, f, w in fault_cases], tag="nofault")
    for (kind, title, i, files, without), a, b in zip(fault_cases, fa, fb):
        ia, ib = lib_items(a), lib_items(b)
        if ia is None or ib is None:
            if (ia is None) != (ib is None):
                failing.append(dict(files=files, base="a.s", kind="fault:" + kind, why="with the failing include: %s; without: %s" % (a[:30], b[:30])))
            continue
        errs = [x for x in ia if x["title"].startswith(title)]
        where_file = "c.s" if kind == "cycle" else "a.s"
        where_line = 0 if kind == "cycle" else i
        if len(errs) != 1 or errs[0]["file"] != where_file or errs[0]["r"][0] != where_line:
            failing.append(dict(files=files, base="a.s", kind="fault:" + kind,
                                why="expected exactly one %r on the directive (file %s line %d), got %s" % (
                                    title, where_file, where_line + 1, [(x["title"], x["file"], x["r"][0] + 1) for x in ia if "include" in x["title"].lower() or x in errs][:4])))
            continue
        col = files[0][1].split("\n")[i].index('"') if kind != "cycle" else 9
        if errs[0]["r"][1] != col:
            failing.append(dict(files=files, base="a.s", kind="fault:" + kind, why="the error is at column %d, the path starts at column %d" % (errs[0]["r"][1], col)))
            continue
        rest = [x for x in ia if x is not errs[0]]
        shift = lambda l: l - 1 if l > i else l
        ka = sorted(((x["sev"], x["title"], shift(x["r"][0]) if x["file"] == "a.s" else x["r"][0], x["r"][1], x["r"][4]) for x in rest), key=repr)
        if kind == "cycle":
            ka = sorted(((x["sev"], x["title"], shift(x["r"][0]), x["r"][1], x["r"][4]) for x in rest if x["file"] == "a.s"), key=repr)
        kb = key_items(ib)
        if ka != kb:
            failing.append(dict(files=files, base="a.s", kind="fault:" + kind,
                                why="a failing include changes the other diagnostics: only with the include %s / only without %s" % (
                                    [x for x in ka if x not in kb][:3], [x for x in kb if x not in ka][:3])))
    # ---- the rva binary on directory trees (nested directories; --all-files) -----------------------------
    work = os.path.join(ctx.rundir, "cli")
    shutil.rmtree(work, ignore_errors=True)
    os.makedirs(work)
    cli_runs = 0
    # a file included a second time under ANOTHER SPELLING of its path (./, ../, dir/../): textual inclusion of one file
    # twice is refused - exactly one 'Cyclic dependency' error, on the path token of the second directive, in the file that
    # holds it - and the file's own diagnostics appear once (round 9: the already-read test ran before the path was made
    # canonical, so only literally repeated spellings were recognised)
    for si in range(8 * k):
        d = os.path.join(work, "sp%d" % si)
        body = rng.choice([" addi zero, a0, 1\n li t5, 3\n", " li t4, 1\n li t4, 2\n add a0, a0, t4\n", "helper:\n addi a0, a0, 1\n ret\n"])
        first = rng.choice(["snip/clear.s", "./snip/clear.s", "snip/../snip/clear.s", "lib/../snip/clear.s"])
        via_lib = rng.random() < 0.5
        again = rng.choice(["../snip/clear.s", "../snip/./clear.s", "./../snip/clear.s", "../lib/../snip/clear.s"]) if via_lib else \
            rng.choice([x for x in ["snip/clear.s", "./snip/clear.s", "snip/../snip/clear.s", "lib/../snip/clear.s", "snip//clear.s"] if x != first])
        sfiles = [("main.s", "main:\n li a0, 1\n.include \"%s\"\n.include \"%s\"\n li a7, 10\n ecall\n" % (first, "lib/sum.s" if via_lib else again)),
                  ("lib/sum.s", " addi a0, a0, 2\n.include \"%s\"\n" % again if via_lib else " addi a0, a0, 2\n"),
                  ("snip/clear.s", body)]
        write_files(d, sfiles)
        try:
            pr = subprocess.run([rva, "lint", "--json", "--all-files", os.path.join(d, "main.s")], stdout=subprocess.PIPE, stderr=subprocess.PIPE, timeout=10)
            cli_runs += 1
            jd = json.loads(pr.stdout.decode("utf-8", "replace"))["diagnostics"]
        except subprocess.TimeoutExpired:
            failing.append(dict(files=sfiles, base="main.s", kind="spellings", why="rva does not return on a tree that includes %r again as %r" % (first, again)))
            continue
        except (ValueError, KeyError):
            continue
        holder, hline = ("lib/sum.s", 1) if via_lib else ("main.s", 3)
        htext = dict(sfiles)[holder].split("\n")[hline]
        cyc = [x for x in jd if x["title"].startswith("Cyclic dependency")]
        ok_ = (len(cyc) == 1 and cyc[0]["file"] == os.path.realpath(os.path.join(d, holder)) and cyc[0]["range"]["start"]["line"] == hline
               and cyc[0]["range"]["start"]["column"] == htext.index('"'))
        dupl = [x["title"] for x in jd if x["title"].startswith("Duplicate label")]
        if not ok_ or dupl:
            failing.append(dict(files=sfiles, base="main.s", kind="spellings",
                                why="%r is included as %r and again as %r (line %d of %s): expected exactly one 'Cyclic dependency' error on that path token; got %s" % (
                                    "snip/clear.s", first, again, hline + 1, holder, [(x["title"], os.path.relpath(x["file"], d) if x["file"] else None, x["range"]["start"]["line"] + 1) for x in jd][:6])))
    for ci, p in enumerate(progs[:50 * k]):
        files, base, where = split_program(rng, p, nested_dirs=True)
        if len(files) < 2:
            continue
        d = os.path.join(work, "c%d" % ci)
        os.makedirs(d)
        try:
            write_files(d, files)
            write_files(d, [("pasted.s", "\n".join(p) + "\n")])
        except (UnicodeEncodeError, OSError):
            continue
        outs = {}
        try:
            for name, args in (("split", ["--json", os.path.join(d, base)]), ("pasted", ["--json", os.path.join(d, "pasted.s")]),
                               ("compact", ["--compact", "--no-color", os.path.join(d, base)]),
                               ("compact-all", ["--compact", "--no-color", "--all-files", os.path.join(d, base)])):
                pr = subprocess.run([rva, "lint"] + args, stdout=subprocess.PIPE, stderr=subprocess.PIPE, timeout=10)
                cli_runs += 1
                outs[name] = pr.stdout.decode("utf-8", "replace")
            js, jp = json.loads(outs["split"])["diagnostics"], json.loads(outs["pasted"])["diagnostics"]
        except (subprocess.TimeoutExpired, ValueError):
            continue
        real = {os.path.realpath(os.path.join(d, f)): f for f, _ in files}
        conv = lambda x, f: dict(sev=x["level"], title=x["title"], file=f, r=(x["range"]["start"]["line"], x["range"]["start"]["column"], 0, 0, x["range"]["end"]["column"], 0))
        ks = key_items([conv(x, real.get(x["file"], x["file"])) for x in js], where)
        kp = key_items([conv(x, "pasted.s") for x in jp])
        inp = dict(files=files, base=base, kind="cli-tree", pasted="\n".join(p))
        if ks != kp:
            failing.append(dict(inp, why="rva: the include tree (with sub-directories) and the pasted file get different diagnostics: only pasted %s / only split %s" % (
                [x for x in kp if x not in ks][:3], [x for x in ks if x not in kp][:3])))
            continue
        nbase = sum(1 for x in js if real.get(x["file"]) == base)
        lines_c = [l for l in outs["compact"].split("\n") if l]
        lines_a = [l for l in outs["compact-all"].split("\n") if l]
        other = len(js) - nbase
        cnt = [l for l in lines_c if "found in other files" in l]
        want = [] if other == 0 else ["%d diagnostic%s found in other files. To see all errors, run with the `--all-files` option." % (other, "s" if other > 1 else "")]
        if len(lines_a) != len(js) or len(lines_c) - len(cnt) != nbase or cnt != want:
            failing.append(dict(inp, why="--all-files shows %d lines for %d diagnostics; default shows %d for %d in the base file; counter %r expected %r" % (
                len(lines_a), len(js), len(lines_c) - len(cnt), nbase, cnt, want)))
    # ---- correspondence with the model on include trees with faults ------------------------------------------
    stores = [(f, b) for _, f, b, _ in cases[:80 * k]] + [(f, "a.s") for _, _, _, f, _ in fault_cases[:80 * k]]
    n, sdis, hist = pipe.stage_compare(ctx, stores, ["parse"])
    ddis, _ = pipe.diag_compare(ctx, stores)
    dis = sdis + ddis
    ctx.coverage.update(
        evaluations=2 * len(cases) + 2 * len(fault_cases) + cli_runs + 2 * len(stores), distinct_nontrivial=len(cases) + len(fault_cases),
        rule="programs (conforming+injected, random flow, mutated text) cut at random line boundaries into include trees up to depth 3 (random "
             "spacing of the directive); linted split and pasted through RVParser::run with an in-memory reader: diagnostics compared as "
             "(severity, title, ORIGINAL line via the cut map, columns); one failing include (missing, IO fault, self, second inclusion, cycle) "
             "inserted at a random line: exactly one error on the path token, other diagnostics equal to the program without the line; rva on "
             "directory trees with nested sub-directories vs the pasted file, --all-files vs counter; plus model correspondence (parse, diag)",
        samples=[dict(files=cases[0][1])] if cases else [], tree_sizes=depth_hist, fault_cases=len(fault_cases), cli_runs=cli_runs,
        correspondence_disagreements=len(dis), oracle_failures=len(failing), exhaustive=False)
    known = lib.load_known("C15")
    fresh = []
    for f in failing:
        hit = [x for x in known if x["class"] == f.get("cls")]
        if hit:
            line = "%s: %s" % (f["cls"], hit[0]["what"][:160])
            if line not in ctx.known_lines:
                ctx.known_lines.append(line)
        else:
            fresh.append(f)
    failing = fresh
    if failing:
        lib.violation(ctx, "input", dict(property="C15", input=failing[0], all_failing=failing[:10]), True)
        return
    if dis or not proof_ok:
        common.broken_without_input(ctx, "correspondence of the file driver (parse/diag over include trees)" if dis else "theorems of Props/C15.v",
                                    dict(disagreements=dis[:8], proof=ctx.proof["failed"]))


replay = generic.replay
