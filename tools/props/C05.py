"""C05 - each kind of convention violation is reported where it occurs.
Theorems: Props/C05.v (every trigger is reported at its location; first offending stack node; first-use
searches).  Tie: S11/S12 on clean programs with one injected violation.  Search oracle on the implementation
alone: the diagnostic of the injected kind must be reported on the line of the injected instruction."""
import lib, gen, pipe
from props import common, generic

TITLE = {"save-to-zero": "Saving to zero register", "dead-assignment": "Unused value", "invalid-use-after-call": "Invalid use after call",
         "invalid-use-before-assignment": "Invalid use before assignment", "overwrite-callee-saved-register": "Overwrite callee-saved register",
         "lost-register-value": "Lost register value", "invalid-stack-offset-usage": "Invalid stack offset usage",
         "invalid-segment": "Invalid segment", "unknown-ecall": "Unknown ecall", "unreachable-code": "Unreachable line of code",
         "invalid-jump-to-function": "Invalid jump to function", "first-instruction-is-function": "First instruction is function"}


def run(ctx):
    proof_ok, can_run = common.prepare(ctx, "C05")
    if not can_run:
        common.broken_without_input(ctx, "build", ctx.notes[-1] if ctx.notes else "")
        return
    k = ctx.scale(5)
    rng = ctx.rng
    cases = []
    for _ in range(500 * k):
        L, _m = gen.conforming(rng, nfuncs=rng.randrange(0, 3))
        kind = rng.choice(gen.VIOLATIONS)
        r = gen.inject(rng, L, kind)
        if r:
            cases.append((kind,) + tuple(r[:3]) + (list(r[3]) if len(r) > 3 else [],))
    # half of the programs are spread over an include tree: the diagnostic must be in the file and at the file-relative
    # line where the injected text lives
    from props import C15
    stores, wheres = [], []
    for c in cases:
        if rng.random() < 0.5:
            files, base, where = C15.split_program(rng, list(c[1]))
            files = [(p_, t if t.endswith("\n") else t + "\n") for p_, t in files]
            stores.append((files, base))
            wheres.append((where, [p_ for p_, _ in files]))
        else:
            stores.append((pipe.single("\n".join(c[1]) + "\n"), "a.s"))
            wheres.append(None)
    dis, parsed = pipe.diag_compare(ctx, stores)
    failing, per_kind = [], {}
    runs = lib.run_impl(ctx, [lib.store_cmd("repeat 1", f, b) for f, b in stores], tag="located")
    from props.C18 import lib_items
    for (kind, L, code, marker, extra), (sa, ia, sm, im), wh, rl in zip(cases, parsed, wheres, runs):
        if wh is not None:
            # map every item of the tree back to the line of the undivided program (file NAME + file-relative line)
            items = lib_items(rl) or []
            ia = []
            for it in items:
                wl = wh[0].get(it["file"])
                ol = wl[it["r"][0]] if wl is not None and it["r"][0] < len(wl) and wl[it["r"][0]] is not None else -1
                ia.append(("", it["title"], "", 0, ["%d.%d.%d-x" % (ol, it["r"][1], it["r"][2])], False))
            if sa == "ok" and lib_items(rl) is None:
                sa = "timeout"
        per_kind[kind] = per_kind.get(kind, 0) + 1
        if sa == "timeout":
            continue          # termination is C06's property
        if sa != "ok":
            failing.append(dict(program="\n".join(L), injected=kind, why="linting ends with %s" % sa))
            continue
        want_line = None
        ml = marker.split("\n")
        # (the same text may also occur legitimately elsewhere, e.g. a scratch access inside a larger frame)
        want_lines = [i + len(ml) - 1 for i in range(len(L)) if L[i:i + len(ml)] == ml]
        want_line = want_lines[0] if want_lines else None
        if kind == "first-instruction-is-function":
            want_line = 1        # the function's first instruction
        hits = [x for x in ia if x[1] == TITLE[code]]
        on_line = [x for x in hits if want_line is None or int(x[4][0].split(".")[0]) in (want_lines if kind != "first-instruction-is-function" else [want_line])]
        if kind == "invalid-jump-to-function":
            # reported at the entered function's first instruction (the jump is the related location)
            fl = L.index(marker.split(" ")[1] + ":") + 1
            on_line = [x for x in hits if int(x[4][0].split(".")[0]) == fl]
            want_line = fl
        for ex in extra:          # further places where the same violation occurs
            el = ex if isinstance(ex, int) else L.index(ex)
            if not [x for x in hits if int(x[4][0].split(".")[0]) == el]:
                on_line = []
                want_line = el
        if not on_line:
            failing.append(dict(program="\n".join(L), injected=kind, marker=marker,
                                why="no %r diagnostic on line %s (got %s)" % (TITLE[code], want_line + 1 if want_line is not None else "?",
                                                                              [(x[1], x[4][0]) for x in ia][:6])))
    ctx.coverage.update(
        evaluations=2 * len(cases), distinct_nontrivial=len(set("\n".join(c[1]) for c in cases)),
        rule="a conforming-by-construction program plus ONE injected violation of a random kind at a random admissible site; linted by the "
             "implementation and the model (diagnostic lists compared) and the diagnostic of the injected kind required on the injected "
             "line; distinct = distinct programs", samples=[dict(kind=cases[i][0], marker=cases[i][3], program="\n".join(cases[i][1])[:500]) for i in (0, 1)],
        injected_per_kind=per_kind, correspondence_disagreements=len(dis), oracle_failures=len(failing), exhaustive=False)
    if failing:
        lib.violation(ctx, "injection", dict(property="C05", input=failing[0], all_failing=failing[:10]), True)
        return
    if dis or not proof_ok:
        common.broken_without_input(ctx, "correspondence of the lints" if dis else "theorems of Props/C05.v",
                                    dict(disagreements=dis[:8], proof=ctx.proof["failed"]))


replay = generic.replay
