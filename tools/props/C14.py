"""C14 - renaming labels or same-class registers only renames the diagnostics.
Theorems: Props/C14.v (class tables invariant under class permutations, gen/kill and the analyses equivariant).
Tie: the usual stage correspondence on the renamed programs.  Search oracle on the implementation alone: every
program is linted as written and after a random injective label renaming and a random permutation of t0-t6 and of
s0-s11; the diagnostics must be the same kinds on the same statements and operand positions, the operands mapped
through the permutation."""
import re
import lib, gen, pipe
from props import common, generic
from props.C18 import lib_items
from props import C13

TEMPS = [5, 6, 7, 28, 29, 30, 31]
SAVED = [8, 9] + list(range(18, 28))


SPECIAL_NAMES = ["T1", "S2", "A3", "RA", "SP", "Zero", "X5", "FP", "Gp", "tP", "S11", "x32", "t7", "s12", "ra2", "a8", "x031",
                 "ret", "add", "li", "ecall", "Jal", "NOP", "mv", "j", "b", "call", "word", "text", "main_", "_start", "a", "x", "t", "s"]


def rename_items(items, sigma, rho):
    out = []
    for it in items:
        if it[0] == "label":
            out.append(("label", rho.get(it[1], it[1])))
            continue
        _, m, ops = it
        nops = []
        for o in ops:
            mm = re.match(r"^(-?\w*)\((\w+)\)$", o.replace(" ", ""))
            if mm and mm.group(2) in C13.REGNUM:
                nops.append("%s(%s)" % (mm.group(1), C13.ABI[sigma[C13.REGNUM[mm.group(2)]]]))
            elif o in C13.REGNUM:
                nops.append(C13.ABI[sigma[C13.REGNUM[o]]])
            else:
                nops.append(rho.get(o, o))
        out.append(("inst", m, nops))
    return out


def plain_keys(items_out, w, mapc=None):
    starts, ends, single = w[1], w[2], w[4]
    out = []
    for it in items_out:
        sl, sc, _, el, ec, _ = it["r"]
        a, b = starts.get((sl, sc)), ends.get((el, ec))
        def mp(k):
            if k is None or mapc is None:
                return k
            return (k[0], mapc(k[1]), k[2])
        out.append((it["sev"], re.sub(r": .*$", "", it["title"], flags=re.S), mp(a) if a else ("?", sl, sc), mp(b) if b else ("?", el, ec)))
    return sorted(out, key=repr)


def run(ctx):
    proof_ok, can_run = common.prepare(ctx, "C14")
    if not can_run:
        common.broken_without_input(ctx, "build", ctx.notes[-1] if ctx.notes else "")
        return
    k = ctx.scale(5)
    rng = ctx.rng
    progs = []
    for _ in range(150 * k):
        L, _m = gen.conforming(rng, nfuncs=rng.randrange(0, 3))
        if rng.random() < 0.8:
            r = gen.inject(rng, L, rng.choice(gen.VIOLATIONS))
            L = list(r[0]) if r else L
        progs.append(L)
    for _ in range(150 * k):
        progs.append([l for l in gen.random_flow(rng).split("\n") if l.strip()])
    for _ in range(40 * k):
        progs.append([l for l in gen.stack_fuzz(rng).split("\n") if l.strip()])
    for _ in range(200 * k):
        f, b = gen.det_prog(rng)
        if len(f) == 1:
            progs.append([l for l in f[0][1].split("\n") if l.strip()])
    for _ in range(60 * k):          # interrupt handlers (uret hands back every register: the 'all registers' table is a class table too)
        progs.append([l for l in gen.handler_prog(rng).split("\n") if l.strip()])
    progs = [[l for l in p if not l.strip().startswith((".", "#"))] for p in progs]
    cases = []
    for p in progs:
        items = [C13.parse_line(l) for l in p]
        labels = sorted(set(it[1] for it in items if it[0] == "label"))
        fresh = rng.sample(["__return__"] + ["zz%d" % i for i in range(200)] + ["Q_%d_x" % i for i in range(50)] + ["a%db" % i for i in range(50)] + ["_", "__a"], len(labels))
        # names that only look like registers or mnemonics (other case, one character more or less) are labels too
        special = rng.sample(SPECIAL_NAMES, len(SPECIAL_NAMES))
        fresh = [special.pop() if special and rng.random() < 0.2 else f for f in fresh]
        rho = dict(zip(labels, fresh)) if rng.random() < 0.8 else {}
        called = sorted(set(it[2][-1] for it in items if it[0] == "inst" and it[1] in ("jal", "call") and it[2] and it[2][-1] in labels))
        if rho and called and rng.random() < 0.4 and "__return__" not in rho.values():
            rho[rng.choice(called)] = "__return__"       # a valid identifier that the analyzer once used internally
        sigma = list(range(32))
        if rng.random() < 0.85:
            t2 = TEMPS[:]
            rng.shuffle(t2)
            s2 = SAVED[:]
            rng.shuffle(s2)
            for a, b in zip(TEMPS, t2):
                sigma[a] = b
            for a, b in zip(SAVED, s2):
                sigma[a] = b
        ren = rename_items(items, sigma, rho)
        cases.append((items, ren, sigma, rho, C13.write(rng, items, False), C13.write(rng, ren, False)))
    oa = lib.run_impl(ctx, [lib.store_cmd("repeat 1", pipe.single(c[4][0]), "a.s") for c in cases], tag="orig")
    ob = lib.run_impl(ctx, [lib.store_cmd("repeat 1", pipe.single(c[5][0]), "a.s") for c in cases], tag="renamed")
    failing, compared = [], 0
    for (items, ren, sigma, rho, wa, wb), a, b in zip(cases, oa, ob):
        ia, ib = lib_items(a), lib_items(b)
        inp = dict(files=pipe.single(wb[0]), base="a.s", kind="renamed", original=wa[0],
                   permutation={C13.ABI[i]: C13.ABI[j] for i, j in enumerate(sigma) if i != j}, labels=rho)
        if ia is None or ib is None:
            if (ia is None) != (ib is None):
                failing.append(dict(inp, why="original: %s; renamed: %s" % (a[:40], b[:40])))
            continue
        def mapc(c):
            if c[0] == "R":
                return ("R", sigma[c[1]])
            if c[0] == "L":
                return ("L", rho.get(c[1], c[1]))
            return c
        ka, kb = plain_keys(ia, wa, mapc), plain_keys(ib, wb)
        compared += 1
        if ka != kb:
            failing.append(dict(inp, why="renaming changes the diagnostics (severity, title, (statement, operand) of start and end, operands mapped): only original %s / only renamed %s" % (
                [x for x in ka if x not in kb][:3], [x for x in kb if x not in ka][:3])))
    stores = [(pipe.single(c[5][0]), "a.s") for c in cases[:120 * k]]
    ddis, _ = pipe.diag_compare(ctx, stores)
    ctx.coverage.update(
        evaluations=2 * len(cases) + 2 * len(stores), distinct_nontrivial=len(cases),
        rule="each program (conforming + injected violation, random flow, stack programs, multi-label/multi-return functions) is linted as "
             "written and after a random injective renaming of all labels (incl. names that look like registers or mnemonics: t7, s12, x32, T1, RA, Zero, ret, add, j) and a random "
             "permutation of t0-t6 and of s0-s11; diagnostics compared as (severity, kind, statement index, operand value mapped through the "
             "renaming, occurrence) for the start and end of the range; distinct = distinct programs",
        samples=[dict(original=cases[0][4][0][:300], renamed=cases[0][5][0][:300])], pairs_compared=compared,
        correspondence_disagreements=len(ddis), oracle_failures=len(failing), exhaustive=False)
    if failing:
        lib.violation(ctx, "input", dict(property="C14", input=failing[0], all_failing=failing[:10]), True)
        return
    if ddis or not proof_ok:
        common.broken_without_input(ctx, "correspondence of the lints on renamed programs" if ddis else "theorems of Props/C14.v",
                                    dict(disagreements=ddis[:8], proof=ctx.proof["failed"]))


replay = generic.replay
