"""C13 - diagnostics do not depend on how the same program is written.
Theorems: Props/C13.v (layout at the lexer, comments/blank lines at the parser, spelling tables, immediate
notations, optional operand forms, pseudo-instructions) + Props/Param.v (the whole pipeline is parametric in
source positions).  Tie: lexer/parser/diag correspondence on the rewritten texts.  Search oracle on the
implementation alone: every program is written twice - plainly, and with a random composition of meaning-
preserving rewrites at every site (spacing, tabs, separators, comments, blank lines, case, x-names, hex/binary/
character immediates, label placement, omitted zero offsets, pseudo-instruction <-> official expansion) - and the
two must get the same diagnostics on the same statements and operands."""
import re
import lib, gen, pipe
from props import common, generic
from props.C18 import lib_items

ABI = gen.REGS_ABI
REGNUM = {n: i for i, n in enumerate(ABI)}
REGNUM.update({"x%d" % i: i for i in range(32)})
REGNUM["fp"] = 8


def parse_line(l):
    l = l.strip()
    if l.endswith(":"):
        return ("label", l[:-1])
    if l.startswith("."):
        parts = l.split(None, 1)
        return ("dir", parts[0], [o.strip() for o in parts[1].split(",")] if len(parts) > 1 else [])
    parts = l.split(None, 1)
    ops = [o.strip() for o in parts[1].split(",")] if len(parts) > 1 else []
    return ("inst", parts[0], ops)


def expand(rng, m, ops):
    """pseudo-instruction -> official expansion (same operand VALUES, possibly more operands); or None"""
    z = "zero"
    def small(v):
        try:
            return -2048 <= int(v) < 2048
        except ValueError:
            return False
    table = {
        "mv": lambda: ("addi", [ops[0], ops[1], "0"]),
        "li": lambda: ("addi", [ops[0], z, ops[1]]) if small(ops[1]) else None,
        "j": lambda: ("jal", [z, ops[0]]),
        "jal": lambda: ("jal", ["ra", ops[0]]) if len(ops) == 1 else None,
        "call": lambda: ("jal", ["ra", ops[0]]),
        "ret": lambda: rng.choice([("jalr", [z, "ra", "0"]), ("jalr", [z, "0(ra)"]), ("jr", ["ra"])]),
        "jr": lambda: ("jalr", [z, ops[0], "0"]),
        "beqz": lambda: ("beq", [ops[0], z, ops[1]]),
        "bnez": lambda: ("bne", [ops[0], z, ops[1]]),
        "bltz": lambda: ("blt", [ops[0], z, ops[1]]),
        "bgez": lambda: ("bge", [ops[0], z, ops[1]]),
        "bgtz": lambda: ("blt", [z, ops[0], ops[1]]),
        "blez": lambda: ("bge", [z, ops[0], ops[1]]),
        "bgt": lambda: ("blt", [ops[1], ops[0], ops[2]]) if ops[0] != ops[1] else None,
        "ble": lambda: ("bge", [ops[1], ops[0], ops[2]]) if ops[0] != ops[1] else None,
        "bgtu": lambda: ("bltu", [ops[1], ops[0], ops[2]]) if ops[0] != ops[1] else None,
        "bleu": lambda: ("bgeu", [ops[1], ops[0], ops[2]]) if ops[0] != ops[1] else None,
        "neg": lambda: ("sub", [ops[0], z, ops[1]]),
        "not": lambda: ("xori", [ops[0], ops[1], "-1"]),
        "seqz": lambda: ("sltiu", [ops[0], ops[1], "1"]),
        "snez": lambda: ("sltu", [ops[0], z, ops[1]]),
        "nop": lambda: ("addi", [z, z, "0"]),
        # CSR pseudo-instructions (RARS operand order for csrw/csrs/csrc: register first)
        "csrw": lambda: ("csrrw", [z, ops[1], ops[0]]),
        "csrs": lambda: ("csrrs", [z, ops[1], ops[0]]),
        "csrc": lambda: ("csrrc", [z, ops[1], ops[0]]),
        "csrr": lambda: ("csrrs", [ops[0], ops[1], z]),
        "csrwi": lambda: ("csrrwi", [z, ops[0], ops[1]]),
        "csrsi": lambda: ("csrrsi", [z, ops[0], ops[1]]),
        "csrci": lambda: ("csrrci", [z, ops[0], ops[1]]),
    }
    f = table.get(m)
    try:
        return f() if f else None
    except IndexError:
        return None


def spell_operand(rng, o, fancy, nochar=False):
    """-> text of the operand and its canonical value"""
    mm = re.match(r"^(-?\w*)\((\w+)\)$", o.replace(" ", ""))
    if mm and mm.group(2) in REGNUM:
        off, r = mm.group(1), mm.group(2)
        offv = int(off, 0) if off not in ("", "-") else 0
        rs = spell_reg(rng, r, fancy)
        if fancy and offv == 0 and rng.random() < 0.5:
            return rng.choice(["(%s)", "( %s )"]) % rs if rng.random() < 0.8 else "0(%s)" % rs, [("R", REGNUM[r])]
        return "%s%s(%s)" % (spell_imm(rng, offv, fancy), rng.choice(["", " "]) if fancy else "", rs), [("I", offv), ("R", REGNUM[r])]
    if o in REGNUM:
        return spell_reg(rng, o, fancy), [("R", REGNUM[o])]
    try:
        v = int(o, 0)
        return spell_imm(rng, v, fancy, nochar), [("I", v)]     # (a CSR number is not an immediate: no character notation)
    except ValueError:
        return o, [("L", o)]


def spell_reg(rng, r, fancy):
    if not fancy:
        return r
    n = REGNUM[r]
    k = rng.random()
    if k < 0.4:
        return "x%d" % n
    if n == 8 and k < 0.5:
        return "fp"
    return ABI[n]


def spell_imm(rng, v, fancy, nochar=False):
    if not fancy:
        return str(v)
    k = rng.random()
    if k < 0.4:
        return str(v)
    if k < 0.65:
        return ("-" if v < 0 else "") + rng.choice(["0x%x", "0X%X", "0x%X"]) % abs(v)
    if k < 0.8:
        return ("-" if v < 0 else "") + "0b" + bin(abs(v))[2:]
    if 32 < v < 127 and chr(v) not in "'\\\"#" and not nochar:
        return "'%s'" % chr(v)
    return str(v)


def write(rng, items, fancy):
    """-> text, marks: dict (line, col) -> (item index, token role) for the start of every token, ends: dict (line, endcol) -> same"""
    lines, starts, ends, single = [], {}, {}, {}
    explicit = {}           # statement index -> set of explicit operand values
    pending = None          # a label waiting to share its line with the next statement
    def emit(txt, toks):
        ln = len(lines)
        lines.append(txt)
        for col, endcol, key in toks:
            starts[(ln, col)] = key
            ends[(ln, endcol)] = key
            if col >= 0:
                single[(ln, col)] = endcol
            single[("stmt", ln)] = key[0]
    for idx, it in enumerate(items):
        ind = rng.choice(["", " ", "\t", "    ", " \t "]) if fancy else ""
        if it[0] == "label":
            txt = ind + it[1] + ":"
            toks = [(len(ind), len(ind) + len(it[1]), (idx, ("L", it[1]), 0))]
            if fancy and rng.random() < 0.5 and idx + 1 < len(items) and items[idx + 1][0] == "inst":
                pending = (txt + rng.choice([" ", "\t", "   "]), toks)
            else:
                emit(txt + (rng.choice(["", " ", " # c", "\t#:"]) if fancy else ""), toks)
                if fancy and rng.random() < 0.15:
                    emit(rng.choice(["", "   ", "# note", "\t# li t0, 1"]), [])
            continue
        if it[0] == "dir":
            # a directive: its values in any notation, a comment behind it, blank or comment lines after it
            vals = [spell_imm(rng, int(v), fancy) if re.match(r"^-?\d+$", v) else v for v in it[2]]
            ds = it[1] if not fancy else rng.choice([it[1], it[1], it[1].upper()])
            pre, toks = (pending if pending else (ind, []))
            pending = None
            txt = pre + ds
            toks = list(toks) + [(len(pre), len(pre) + len(ds) - 1, (idx, ("M", None), 0))]
            for k, v in enumerate(vals):
                txt += ((rng.choice([" ", "\t", "  "]) if k == 0 else rng.choice([", ", ",", " ", " , "])) if fancy else (" " if k == 0 else ", ")) + v
            toks.append((-1 - idx, len(txt) - 1, (idx, ("END", None), 0)))
            explicit[idx] = set()
            if fancy and rng.random() < 0.4:
                txt += rng.choice([" ", "\t", ""]) + "#" + rng.choice(["", " number of items", " li t0, 1"])
            emit(txt, toks)
            if fancy and rng.random() < 0.3:
                emit(rng.choice(["", "  ", "# full line comment", "\t#x"]), [])
            continue
        _, m, ops = it
        if fancy and rng.random() < 0.6:
            e = expand(rng, m, ops)
            if e:
                m, ops = e
        ms = m if not fancy else rng.choice([m, m, m.upper(), m.capitalize()])
        pre, toks = (pending if pending else (ind, []))
        pending = None
        txt = pre + ms
        toks = list(toks) + [(len(pre), len(pre) + len(ms) - 1, (idx, ("M", None), 0))]
        seen = {}
        for k, o in enumerate(ops):
            sep = (rng.choice([" ", "\t", "  "]) if k == 0 else rng.choice([", ", ",", " ", " , ", ",\t", "  "])) if fancy else (" " if k == 0 else ", ")
            txt += sep
            s, canon = spell_operand(rng, o, fancy, m.lower().startswith("csr"))
            # token positions inside a memory operand: offset first, then the register
            pos = len(txt)
            if len(canon) == 2:
                par = s.index("(")
                rstart = pos + par + 1 + (len(s[par + 1:]) - len(s[par + 1:].lstrip()))
                rtxt = s[par + 1:].strip(" )")
                parts = [(pos, pos + par - 1 - (1 if s[par - 1] == " " else 0), canon[0]), (rstart, rstart + len(rtxt) - 1, canon[1])]
            elif s.startswith("("):
                rtxt = s.strip("( )")
                rstart = pos + s.index(rtxt)
                parts = [(rstart, rstart + len(rtxt) - 1, canon[0])]
            elif re.match(r"^0\(", s):
                rtxt = s[2:-1]
                parts = [(pos, pos, ("I", 0)), (pos + 2, pos + 1 + len(rtxt), canon[0])]
            else:
                parts = [(pos, pos + len(s) - 1, canon[0])]
            for a, b, c in parts:
                seen[c] = seen.get(c, 0) + 1
                toks.append((a, b, (idx, c, seen[c])))
            txt += s
            if s.rstrip().endswith(")"):
                toks.append((pos + len(s.rstrip()) - 1, pos + len(s.rstrip()) - 1, (idx, ("P", None), 0)))
        explicit[idx] = set(seen)
        if toks:
            last = max(toks, key=lambda t: t[1])
            toks.append((-1 - idx, last[1], (idx, ("END", None), 0)))       # the end of the statement's last token
        if fancy and rng.random() < 0.2:
            txt += rng.choice([" ", "\t", ""]) + "#" + rng.choice(["", " comment", " li t0, 1", " \"q", " 'c", ";"])
        elif fancy:
            txt += rng.choice(["", "", " ", "\t"])
        emit(txt, toks)
        if fancy and rng.random() < 0.12:
            emit(rng.choice(["", "  ", "# full line comment", "\t#x"]), [])
    if pending:
        emit(pending[0], pending[1])
    return "\n".join(lines) + "\n", starts, ends, explicit, single


def keys(items_out, w, other):
    """(severity, title, start place, end place); a place is (statement, operand value, occurrence).  An operand that the
    OTHER writing does not spell out (the implicit ra of `ret`, the zero of an expansion) is reported on the mnemonic there:
    both are normalised to the mnemonic; the end of the last token of a statement is the statement's end"""
    starts, ends, explicit = w[1], w[2], w[3]
    oexp = other[3]
    def nrm(k):
        if k is None:
            return None
        idx, c, occ = k
        if c[0] in ("R", "I", "L") and c not in oexp.get(idx, set()):
            return (idx, ("M", None), 0)
        return k
    out = []
    for it in items_out:
        sl, sc, _, el, ec, _ = it["r"]
        a = nrm(starts.get((sl, sc)))
        b = ends.get((el, ec))
        one = sl == el and w[4].get((sl, sc)) == ec          # the range is exactly one token
        raw = starts.get((sl, sc))
        if one and raw is not None and raw[1][0] != "M":
            b = "TOKEN"
        elif b is not None and b[1][0] == "END":
            b = (b[0], "END")
        elif one:
            b = "TOKEN"
        if a is not None and (not w[3].get(a[0], {0}) or not oexp.get(a[0], {0})):
            b = "ANY"            # a one-token statement in one of the writings: mnemonic, implicit operand and whole statement coincide
        if a is None:            # not on a token (the newline after an incomplete statement): the statement of that line
            a, b = ("after", w[4].get(("stmt", sl), ("line", sl))), "ANY"
        title = re.sub(r", found .*$", "", it["title"], flags=re.S)    # the KIND of a parse error, not the token that follows
        out.append((it["sev"], title, a, b if b else ("?", el, ec)))
    return sorted(out, key=repr)


def norm_pair(ka, kb):
    """operands that exist in only one of the two writings (the `zero`/0 of an expansion) carry the mnemonic's
    location in the pseudo form: compare statement and role only where both writings have the token"""
    return ka, kb


def run(ctx):
    proof_ok, can_run = common.prepare(ctx, "C13+Param")
    if not can_run:
        common.broken_without_input(ctx, "build", ctx.notes[-1] if ctx.notes else "")
        return
    k = ctx.scale(5)
    rng = ctx.rng
    progs = []
    for _ in range(120 * k):
        L, _m = gen.conforming(rng, nfuncs=rng.randrange(0, 3))
        if rng.random() < 0.7:
            r = gen.inject(rng, L, rng.choice(gen.VIOLATIONS))
            L = list(r[0]) if r else L
        progs.append(L)
    for _ in range(120 * k):
        progs.append([l for l in gen.random_flow(rng).split("\n") if l.strip()])
    for _ in range(40 * k):
        progs.append([l for l in gen.stack_fuzz(rng).split("\n") if l.strip()])
    for _ in range(60 * k):          # boundary constants (i32::MIN/MAX ...) written in every notation
        progs.append([l for l in gen.fold_prog(rng).split("\n") if l.strip()])
    for _ in range(80 * k):          # interrupt handlers installed and CSRs accessed through every CSR (pseudo-)instruction
        h = [l for l in gen.handler_prog(rng).split("\n") if l.strip()]
        extra = rng.choice([["csrw t1, uscratch"], ["csrr t2, ustatus", "add a0, a0, t2"], ["csrwi ustatus, 1"], ["csrsi uie, 16"], ["csrci ustatus, 1"],
                            ["csrs t1, uie"], ["csrc t1, uie"], []])
        progs.append(h[:2] + extra + h[2:])
    progs = [[l for l in p if not l.strip().startswith((".", "#"))] for p in progs]
    for p in progs:                  # data among the code: a data block, inline data, data whose `.text` was forgotten
        if rng.random() < 0.35:
            at = rng.choice([i for i in range(len(p) + 1)])
            vals = ", ".join(str(rng.choice([0, 1, 3, 7, 42, 255, -1])) for _ in range(rng.randrange(1, 4)))
            d = rng.choice([".word", ".word", ".byte", ".half", ".dword"]) + " " + vals
            p[at:at] = rng.choice([[".data", d, ".text"], [d], [".data", d], [".data", "tbl_%d:" % at, d, ".text"], [".text"], [".globl main"]])
    for p in progs:                  # the one-register spelling of jalr (an indirect call), which a comment or blank may follow
        if rng.random() < 0.25 and len(p) > 2:
            at = rng.randrange(1, len(p))
            p[at:at] = [rng.choice(["jalr t1", "jalr a5", "jalr s2", "jr t1"])]
    cases = []
    for p in progs:
        items = [parse_line(l) for l in p]
        plain = write(rng, items, False)
        fancy = write(rng, items, True)
        cases.append((items, plain, fancy))
    outs_a = lib.run_impl(ctx, [lib.store_cmd("repeat 1", pipe.single(c[1][0]), "a.s") for c in cases], tag="plain")
    outs_b = lib.run_impl(ctx, [lib.store_cmd("repeat 1", pipe.single(c[2][0]), "a.s") for c in cases], tag="fancy")
    failing, rewrites = [], 0
    for (items, plain, fancy), a, b in zip(cases, outs_a, outs_b):
        ia, ib = lib_items(a), lib_items(b)
        inp = dict(files=pipe.single(fancy[0]), base="a.s", kind="rewrite", plain=plain[0])
        if ia is None or ib is None:
            if (ia is None) != (ib is None):
                failing.append(dict(inp, why="plain writing: %s; rewritten: %s" % (a[:40], b[:40])))
            continue
        ka, kb = keys(ia, plain, fancy), keys(ib, fancy, plain)
        rewrites += 1
        if ka != kb:
            failing.append(dict(inp, why="the two writings get different diagnostics (severity, title, (statement, operand) of start and end): only plain %s / only rewritten %s" % (
                [x for x in ka if x not in kb][:3], [x for x in kb if x not in ka][:3])))
    # correspondence on the rewritten texts (lexer, parser, diagnostics)
    stores = [(pipe.single(c[2][0]), "a.s") for c in cases[:150 * k]]
    n, sdis, hist = pipe.stage_compare(ctx, stores, ["parse"])
    ddis, _ = pipe.diag_compare(ctx, stores)
    dis = sdis + ddis
    ctx.coverage.update(
        evaluations=2 * len(cases) + 2 * len(stores), distinct_nontrivial=len(cases),
        rule="each program (conforming + one injected violation, random control flow, stack programs) is written plainly and with a random "
             "composition of rewrites at every site (indentation, separators incl. none/tabs/extra commas, comments, blank lines, mnemonic "
             "case, x-names/fp, hex/binary/char immediates, label on own line or before its statement, (rs) for 0(rs), pseudo-instruction -> "
             "official expansion); both linted by RVParser::run; diagnostics compared as (severity, title, statement index + operand value + "
             "occurrence for the start and the end of the reported range); distinct = distinct programs",
        samples=[dict(plain=cases[0][1][0][:300], rewritten=cases[0][2][0][:400])], pairs_compared=rewrites,
        correspondence_disagreements=len(dis), oracle_failures=len(failing), exhaustive=False)
    if failing:
        lib.violation(ctx, "input", dict(property="C13", input=failing[0], all_failing=failing[:10]), True)
        return
    if dis or not proof_ok:
        common.broken_without_input(ctx, "correspondence of lexer/parser on rewritten texts" if dis else "theorems of Props/C13.v",
                                    dict(disagreements=dis[:8], proof=ctx.proof["failed"]))


replay = generic.replay
