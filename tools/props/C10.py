"""C10 - output is deterministic and free of duplicate diagnostics.
Theorems: Props/C10.v.  Exploration on the implementation alone: every input is linted several times inside one
process (`RVParser::run` on fresh parsers: fresh UUIDs and hash seeds) and several times by separate `rva`
processes in every output mode; all runs must agree item by item, in order, and no run may contain two items that
agree in severity, title, location, message and related information."""
import os, shutil, subprocess, re
import lib, gen, pipe
from props import common, generic
from props.C06 import build_rva

RUN = re.compile(r"R\[([^\]]*)\]")
ITEM = re.compile(r"D\([^)]*\)")


def write_files(d, files):
    for p, t in files:
        if t is None:
            os.makedirs(os.path.join(d, p), exist_ok=True)
        else:
            os.makedirs(os.path.dirname(os.path.join(d, p)), exist_ok=True)
            with open(os.path.join(d, p), "w", encoding="utf-8", newline="") as fh:
                fh.write(t)


def run(ctx):
    proof_ok, can_run = common.prepare(ctx, "C10")
    ok_d, log_d, rva = build_rva(False)
    if not (can_run and ok_d):
        common.broken_without_input(ctx, "build", (ctx.notes[-1] if ctx.notes else "") + log_d)
        return
    k = ctx.scale(4)
    rng = ctx.rng
    stores = generic.stores_for(ctx, dict(conforming=20, injected=60, flow=200, random=30, handlers=10, mutated=30))
    for _ in range(200 * k):
        f, b = gen.det_prog(rng)
        stores.append((f, b, "det"))
    reps = 8 if ctx.thorough() else 5
    cmds = [lib.store_cmd("repeat %d" % reps, f, b) for f, b, _ in stores]
    out = lib.run_impl(ctx, cmds, limit_ms=12000, tag="repeat")
    failing, stable, skipped = [], 0, 0
    for (f, b, tag), line in zip(stores, out):
        if not line.startswith("RUNS"):
            skipped += 1          # hang/panic: C06's business
            continue
        runs = RUN.findall(line)
        if len(set(runs)) > 1:
            first = runs[0]
            other = [r for r in runs if r != first][0]
            a, c = ITEM.findall(first), ITEM.findall(other)
            diff = next((i for i, (x, y) in enumerate(zip(a, c)) if x != y), min(len(a), len(c)))
            failing.append(dict(files=f, base=b, kind=tag, cls="unstable-in-process",
                                why="two runs of RVParser::run in one process differ at item %d: %s / %s (%d vs %d items)" % (
                                    diff, a[diff] if diff < len(a) else "-", c[diff] if diff < len(c) else "-", len(a), len(c))))
            continue
        items = ITEM.findall(runs[0])
        if len(items) != len(set(items)):
            dup = next(x for x in items if items.count(x) > 1)
            failing.append(dict(files=f, base=b, kind=tag, cls="duplicate", why="the same diagnostic is reported %d times: %s" % (items.count(dup), dup)))
            continue
        stable += 1
    # ---- correspondence of the output stage: Model/Output.v output_order vs DiagnosticItem::sort_for_output ------------
    oi = lib.run_impl(ctx, [lib.store_cmd("order", f, b) for f, b, _ in stores], limit_ms=8000, tag="order")
    OIT = re.compile(r"O\((\S+) (\S+) (\S+) (\S+) (\d+)\.(\d+)\.(\d+)-(\d+)\.(\d+)\.(\d+)\)")
    mcmds, mref = [], []
    for (f, b, tag), line in zip(stores, oi):
        m = re.match(r"^U\[(.*)\] S\[(.*)\] END$", line)
        if not m:
            continue
        un = OIT.findall(m.group(1))
        mcmds.append("order %d %s" % (len(un), " ".join(" ".join(x) for x in un)) if un else "order 0")
        mref.append((f, b, tag, " ".join("O(%s %s %s %s %s.%s.%s-%s.%s.%s)" % x for x in OIT.findall(m.group(2)))))
    mout = lib.run_model(ctx, mcmds, tag="order-model")
    order_dis = []
    for (f, b, tag, want), got in zip(mref, mout):
        if got.strip() != want.strip():
            order_dis.append(dict(files=f, base=b, kind=tag, why="output order/dedup: model %s... / implementation %s..." % (got[:200], want[:200])))
    # ---- separate processes, every output mode ------------------------------------------------------
    work = os.path.join(ctx.rundir, "cli")
    shutil.rmtree(work, ignore_errors=True)
    os.makedirs(work)
    modes = [["--json"], ["--compact", "--no-color"], ["--no-color"], ["--json", "--all-files"], ["--compact", "--no-color", "--all-files"]]
    pick = [s for s in stores if s[2] == "det"][:30 * k] + [s for s in stores if s[2].startswith(("corpus", "injected"))][::6]
    cli_runs = 0
    for ci, (files, base, tag) in enumerate(pick):
        d = os.path.join(work, "c%d" % ci)
        os.makedirs(d)
        try:
            write_files(d, files)
        except (UnicodeEncodeError, OSError):
            continue
        for mode in modes:
            outs = []
            for _ in range(3):
                try:
                    p = subprocess.run([rva, "lint"] + mode + [os.path.join(d, base)], stdout=subprocess.PIPE, stderr=subprocess.PIPE, timeout=10)
                    outs.append(p.stdout)
                except subprocess.TimeoutExpired:
                    outs.append(None)
                cli_runs += 1
            if None in outs:
                continue
            if len(set(outs)) > 1:
                failing.append(dict(files=files, base=base, kind=tag, cls="unstable-across-processes", mode=mode,
                                    why="rva lint %s prints different output in separate runs" % " ".join(mode),
                                    outputs=[o.decode("utf-8", "replace")[:1500] for o in list(set(outs))[:2]]))
                break
    # a file reached twice under DIFFERENT spellings of its path (plain, through ../, through ./): it is read at most once, so
    # none of its diagnostics may be printed twice (by any mode of the binary)
    import json as _json
    for si in range(6 * k):
        d = os.path.join(work, "sp%d" % si)
        body = rng.choice([" addi zero, a0, 1\n li t5, 3\n", " li t4, 1\n li t4, 2\n add a0, a0, t4\n", " frob a0\n addi zero, zero, 4\n"])
        first, second = rng.sample(["snip/clear.s", "./snip/clear.s", "snip/../snip/clear.s", "lib/../snip/clear.s"], 2)
        via_lib = rng.random() < 0.6
        files = [("main.s", "main:\n li a0, 1\n.include \"%s\"\n.include \"%s\"\n li a7, 10\n ecall\n" % (first, "lib/sum.s" if via_lib else second)),
                 ("lib/sum.s", " addi a0, a0, 2\n.include \"%s\"\n" % rng.choice(["../snip/clear.s", "../snip/./clear.s", "./../snip/clear.s"])),
                 ("snip/clear.s", body)]
        write_files(d, files)
        for mode in (["--json", "--all-files"], ["--compact", "--no-color", "--all-files"]):
            rc_, so_, _se = lib.run_cli([rva, "lint"] + mode + [os.path.join(d, "main.s")], cpu_s=6.0)
            cli_runs += 1
            if rc_ == "timeout":
                continue          # termination is C06's business
            txt = so_.decode("utf-8", "replace")
            if mode[0] == "--json":
                try:
                    items_ = [_json.dumps(x, sort_keys=True) for x in _json.loads(txt)["diagnostics"]]
                except (ValueError, KeyError):
                    continue
            else:
                items_ = [l for l in txt.split("\n") if l.strip()]
            dup = [x for x in items_ if items_.count(x) > 1]
            if dup:
                failing.append(dict(files=files, base="main.s", kind="spellings", cls="duplicate", mode=mode,
                                    why="rva lint %s prints the same diagnostic %d times: %s" % (" ".join(mode), items_.count(dup[0]), dup[0][:200])))
                break
    known = lib.load_known("C10")
    fresh = []
    for fl in failing:
        hit = [x for x in known if x["class"] == fl["cls"]]
        if hit:
            line = "KNOWN-FINDING: property=C10 %s" % hit[0]["what"]
            if line not in ctx.known_lines:
                ctx.known_lines.append(line)
        else:
            fresh.append(fl)
    tags = {}
    for _, _, t in stores:
        tags[t.split(":")[0]] = tags.get(t.split(":")[0], 0) + 1
    ctx.coverage.update(
        evaluations=len(stores) * reps + cli_runs, distinct_nontrivial=len(set(str(f) for f, _, _ in stores)),
        rule="each program (corpus + generated, incl. functions with several entry labels, several returns, shared tails, first uses on both "
             "arms of a branch, single file and split over included files) is linted %d times in one process on fresh parsers and 3 times by "
             "separate rva processes in 5 output modes; runs compared item by item in output order; duplicates searched; distinct = distinct programs" % reps,
        samples=[dict(kind=t, files=f) for f, _, t in stores[-2:]], input_classes=tags, stable_programs=stable, skipped_hanging=skipped,
        cli_runs=cli_runs, oracle_failures=len(failing), exhaustive=False)
    if fresh:
        lib.violation(ctx, "input", dict(property="C10", input=fresh[0], all_failing=fresh[:10],
                                         how="lint the files repeatedly (harness command `repeat`, or rva lint --json in separate processes) and compare"), True)
        return
    ctx.coverage["order_correspondence_cases"] = len(mcmds)
    ctx.coverage["correspondence_disagreements"] = len(order_dis)
    if order_dis or not proof_ok:
        common.broken_without_input(ctx, "correspondence of the output stage (sort_for_output)" if order_dis else "theorems of Props/C10.v",
                                    dict(disagreements=order_dis[:6], proof=ctx.proof["failed"]))


replay = generic.replay
