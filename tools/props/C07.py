"""C07 - no source line is silently dropped; a bad line affects only itself.
Theorems: Props/C07.v (lex_line_local, tokens_accounted, parse_total).  Tie: S1, S2, S3 (lexer items,
parser nodes and errors).  Search oracle on the implementation alone: (i) token accounting (every
significant token or lexical error is inside a node's range or on a line with a parse error);
(ii) delete-one-line differential: removing a malformed line must leave the nodes and errors of all
other lines unchanged up to the position shift."""
import re
import lib, gen, pipe
from props import common, C09

MNEMONICS = set(gen.ALL_MNEMONICS)
RNG = re.compile(r"(\d+)\.(\d+)\.(\d+)[- ](\d+)\.(\d+)\.(\d+)/(\w+)")


def normalize(t):
    return t if (t == "" or t.endswith("\n")) else t + "\n"


def node_ranges(parse_line):
    """[(start_raw, end_raw, file)] of the nodes, [(line, file)] of the errors"""
    nodes, errs = [], []
    for part in re.split(r" (?=N\(|E\()", parse_line):
        if part.startswith("N("):
            m = list(RNG.finditer(part))
            if m:
                g = m[-1].groups()
                nodes.append((int(g[2]), int(g[5]), g[6]))
        elif part.startswith("E("):
            m = RNG.search(part)
            if m:
                g = m.groups()
                errs.append((int(g[0]), g[6]))
    return nodes, errs


def accounting(text, lex_line, parse_line, fid="0", tree=False):
    if ".macro" in text.lower():
        return None
    nodes, errs = node_ranges(parse_line)
    errlines = set(l for l, f in errs if f == fid)
    # an `.include` line that was followed produces no node of its own: its text is replaced by the included file
    inclines = set(i for i, l in enumerate(text.split("\n")) if re.match(r"^[ \t,]*\.include\b", l, re.I)) if tree else set()
    for it in C09.parse_items(lex_line):
        if it["tag"] == "K" and it["kind"] in ("nl", "com"):
            continue
        sr, er, ln = it["start"][2], it["end"][2], it["start"][0]
        if it["tag"] == "K" and any(a <= sr and er <= b and f == fid for a, b, f in nodes):
            continue
        if ln in errlines or ln in inclines:
            continue
        return "line %d: %s %r at raw %d..%d is in no node and no parse error is reported on its line" % (
            ln + 1, it["tag"], text[sr:er + 1], sr, er)
    # a line that begins with an instruction mnemonic is a statement of its own: a node STARTS on it, or an error is
    # reported on it (it is not swallowed by the statement of an earlier line)
    starts = set()
    for part in re.split(r" (?=N\(|E\()", parse_line):
        if part.startswith("N(") and not part.startswith("N(progentry"):
            m = list(RNG.finditer(part))
            if m and m[-1].group(7) == fid:
                starts.add(int(m[-1].group(1)))
    for ln, l in enumerate(text.split("\n")):
        m = re.match(r"^[ \t,]*(?:[A-Za-z_][\w]*:[ \t,]*)*([A-Za-z][\w.]*)(?=[ \t,#]|$)", l)
        if m and m.group(1).lower() in MNEMONICS and ln not in starts and ln not in errlines and ln not in inclines:
            return "line %d (%r) begins with the mnemonic %r but no node starts on it and no parse error is reported on it" % (ln + 1, l[:60], m.group(1))
    return None


def shift_line(parse_line, line_no, nchars):
    """drop everything located on line_no and shift what follows, as deleting that line would"""
    out = []
    for part in re.split(r" (?=N\(|E\(|END)", parse_line):
        m = list(RNG.finditer(part))
        on = [int(x.group(1)) for x in m if x.group(0) != "0.0.0-0.0.0/0" and not part.startswith("N(progentry")]
        if on and min(on) <= line_no <= max(on):
            continue

        def sub(x):
            g = [int(v) for v in x.groups()[:6]]
            if part.startswith("N(progentry") or g[0] < line_no:
                return x.group(0)
            sep = x.group(0)[len("%d.%d.%d" % tuple(g[:3]))]
            return "%d.%d.%d%s%d.%d.%d/%s" % (g[0] - 1, g[1], g[2] - nchars, sep, g[3] - 1, g[4], g[5] - nchars, x.group(7))
        part = RNG.sub(sub, part)

        def sub_pos(x):     # the extra position of an invalid-string error
            l, c, r = int(x.group(1)), int(x.group(2)), int(x.group(3))
            return " %d.%d.%d %s" % ((l - 1, c, r - nchars, x.group(4)) if l >= line_no else (l, c, r, x.group(4)))
        part = re.sub(r" (\d+)\.(\d+)\.(\d+) (esc|unclosed|newline)", sub_pos, part)
        out.append(part)
    return " ".join(out)


def run(ctx):
    proof_ok, can_run = common.prepare(ctx, "C07+C07par")
    if not can_run:
        common.broken_without_input(ctx, "build", ctx.notes[-1] if ctx.notes else "")
        return
    k = ctx.scale(5)
    rng = ctx.rng
    texts = ["", "main:\n li t0\n li t1, 5\n", ".word 1\n2\n3 $\n li t0, 1\n", "li t0, 5 $ x\nli t1, 6\n", "lw t0, 4 \"abc\nli t1, 1\n",
             ".word 1 'ab\nli t0, 1\n", "fence\n.globl main\n.include \"a.s\"\n.include\n.endmacro\n", "li t0, 1 li t1, 2\n",
             "add t0, t1,\nli t2, 5\n", "frob t0\nlw t0, 4\n(sp)\n", "sw t0, lbl\nli t1, 1\n", "main:\r\n li t0, 5\r\n bad\r\n",
             "li a1, 'a\nli a2\nli a3, 'b'\n", "li a1, '\\n\nli a2, 1\n", ".asciz \"abc\nli t0, 1\n", ".word 7", "x: .word 1\n",
             "li t0, 5;\nli t1, 6\n", "é li t0, 1\nli t1, 2\n", "lui t0, 0x100000\nli t1, 1\n", ".data\nx: .word 1, 2\n  3\ny: .byte 1\n"]
    # a literal cut off by the end of its line right behind a backslash (round 9: the unknown-escape path skipped two
    # characters, the second being the newline, so the recovery ran over the following line)
    texts += [".data\nmsg: .asciz \"Enter a value: \\\ncount: .word 0\n.text\nmain:\n la t0, count\n li a7, 10\n ecall\n",
              "main:\n li a0, '\\\n li a1, 2\n addi a1, a1, 1\n", "main:\n li t0, 1\n.string \"a\\\nx: addi t0, t0, 1\n j x\n",
              "li a0, '\\u00\nli a1, 3\nli a2, 4\n", ".ascii \"\\u12\nlbl: li t1, 1\n", "li t0, \"\\\n\nli t1, 2\n", "li a0, '\\q\nli a1, 2\n"]
    for _ in range(120 * k):
        texts.append(gen.render(rng, gen.program(rng)))
    for _ in range(200 * k):
        texts.append(gen.mutated_text(rng, gen.render(rng, gen.program(rng, rng.randrange(1, 10)))))
    for _ in range(60 * k):
        texts.append(gen.token_soup(rng))
    lex_cmds = ["lex " + lib.enc(normalize(t)) for t in texts]
    parse_cmds = [lib.store_cmd("parse", pipe.single(t), "a.s") for t in texts]
    li, lm = lib.run_impl(ctx, lex_cmds, tag="impl-lex"), lib.run_model(ctx, lex_cmds, tag="model-lex")
    pi, pm = lib.run_impl(ctx, parse_cmds, tag="impl-parse"), lib.run_model(ctx, parse_cmds, tag="model-parse")
    dis, failing = [], []
    for t, a, b, c, d in zip(texts, li, lm, pi, pm):
        if a != b:
            dis.append(dict(stage="lex", text=t, diff=pipe.first_diff(a, b)))
        if c != d:
            dis.append(dict(stage="parse", text=t, diff=pipe.first_diff(c, d)))
        if c in ("PANIC", "TIMEOUT", "CRASH"):
            failing.append(dict(text=t, why="parser " + c))
            continue
        why = accounting(normalize(t), a, c)
        if why:
            failing.append(dict(text=t, why=why, parse=c[:800]))
    # include trees: the accounting holds in every file, whether or not its last line ends with a newline
    tails = ["jalr t1", "lw a0, 4", "sw a0, 4", "addi a0, a0", "ret", "li t0, 5", "frob", ".word 7", "j main", "x: addi a0, a0, 1", "lw t0, (sp)"]
    trees = []
    for _ in range(60 * k):
        nfi = rng.randrange(2, 4)
        files = []
        for i in range(nfi):
            body = gen.render(rng, gen.program(rng, rng.randrange(1, 6)), dict(crlf=False, final_nl=True))
            body = "".join(l for l in body.splitlines(True) if ".include" not in l and ".macro" not in l.lower())
            inc = '.include "f%d.s"\n' % (i + 1) if i + 1 < nfi else ""
            last = rng.choice(tails) + ("" if rng.random() < 0.6 else "\n")
            files.append(("f%d.s" % i, (inc + body if rng.random() < 0.5 else body + inc) + last))
        trees.append(files)
    tp = lib.run_impl(ctx, [lib.store_cmd("parse", f, "f0.s") for f in trees], tag="impl-tree-parse")
    tpm = lib.run_model(ctx, [lib.store_cmd("parse", f, "f0.s") for f in trees], tag="model-tree-parse")
    tl = lib.run_impl(ctx, ["lex " + lib.enc(normalize(t)) for f in trees for _, t in f], tag="impl-tree-lex")
    pos = 0
    for files, c, d in zip(trees, tp, tpm):
        if c != d:
            dis.append(dict(stage="parse", text=str(files), diff=pipe.first_diff(c, d)))
        # file ids are import order: f0 includes f1 includes f2 - when the include line comes first or last, the order is the same
        for i, (name, t) in enumerate(files):
            why = accounting(normalize(t), tl[pos + i], c, fid=str(i), tree=True) if c not in ("PANIC", "TIMEOUT", "CRASH") else "parser " + c
            if why:
                failing.append(dict(text=str(files), why="in included file %s: %s" % (name, why), parse=c[:800]))
                break
        pos += len(files)
    # delete-one-line differential on the implementation: pick lines on which an error is reported
    diff_cases = []
    for t, c in zip(texts, pi):
        t = normalize(t)
        lines = t.split("\n")[:-1]
        if ".macro" in t.lower() or "\r" in t or len(lines) < 2:
            continue
        _, errs = node_ranges(c)
        for ln in sorted(set(l for l, f in errs if f == "0"))[:2]:
            if ln >= len(lines):
                continue
            # only lines that hold nothing but their own statement: not continued from / into neighbours
            prev_data = ln > 0 and re.match(r"^[ \t,]*(\w+:[ \t,]*)*\.(word|byte|half|dword|float|double)\b", lines[ln - 1], re.I)
            first = re.match(r"^[ \t,]*([-\w']+)", lines[ln])
            nxt = re.match(r"^[ \t,]*([-\w']+)", lines[ln + 1]) if ln + 1 < len(lines) else None
            if prev_data or (first and re.match(r"^(-?\d|')", first.group(1))) or (nxt and re.match(r"^(-?\d|')", nxt.group(1))):
                continue
            diff_cases.append((t, ln))
    diff_cases = diff_cases[:150 * k]
    cut = ["\n".join(t.split("\n")[:ln] + t.split("\n")[ln + 1:]) for t, ln in diff_cases]
    full_out = lib.run_impl(ctx, [lib.store_cmd("parse", pipe.single(t), "a.s") for t, _ in diff_cases], tag="impl-full")
    cut_out = lib.run_impl(ctx, [lib.store_cmd("parse", pipe.single(t), "a.s") for t in cut], tag="impl-cut")
    for (t, ln), tc, a, b in zip(diff_cases, cut, full_out, cut_out):
        nchars = len(t.split("\n")[ln]) + 1
        exp = shift_line(a, ln, nchars)
        if exp != b:
            failing.append(dict(text=t, deleted_line=ln + 1, why="deleting malformed line %d changes how other lines are parsed" % (ln + 1),
                                expected=pipe.first_diff(exp, b)))
    ctx.coverage.update(
        evaluations=2 * len(texts) + 2 * len(diff_cases) + 2 * len(trees), distinct_nontrivial=len(set(t for t in texts if t.strip())),
        rule="texts = hand-written malformed-line cases + rendered programs + line-mutated programs + token soup; each is lexed and "
             "parsed (RVParser::parse_from_file over an in-memory reader) by the implementation and by the extracted model and the "
             "items, nodes and errors compared; oracle (i) token accounting on the implementation's output, (ii) %d delete-one-line "
             "differentials on the implementation; distinct = distinct non-blank texts" % len(diff_cases),
        samples=[dict(text=texts[3], parse=pi[3][:300]), dict(text=texts[40], parse=pi[40][:300])],
        correspondence_disagreements=len(dis), oracle_failures=len(failing), delete_line_cases=len(diff_cases), exhaustive=False)
    if failing:
        lib.violation(ctx, "line", dict(property="C07", input=failing[0], all_failing=failing[:10]), True)
        return
    if dis or not proof_ok:
        common.broken_without_input(ctx, "correspondence of lexer/parser" if dis else "theorems of Props/C07.v",
                                    dict(disagreements=dis[:8], proof=ctx.proof["failed"]))


def replay(ctx, path):
    import json
    print(json.dumps(json.load(open(path)), indent=1)[:3000])
    return 0
