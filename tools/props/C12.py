"""C12 - analysis results are a stable fixed point of the pass pipeline.
Theorems: Props/C12.v.  Tie: S7, S8, S10 stage dumps.  Search oracle on the implementation alone: after the
standard pipeline apply random sequences of extra AvailableValuePass / EcallTerminationPass / LivenessPass
runs and require every fact, edge and diagnostic to stay the same."""
import lib, pipe
from props import generic


def oracle(ctx, stores):
    seqs = ["a", "e", "l", "ae", "la", "ael", "lae", "aalel", "eeaall", "lllaaa"]
    cmds, pick, stores2 = [], [], []
    for f, b, tag in stores:
        # every program gets one sequence that starts with a value-analysis run and one random sequence
        for s in (ctx.rng.choice(["a", "ae", "ael", "aea"]), ctx.rng.choice(seqs)):
            pick.append(s)
            stores2.append((f, b, tag))
            cmds.append(lib.store_cmd("rerun %s" % s, f, b))
    stores = stores2
    out = lib.run_impl(ctx, cmds, tag="rerun", limit_ms=15000)
    bad = []
    hist = {}
    for (f, b, tag), s, o in zip(stores, pick, out):
        k = o.split(" ")[0]
        hist[k] = hist.get(k, 0) + 1
        if k in ("CHANGED", "DIAGS-CHANGED", "ERROR", "PANIC"):
            bad.append(dict(files=f, base=b, kind=tag, extra_passes=s, why="re-running passes %r after the pipeline: %s" % (s, o[:1500])))
    # a run that does not come back: "a stable fixed point" presupposes that one is reached.  Non-termination as such is
    # C06's property (and its two recorded findings); here it counts when the MODEL of the passes, whose iteration is proved
    # to satisfy the equations whenever it returns, does reach a fixed point on the same program (round 8)
    late = {}
    for (f, b, tag), s, o in zip(stores, pick, out):
        if o.split(" ")[0] == "TIMEOUT":
            late.setdefault(lib.store_cmd("cfg live -", f, b), (f, b, tag, s))
    if late:
        keys = list(late)[:6]
        mod = lib.run_model(ctx, keys, tag="rerun-timeout-model")
        again = lib.run_impl(ctx, keys, tag="rerun-timeout-impl", limit_ms=10000, shards=6)
        for c, m, a in zip(keys, mod, again):
            f, b, tag, s = late[c]
            if m.startswith("C(") and a == "TIMEOUT":
                bad.append(dict(files=f, base=b, kind=tag, extra_passes="",
                                why="the pass pipeline reaches no fixed point on this program (no result after 15 s), the model of the passes does: %s" % m[:300]))
        ctx.coverage["rerun_timeouts_examined"] = len(keys)
    ctx.coverage["rerun_outcomes"] = hist
    return bad


CTX = [None]


def known(f):
    """the recorded finding: an extra value-analysis run learns that an ecall is an exit (a7 = 10 or 93)"""
    import re
    m = re.search(r"pass=a node=\[(\d+) N\(basic ecall.*? ri\[([^\]]*)\]", f["why"])
    if m and re.search(r"(^|;)17=c:(10|93)(;|$)", m.group(2)):
        old = re.search(r"was=\[\d+ N\(basic ecall.*? ri\[([^\]]*)\]", f["why"])
        if old and not re.search(r"(^|;)17=c:(10|93)(;|$)", old.group(1)):
            return "rerun:avail-learns-exit-ecall: a further value-analysis run turns an ecall into a known exit after the last termination step cut an edge"
    # the other recorded finding: the node behind an exit that was cut off by the LAST termination step (it has no
    # predecessor any more, before and after the extra run) still carries the facts computed before the cut
    m = re.search(r"pass=a node=\[(\d+) N\((\w+) [^|]*\| (\d+)\.(?:(?!was=).)*? <\[\] F\[[^\]]*\] ri\[\] (?:(?!was=).)*?\] was=\[(\d+) .*? <\[\] ", f["why"])
    behind_exit = False
    if m and m.group(1) == m.group(4) and m.group(2) != "progentry" and isinstance(f.get("files"), list) and len(f["files"]) == 1:
        # ... and it is the instruction right behind an ecall in the source
        lines = (f["files"][0][1] or "").split("\n")
        j = int(m.group(3)) - 1
        while j >= 0 and (not lines[j].strip() or lines[j].strip().endswith(":") or lines[j].strip().startswith(("#", "."))):
            j -= 1
        behind_exit = j >= 0 and re.sub(r"^\w+:\s*", "", lines[j].strip()).split("#")[0].strip().lower() == "ecall"
    if behind_exit and CTX[0] is not None:
        # ... and that ecall was NOT yet known to be an exit after the first value analysis (the recorded finding is about
        # exits that only the second analysis recognises; an exit known from the start whose edge is cut late is something else)
        o = lib.run_impl(CTX[0], [lib.store_cmd("cfg avail1 -", f["files"], f["base"])], tag="known-c12")[0]
        em = None
        for mm in re.finditer(r"C\((\d+) N\(basic ecall@(\d+)\.[^|]*\|[^)]*\) L\[[^\]]*\] \w+ >\[[0-9,]*\] <\[[0-9,]*\] F\[[^\]]*\] ri\[([^\]]*)\]", o):
            if int(mm.group(2)) == j:
                em = mm
        if em is None or re.search(r"(^|;)17=c:(10|93)(;|$)", em.group(3)):
            behind_exit = False
    if behind_exit:
        return "rerun:stale-facts-behind-late-exit: a node cut off by the last ecall-termination step keeps value facts computed before the cut"
    return None


def run(ctx):
    CTX[0] = ctx
    generic.run(ctx, "C12", ["avail1", "term1", "avail2", "term2", "live"],
                dict(conforming=40, flow=100, random=60, injected=30, stack=40, loopfn=60, loopslot=30, ecallloop=30), oracle=oracle, known=known, what="dataflow passes")


replay = generic.replay
